package c15

import (
	"bytes"
	"encoding/xml"
	"fmt"
	"io"
	"sort"
	"strings"

	"github.com/emersion/go-webdav/verifharness/xmltree"
)

// cmp is the comparison the property prescribes: names, attribute values,
// character data (adjacent runs merged), comments and child order.
// Processing instructions are not named by the statement: ignored.
var cmp = xmltree.CmpOpts{IgnoreProcInst: true}

func isNSDecl(space, local string) bool {
	return space == "xmlns" || (space == "" && local == "xmlns")
}

// lenientParse re-reads a document the way the property fixes it: with
// encoding/xml's namespace-translating tokenizer (Decoder.Token). Attributes
// that this tokenizer reports as namespace declarations ({xmlns}p and
// xmlns) are not part of the tree. Unlike xmltree.Parse it tolerates what
// encoding/xml tolerates (a repeated xmlns attribute, for instance).
func lenientParse(b []byte) (*xmltree.Node, error) {
	d := xml.NewDecoder(bytes.NewReader(b))
	var root *xmltree.Node
	var stack []*xmltree.Node
	for {
		tok, err := d.Token()
		if err == io.EOF {
			break
		}
		if err != nil {
			return nil, err
		}
		switch t := tok.(type) {
		case xml.StartElement:
			if root != nil && len(stack) == 0 {
				return nil, fmt.Errorf("second root element <%s>", t.Name.Local)
			}
			n := &xmltree.Node{Kind: xmltree.Element, Space: t.Name.Space, Local: t.Name.Local}
			for _, a := range t.Attr {
				if isNSDecl(a.Name.Space, a.Name.Local) {
					continue
				}
				n.Attrs = append(n.Attrs, xmltree.Attr{Space: a.Name.Space, Local: a.Name.Local, Value: a.Value})
			}
			if len(stack) == 0 {
				root = n
			} else {
				p := stack[len(stack)-1]
				p.Children = append(p.Children, n)
			}
			stack = append(stack, n)
		case xml.EndElement:
			if len(stack) == 0 {
				return nil, fmt.Errorf("unexpected end element")
			}
			stack = stack[:len(stack)-1]
		case xml.CharData:
			if len(stack) == 0 {
				if strings.TrimSpace(string(t)) != "" {
					return nil, fmt.Errorf("character data outside the root element")
				}
				continue
			}
			p := stack[len(stack)-1]
			p.Children = append(p.Children, &xmltree.Node{Kind: xmltree.Text, Data: string(t)})
		case xml.Comment:
			if len(stack) > 0 {
				p := stack[len(stack)-1]
				p.Children = append(p.Children, &xmltree.Node{Kind: xmltree.Comment, Data: string(t)})
			}
		case xml.ProcInst:
			if len(stack) > 0 {
				p := stack[len(stack)-1]
				p.Children = append(p.Children, &xmltree.Node{Kind: xmltree.ProcInst, Local: t.Target, Data: string(t.Inst)})
			}
		}
	}
	if len(stack) != 0 {
		return nil, fmt.Errorf("unexpected EOF")
	}
	if root == nil {
		return nil, fmt.Errorf("no root element")
	}
	return root, nil
}

// stripPseudoDecls removes, from a strictly parsed tree, attributes whose
// expanded namespace is the literal string "xmlns": encoding/xml's encoder
// writes a captured declaration xmlns:p="u" as _xmlns:p="u" with
// xmlns:_xmlns="xmlns", which encoding/xml's own tokenizer reports exactly
// like a declaration. Returns how many were removed.
func stripPseudoDecls(n *xmltree.Node) int {
	k := 0
	if n.Kind != xmltree.Element {
		return 0
	}
	var keep []xmltree.Attr
	for _, a := range n.Attrs {
		if a.Space == "xmlns" {
			k++
			continue
		}
		keep = append(keep, a)
	}
	n.Attrs = keep
	for _, c := range n.Children {
		k += stripPseudoDecls(c)
	}
	return k
}

// ---------------------------------------------------------------------------
// Lexical pass over the original document (raw tokens, no translation): what
// namespace machinery does each element use? Elements in document order.

type lexElem struct {
	Prefix      string // raw element prefix ("" = none)
	InNS        bool   // element is in a namespace
	DefaultDecl string // "none" | "uri" | "empty"
	DeclPrefix  int    // number of xmlns:p declarations
	Redeclares  bool   // declares a prefix already in scope with another URI
	Unused      bool   // declares a prefix not used on this element
	PrefAttr    bool
	XMLAttr     bool
	Parent      int // index of parent element, -1 for the root
	Depth       int
}

type lexDoc struct {
	Elems                                              []lexElem
	CDATA, CharRef, Entity, Comment, PI, Mixed, Prolog bool
	MaxDepth, MaxFan                                   int
	Tokens                                             int // tokens from the root's start to its end, inclusive
	// PrefixSpelled: some element or attribute name lies in a namespace whose
	// name is, at that place, also a prefix bound to another namespace
	// (<a:x xmlns:a="b" xmlns:b="c"/>): a reader that resolves already
	// resolved names once more moves such a name.
	PrefixSpelled bool
}

func lexPass(b []byte) (*lexDoc, error) {
	ld := &lexDoc{}
	ld.CDATA = bytes.Contains(b, []byte("<![CDATA["))
	ld.CharRef = bytes.Contains(b, []byte("&#"))
	for _, e := range []string{"&amp;", "&lt;", "&gt;", "&quot;", "&apos;"} {
		if bytes.Contains(b, []byte(e)) {
			ld.Entity = true
		}
	}
	ld.Prolog = bytes.HasPrefix(b, []byte("<?xml "))
	d := xml.NewDecoder(bytes.NewReader(b))
	type frame struct {
		idx      int
		pfx      map[string]string
		elems    int
		nonSpace bool
	}
	var stack []frame
	lookup := func(p string) (string, bool) {
		for i := len(stack) - 1; i >= 0; i-- {
			if v, ok := stack[i].pfx[p]; ok {
				return v, true
			}
		}
		return "", false
	}
	started, ended := false, false
	for {
		tok, err := d.RawToken()
		if err == io.EOF {
			break
		}
		if err != nil {
			return nil, err
		}
		if started && !ended {
			ld.Tokens++
		}
		switch t := tok.(type) {
		case xml.StartElement:
			if !started {
				started = true
				ld.Tokens++
			}
			le := lexElem{Prefix: t.Name.Space, DefaultDecl: "none", Parent: -1, Depth: len(stack) + 1}
			if len(stack) > 0 {
				le.Parent = stack[len(stack)-1].idx
				stack[len(stack)-1].elems++
				if stack[len(stack)-1].elems > ld.MaxFan {
					ld.MaxFan = stack[len(stack)-1].elems
				}
			}
			fr := frame{idx: len(ld.Elems), pfx: map[string]string{}}
			used := map[string]bool{t.Name.Space: true}
			for _, a := range t.Attr {
				switch {
				case a.Name.Space == "" && a.Name.Local == "xmlns":
					if a.Value == "" {
						le.DefaultDecl = "empty"
					} else {
						le.DefaultDecl = "uri"
					}
					fr.pfx[""] = a.Value
				case a.Name.Space == "xmlns":
					le.DeclPrefix++
					if old, ok := lookup(a.Name.Local); ok && old != a.Value {
						le.Redeclares = true
					}
					fr.pfx[a.Name.Local] = a.Value
				case a.Name.Space == "xml":
					le.XMLAttr = true
				case a.Name.Space != "":
					le.PrefAttr = true
					used[a.Name.Space] = true
				}
			}
			for p := range fr.pfx {
				if p != "" && !used[p] {
					le.Unused = true
				}
			}
			stack = append(stack, fr)
			spaces := []string{}
			if v, ok := lookup(t.Name.Space); ok {
				spaces = append(spaces, v)
			}
			for _, a := range t.Attr {
				if a.Name.Space != "" && a.Name.Space != "xmlns" && a.Name.Space != "xml" {
					if v, ok := lookup(a.Name.Space); ok {
						spaces = append(spaces, v)
					}
				}
			}
			for _, sp := range spaces {
				if v, ok := lookup(sp); ok && sp != "" && v != sp {
					ld.PrefixSpelled = true
				}
			}
			if t.Name.Space != "" {
				le.InNS = true
			} else if v, _ := lookup(""); v != "" {
				le.InNS = true
			}
			if le.Depth > ld.MaxDepth {
				ld.MaxDepth = le.Depth
			}
			ld.Elems = append(ld.Elems, le)
		case xml.EndElement:
			if len(stack) > 0 {
				fr := stack[len(stack)-1]
				if fr.elems > 0 && fr.nonSpace {
					ld.Mixed = true
				}
				stack = stack[:len(stack)-1]
				if len(stack) == 0 {
					ended = true
				}
			}
		case xml.CharData:
			if len(stack) > 0 && strings.TrimSpace(string(t)) != "" {
				stack[len(stack)-1].nonSpace = true
			}
		case xml.Comment:
			if len(stack) > 0 {
				ld.Comment = true
			}
		case xml.ProcInst:
			if len(stack) > 0 {
				ld.PI = true
			}
		}
	}
	return ld, nil
}

func (le lexElem) nameClass() string {
	switch {
	case le.Prefix != "":
		return "prefixed"
	case le.InNS:
		return "default-ns"
	default:
		return "unqualified"
	}
}

// features lists the namespace/lexical features a document exhibits.
func (ld *lexDoc) features() []string {
	set := map[string]bool{}
	for _, e := range ld.Elems {
		set["elem-"+e.nameClass()] = true
		if e.DefaultDecl == "uri" {
			set["default-ns-declaration"] = true
			if e.Parent >= 0 && ld.Elems[e.Parent].InNS && ld.Elems[e.Parent].Prefix == "" {
				set["default-ns-redeclaration"] = true
			}
		}
		if e.DefaultDecl == "empty" {
			set["default-ns-undeclaration"] = true
		}
		if e.Prefix != "" && e.DefaultDecl != "none" {
			set["prefixed-elem-declares-default"] = true
		}
		if e.DeclPrefix > 0 {
			set["prefix-declaration"] = true
		}
		if e.Redeclares {
			set["prefix-redeclaration"] = true
		}
		if e.Unused {
			set["unused-declaration"] = true
		}
		if e.PrefAttr {
			set["prefixed-attribute"] = true
		}
		if e.XMLAttr {
			set["xml-attribute"] = true
		}
		if e.Parent >= 0 && e.nameClass() == "unqualified" && ld.Elems[e.Parent].Prefix != "" && e.DefaultDecl == "none" {
			set["unqualified-under-prefixed"] = true
		}
	}
	for k, v := range map[string]bool{"cdata": ld.CDATA, "charref": ld.CharRef, "entity": ld.Entity, "comment": ld.Comment,
		"pi": ld.PI, "mixed-content": ld.Mixed, "prolog": ld.Prolog, "namespace-spelled-like-bound-prefix": ld.PrefixSpelled} {
		if v {
			set[k] = true
		}
	}
	var l []string
	for k := range set {
		l = append(l, k)
	}
	sort.Strings(l)
	return l
}

// ---------------------------------------------------------------------------
// First difference between two trees, and its abstract classification.

type treeDiff struct {
	Elem   *xmltree.Node // element of the ORIGINAL tree at which the difference shows (nil: synthetic root)
	Kind   string
	Detail string
	Want   *xmltree.Node
	Got    *xmltree.Node
}

func normKids(n *xmltree.Node) []*xmltree.Node {
	var out []*xmltree.Node
	for _, c := range n.Children {
		switch c.Kind {
		case xmltree.ProcInst:
			continue
		case xmltree.Text:
			if c.Data == "" {
				continue
			}
			if k := len(out); k > 0 && out[k-1].Kind == xmltree.Text {
				out[k-1] = &xmltree.Node{Kind: xmltree.Text, Data: out[k-1].Data + c.Data}
				continue
			}
		}
		out = append(out, c)
	}
	return out
}

func kindName(k xmltree.Kind) string {
	switch k {
	case xmltree.Element:
		return "element"
	case xmltree.Text:
		return "text"
	case xmltree.Comment:
		return "comment"
	default:
		return "pi"
	}
}

func firstDiff(a, b *xmltree.Node) *treeDiff {
	if a.Space != b.Space || a.Local != b.Local {
		return &treeDiff{Elem: a, Kind: "element-name", Want: a, Got: b,
			Detail: fmt.Sprintf("want %s got %s", a.Name(), b.Name())}
	}
	am := map[[2]string]string{}
	for _, x := range a.Attrs {
		am[[2]string{x.Space, x.Local}] = x.Value
	}
	bm := map[[2]string]int{}
	for _, x := range b.Attrs {
		k := [2]string{x.Space, x.Local}
		bm[k]++
		cls := attrClass(x.Space)
		if bm[k] > 1 {
			return &treeDiff{Elem: a, Kind: "attribute-duplicated", Detail: cls + fmt.Sprintf(" {%s}%s", x.Space, x.Local)}
		}
		v, ok := am[k]
		if !ok {
			return &treeDiff{Elem: a, Kind: "attribute-added", Detail: cls + fmt.Sprintf(" {%s}%s=%q", x.Space, x.Local, x.Value)}
		}
		if v != x.Value {
			return &treeDiff{Elem: a, Kind: "attribute-value", Detail: cls + fmt.Sprintf(" {%s}%s want %q got %q", x.Space, x.Local, v, x.Value)}
		}
	}
	for _, x := range a.Attrs {
		if bm[[2]string{x.Space, x.Local}] == 0 {
			return &treeDiff{Elem: a, Kind: "attribute-lost", Detail: attrClass(x.Space) + fmt.Sprintf(" {%s}%s", x.Space, x.Local)}
		}
	}
	ak, bk := normKids(a), normKids(b)
	// per-kind counts first, so that one lost node is one kind of difference
	// whatever it displaces
	var ca, cb [4]int
	for _, x := range ak {
		ca[x.Kind]++
	}
	for _, x := range bk {
		cb[x.Kind]++
	}
	for _, k := range []xmltree.Kind{xmltree.Element, xmltree.Comment, xmltree.Text} {
		switch {
		case ca[k] > cb[k]:
			return &treeDiff{Elem: a, Kind: kindName(k) + "-lost", Detail: fmt.Sprintf("%d %s children, output has %d", ca[k], kindName(k), cb[k])}
		case ca[k] < cb[k]:
			return &treeDiff{Elem: a, Kind: kindName(k) + "-added", Detail: fmt.Sprintf("%d %s children, output has %d", ca[k], kindName(k), cb[k])}
		}
	}
	for i := 0; i < len(ak) || i < len(bk); i++ {
		switch {
		case i >= len(bk):
			return &treeDiff{Elem: a, Kind: kindName(ak[i].Kind) + "-lost", Detail: fmt.Sprintf("child %d", i)}
		case i >= len(ak):
			return &treeDiff{Elem: a, Kind: kindName(bk[i].Kind) + "-added", Detail: fmt.Sprintf("child %d", i)}
		case ak[i].Kind != bk[i].Kind:
			return &treeDiff{Elem: a, Kind: "child-order", Detail: fmt.Sprintf("child %d is a %s, want a %s", i, kindName(bk[i].Kind), kindName(ak[i].Kind))}
		case ak[i].Kind == xmltree.Element:
			if d := firstDiff(ak[i], bk[i]); d != nil {
				return d
			}
		default:
			if ak[i].Data != bk[i].Data {
				return &treeDiff{Elem: a, Kind: kindName(ak[i].Kind) + "-value", Detail: fmt.Sprintf("child %d want %q got %q", i, clip(ak[i].Data, 80), clip(bk[i].Data, 80))}
			}
		}
	}
	return nil
}

func attrClass(space string) string {
	switch space {
	case "":
		return "unprefixed-attr"
	case xmlNS:
		return "xml-attr"
	default:
		return "prefixed-attr"
	}
}

func clip(s string, n int) string {
	if len(s) > n {
		return s[:n] + "…"
	}
	return s
}

// docIndex maps the element nodes of the strictly parsed original to their
// document-order index, which is also their index in lexDoc.Elems.
func docIndex(root *xmltree.Node) map[*xmltree.Node]int {
	m := map[*xmltree.Node]int{}
	var rec func(n *xmltree.Node)
	rec = func(n *xmltree.Node) {
		if n.Kind != xmltree.Element {
			return
		}
		m[n] = len(m)
		for _, c := range n.Children {
			rec(c)
		}
	}
	rec(root)
	return m
}

// feature renders the abstract namespace feature of a difference: the
// "namespace feature" half of the finding key (DESIGN.md section 4).
func (d *treeDiff) feature(ld *lexDoc, idx map[*xmltree.Node]int) string {
	switch d.Kind {
	case "element-name":
		i, ok := idx[d.Elem]
		if !ok || ld == nil || i >= len(ld.Elems) {
			return "element-name"
		}
		le := ld.Elems[i]
		parent := "none"
		if le.Parent >= 0 {
			parent = ld.Elems[le.Parent].nameClass()
		}
		switch {
		case d.Got.Local != d.Want.Local:
			return "element local name changed"
		case le.Prefix != "" && le.DefaultDecl != "none":
			return "element namespace changed: prefixed element that also declares a default namespace"
		case le.nameClass() == "unqualified" && le.DefaultDecl == "none" && parent == "prefixed":
			return "element namespace changed: unqualified element (no xmlns=\"\" needed in the original) under a prefixed element"
		}
		return fmt.Sprintf("element namespace changed: elem=%s default-decl=%s parent=%s", le.nameClass(), le.DefaultDecl, parent)
	case "attribute-added", "attribute-lost", "attribute-value", "attribute-duplicated":
		cls := d.Detail
		if i := strings.Index(cls, " "); i > 0 {
			cls = cls[:i]
		}
		return d.Kind + " " + cls
	default:
		return d.Kind
	}
}

// ---------------------------------------------------------------------------
// Token stream monitor.

type streamObs struct {
	Tree    *xmltree.Node
	N       int
	Problem string // "" = balanced, well nested, finite, EOF sticky
	Detail  string
}

func readStream(tr xml.TokenReader, bound int) streamObs {
	var o streamObs
	var stack []*xmltree.Node
	var names []xml.Name
	closed := false
	fail := func(p, d string) streamObs {
		o.Problem, o.Detail = p, d
		return o
	}
	for {
		tok, err := tr.Token()
		if err == io.EOF {
			break
		}
		if err != nil {
			return fail("token-error", err.Error())
		}
		o.N++
		if o.N > bound {
			return fail("not-finite-within-bound", fmt.Sprintf("more than %d tokens", bound))
		}
		if closed {
			return fail("token-after-root-end", fmt.Sprintf("%T", tok))
		}
		switch t := tok.(type) {
		case xml.StartElement:
			n := &xmltree.Node{Kind: xmltree.Element, Space: t.Name.Space, Local: t.Name.Local}
			for _, a := range t.Attr {
				if isNSDecl(a.Name.Space, a.Name.Local) {
					continue
				}
				n.Attrs = append(n.Attrs, xmltree.Attr{Space: a.Name.Space, Local: a.Name.Local, Value: a.Value})
			}
			if len(stack) == 0 {
				o.Tree = n
			} else {
				p := stack[len(stack)-1]
				p.Children = append(p.Children, n)
			}
			stack = append(stack, n)
			names = append(names, t.Name)
		case xml.EndElement:
			if len(stack) == 0 {
				return fail("unbalanced-end", fmt.Sprintf("end element %v with nothing open", t.Name))
			}
			if names[len(names)-1] != t.Name {
				return fail("not-well-nested", fmt.Sprintf("end %v closes %v", t.Name, names[len(names)-1]))
			}
			stack = stack[:len(stack)-1]
			names = names[:len(names)-1]
			if len(stack) == 0 {
				closed = true
			}
		case xml.CharData, xml.Comment, xml.ProcInst, xml.Directive:
			if len(stack) == 0 {
				return fail("token-outside-root", fmt.Sprintf("%T", tok))
			}
			p := stack[len(stack)-1]
			switch t := tok.(type) {
			case xml.CharData:
				p.Children = append(p.Children, &xmltree.Node{Kind: xmltree.Text, Data: string(t)})
			case xml.Comment:
				p.Children = append(p.Children, &xmltree.Node{Kind: xmltree.Comment, Data: string(t)})
			case xml.ProcInst:
				p.Children = append(p.Children, &xmltree.Node{Kind: xmltree.ProcInst, Local: t.Target, Data: string(t.Inst)})
			}
		case nil:
			return fail("nil-token-without-error", "")
		default:
			return fail("unknown-token", fmt.Sprintf("%T", tok))
		}
	}
	if !closed {
		if o.Tree == nil {
			return fail("empty-stream", "EOF before any token")
		}
		return fail("unbalanced-eof", fmt.Sprintf("EOF with %d element(s) open", len(stack)))
	}
	for i := 0; i < 3; i++ {
		tok, err := tr.Token()
		if err != io.EOF {
			return fail("eof-not-sticky", fmt.Sprintf("call %d after EOF returned (%T, %v)", i+1, tok, err))
		}
	}
	return o
}

package c15

import (
	"fmt"
	"math/rand"
	"strings"

	"github.com/emersion/go-webdav/verifharness/xmltree"
)

// Generator of abstract element trees and a serialiser that chooses among
// the lexical forms XML 1.0 + Namespaces allows for one and the same tree.
// The serialiser is checked on every case: the document it writes is parsed
// by xmltree (the harness's strict reader) and must denote the abstract tree
// it was given, otherwise the case is a harness error, never a finding.

const (
	davNS  = "DAV:"
	calNS  = "urn:ietf:params:xml:ns:caldav"
	cardNS = "urn:ietf:params:xml:ns:carddav"
	xmlNS  = "http://www.w3.org/XML/1998/namespace"
)

// Every namespace name of the pool contains ':'; spellLikePrefixes makes the
// exception (namespace names that collide with prefixes).
var nsPool = []string{davNS, calNS, cardNS, "urn:a", "urn:b", "http://example.com/ns/",
	"http://example.com/ns/xml", "http://example.com/a/b", "urn:x:_", "http://example.com/ns/xmlns",
	"http://example.com/ns/p"}

var localPool = []string{"a", "b", "c", "prop", "href", "item", "x-y", "_u", "é", "a.b", "n1", "Data", "resourcetype", "xmlnsx"}

var attrLocalPool = []string{"a", "b", "name", "href", "x-y", "é", "id", "content-type", "version", "_"}

var textFrags = []string{"hello", "world", " ", "\n  ", "\t", "<", ">", "&", "]]>", "\"", "'", "é", "😀",
	"\r", "\r\n", "&amp;", "&#65;", "]]", "]", "--", "<!--", "-->", "<?", "?>", "x=1", "0123456789", "\u0085", " ",
	"�", "<![CDATA[", "/a/b c", "HTTP/1.1 200 OK", "a", "Z", "%41", " ", "𝔘"}

var commentFrags = []string{" c ", "", "a-b", "<x>&amp;</x>", "é", "\n", "- x", "xmlns=\"urn:c\"", "]]>", "?>", "<![CDATA[ x ]]>"}

var piTargets = []string{"pi", "xml-stylesheet", "a.b", "P_1"}
var piData = []string{"", "x", `href="a" type='b'`, "<&>", "é", "? >"}

var declPrefixPool = []string{"p", "q", "D", "n", "x", "_", "ns1", "C", "d", "_xmlns", "xmlfoo_"}

type shape int

const (
	shapeBushy shape = iota
	shapeDeep
	shapeWide
	shapeTiny
)

type treeGen struct {
	r        *rand.Rand
	nss      []string // namespaces of this document, "" included when unqualified names are used
	maxDepth int
	maxFan   int
	budget   int
	sh       shape
}

func newTreeGen(r *rand.Rand) *treeGen {
	g := &treeGen{r: r}
	k := 1 + r.Intn(4)
	perm := r.Perm(len(nsPool))
	for i := 0; i < k; i++ {
		g.nss = append(g.nss, nsPool[perm[i]])
	}
	if r.Intn(3) != 0 {
		g.nss = append(g.nss, "")
	}
	g.sh = shape(r.Intn(4))
	switch g.sh {
	case shapeDeep:
		g.maxDepth, g.maxFan, g.budget = 8, 2, 60
	case shapeWide:
		g.maxDepth, g.maxFan, g.budget = 3, 5, 120
	case shapeTiny:
		g.maxDepth, g.maxFan, g.budget = 2, 2, 8
	default:
		g.maxDepth, g.maxFan, g.budget = 2+r.Intn(7), 1+r.Intn(5), 100
	}
	return g
}

func (g *treeGen) pickNS(parent string, root bool) string {
	if !root && g.r.Intn(2) == 0 {
		return parent
	}
	return g.nss[g.r.Intn(len(g.nss))]
}

func (g *treeGen) text() string {
	k := 1 + g.r.Intn(3)
	if g.r.Intn(40) == 0 {
		k = 40 + g.r.Intn(60) // a long run
	}
	var sb strings.Builder
	for i := 0; i < k; i++ {
		sb.WriteString(textFrags[g.r.Intn(len(textFrags))])
	}
	return sb.String()
}

func (g *treeGen) attrs(n *xmltree.Node) {
	k := []int{0, 0, 0, 1, 1, 2, 3}[g.r.Intn(7)]
	seen := map[[2]string]bool{}
	for i := 0; i < k; i++ {
		a := xmltree.Attr{Local: attrLocalPool[g.r.Intn(len(attrLocalPool))]}
		switch g.r.Intn(6) {
		case 0, 1:
			ns := g.nss[g.r.Intn(len(g.nss))]
			if g.r.Intn(4) == 0 {
				ns = nsPool[g.r.Intn(len(nsPool))]
			}
			a.Space = ns
		case 2:
			a.Space = xmlNS
			a.Local = []string{"lang", "space", "base", "id"}[g.r.Intn(4)]
		}
		key := [2]string{a.Space, a.Local}
		if seen[key] {
			continue
		}
		seen[key] = true
		switch g.r.Intn(5) {
		case 0:
			a.Value = ""
		case 1:
			a.Value = "en"
		default:
			a.Value = g.text()
		}
		n.Attrs = append(n.Attrs, a)
	}
}

func (g *treeGen) element(depth int, parentNS string) *xmltree.Node {
	g.budget--
	n := xmltree.El(g.pickNS(parentNS, depth == 1), localPool[g.r.Intn(len(localPool))])
	g.attrs(n)
	fan := g.r.Intn(g.maxFan + 1)
	if g.sh == shapeDeep && depth < g.maxDepth && fan == 0 {
		fan = 1
	}
	if g.sh == shapeWide && g.r.Intn(3) == 0 {
		fan = g.maxFan
	}
	if depth == 1 && fan == 0 && g.r.Intn(8) != 0 {
		fan = 1 + g.r.Intn(g.maxFan)
	}
	for i := 0; i < fan; i++ {
		if g.budget <= 0 {
			break
		}
		x := g.r.Intn(20)
		if depth == 1 && x < 17 {
			x = 0 // the root's children are mostly elements
		}
		switch {
		case x < 11 && depth < g.maxDepth:
			n.Children = append(n.Children, g.element(depth+1, n.Space))
		case x < 11:
			// depth bound reached: a leaf text instead
			n.Children = append(n.Children, xmltree.Txt(g.text()))
		case x < 15:
			n.Children = append(n.Children, xmltree.Txt(g.text()))
		case x < 17:
			n.Children = append(n.Children, xmltree.Txt([]string{" ", "\n", "\n    ", "\t"}[g.r.Intn(4)]))
		case x < 19:
			n.Children = append(n.Children, &xmltree.Node{Kind: xmltree.Comment, Data: commentFrags[g.r.Intn(len(commentFrags))]})
		default:
			n.Children = append(n.Children, &xmltree.Node{Kind: xmltree.ProcInst, Local: piTargets[g.r.Intn(len(piTargets))], Data: piData[g.r.Intn(len(piData))]})
		}
		g.budget--
	}
	return n
}

// genTree returns a random abstract tree (depth <= 8, fan-out <= 5).
func genTree(r *rand.Rand) *xmltree.Node {
	g := newTreeGen(r)
	return g.element(1, "")
}

// spellLikePrefixes renames the namespaces of t to names taken from the
// serialiser's prefix pool ("p", "q", "D", ...): namespace names are then
// spelled like prefixes the document declares, often for another namespace.
func spellLikePrefixes(r *rand.Rand, t *xmltree.Node) {
	names := append([]string(nil), declPrefixPool...)
	r.Shuffle(len(names), func(i, j int) { names[i], names[j] = names[j], names[i] })
	m := map[string]string{}
	ren := func(space string) string {
		if space == "" || space == xmlNS {
			return space
		}
		if v, ok := m[space]; ok {
			return v
		}
		if len(m) >= len(names) {
			return space
		}
		m[space] = names[len(m)]
		return m[space]
	}
	var walk func(n *xmltree.Node)
	walk = func(n *xmltree.Node) {
		if n.Kind != xmltree.Element {
			return
		}
		n.Space = ren(n.Space)
		for i := range n.Attrs {
			n.Attrs[i].Space = ren(n.Attrs[i].Space)
		}
		for _, ch := range n.Children {
			walk(ch)
		}
	}
	walk(t)
}

// ---------------------------------------------------------------------------
// Serialiser.

type scope struct {
	parent *scope
	pfx    map[string]string
	def    *string
}

func (s *scope) lookup(p string) (string, bool) {
	for c := s; c != nil; c = c.parent {
		if v, ok := c.pfx[p]; ok {
			return v, true
		}
	}
	return "", false
}

func (s *scope) defaultNS() string {
	for c := s; c != nil; c = c.parent {
		if c.def != nil {
			return *c.def
		}
	}
	return ""
}

// prefixesFor lists, sorted, the in-scope prefixes that currently denote uri.
func (s *scope) prefixesFor(uri string) []string {
	seen := map[string]bool{}
	var l []string
	for c := s; c != nil; c = c.parent {
		for p, u := range c.pfx {
			if seen[p] {
				continue
			}
			seen[p] = true
			if u == uri {
				l = append(l, p)
			}
		}
	}
	// shadowed bindings: keep those whose innermost binding is uri
	var out []string
	for _, p := range l {
		if v, _ := s.lookup(p); v == uri {
			out = append(out, p)
		}
	}
	for i := 1; i < len(out); i++ {
		for j := i; j > 0 && out[j] < out[j-1]; j-- {
			out[j], out[j-1] = out[j-1], out[j]
		}
	}
	return out
}

type serialiser struct {
	r  *rand.Rand
	sb strings.Builder
	// plain: no optional lexical variation (used for standalone re-rendering)
	plain bool
}

func (s *serialiser) chance(k int) bool {
	if s.plain {
		return false
	}
	return s.r.Intn(k) == 0
}

func (s *serialiser) intn(k int) int {
	if s.plain {
		return 0
	}
	return s.r.Intn(k)
}

// renderDoc serialises the tree as a complete document.
func renderDoc(r *rand.Rand, n *xmltree.Node) []byte {
	s := &serialiser{r: r}
	if s.chance(3) {
		s.sb.WriteString([]string{`<?xml version="1.0" encoding="utf-8"?>`, `<?xml version="1.0"?>`, `<?xml version='1.0' encoding='UTF-8' standalone='yes'?>`}[s.intn(3)])
		if s.chance(2) {
			s.sb.WriteString("\n")
		}
	}
	if s.chance(10) {
		s.sb.WriteString("<!-- before -->")
	}
	if s.chance(25) {
		s.sb.WriteString("<!DOCTYPE x>\n")
	}
	if s.chance(25) {
		s.sb.WriteString("<?before the root?>")
	}
	s.element(n, &scope{pfx: map[string]string{"xml": xmlNS}})
	if s.chance(3) {
		s.sb.WriteString("\n")
	}
	if s.chance(12) {
		s.sb.WriteString("<!-- after -->\n")
	}
	return []byte(s.sb.String())
}

// renderPlain serialises deterministically with no lexical variation.
func renderPlain(n *xmltree.Node) []byte {
	s := &serialiser{plain: true}
	s.element(n, &scope{pfx: map[string]string{"xml": xmlNS}})
	return []byte(s.sb.String())
}

func (s *serialiser) sep() string {
	if s.chance(8) {
		return []string{"\n", "  ", "\t", "\r\n ", " \n\t"}[s.intn(5)]
	}
	return " "
}

func (s *serialiser) newPrefix(uri string, avoid map[string]bool) string {
	cands := append([]string(nil), declPrefixPool...)
	switch uri {
	case davNS:
		cands = append(cands, "D", "d", "dav", "D")
	case calNS, cardNS:
		cands = append(cands, "C", "cal", "card")
	}
	start := s.intn(len(cands))
	for i := 0; i < len(cands); i++ {
		p := cands[(start+i)%len(cands)]
		if !avoid[p] {
			return p
		}
	}
	for i := 0; ; i++ {
		p := fmt.Sprintf("g%d", i)
		if !avoid[p] {
			return p
		}
	}
}

func (s *serialiser) element(n *xmltree.Node, parent *scope) {
	switch n.Kind {
	case xmltree.Text:
		s.text(n.Data)
		return
	case xmltree.Comment:
		s.sb.WriteString("<!--" + n.Data + "-->")
		return
	case xmltree.ProcInst:
		s.sb.WriteString("<?" + n.Local)
		if n.Data != "" {
			s.sb.WriteString(" " + n.Data)
		}
		s.sb.WriteString("?>")
		return
	}
	sc := &scope{parent: parent, pfx: map[string]string{}}
	var parts []string
	taken := map[string]bool{"xml": true, "xmlns": true} // prefixes declared or relied upon on this element
	declare := func(p, uri string) {
		sc.pfx[p] = uri
		taken[p] = true
		parts = append(parts, "xmlns:"+p+s.eq()+s.attrValue(uri))
	}
	declareDefault := func(uri string) {
		u := uri
		sc.def = &u
		parts = append(parts, "xmlns"+s.eq()+s.attrValue(uri))
	}
	// (a) declarations nobody on this element needs; they may shadow outer
	// bindings (prefix redeclaration), which later choices respect.
	for s.chance(7) {
		p := declPrefixPool[s.intn(len(declPrefixPool))]
		if taken[p] {
			break
		}
		declare(p, nsPool[s.intn(len(nsPool))])
	}
	// (b) the element name
	prefix := ""
	if n.Space == "" {
		if sc.defaultNS() != "" {
			declareDefault("")
		} else if s.chance(12) {
			declareDefault("") // redundant undeclaration
		}
	} else {
		switch {
		case sc.defaultNS() == n.Space && !s.chance(4):
			if s.chance(10) {
				declareDefault(n.Space) // redundant redeclaration
			}
		case sc.defaultNS() != n.Space && !s.plain && s.chance(3):
			declareDefault(n.Space)
		case s.plain && parent.parent == nil:
			declareDefault(n.Space)
		default:
			cands := sc.prefixesFor(n.Space)
			if len(cands) > 0 && !s.chance(5) {
				prefix = cands[s.intn(len(cands))]
				taken[prefix] = true
			} else {
				prefix = s.newPrefix(n.Space, taken)
				declare(prefix, n.Space)
			}
			// a prefixed element that also (re)declares the default namespace
			if s.chance(8) {
				switch s.intn(3) {
				case 0:
					declareDefault("")
				case 1:
					declareDefault(n.Space)
				default:
					declareDefault(nsPool[s.intn(len(nsPool))])
				}
			}
		}
	}
	// (c) attributes
	type outAttr struct{ name, val string }
	var attrs []outAttr
	for _, a := range n.Attrs {
		name := a.Local
		switch {
		case a.Space == xmlNS:
			name = "xml:" + a.Local
		case a.Space != "":
			cands := sc.prefixesFor(a.Space)
			var p string
			if len(cands) > 0 && !s.chance(6) {
				p = cands[s.intn(len(cands))]
				taken[p] = true
			} else {
				p = s.newPrefix(a.Space, taken)
				declare(p, a.Space)
			}
			name = p + ":" + a.Local
		}
		attrs = append(attrs, outAttr{name, a.Value})
	}
	for _, a := range attrs {
		parts = append(parts, a.name+s.eq()+s.attrValue(a.val))
	}
	if !s.plain && len(parts) > 1 {
		s.r.Shuffle(len(parts), func(i, j int) { parts[i], parts[j] = parts[j], parts[i] })
	}
	qname := n.Local
	if prefix != "" {
		qname = prefix + ":" + n.Local
	}
	s.sb.WriteString("<" + qname)
	for _, p := range parts {
		s.sb.WriteString(s.sep())
		s.sb.WriteString(p)
	}
	if s.chance(10) {
		s.sb.WriteString(s.sep())
	}
	if len(n.Children) == 0 && !s.chance(2) {
		s.sb.WriteString("/>")
		return
	}
	s.sb.WriteString(">")
	for _, c := range n.Children {
		s.element(c, sc)
	}
	s.sb.WriteString("</" + qname)
	if s.chance(12) {
		s.sb.WriteString(s.sep())
	}
	s.sb.WriteString(">")
}

func (s *serialiser) eq() string {
	if s.chance(15) {
		return []string{" =", "= ", " = "}[s.intn(3)]
	}
	return "="
}

func (s *serialiser) attrValue(v string) string {
	q := '"'
	if s.chance(3) {
		q = '\''
	}
	var sb strings.Builder
	sb.WriteRune(q)
	for _, r := range v {
		switch {
		case r == '&':
			sb.WriteString("&amp;")
		case r == '<':
			sb.WriteString("&lt;")
		case r == '>':
			// always escaped: this encoding/xml rejects a literal "]]>" even
			// inside attribute values
			sb.WriteString("&gt;")
		case r == q && q == '"':
			sb.WriteString("&quot;")
		case r == q && q == '\'':
			sb.WriteString("&apos;")
		case r == '\n' || r == '\r' || r == '\t':
			if s.chance(2) {
				fmt.Fprintf(&sb, "&#x%X;", r)
			} else {
				fmt.Fprintf(&sb, "&#%d;", r)
			}
		case s.chance(14):
			if s.chance(2) {
				fmt.Fprintf(&sb, "&#x%x;", r)
			} else {
				fmt.Fprintf(&sb, "&#%d;", r)
			}
		default:
			sb.WriteRune(r)
		}
	}
	sb.WriteRune(q)
	return sb.String()
}

// text writes character data as a sequence of lexical runs: escaped text,
// CDATA sections, character references, predefined entities.
func (s *serialiser) text(data string) {
	rs := []rune(data)
	for len(rs) > 0 {
		k := len(rs)
		if !s.plain && k > 1 && s.chance(2) {
			k = 1 + s.intn(k)
		}
		chunk := string(rs[:k])
		rs = rs[k:]
		switch {
		case s.chance(5) && !strings.Contains(chunk, "]]>") && !strings.Contains(chunk, "\r"):
			s.sb.WriteString("<![CDATA[" + chunk + "]]>")
		case s.chance(12):
			for _, r := range chunk {
				if s.chance(2) {
					fmt.Fprintf(&s.sb, "&#x%X;", r)
				} else {
					fmt.Fprintf(&s.sb, "&#%d;", r)
				}
			}
		default:
			for _, r := range chunk {
				switch {
				case r == '&':
					s.sb.WriteString("&amp;")
				case r == '<':
					s.sb.WriteString("&lt;")
				case r == '>':
					s.sb.WriteString("&gt;")
				case r == '\r':
					s.sb.WriteString("&#13;")
				case r == '"' && s.chance(2):
					s.sb.WriteString("&quot;")
				case r == '\'' && s.chance(2):
					s.sb.WriteString("&apos;")
				case s.chance(20):
					fmt.Fprintf(&s.sb, "&#%d;", r)
				default:
					s.sb.WriteRune(r)
				}
			}
		}
	}
}

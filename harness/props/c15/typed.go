package c15

import (
	"encoding/xml"
	"fmt"
	"math/rand"
	"reflect"
	"time"

	"github.com/emersion/go-webdav/internal"
	"github.com/emersion/go-webdav/verifharness/xmltree"
)

// Typed elements. Every exported element type of package internal, plus
// harness-local mirrors with the same field shapes as the (unexported)
// property structures of the caldav and carddav packages: RawXMLValue.Decode
// takes any value, so the shapes can be exercised without touching them.

type mCalendarHomeSet struct {
	XMLName xml.Name      `xml:"urn:ietf:params:xml:ns:caldav calendar-home-set"`
	Href    internal.Href `xml:"DAV: href"`
}

type mCalendarDescription struct {
	XMLName     xml.Name `xml:"urn:ietf:params:xml:ns:caldav calendar-description"`
	Description string   `xml:",chardata"`
}

type mComp struct {
	XMLName xml.Name  `xml:"urn:ietf:params:xml:ns:caldav comp"`
	Name    string    `xml:"name,attr"`
	Allprop *struct{} `xml:"allprop,omitempty"`
	Prop    []mCProp  `xml:"prop,omitempty"`
	Allcomp *struct{} `xml:"allcomp,omitempty"`
	Comp    []mComp   `xml:"comp,omitempty"`
}

type mCProp struct {
	XMLName xml.Name `xml:"urn:ietf:params:xml:ns:caldav prop"`
	Name    string   `xml:"name,attr"`
}

type mSupportedCalendarComponentSet struct {
	XMLName xml.Name `xml:"urn:ietf:params:xml:ns:caldav supported-calendar-component-set"`
	Comp    []mComp  `xml:"comp"`
}

type mCalendarDataType struct {
	XMLName     xml.Name `xml:"urn:ietf:params:xml:ns:caldav calendar-data"`
	ContentType string   `xml:"content-type,attr"`
	Version     string   `xml:"version,attr"`
}

type mSupportedCalendarData struct {
	XMLName xml.Name            `xml:"urn:ietf:params:xml:ns:caldav supported-calendar-data"`
	Types   []mCalendarDataType `xml:"calendar-data"`
}

type mMaxResourceSize struct {
	XMLName xml.Name `xml:"urn:ietf:params:xml:ns:carddav max-resource-size"`
	Size    int64    `xml:",chardata"`
}

type mExpand struct {
	XMLName xml.Name `xml:"urn:ietf:params:xml:ns:caldav expand"`
	Start   string   `xml:"start,attr"`
	End     string   `xml:"end,attr"`
}

type mCalendarDataReq struct {
	XMLName xml.Name `xml:"urn:ietf:params:xml:ns:caldav calendar-data"`
	Comp    *mComp   `xml:"comp,omitempty"`
	Expand  *mExpand `xml:"expand,omitempty"`
}

type mAddressDataResp struct {
	XMLName xml.Name `xml:"urn:ietf:params:xml:ns:carddav address-data"`
	Data    []byte   `xml:",chardata"`
}

type mTextMatch struct {
	XMLName         xml.Name `xml:"urn:ietf:params:xml:ns:carddav text-match"`
	Text            string   `xml:",chardata"`
	Collation       string   `xml:"collation,attr,omitempty"`
	NegateCondition string   `xml:"negate-condition,attr,omitempty"`
	MatchType       string   `xml:"match-type,attr,omitempty"`
}

type typeSpec struct {
	Name   string
	Shape  string // chardata-leaf | struct | raw-container
	Space  string
	Local  string
	IsProp bool
	New    func() interface{}
	Gen    func(g *tgen) *xmltree.Node
}

type tgen struct {
	r *rand.Rand
}

func (g *tgen) pick(l []string) string { return l[g.r.Intn(len(l))] }

var (
	hrefVals   = []string{"/a/b", "/", "http://example.com/x%20y", "/caf%C3%A9/", "%zz", "", " /sp ", "/a?b=c#d", "mailto:x@y", "/é&<>"}
	lenVals    = []string{"0", "12", "-5", "9223372036854775807", "9223372036854775808", "abc", "", " 7 ", "1e3", "+4", "\n42\n"}
	ctypeVals  = []string{"text/plain", "text/calendar; charset=utf-8", "", " x ", "a/b;x=\"<&>\""}
	dateVals   = []string{"Mon, 02 Jan 2006 15:04:05 GMT", "Monday, 02-Jan-06 15:04:05 GMT", "Mon Jan  2 15:04:05 2006", "yesterday", "", "Mon, 02 Jan 2006 15:04:05 +0100", " Mon, 02 Jan 2006 15:04:05 GMT"}
	etagVals   = []string{`"abc"`, `W/"x"`, `abc`, `""`, `"a\"b"`, `'a'`, "", `"é"`, "\"a&b<c>\""}
	statusVals = []string{"HTTP/1.1 200 OK", "HTTP/1.1 404 Not Found", "HTTP/1.1 207 Multi-Status", "HTTP/1.1 abc X", "bad", "", "HTTP/1.1 200", "HTTP/1.1 200 OK"}
	nameVals   = []string{"VEVENT", "VTODO", "", "é", "a b", "<&>"}
	textVals   = []string{"hello", "", " ", "a&b", "<tag>", "é😀", "line1\nline2", "  padded  ", "]]>", "BEGIN:VCALENDAR\r\nEND:VCALENDAR\r\n"}
)

// leaf builds <{space}local>value</…>, splitting the value over several
// character-data runs now and then.
func (g *tgen) leaf(space, local, val string) *xmltree.Node {
	n := xmltree.El(space, local)
	switch {
	case val == "":
	case len([]rune(val)) > 1 && g.r.Intn(6) == 0:
		rs := []rune(val)
		k := 1 + g.r.Intn(len(rs)-1)
		n.Add(xmltree.Txt(string(rs[:k])))
		if g.r.Intn(2) == 0 {
			n.Add(&xmltree.Node{Kind: xmltree.Comment, Data: " split "})
		}
		n.Add(xmltree.Txt(string(rs[k:])))
	default:
		n.Add(xmltree.Txt(val))
	}
	if g.r.Intn(15) == 0 {
		// an unexpected child element inside a character-data element
		n.Add(xmltree.El("urn:noise:1", "zz", xmltree.Txt("inner")))
	}
	return n
}

func (g *tgen) href() *xmltree.Node   { return g.leaf(davNS, "href", g.pick(hrefVals)) }
func (g *tgen) status() *xmltree.Node { return g.leaf(davNS, "status", g.pick(statusVals)) }

// deadProps returns k arbitrary property elements (random trees).
func (g *tgen) deadProps(k int) []*xmltree.Node {
	var l []*xmltree.Node
	for i := 0; i < k; i++ {
		tg := newTreeGen(g.r)
		if tg.budget > 25 {
			tg.budget = 25
		}
		l = append(l, tg.element(1, ""))
	}
	return l
}

// liveProps returns some typed property elements.
func (g *tgen) liveProps(k int) []*xmltree.Node {
	var l []*xmltree.Node
	for i := 0; i < k; i++ {
		sp := propSpecs[g.r.Intn(len(propSpecs))]
		l = append(l, sp.Gen(g))
	}
	return l
}

func (g *tgen) prop() *xmltree.Node {
	n := xmltree.El(davNS, "prop")
	kids := append(g.liveProps(g.r.Intn(4)), g.deadProps(g.r.Intn(3))...)
	g.r.Shuffle(len(kids), func(i, j int) { kids[i], kids[j] = kids[j], kids[i] })
	if g.r.Intn(3) == 0 {
		for _, k := range kids {
			n.Add(xmltree.Txt("\n  "), k)
		}
		n.Add(xmltree.Txt("\n"))
	} else {
		n.Add(kids...)
	}
	return n
}

func (g *tgen) errorEl() *xmltree.Node {
	n := xmltree.El(davNS, "error")
	switch g.r.Intn(3) {
	case 0:
		n.Add(xmltree.El(davNS, "lock-token-submitted", g.href()))
	case 1:
		n.Add(xmltree.El(calNS, "valid-calendar-data"))
	}
	n.Add(g.deadProps(g.r.Intn(2))...)
	return n
}

func (g *tgen) propstat(status string) *xmltree.Node {
	n := xmltree.El(davNS, "propstat", g.prop())
	if status != "" {
		n.Add(g.leaf(davNS, "status", status))
	} else {
		n.Add(g.status())
	}
	if g.r.Intn(5) == 0 {
		n.Add(g.leaf(davNS, "responsedescription", g.pick(textVals)))
	}
	if g.r.Intn(8) == 0 {
		n.Add(g.errorEl())
	}
	if g.r.Intn(4) == 0 {
		g.r.Shuffle(len(n.Children), func(i, j int) { n.Children[i], n.Children[j] = n.Children[j], n.Children[i] })
	}
	return n
}

func (g *tgen) response() *xmltree.Node {
	n := xmltree.El(davNS, "response")
	for i := 0; i < 1+g.r.Intn(2)*g.r.Intn(2); i++ {
		n.Add(g.href())
	}
	if g.r.Intn(4) == 0 {
		n.Add(g.status())
	} else {
		for i := 0; i < 1+g.r.Intn(2); i++ {
			n.Add(g.propstat(""))
		}
	}
	if g.r.Intn(6) == 0 {
		n.Add(g.leaf(davNS, "responsedescription", g.pick(textVals)))
	}
	if g.r.Intn(8) == 0 {
		n.Add(g.errorEl())
	}
	if g.r.Intn(8) == 0 {
		n.Add(xmltree.El(davNS, "location", g.href()))
	}
	return n
}

func (g *tgen) comp(depth int) *xmltree.Node {
	n := xmltree.El(calNS, "comp").With("name", g.pick(nameVals))
	if g.r.Intn(3) == 0 {
		n.Add(xmltree.El(calNS, "allprop"))
	}
	for i := 0; i < g.r.Intn(3); i++ {
		n.Add(xmltree.El(calNS, "prop").With("name", g.pick(nameVals)))
	}
	if g.r.Intn(4) == 0 {
		n.Add(xmltree.El(calNS, "allcomp"))
	}
	if depth < 3 {
		for i := 0; i < g.r.Intn(3); i++ {
			n.Add(g.comp(depth + 1))
		}
	}
	return n
}

var specs []*typeSpec
var propSpecs []*typeSpec
var specByName = map[string]*typeSpec{}

func addSpec(s *typeSpec) {
	specs = append(specs, s)
	specByName[s.Name] = s
	if s.IsProp {
		propSpecs = append(propSpecs, s)
	}
}

func init() {
	leafSpec := func(name, space, local string, vals []string, nw func() interface{}) {
		addSpec(&typeSpec{Name: name, Shape: "chardata-leaf", Space: space, Local: local, IsProp: true, New: nw,
			Gen: func(g *tgen) *xmltree.Node { return g.leaf(space, local, g.pick(vals)) }})
	}
	leafSpec("GetContentLength", davNS, "getcontentlength", lenVals, func() interface{} { return &internal.GetContentLength{} })
	leafSpec("GetContentType", davNS, "getcontenttype", ctypeVals, func() interface{} { return &internal.GetContentType{} })
	leafSpec("GetLastModified", davNS, "getlastmodified", dateVals, func() interface{} { return &internal.GetLastModified{} })
	leafSpec("GetETag", davNS, "getetag", etagVals, func() interface{} { return &internal.GetETag{} })
	leafSpec("DisplayName", davNS, "displayname", textVals, func() interface{} { return &internal.DisplayName{} })
	leafSpec("mirror:calendar-description", calNS, "calendar-description", textVals, func() interface{} { return &mCalendarDescription{} })
	leafSpec("mirror:max-resource-size", cardNS, "max-resource-size", lenVals, func() interface{} { return &mMaxResourceSize{} })
	leafSpec("mirror:address-data", cardNS, "address-data", textVals, func() interface{} { return &mAddressDataResp{} })

	addSpec(&typeSpec{Name: "ResourceType", Shape: "raw-container", Space: davNS, Local: "resourcetype", IsProp: true,
		New: func() interface{} { return &internal.ResourceType{} },
		Gen: func(g *tgen) *xmltree.Node {
			n := xmltree.El(davNS, "resourcetype")
			if g.r.Intn(2) == 0 {
				n.Add(xmltree.El(davNS, "collection"))
			}
			if g.r.Intn(3) == 0 {
				n.Add(xmltree.El(calNS, "calendar"))
			}
			if g.r.Intn(3) == 0 {
				n.Add(xmltree.El(cardNS, "addressbook"))
			}
			n.Add(g.deadProps(g.r.Intn(2))...)
			return n
		}})
	addSpec(&typeSpec{Name: "CurrentUserPrincipal", Shape: "struct", Space: davNS, Local: "current-user-principal", IsProp: true,
		New: func() interface{} { return &internal.CurrentUserPrincipal{} },
		Gen: func(g *tgen) *xmltree.Node {
			n := xmltree.El(davNS, "current-user-principal")
			switch g.r.Intn(4) {
			case 0:
				n.Add(xmltree.El(davNS, "unauthenticated"))
			case 1:
			default:
				n.Add(g.href())
			}
			return n
		}})
	addSpec(&typeSpec{Name: "mirror:calendar-home-set", Shape: "struct", Space: calNS, Local: "calendar-home-set", IsProp: true,
		New: func() interface{} { return &mCalendarHomeSet{} },
		Gen: func(g *tgen) *xmltree.Node {
			n := xmltree.El(calNS, "calendar-home-set")
			for i := 0; i < g.r.Intn(3); i++ {
				n.Add(g.href())
			}
			return n
		}})
	addSpec(&typeSpec{Name: "mirror:supported-calendar-component-set", Shape: "struct", Space: calNS, Local: "supported-calendar-component-set", IsProp: true,
		New: func() interface{} { return &mSupportedCalendarComponentSet{} },
		Gen: func(g *tgen) *xmltree.Node {
			n := xmltree.El(calNS, "supported-calendar-component-set")
			for i := 0; i < g.r.Intn(4); i++ {
				n.Add(g.comp(3))
			}
			return n
		}})
	addSpec(&typeSpec{Name: "mirror:supported-calendar-data", Shape: "struct", Space: calNS, Local: "supported-calendar-data", IsProp: true,
		New: func() interface{} { return &mSupportedCalendarData{} },
		Gen: func(g *tgen) *xmltree.Node {
			n := xmltree.El(calNS, "supported-calendar-data")
			for i := 0; i < g.r.Intn(3); i++ {
				e := xmltree.El(calNS, "calendar-data")
				if g.r.Intn(4) != 0 {
					e.With("content-type", g.pick(ctypeVals))
				}
				if g.r.Intn(3) != 0 {
					e.With("version", g.pick([]string{"2.0", "", "3.0"}))
				}
				n.Add(e)
			}
			return n
		}})
	addSpec(&typeSpec{Name: "mirror:calendar-data-request", Shape: "struct", Space: calNS, Local: "calendar-data", IsProp: true,
		New: func() interface{} { return &mCalendarDataReq{} },
		Gen: func(g *tgen) *xmltree.Node {
			n := xmltree.El(calNS, "calendar-data")
			if g.r.Intn(3) != 0 {
				n.Add(g.comp(0))
			}
			if g.r.Intn(3) == 0 {
				n.Add(xmltree.El(calNS, "expand").With("start", "20200101T000000Z", "end", g.pick([]string{"20210101T000000Z", "", "x"})))
			}
			return n
		}})
	addSpec(&typeSpec{Name: "mirror:text-match", Shape: "struct", Space: cardNS, Local: "text-match", IsProp: true,
		New: func() interface{} { return &mTextMatch{} },
		Gen: func(g *tgen) *xmltree.Node {
			n := g.leaf(cardNS, "text-match", g.pick(textVals))
			if g.r.Intn(2) == 0 {
				n.With("collation", g.pick([]string{"i;unicode-casemap", "i;octet", ""}))
			}
			if g.r.Intn(2) == 0 {
				n.With("negate-condition", g.pick([]string{"yes", "no", "maybe"}))
			}
			if g.r.Intn(2) == 0 {
				n.With("match-type", g.pick([]string{"equals", "contains", "starts-with", "ends-with"}))
			}
			return n
		}})

	addSpec(&typeSpec{Name: "Prop", Shape: "raw-container", Space: davNS, Local: "prop",
		New: func() interface{} { return &internal.Prop{} },
		Gen: func(g *tgen) *xmltree.Node { return g.prop() }})
	addSpec(&typeSpec{Name: "Include", Shape: "raw-container", Space: davNS, Local: "include",
		New: func() interface{} { return &internal.Include{} },
		Gen: func(g *tgen) *xmltree.Node {
			n := g.prop()
			n.Local = "include"
			return n
		}})
	addSpec(&typeSpec{Name: "Error", Shape: "raw-container", Space: davNS, Local: "error",
		New: func() interface{} { return &internal.Error{} },
		Gen: func(g *tgen) *xmltree.Node { return g.errorEl() }})
	addSpec(&typeSpec{Name: "Location", Shape: "struct", Space: davNS, Local: "location",
		New: func() interface{} { return &internal.Location{} },
		Gen: func(g *tgen) *xmltree.Node {
			n := xmltree.El(davNS, "location")
			if g.r.Intn(6) != 0 {
				n.Add(g.href())
			}
			return n
		}})
	addSpec(&typeSpec{Name: "Limit", Shape: "struct", Space: davNS, Local: "limit",
		New: func() interface{} { return &internal.Limit{} },
		Gen: func(g *tgen) *xmltree.Node {
			return xmltree.El(davNS, "limit", g.leaf(davNS, "nresults", g.pick([]string{"10", "0", "-1", "x", "", "4294967296", "18446744073709551616"})))
		}})
	addSpec(&typeSpec{Name: "PropStat", Shape: "struct", Space: davNS, Local: "propstat",
		New: func() interface{} { return &internal.PropStat{} },
		Gen: func(g *tgen) *xmltree.Node { return g.propstat("") }})
	addSpec(&typeSpec{Name: "Response", Shape: "struct", Space: davNS, Local: "response",
		New: func() interface{} { return &internal.Response{} },
		Gen: func(g *tgen) *xmltree.Node { return g.response() }})
	addSpec(&typeSpec{Name: "MultiStatus", Shape: "struct", Space: davNS, Local: "multistatus",
		New: func() interface{} { return &internal.MultiStatus{} },
		Gen: func(g *tgen) *xmltree.Node {
			n := xmltree.El(davNS, "multistatus")
			for i := 0; i < g.r.Intn(4); i++ {
				n.Add(g.response())
			}
			if g.r.Intn(4) == 0 {
				n.Add(g.leaf(davNS, "responsedescription", g.pick(textVals)))
			}
			if g.r.Intn(4) == 0 {
				n.Add(g.leaf(davNS, "sync-token", "http://example.com/ns/sync/1234"))
			}
			return n
		}})
	addSpec(&typeSpec{Name: "PropFind", Shape: "struct", Space: davNS, Local: "propfind",
		New: func() interface{} { return &internal.PropFind{} },
		Gen: func(g *tgen) *xmltree.Node {
			n := xmltree.El(davNS, "propfind")
			switch g.r.Intn(5) {
			case 0:
				n.Add(xmltree.El(davNS, "allprop"))
				if g.r.Intn(2) == 0 {
					inc := g.prop()
					inc.Local = "include"
					n.Add(inc)
				}
			case 1:
				n.Add(xmltree.El(davNS, "propname"))
			case 2:
			default:
				n.Add(g.prop())
			}
			return n
		}})
	addSpec(&typeSpec{Name: "PropertyUpdate", Shape: "struct", Space: davNS, Local: "propertyupdate",
		New: func() interface{} { return &internal.PropertyUpdate{} },
		Gen: func(g *tgen) *xmltree.Node {
			n := xmltree.El(davNS, "propertyupdate")
			for i := 0; i < g.r.Intn(4); i++ {
				n.Add(xmltree.El(davNS, g.pick([]string{"set", "remove"}), g.prop()))
			}
			return n
		}})
	addSpec(&typeSpec{Name: "Set", Shape: "struct", Space: davNS, Local: "set",
		New: func() interface{} { return &internal.Set{} },
		Gen: func(g *tgen) *xmltree.Node { return xmltree.El(davNS, "set", g.prop()) }})
	addSpec(&typeSpec{Name: "Remove", Shape: "struct", Space: davNS, Local: "remove",
		New: func() interface{} { return &internal.Remove{} },
		Gen: func(g *tgen) *xmltree.Node { return xmltree.El(davNS, "remove", g.prop()) }})
	addSpec(&typeSpec{Name: "SyncCollectionQuery", Shape: "struct", Space: davNS, Local: "sync-collection",
		New: func() interface{} { return &internal.SyncCollectionQuery{} },
		Gen: func(g *tgen) *xmltree.Node {
			n := xmltree.El(davNS, "sync-collection", g.leaf(davNS, "sync-token", g.pick([]string{"", "http://example.com/sync/1"})),
				g.leaf(davNS, "sync-level", g.pick([]string{"1", "infinite", ""})))
			if g.r.Intn(2) == 0 {
				n.Add(xmltree.El(davNS, "limit", g.leaf(davNS, "nresults", g.pick([]string{"10", "x", ""}))))
			}
			if g.r.Intn(5) != 0 {
				n.Add(g.prop())
			}
			return n
		}})
}

// genTyped builds a document tree for the type, occasionally under a wrong
// element name (both decoders must then fail alike).
func genTyped(r *rand.Rand, sp *typeSpec) *xmltree.Node {
	g := &tgen{r: r}
	n := sp.Gen(g)
	switch r.Intn(30) {
	case 0:
		n.Space = "urn:a"
	case 1:
		n.Local = n.Local + "x"
	case 2:
		n.Space = ""
	}
	if r.Intn(2) == 0 {
		decorateTyped(r, n)
	}
	return n
}

// decorateTyped adds noise a typed decoder must skip: attributes, comments,
// processing instructions, white space and elements from a namespace none of
// the typed structures uses.
func decorateTyped(r *rand.Rand, n *xmltree.Node) {
	if n.Kind != xmltree.Element {
		return
	}
	has := func(space, local string) bool {
		for _, a := range n.Attrs {
			if a.Space == space && a.Local == local {
				return true
			}
		}
		return false
	}
	if r.Intn(8) == 0 && !has("urn:noise:1", "z") {
		n.Attrs = append(n.Attrs, xmltree.Attr{Space: "urn:noise:1", Local: "z", Value: "noise"})
	}
	if r.Intn(12) == 0 && !has(xmlNS, "lang") {
		n.Attrs = append(n.Attrs, xmltree.Attr{Space: xmlNS, Local: "lang", Value: "en"})
	}
	var out []*xmltree.Node
	for _, c := range n.Children {
		if r.Intn(14) == 0 {
			out = append(out, &xmltree.Node{Kind: xmltree.Comment, Data: commentFrags[r.Intn(len(commentFrags))]})
		}
		if r.Intn(40) == 0 {
			out = append(out, &xmltree.Node{Kind: xmltree.ProcInst, Local: "pi", Data: "x"})
		}
		if r.Intn(30) == 0 {
			out = append(out, xmltree.El("urn:noise:1", "zz", xmltree.Txt("noise"), xmltree.El("", "unq")))
		}
		decorateTyped(r, c)
		out = append(out, c)
	}
	n.Children = out
}

// ---------------------------------------------------------------------------
// Value comparison: "yields exactly what decoding it directly yields".
// Raw values nested in typed values are compared as the trees their token
// streams denote (their own namespace declarations are not part of the tree).

var (
	rawType  = reflect.TypeOf(internal.RawXMLValue{})
	timeType = reflect.TypeOf(time.Time{})
)

func rawCanon(v *internal.RawXMLValue) string {
	o := readStream(v.TokenReader(), 1<<20)
	if o.Problem != "" || o.Tree == nil {
		return "!" + o.Problem + ":" + o.Detail
	}
	return o.Tree.Canon(cmp)
}

// eqValue returns "" when a and b are equal, else the path of the first
// difference.
func eqValue(a, b reflect.Value, path string) string {
	if a.Type() != b.Type() {
		return path + ": types differ"
	}
	t := a.Type()
	if t == rawType && a.CanAddr() && b.CanAddr() && a.CanInterface() {
		ca := rawCanon(a.Addr().Interface().(*internal.RawXMLValue))
		cb := rawCanon(b.Addr().Interface().(*internal.RawXMLValue))
		if ca != cb {
			return fmt.Sprintf("%s: raw values differ: %s vs %s", path, clip(ca, 200), clip(cb, 200))
		}
		return ""
	}
	if t.ConvertibleTo(timeType) && t.Kind() == reflect.Struct && a.CanInterface() {
		ta := a.Convert(timeType).Interface().(time.Time)
		tb := b.Convert(timeType).Interface().(time.Time)
		_, oa := ta.Zone()
		_, ob := tb.Zone()
		if !ta.Equal(tb) || oa != ob {
			return fmt.Sprintf("%s: %v vs %v", path, ta, tb)
		}
		return ""
	}
	switch a.Kind() {
	case reflect.Ptr, reflect.Interface:
		if a.IsNil() != b.IsNil() {
			return fmt.Sprintf("%s: nil=%v vs nil=%v", path, a.IsNil(), b.IsNil())
		}
		if a.IsNil() {
			return ""
		}
		return eqValue(a.Elem(), b.Elem(), path)
	case reflect.Struct:
		for i := 0; i < a.NumField(); i++ {
			if d := eqValue(a.Field(i), b.Field(i), path+"."+t.Field(i).Name); d != "" {
				return d
			}
		}
		return ""
	case reflect.Slice, reflect.Array:
		if a.Len() != b.Len() {
			return fmt.Sprintf("%s: len %d vs %d", path, a.Len(), b.Len())
		}
		for i := 0; i < a.Len(); i++ {
			if d := eqValue(a.Index(i), b.Index(i), fmt.Sprintf("%s[%d]", path, i)); d != "" {
				return d
			}
		}
		return ""
	case reflect.Bool:
		if a.Bool() != b.Bool() {
			return fmt.Sprintf("%s: %v vs %v", path, a.Bool(), b.Bool())
		}
	case reflect.Int, reflect.Int8, reflect.Int16, reflect.Int32, reflect.Int64:
		if a.Int() != b.Int() {
			return fmt.Sprintf("%s: %d vs %d", path, a.Int(), b.Int())
		}
	case reflect.Uint, reflect.Uint8, reflect.Uint16, reflect.Uint32, reflect.Uint64, reflect.Uintptr:
		if a.Uint() != b.Uint() {
			return fmt.Sprintf("%s: %d vs %d", path, a.Uint(), b.Uint())
		}
	case reflect.Float32, reflect.Float64:
		if a.Float() != b.Float() {
			return fmt.Sprintf("%s: %v vs %v", path, a.Float(), b.Float())
		}
	case reflect.String:
		if a.String() != b.String() {
			return fmt.Sprintf("%s: %q vs %q", path, clip(a.String(), 100), clip(b.String(), 100))
		}
	default:
		return path + ": kind " + a.Kind().String() + " not comparable by the harness"
	}
	return ""
}

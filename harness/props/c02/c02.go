// Package c02: refused or failed requests never change or destroy stored
// data. Purely observational: status >= 400 => directory snapshot unchanged.
package c02

import (
	"bytes"
	"context"
	"encoding/json"
	"errors"
	"fmt"
	"io"
	"io/ioutil"
	"net"
	"net/http"
	"os"
	"path/filepath"
	"strings"
	"time"

	"github.com/emersion/go-webdav"
	"github.com/emersion/go-webdav/verifharness/doubles"
	"github.com/emersion/go-webdav/verifharness/fw"
	"github.com/emersion/go-webdav/verifharness/model/davtree"
	"github.com/emersion/go-webdav/verifharness/props/fsx"
)

var mon = fsx.Monitors{Unchanged: true}

func run(c *fw.Ctx) {
	fsx.Explore(c, mon)
	fsx.Containment(c, mon)
	fsx.Histories(c, mon, c.Pick(64, 2000), c.Pick(80, 200))
	conditional(c)
	bodyFaults(c)
	tcpAborts(c)
	fsx.Interference(c, mon)
	cancelMatrix(c)
	permSlice(c)
	fsx.LinkSlice(c, mon)
	fsx.StagingNames(c, mon)
	fsx.WideCollections(c, mon)
}

// --- (b) conditional requests that must fail --------------------------------

func conditional(c *fw.Ctx) {
	e, err := fsx.NewEnv(c, mon, "cond")
	if err != nil {
		c.Inconclusive(err.Error())
		return
	}
	defer e.Close()
	tree := davtree.Tree{"/f": {Data: "old-content"}, "/d": {Dir: true}, "/d/x": {Data: "x"}}
	vals := []string{"", "*", "CURRENT", "STALE", `"other"`, "bare", `W/"weak"`, `"a", "b"`, `"unterminated`}
	idx := 0
	for _, target := range []string{"/f", "/d", "/absent"} {
		for _, method := range []string{"PUT", "DELETE"} {
			for _, im := range vals {
				for _, inm := range vals {
					idx++
					if !c.Mine(idx) {
						continue
					}
					if err := e.Materialise(tree); err != nil {
						c.Inconclusive(err.Error())
						return
					}
					cur, stale := "", ""
					if target != "/absent" {
						p := filepath.Join(e.Root, target)
						t0 := time.Unix(1500000000, 0)
						os.Chtimes(p, t0, t0)
						fi, _ := webdav.LocalFileSystem(e.Root).Stat(context.Background(), target)
						if fi != nil {
							stale = fmt.Sprintf("%q", fi.ETag)
						}
						t1 := time.Unix(1600000000, 0)
						os.Chtimes(p, t1, t1)
						fi, _ = webdav.LocalFileSystem(e.Root).Stat(context.Background(), target)
						if fi != nil {
							cur = fmt.Sprintf("%q", fi.ETag)
						}
					}
					subst := func(v string) string {
						switch v {
						case "CURRENT":
							return cur
						case "STALE":
							return stale
						}
						return v
					}
					var body io.Reader
					if method == "PUT" {
						body = strings.NewReader("new-content")
					}
					req, _ := http.NewRequest(method, "http://"+fsx.Host+target, body)
					if v := subst(im); v != "" {
						req.Header.Set("If-Match", v)
					}
					if v := subst(inm); v != "" {
						req.Header.Set("If-None-Match", v)
					}
					pre := e.Snap().Shape()
					c.Journal(map[string]string{"method": method, "target": target, "if_match": im, "if_none_match": inm})
					resp := e.Serve(req)
					post := e.Snap().Shape()
					c.JournalDone()
					c.Eval(1)
					c.Observe("conditional_status", fmt.Sprintf("%s %d", method, resp.Code), 1)
					if resp.Code >= 400 {
						c.Distinct(fmt.Sprintf("cond|%s|%s|im=%s|inm=%s|%d", method, target, im, inm, resp.Code))
						if post != pre {
							c.Report(fmt.Sprintf("%s|conditional|target=%s|if-match=%s|if-none-match=%s|status=%d|tree-changed", method, strings.TrimPrefix(target, "/"), im, inm, resp.Code),
								fmt.Sprintf("conditional %s answered %d but the tree changed", method, resp.Code),
								map[string]interface{}{"method": method, "target": target, "if_match": subst(im), "if_none_match": subst(inm), "status": resp.Code, "before": pre, "after": post})
						}
					}
				}
			}
		}
	}
}

// --- (c) PUT whose body breaks off ------------------------------------------

type faultReader struct {
	data []byte
	k    int // fail after k bytes
	pos  int
	err  error
	// onFail runs when the fault point is reached (cancels the request context)
	onFail func()
	// goOn: the body is healthy; only onFail happens at the fault point and
	// the remaining bytes are delivered up to EOF
	goOn  bool
	fired bool
}

func (f *faultReader) Read(p []byte) (int, error) {
	if f.pos >= f.k && !f.fired {
		f.fired = true
		if f.onFail != nil {
			f.onFail()
		}
		if !f.goOn {
			return 0, f.err
		}
	}
	if f.fired && !f.goOn {
		return 0, f.err
	}
	end := f.k
	if f.fired {
		end = len(f.data)
	}
	if f.pos >= end {
		return 0, io.EOF
	}
	n := copy(p, f.data[f.pos:end])
	f.pos += n
	return n, nil
}
func (f *faultReader) Close() error { return nil }

type faultCase struct {
	State   string `json:"state"` // absent | file-other | file-same-length | nested-file | nested-absent
	Cond    string `json:"cond"`  // none | if-match-current | if-none-match-other
	Len     int    `json:"len"`
	FailAt  int    `json:"fail_at"`
	Status  int    `json:"status,omitempty"`
	ErrKind string `json:"err_kind"`
}

func bodyFaults(c *fw.Ctx) {
	e, err := fsx.NewEnv(c, mon, "fault")
	if err != nil {
		c.Inconclusive(err.Error())
		return
	}
	defer e.Close()
	lens := []int{0, 1, 5, 4097}
	if c.Thorough() {
		lens = append(lens, 70000)
	}
	idx := 0
	for _, n := range lens {
		var offsets []int
		if n <= 5000 {
			for k := 0; k <= n; k++ {
				offsets = append(offsets, k)
			}
			if n == 4097 && !c.Thorough() {
				offsets = nil
				for k := 0; k <= n; k++ {
					if k < 40 || k%97 == 0 || k > n-40 || (k > 4090) {
						offsets = append(offsets, k)
					}
				}
			}
		} else {
			for b := 0; b <= n; b += 4096 {
				for _, d := range []int{-1, 0, 1} {
					if k := b + d; k >= 0 && k <= n {
						offsets = append(offsets, k)
					}
				}
			}
			offsets = append(offsets, n)
		}
		for _, state := range []string{"absent", "file-other", "file-same-length", "nested-file", "nested-absent"} {
			for _, cond := range []string{"none", "if-match-current", "if-none-match-other"} {
				if (state == "absent" || state == "nested-absent") && cond != "none" {
					continue
				}
				if (cond == "if-none-match-other" && state != "nested-file") || (cond == "if-match-current" && state == "nested-file") {
					continue
				}
				for _, k := range offsets {
					for _, ek := range []string{"unexpected-eof", "other", "context-canceled", "context-canceled-body-healthy", "max-bytes"} {
						if ek == "max-bytes" && k >= n {
							continue // the limit is not exceeded
						}
						idx++
						if !c.Mine(idx) {
							continue
						}
						execFault(c, e, faultCase{State: state, Cond: cond, Len: n, FailAt: k, ErrKind: ek})
					}
				}
			}
		}
	}
}

func execFault(c *fw.Ctx, e *fsx.Env, fc faultCase) {
	data := make([]byte, fc.Len)
	for i := range data {
		data[i] = byte('A' + i%23)
	}
	tree := davtree.Tree{"/keep": {Data: "keep"}}
	target := "/t"
	switch fc.State {
	case "file-other":
		tree["/t"] = davtree.Node{Data: "previous content of another length!"}
	case "file-same-length":
		tree["/t"] = davtree.Node{Data: strings.Repeat("z", fc.Len)}
	case "nested-file", "nested-absent":
		// the target two levels down, among siblings whose names start with or
		// extend its own, served through another spelling of the root
		target = "/dir/sub/t"
		tree["/dir"] = davtree.Node{Dir: true}
		tree["/dir/sub"] = davtree.Node{Dir: true}
		tree["/dir/sub/t.bak"] = davtree.Node{Data: "sibling t.bak"}
		tree["/dir/sub/t~"] = davtree.Node{Data: "sibling t~"}
		tree["/dir/sub/.t.swp"] = davtree.Node{Data: "sibling .t.swp"}
		tree["/dir/sub/.webdav-put-x"] = davtree.Node{Data: "sibling .webdav-put-x"}
		tree["/dir/t"] = davtree.Node{Data: "a t one level up"}
		if fc.State == "nested-file" {
			tree[target] = davtree.Node{Data: "previous content of another length!"}
		}
		c.Observe("put_fault_root_spelling", e.UseRootSpelling(fc.FailAt+fc.Len), 1)
		defer e.UseRootSpelling(-1)
	}
	if err := e.Materialise(tree); err != nil {
		c.Inconclusive(err.Error())
		return
	}
	req, _ := http.NewRequest("PUT", "http://"+fsx.Host+target, strings.NewReader(string(data)))
	sreq, err := doubles.ServerRequest(req)
	if err != nil {
		c.Inconclusive(err.Error())
		return
	}
	ferr := io.ErrUnexpectedEOF
	var onFail func()
	switch fc.ErrKind {
	case "other":
		ferr = errors.New("verif: injected body read error")
	case "context-canceled":
		// the request context is cancelled while the body is being read
		ferr = context.Canceled
		ctx, cancel := context.WithCancel(sreq.Context())
		sreq = sreq.WithContext(ctx)
		defer cancel()
		onFail = cancel
	}
	goOn := false
	if fc.ErrKind == "context-canceled-body-healthy" {
		// the request context is cancelled (at offset 0: before the handler
		// reads anything) while the body itself stays readable to its end
		ctx, cancel := context.WithCancel(sreq.Context())
		sreq = sreq.WithContext(ctx)
		defer cancel()
		onFail, goOn = cancel, true
		if fc.FailAt == 0 {
			cancel()
		}
	}
	sreq.Body = &faultReader{data: data, k: fc.FailAt, err: ferr, onFail: onFail, goOn: goOn}
	if fc.ErrKind == "max-bytes" {
		// the embedding server limits uploads the net/http way: the body
		// fails with *http.MaxBytesError once FailAt bytes have been read
		sreq.Body = http.MaxBytesReader(nil, ioutil.NopCloser(bytes.NewReader(data)), int64(fc.FailAt))
	}
	sreq.ContentLength = int64(fc.Len)
	if fc.Cond == "if-match-current" {
		if fi, _ := webdav.LocalFileSystem(e.Root).Stat(context.Background(), target); fi != nil {
			sreq.Header.Set("If-Match", fmt.Sprintf("%q", fi.ETag))
		}
	}
	if fc.Cond == "if-none-match-other" {
		sreq.Header.Set("If-None-Match", `"some-other-tag"`)
	}
	pre := e.Snap().Shape()
	c.Journal(fc)
	resp := e.ServeServerSide(sreq)
	post := e.Snap().Shape()
	c.JournalDone()
	c.Eval(1)
	fc.Status = resp.Code
	c.Observe("put_fault_status", fmt.Sprint(resp.Code), 1)
	offClass := "mid"
	switch {
	case fc.FailAt == 0:
		offClass = "0"
	case fc.FailAt == fc.Len:
		offClass = "end"
	case fc.FailAt%4096 <= 1 || fc.FailAt%4096 == 4095:
		offClass = "4k-boundary"
	}
	c.Distinct(fmt.Sprintf("fault|%s|%s|%s|%s", fc.State, fc.Cond, offClass, fc.ErrKind))
	c.Observe("put_fault_offsets", fmt.Sprintf("len=%d", fc.Len), 1)
	if c.WantSample() && fc.FailAt > 0 && fc.State != "absent" {
		c.Sample(fc)
	}
	if resp.Panicked {
		c.Report("PUT|body-fault|panic|"+fw.PanicSite(resp.Stack), "handler panicked on a failing request body: "+resp.PanicVal, fc)
		return
	}
	if resp.Code >= 400 && post != pre {
		st := "absent"
		if fc.State != "absent" && fc.State != "nested-absent" {
			st = "file"
		}
		kind, what := "body-read-error", "whose body broke off"
		if fc.ErrKind == "context-canceled-body-healthy" {
			kind, what = "context-cancelled-body-healthy", "whose request context was cancelled (body readable to its end)"
		}
		c.Report(fmt.Sprintf("PUT|target=%s|%s|status=%d|tree-changed", st, kind, resp.Code),
			fmt.Sprintf("PUT %s after %d of %d bytes answered %d but the tree changed", what, fc.FailAt, fc.Len, resp.Code),
			map[string]interface{}{"case": fc, "before": pre, "after": post})
	}
}

// --- (d) the same over real TCP: the client aborts the connection -----------

func tcpAborts(c *fw.Ctx) {
	if c.Shard != 0 {
		return
	}
	e, err := fsx.NewEnv(c, mon, "tcp")
	if err != nil {
		c.Inconclusive(err.Error())
		return
	}
	defer e.Close()
	ln, err := net.Listen("tcp", "127.0.0.1:0")
	if err != nil {
		c.Note("tcp_abort_slice", "skipped: cannot listen: "+err.Error())
		return
	}
	srv := &http.Server{Handler: e.H}
	go srv.Serve(ln)
	defer srv.Close()
	total := 20000
	offsets := []int{0, 1, 100, 4095, 4096, 4097, 10000, 19999}
	if !c.Thorough() {
		offsets = []int{0, 100, 4096, 19999}
	}
	old := "previous content"
	full := strings.Repeat("N", total)
	for _, k := range offsets {
		tree := davtree.Tree{"/t": {Data: old}}
		if err := e.Materialise(tree); err != nil {
			c.Inconclusive(err.Error())
			return
		}
		conn, err := net.Dial("tcp", ln.Addr().String())
		if err != nil {
			c.Inconclusive("dial: " + err.Error())
			return
		}
		fmt.Fprintf(conn, "PUT /t HTTP/1.1\r\nHost: %s\r\nContent-Length: %d\r\n\r\n", fsx.Host, total)
		conn.Write([]byte(full[:k]))
		// abort: close without sending the rest; the server's body read fails
		if tc, ok := conn.(*net.TCPConn); ok {
			tc.CloseWrite()
		}
		conn.SetReadDeadline(time.Now().Add(30 * time.Second))
		respBytes, _ := ioutil.ReadAll(conn)
		conn.Close()
		// The handler has returned once the server closed the connection
		// (ReadAll saw EOF); the snapshot is therefore taken at quiescence.
		post := e.Snap()
		c.Eval(1)
		status := 0
		if len(respBytes) > 12 && strings.HasPrefix(string(respBytes), "HTTP/1.") {
			fmt.Sscanf(string(respBytes[9:12]), "%d", &status)
		}
		c.Observe("tcp_abort_status", fmt.Sprint(status), 1)
		c.Distinct(fmt.Sprintf("tcp-abort|k=%d", k))
		got, exists := post["t"]
		switch {
		case status >= 400:
			if !exists || got.Data != old {
				c.Report(fmt.Sprintf("PUT|target=file|connection-aborted|status=%d|tree-changed", status),
					fmt.Sprintf("PUT over TCP aborted after %d of %d bytes answered %d but the old file is gone or altered", k, total, status),
					map[string]interface{}{"fail_at": k, "len": total, "status": status, "exists": exists})
			}
		case status == 0:
			// no answer was produced: the weaker rule — the old tree or the complete new file
			if exists && got.Data != old && got.Data != full {
				c.Observe("tcp_abort_no_status", "partial-file-left", 1)
			}
		}
	}
	c.Note("tcp_abort_slice", fmt.Sprintf("%d aborted uploads over loopback TCP", len(offsets)))
}

func init() {
	fw.Register(&fw.Property{
		ID:    "C02",
		Level: "fault_enumeration",
		Run:   run,
		Replay: func(c *fw.Ctx, w json.RawMessage) {
			var cprobe struct {
				Cancel *cancelCase `json:"cancel"`
			}
			if json.Unmarshal(w, &cprobe) == nil && cprobe.Cancel != nil {
				e, err := fsx.NewEnv(c, mon, "replay")
				if err == nil {
					defer e.Close()
					execCancel(c, e, *cprobe.Cancel)
				}
				return
			}
			var probe struct {
				Case *faultCase `json:"case"`
			}
			if json.Unmarshal(w, &probe) == nil && probe.Case != nil {
				e, err := fsx.NewEnv(c, mon, "replay")
				if err == nil {
					defer e.Close()
					execFault(c, e, *probe.Case)
				}
				return
			}
			fsx.ReplayWitness(c, mon, w)
		},
		Rule: "every request of the C01 exploration (385 trees x all single requests, plus random histories) with a directory snapshot before/after: status>=400 => names, kinds and file bytes unchanged; plus 486 conditional PUT/DELETE combinations, plus a PUT body-fault matrix (body reader failing after k bytes for every k of lengths {0,1,5,4097} (thorough: +70000 on 4 KiB boundaries +-1) x {absent, existing other content, existing same length} x {no header, If-Match current} x 4 error kinds), plus uploads aborted over real TCP, plus a cancellation matrix: ~260 requests (COPY/MOVE over source x destination kind x Overwrite x Depth, DELETE, MKCOL, PUT, PROPFIND, GET on one mixed tree) each run with a context that reports cancelled from its k-th look (Err/Done call) on, for every k up to the number of looks the request makes (k = 0: cancelled before the handler starts). " +
			"The exploration also sends its mutating requests with ~30 families of header fields the unchanged server may ignore or honour (Content-MD5 / Digest / Content-Digest / OC-Checksum matching the body or not, Content-Range, Content-Encoding, If-(Un)modified-Since, If-Range, the If and Lock-Token fields, method overrides, Overwrite/Depth on methods they are not defined for, form media types...); the fault matrix also has a nested target among prefix-named siblings under non-canonical root spellings and an If-None-Match that holds; a slice whose collections hold members named like the server's own staging entries (complete and breaking uploads, COPY/MOVE onto existing and new destinations); a wide-collection slice. " +
			"distinct_nontrivial counts distinct (method, abstract request/tree class, refusal status) and fault-matrix cells that ended >= 400.",
		Assumptions: []string{
			"a response that was never produced (connection gone) carries no obligation; 1xx/2xx/3xx responses carry none either",
			"only names, kinds and file contents are compared (the statement's resource tree), not mtimes or inode numbers",
		},
		MinEvals:    func(t string) int64 { return 100000 },
		MinDistinct: func(t string) int64 { return 200 },
	})
}

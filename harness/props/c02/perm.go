package c02

import (
	"bufio"
	"fmt"
	"io/ioutil"
	"net/http"
	"os"
	"os/exec"
	"path/filepath"
	"strings"
	"syscall"
	"time"

	"github.com/emersion/go-webdav/verifharness/fw"
	dirmon "github.com/emersion/go-webdav/verifharness/mon"
)

// --- (g) operations that fail half-way for a reason the tree itself holds ----
//
// The server runs as an unprivileged user (uid 65534) over a tree in which
// some members cannot be read, some directories cannot be written: the
// everyday reason for a COPY, MOVE, DELETE, PUT or MKCOL to fail after it has
// started. The snapshots are taken by the harness (as root, which can read
// everything); the oracle is the statement's: status >= 400 => names, kinds
// and contents unchanged. Skipped (and said so) when the check does not run
// as root or the davserver binary is missing.

type permReq struct {
	Label     string `json:"label"`
	Method    string `json:"method"`
	Path      string `json:"path"`
	Dest      string `json:"dest,omitempty"`
	Overwrite string `json:"overwrite,omitempty"`
	Depth     string `json:"depth,omitempty"`
}

func permRequests() []permReq {
	return []permReq{
		{"copy-coll-with-unreadable-member-to-new", "COPY", "/src", "/new", "", ""},
		{"copy-coll-with-unreadable-member-onto-coll", "COPY", "/src", "/dst", "T", ""},
		{"copy-coll-with-unreadable-member-onto-coll-no-overwrite", "COPY", "/src", "/dst", "F", ""},
		{"copy-coll-with-unreadable-member-onto-file", "COPY", "/src", "/dstfile", "T", ""},
		{"copy-coll-depth0-onto-coll", "COPY", "/src", "/dst", "T", "0"},
		{"copy-unreadable-file-onto-file", "COPY", "/secretfile", "/dstfile", "T", ""},
		{"copy-unreadable-file-onto-coll", "COPY", "/secretfile", "/dst", "T", ""},
		{"copy-unreadable-file-to-new", "COPY", "/secretfile", "/new2", "", ""},
		{"copy-unreadable-member-onto-file", "COPY", "/src/b.txt", "/dst/old.txt", "", ""},
		{"copy-file-into-readonly-coll", "COPY", "/dstfile", "/rodir/new", "", ""},
		{"copy-file-onto-file-in-readonly-coll", "COPY", "/dstfile", "/rodir/f.txt", "T", ""},
		{"copy-coll-into-readonly-coll", "COPY", "/dst", "/rodir/newdir", "", ""},
		{"move-coll-into-readonly-coll", "MOVE", "/src", "/rodir/x", "", ""},
		{"move-file-onto-file-in-readonly-coll", "MOVE", "/dstfile", "/rodir/f.txt", "T", ""},
		{"move-file-out-of-readonly-coll-onto-file", "MOVE", "/rodir/f.txt", "/dstfile", "T", ""},
		{"move-file-out-of-readonly-coll-onto-coll", "MOVE", "/rodir/f.txt", "/dst", "T", ""},
		{"move-coll-with-unreadable-member-onto-coll", "MOVE", "/src", "/dst", "T", ""},
		{"move-readonly-coll-onto-coll", "MOVE", "/rodir", "/dst", "T", ""},
		{"copy-coll-onto-coll-with-undeletable-member", "COPY", "/dst", "/del", "T", ""},
		{"copy-file-onto-coll-with-undeletable-member", "COPY", "/dstfile", "/del", "T", ""},
		{"move-coll-onto-coll-with-undeletable-member", "MOVE", "/dst", "/del", "T", ""},
		{"move-file-onto-undeletable-file", "MOVE", "/dstfile", "/del/locked/z.txt", "T", ""},
		{"copy-file-onto-undeletable-file", "COPY", "/dstfile", "/del/locked/z.txt", "T", ""},
		{"move-coll-with-undeletable-member-to-new", "MOVE", "/del", "/moved", "", ""},
		{"move-undeletable-file-to-new", "MOVE", "/del/locked/z.txt", "/z-moved", "", ""},
		{"delete-coll-with-undeletable-member", "DELETE", "/del", "", "", ""},
		{"delete-file-in-readonly-coll", "DELETE", "/rodir/f.txt", "", "", ""},
		{"delete-readonly-coll", "DELETE", "/rodir", "", "", ""},
		{"delete-coll-with-unreadable-member", "DELETE", "/src", "", "", ""},
		{"put-new-in-readonly-coll", "PUT", "/rodir/new", "", "", ""},
		{"put-replace-in-readonly-coll", "PUT", "/rodir/f.txt", "", "", ""},
		{"put-replace-unreadable-file", "PUT", "/secretfile", "", "", ""},
		{"put-replace-unreadable-member", "PUT", "/src/b.txt", "", "", ""},
		{"mkcol-in-readonly-coll", "MKCOL", "/rodir/newdir", "", "", ""},
		{"mkcol-in-writable-coll", "MKCOL", "/dst/newdir", "", "", ""},
		{"propfind-infinity", "PROPFIND", "/", "", "", "infinity"},
		{"get-unreadable-file", "GET", "/secretfile", "", "", ""},
	}
}

func permSlice(c *fw.Ctx) {
	if c.Shard != 0 {
		return
	}
	bin := os.Getenv("VHARNESS_DAVSERVER")
	if os.Geteuid() != 0 || bin == "" {
		c.Note("permission_slice", "skipped: needs root (to drop to an unprivileged uid) and the davserver binary")
		return
	}
	base := filepath.Join(c.WorkDir, "c02-perm-sandbox")
	root := filepath.Join(base, "served")
	unlock := func() {
		filepath.Walk(base, func(p string, fi os.FileInfo, err error) error {
			if err == nil {
				os.Chmod(p, 0755)
			}
			return nil
		})
	}
	defer func() { unlock(); os.RemoveAll(base) }()
	for p := filepath.Dir(base); p != "/" && p != "."; p = filepath.Dir(p) {
		// every ancestor must be traversable by the unprivileged user
		if fi, err := os.Stat(p); err == nil && fi.Mode().Perm()&0005 != 0005 && strings.HasPrefix(p, filepath.Dir(c.WorkDir)) {
			os.Chmod(p, fi.Mode().Perm()|0055)
		}
	}
	const nobody = 65534
	mk := func(rel string, dir bool, data string, mode os.FileMode, own bool) {
		p := filepath.Join(root, rel)
		if dir {
			os.MkdirAll(p, 0755)
		} else {
			os.MkdirAll(filepath.Dir(p), 0755)
			ioutil.WriteFile(p, []byte(data), 0644)
		}
		if own {
			os.Chown(p, nobody, nobody)
		}
		os.Chmod(p, mode)
	}
	build := func() {
		unlock()
		os.RemoveAll(root)
		os.MkdirAll(root, 0755)
		os.Chmod(base, 0755)
		mk("", true, "", 0755, true)
		mk("src", true, "", 0755, true)
		mk("src/a.txt", false, "content a", 0644, true)
		mk("src/b.txt", false, "content b (unreadable)", 0000, false)
		mk("src/c.txt", false, "content c", 0644, true)
		mk("src/sub", true, "", 0755, true)
		mk("src/sub/d.txt", false, "content d", 0644, true)
		mk("secretfile", false, "secret", 0000, false)
		mk("dst", true, "", 0755, true)
		mk("dst/old.txt", false, "old content of the destination", 0644, true)
		mk("dstfile", false, "old destination file", 0644, true)
		mk("del", true, "", 0755, true)
		mk("del/a.txt", false, "deletable", 0644, true)
		mk("del/locked", true, "", 0755, false)
		mk("del/locked/z.txt", false, "cannot be unlinked", 0644, false)
		os.Chmod(filepath.Join(root, "del/locked"), 0555)
		mk("del/m.txt", false, "deletable too", 0644, true)
		mk("rodir", true, "", 0755, false)
		mk("rodir/f.txt", false, "file in a read-only collection", 0644, false)
		os.Chmod(filepath.Join(root, "rodir"), 0555)
	}
	build()
	// the unprivileged user must be able to execute the binary wherever the
	// harness was built: run a world-readable copy from the sandbox
	if b, err := ioutil.ReadFile(bin); err == nil {
		cp := filepath.Join(base, "davserver-copy")
		if ioutil.WriteFile(cp, b, 0755) == nil && os.Chmod(cp, 0755) == nil {
			bin = cp
		}
	}
	cmd := exec.Command(bin, root)
	cmd.SysProcAttr = &syscall.SysProcAttr{Credential: &syscall.Credential{Uid: nobody, Gid: nobody}}
	out, _ := cmd.StdoutPipe()
	if err := cmd.Start(); err != nil {
		c.Note("permission_slice", "skipped: cannot start davserver as uid 65534: "+err.Error())
		return
	}
	defer func() { cmd.Process.Kill(); cmd.Wait() }()
	lineCh := make(chan string, 1)
	go func() {
		sc := bufio.NewScanner(out)
		if sc.Scan() {
			lineCh <- sc.Text()
		} else {
			lineCh <- ""
		}
	}()
	addr := ""
	select {
	case l := <-lineCh:
		addr = strings.TrimPrefix(l, "LISTEN ")
	case <-time.After(60 * time.Second):
	}
	if addr == "" {
		c.Note("permission_slice", "skipped: davserver did not report its address")
		return
	}
	hc := &http.Client{Timeout: 120 * time.Second}
	statuses := map[string]int{}
	n := 0
	for _, r := range permRequests() {
		build()
		pre, err := dirmon.Snapshot(root)
		if err != nil {
			c.Inconclusive("permission slice: snapshot: " + err.Error())
			return
		}
		var req *http.Request
		if r.Method == "PUT" {
			req, _ = http.NewRequest(r.Method, "http://"+addr+r.Path, strings.NewReader("new data written by PUT"))
		} else {
			req, _ = http.NewRequest(r.Method, "http://"+addr+r.Path, nil)
		}
		if r.Dest != "" {
			req.Header.Set("Destination", r.Dest)
		}
		if r.Overwrite != "" {
			req.Header.Set("Overwrite", r.Overwrite)
		}
		if r.Depth != "" {
			req.Header.Set("Depth", r.Depth)
		}
		c.Journal(map[string]interface{}{"permission_slice": r})
		resp, err := hc.Do(req)
		c.JournalDone()
		if err != nil {
			c.Inconclusive("permission slice: request failed: " + err.Error())
			return
		}
		b, _ := ioutil.ReadAll(resp.Body)
		resp.Body.Close()
		post, err := dirmon.Snapshot(root)
		if err != nil {
			c.Inconclusive("permission slice: snapshot: " + err.Error())
			return
		}
		c.Eval(1)
		n++
		statuses[fmt.Sprintf("%s %d", r.Method, resp.StatusCode)]++
		c.Observe("permission_slice_status", fmt.Sprintf("%s -> %d", r.Label, resp.StatusCode), 1)
		if resp.StatusCode >= 400 {
			c.Distinct(fmt.Sprintf("perm|%s|%d", r.Label, resp.StatusCode))
			if pre.Shape() != post.Shape() {
				c.Report(fmt.Sprintf("permission-slice|%s|%s|status=%d|tree-changed", r.Method, r.Label, resp.StatusCode),
					fmt.Sprintf("%s %s (Destination %q) on a tree with unreadable / read-only members answered %d but the tree changed: %v", r.Method, r.Path, r.Dest, resp.StatusCode, dirmon.Diff(pre, post, false)),
					map[string]interface{}{"request": r, "status": resp.StatusCode, "body": string(b), "diff": dirmon.Diff(pre, post, false)})
			}
		}
	}
	c.Note("permission_slice", fmt.Sprintf("active: %d requests to a davserver running as uid 65534 over a tree with unreadable members and read-only collections; statuses %v", n, statuses))
}

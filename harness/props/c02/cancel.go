package c02

import (
	"context"
	"fmt"
	"net/http"
	"strings"
	"sync"
	"time"

	"github.com/emersion/go-webdav/verifharness/fw"
	"github.com/emersion/go-webdav/verifharness/model/davtree"
	"github.com/emersion/go-webdav/verifharness/props/fsx"
)

// --- (f) the request context is cancelled at the k-th look -------------------
//
// Cancellation has no offset of its own: what matters is the moment the code
// looks at the context (Err or Done). pollCtx counts the looks and reports
// "cancelled" from look number k+1 on, so that every point at which the
// serving code can notice a cancellation is visited: a first run with k = -1
// (never cancelled) counts the looks P of the request, then k = 0..P-1 are
// run. k = 0 is a context that is already cancelled when the handler starts.
// The oracle is the statement's: status >= 400 => tree unchanged.

type pollCtx struct {
	mu     sync.Mutex
	looks  int
	k      int // cancelled from look k+1 on; < 0: never
	closed bool
	done   chan struct{}
}

func newPollCtx(k int) *pollCtx { return &pollCtx{k: k, done: make(chan struct{})} }

func (p *pollCtx) look() bool {
	p.mu.Lock()
	defer p.mu.Unlock()
	p.looks++
	if p.k >= 0 && p.looks > p.k && !p.closed {
		p.closed = true
		close(p.done)
	}
	return p.closed
}

func (p *pollCtx) Deadline() (time.Time, bool)       { return time.Time{}, false }
func (p *pollCtx) Value(key interface{}) interface{} { return nil }
func (p *pollCtx) Done() <-chan struct{}             { p.look(); return p.done }
func (p *pollCtx) Err() error {
	if p.look() {
		return context.Canceled
	}
	return nil
}
func (p *pollCtx) Looks() int { p.mu.Lock(); defer p.mu.Unlock(); return p.looks }

type cancelCase struct {
	Method    string `json:"method"`
	Path      string `json:"path"`
	Dest      string `json:"dest,omitempty"`
	Overwrite string `json:"overwrite,omitempty"`
	Depth     string `json:"depth,omitempty"`
	Body      string `json:"body,omitempty"`
	K         int    `json:"cancel_at_look"`
	Status    int    `json:"status,omitempty"`
	Looks     int    `json:"looks,omitempty"`
}

var cancelTree = davtree.Tree{
	"/f": {Data: "file f"}, "/g": {Data: "file g, other content"}, "/z": {Data: ""},
	"/d": {Dir: true}, "/d/x": {Data: "x"}, "/d/sub": {Dir: true}, "/d/sub/y": {Data: "yy"}, "/d/sub/e": {Dir: true},
	"/e": {Dir: true},
	"/t": {Dir: true}, "/t/old": {Data: "old member"}, "/t/x": {Data: "another x"},
}

func cancelCases() []cancelCase {
	var l []cancelCase
	for _, m := range []string{"COPY", "MOVE"} {
		for _, src := range []string{"/f", "/z", "/d", "/e", "/absent"} {
			for _, dst := range []string{"/g", "/z", "/t", "/e", "/new", "/d/sub/new", "/nodir/new"} {
				if src == dst {
					continue
				}
				for _, ow := range []string{"", "T", "F"} {
					l = append(l, cancelCase{Method: m, Path: src, Dest: dst, Overwrite: ow})
					if m == "COPY" && (src == "/d" || src == "/e") {
						l = append(l, cancelCase{Method: m, Path: src, Dest: dst, Overwrite: ow, Depth: "0"})
					}
				}
			}
		}
	}
	for _, p := range []string{"/f", "/d", "/e", "/d/sub", "/absent"} {
		l = append(l, cancelCase{Method: "DELETE", Path: p})
	}
	for _, p := range []string{"/new", "/d/new", "/f", "/nodir/new"} {
		l = append(l, cancelCase{Method: "MKCOL", Path: p})
	}
	for _, p := range []string{"/f", "/z", "/new", "/d/new", "/d", "/nodir/new"} {
		l = append(l, cancelCase{Method: "PUT", Path: p, Body: "uploaded while the context goes away"})
		l = append(l, cancelCase{Method: "PUT", Path: p, Body: ""})
	}
	for _, p := range []string{"/", "/d", "/f"} {
		l = append(l, cancelCase{Method: "PROPFIND", Path: p, Depth: "infinity"}, cancelCase{Method: "GET", Path: p})
	}
	return l
}

func cancelMatrix(c *fw.Ctx) {
	e, err := fsx.NewEnv(c, mon, "cancel")
	if err != nil {
		c.Inconclusive(err.Error())
		return
	}
	defer e.Close()
	const maxLooks = 64
	for i, cc := range cancelCases() {
		if !c.Mine(i) {
			continue
		}
		cc.K = -1
		looks := execCancel(c, e, cc)
		if looks > maxLooks {
			c.Observe("cancel_looks_capped", fmt.Sprintf("%s: %d looks, first %d visited", cc.Method, looks, maxLooks), 1)
			looks = maxLooks
		}
		// k = 0 is always run: a context cancelled before the handler starts
		for k := 0; k < looks || k == 0; k++ {
			cc.K = k
			execCancel(c, e, cc)
		}
	}
}

func execCancel(c *fw.Ctx, e *fsx.Env, cc cancelCase) int {
	if err := e.Materialise(cancelTree); err != nil {
		c.Inconclusive(err.Error())
		return 0
	}
	var body *strings.Reader
	req, err := http.NewRequest(cc.Method, "http://"+fsx.Host+cc.Path, nil)
	if cc.Method == "PUT" {
		body = strings.NewReader(cc.Body)
		req, err = http.NewRequest(cc.Method, "http://"+fsx.Host+cc.Path, body)
	}
	if err != nil {
		c.Inconclusive(err.Error())
		return 0
	}
	if cc.Dest != "" {
		req.Header.Set("Destination", cc.Dest)
	}
	if cc.Overwrite != "" {
		req.Header.Set("Overwrite", cc.Overwrite)
	}
	if cc.Depth != "" {
		req.Header.Set("Depth", cc.Depth)
	}
	ctx := newPollCtx(cc.K)
	req = req.WithContext(ctx)
	pre := e.Snap().Shape()
	c.Journal(cc)
	resp := e.Serve(req)
	post := e.Snap().Shape()
	c.JournalDone()
	c.Eval(1)
	cc.Status, cc.Looks = resp.Code, ctx.Looks()
	when := "never"
	switch {
	case cc.K == 0:
		when = "before-start"
	case cc.K > 0:
		when = "at-a-later-look"
	}
	c.Observe("cancel_status", fmt.Sprintf("%s cancelled %s -> %d", cc.Method, when, resp.Code), 1)
	c.Observe("cancel_looks", fmt.Sprintf("%s looks at its context %s times", cc.Method, bucketLooks(cc.Looks)), 1)
	if resp.Panicked {
		c.Report("context-cancelled|"+cc.Method+"|panic|"+fw.PanicSite(resp.Stack), "handler panicked: "+resp.PanicVal, map[string]interface{}{"cancel": cc})
		return cc.Looks
	}
	if resp.Code >= 400 {
		c.Distinct(fmt.Sprintf("cancel|%s|%s|%s|ow=%s|%s|%d", cc.Method, cc.Path, cc.Dest, cc.Overwrite, when, resp.Code))
		if post != pre {
			c.Report(fmt.Sprintf("%s|context-cancelled-%s|dest=%s|ow=%s|status=%d|tree-changed", cc.Method, when, kindIn(cancelTree, cc.Dest), cc.Overwrite, resp.Code),
				fmt.Sprintf("%s %s answered %d with its context cancelled (%s, look %d) but the tree changed", cc.Method, cc.Path, resp.Code, when, cc.K),
				map[string]interface{}{"cancel": cc, "before": pre, "after": post})
		}
	}
	return cc.Looks
}

func bucketLooks(n int) string {
	switch {
	case n == 0:
		return "0"
	case n <= 2:
		return "1-2"
	case n <= 8:
		return "3-8"
	}
	return ">8"
}

func kindIn(t davtree.Tree, p string) string {
	if p == "" {
		return "none"
	}
	n, ok := t[p]
	switch {
	case !ok:
		return "absent"
	case n.Dir:
		return "coll"
	}
	return "file"
}

package fsx

import (
	"fmt"
	"net/http"
	"os"
	"path/filepath"
	"sort"
	"strings"
	"time"

	"github.com/emersion/go-webdav/verifharness/davx"
	"github.com/emersion/go-webdav/verifharness/model/davtree"
	"github.com/emersion/go-webdav/verifharness/xmltree"
)

// The request-body dimension of PROPFIND: which property names a <prop>
// request asks for and which namespaces they live in. The file server stores
// no dead properties (PROPPATCH is refused), so what a resource "stores" in the
// sense of the statement is its kind, its bytes and its modification time, and
// what PROPFIND may report under 200 are the DAV: live properties derived from
// them. A name in any other namespace - however close its spelling is to
// "DAV:" - names nothing that is stored.

const foreignNS = "urn:verif:q7x9z:props"

// PropNameSets are the named sets of davtree.Req.PropBody "names:<set>".
var PropNameSets = map[string][][2]string{
	// namespaces that differ from DAV: in letter case, by one character, by a
	// missing or an added colon or slash; each live name next to its namesakes
	"near-ns": {{"dav:", "getcontentlength"}, {"Dav:", "resourcetype"}, {"DAV", "getetag"}, {"DAV:/", "getlastmodified"}, {"DAV::", "getcontenttype"},
		{"dav:", "nosuch"}, {"DAV: ", "resourcetype"}, {"DAV:", "getetag"}, {"dav:", "getetag"}},
	// only namesakes: nothing of what is asked for is stored
	"near-ns-only": {{"dav:", "resourcetype"}, {"dav:", "getcontentlength"}, {"dAV:", "getlastmodified"}},
	// unrelated namespaces and the CalDAV/CardDAV ones, local names of live properties
	"foreign": {{foreignNS, "getcontentlength"}, {foreignNS, "resourcetype"}, {foreignNS, "color"}, {"urn:ietf:params:xml:ns:caldav", "getetag"},
		{"urn:ietf:params:xml:ns:carddav", "resourcetype"}, {"http://example.com/ns", "getlastmodified"}, {"DAV:", "getcontentlength"}, {"DAV:", "resourcetype"}},
	// DAV: names the server may or may not know, a live one among them
	"dav-unknown": {{"DAV:", "nosuch"}, {"DAV:", "displayname"}, {"DAV:", "creationdate"}, {"DAV:", "getetag"}, {"DAV:", "Getetag"}, {"DAV:", "GETCONTENTLENGTH"}},
	// one live property alone; the same name twice
	"one":   {{"DAV:", "getlastmodified"}},
	"twice": {{"DAV:", "getcontentlength"}, {foreignNS, "x"}, {"DAV:", "getcontentlength"}, {foreignNS, "x"}},
}

// PropSetNames lists the sets in a fixed order.
func PropSetNames() []string {
	var l []string
	for k := range PropNameSets {
		l = append(l, k)
	}
	sort.Strings(l)
	return l
}

// propfindBody renders the request body for a PropBody value; ok=false: no body.
func propfindBody(pb string) (string, bool) {
	switch {
	case pb == "five":
		return FivePropBody, true
	case pb == "allprop" || pb == "propname":
		return `<?xml version="1.0" encoding="utf-8"?>` + string(xmltree.Render(davx.PropFindTree(pb, nil), nil)), true
	case strings.HasPrefix(pb, "names:"):
		names, ok := PropNameSets[strings.TrimPrefix(pb, "names:")]
		if !ok {
			return "", false
		}
		return `<?xml version="1.0" encoding="utf-8"?>` + string(xmltree.Render(davx.PropFindTree("prop", names), nil)), true
	}
	return "", false
}

// askedNames gives the set of property names a PropBody asks for by name
// (nil: the body asks for no particular names - allprop, propname, empty).
func askedNames(pb string) map[string]int {
	var names [][2]string
	switch {
	case pb == "five":
		names = [][2]string{{"DAV:", "resourcetype"}, {"DAV:", "getcontentlength"}, {"DAV:", "getlastmodified"}, {"DAV:", "getcontenttype"}, {"DAV:", "getetag"}}
	case strings.HasPrefix(pb, "names:"):
		names = PropNameSets[strings.TrimPrefix(pb, "names:")]
	default:
		return nil
	}
	m := map[string]int{}
	for _, n := range names {
		m["{"+n[0]+"}"+n[1]]++
	}
	return m
}

// checkProps judges the properties reported for one resource of a
// multi-status answer. k is the stored kind, data the stored bytes (files).
// It returns false when a finding was reported.
func (e *Env) checkProps(what, cls string, pb string, rs davx.Response, p string, k davtree.Kind, data string, wit interface{}) bool {
	c := e.C
	asked := askedNames(pb)
	ok := true
	report := func(kind, msg string) {
		ok = false
		key := "PROPFIND|" + cls + "|" + kind
		switch kind {
		case "reports-a-property-that-was-not-asked-for", "foreign-property-reported-as-stored", "asked-property-not-answered",
			"asked-property-answered-more-often-than-asked", "getlastmodified-wrong", "propname-lacks-a-stored-property":
			// one key per kind of error, whatever the target, Depth and name set
			key = "PROPFIND|properties|" + kind
		}
		c.Report(key, fmt.Sprintf("%s: %q %s", what, p, msg), wit)
	}
	seen := map[string]int{}
	for _, ps := range rs.PropStats {
		for _, pr := range ps.Props {
			name := pr.Name()
			seen[name]++
			code := ps.Status.Code
			if asked != nil && asked[name] == 0 {
				report("reports-a-property-that-was-not-asked-for", fmt.Sprintf("is answered with %s (status %d), which the request did not name", name, code))
				continue
			}
			if pr.Space != davx.NS && code/100 == 2 {
				// nothing outside DAV: is stored by the file server
				report("foreign-property-reported-as-stored", fmt.Sprintf("reports %s under %d: the file server stores no such property", name, code))
			}
		}
	}
	if asked != nil {
		var names []string
		for n := range asked {
			names = append(names, n)
		}
		sort.Strings(names)
		for _, n := range names {
			switch {
			case seen[n] == 0:
				report("asked-property-not-answered", fmt.Sprintf("the answer does not mention %s, which the request names", n))
			case seen[n] > asked[n]:
				report("asked-property-answered-more-often-than-asked", fmt.Sprintf("the answer mentions %s %d times", n, seen[n]))
			}
		}
		c.Observe("propfind_named_properties", pb, 1)
	}
	wants := func(local string) bool {
		if pb == "propname" {
			return false
		}
		return asked == nil || asked["{DAV:}"+local] > 0
	}
	if wants("resourcetype") {
		rt, code := rs.Prop(davx.NS, "resourcetype")
		if rt == nil || code != 200 {
			report("resourcetype-missing", "has no resourcetype under 200")
		} else if isColl := rt.First(davx.NS, "collection") != nil; isColl != (k == davtree.Coll) {
			report("resourcetype-wrong", fmt.Sprintf("reported collection=%v, stored kind %v", isColl, k))
		}
	}
	if k != davtree.File {
		return ok
	}
	if wants("getcontentlength") {
		cl, code := rs.Prop(davx.NS, "getcontentlength")
		if cl == nil || code != 200 || strings.TrimSpace(cl.TextContent()) != fmt.Sprint(len(data)) {
			report("getcontentlength-wrong", "getcontentlength does not equal the stored size")
		}
	}
	if wants("getlastmodified") {
		fi, err := os.Stat(filepath.Join(e.Root, filepath.FromSlash(p)))
		lmn, code := rs.Prop(davx.NS, "getlastmodified")
		if err == nil && !fi.IsDir() {
			c.Observe("propfind_dates", "getlastmodified compared with the stored modification time", 1)
			want := fi.ModTime().UTC().Truncate(time.Second)
			txt := ""
			if lmn != nil {
				txt = strings.TrimSpace(lmn.TextContent())
			}
			t, perr := http.ParseTime(txt)
			if lmn == nil || code != 200 || perr != nil || !strings.HasSuffix(txt, " GMT") || !t.Equal(want) {
				report("getlastmodified-wrong", fmt.Sprintf("getlastmodified %q (status %d), the stored modification time is %s", txt, code, want.Format(http.TimeFormat)))
			}
		}
	}
	if pb == "propname" {
		for _, local := range []string{"resourcetype", "getcontentlength", "getlastmodified", "getetag"} {
			if seen["{DAV:}"+local] == 0 {
				report("propname-lacks-a-stored-property", "the list of property names lacks DAV:"+local)
			}
		}
	}
	return ok
}

package fsx

import (
	"context"
	"errors"
	"fmt"
	"io"
	"net/http"
	"strings"

	"github.com/emersion/go-webdav"
	"github.com/emersion/go-webdav/verifharness/doubles"
	"github.com/emersion/go-webdav/verifharness/fw"
	"github.com/emersion/go-webdav/verifharness/model/davtree"
)

// interferingBody is a PUT body that, at a chosen point, lets another request
// run to completion through the same handler (a deterministic interleaving:
// the upload is in flight, the other request happens, the upload goes on) and
// then either delivers the rest or breaks off.
type interferingBody struct {
	data   []byte
	pos    int
	at     int // offset at which the other request runs
	done   bool
	action func()
	fail   bool // break off (io.ErrUnexpectedEOF) after the interference
}

func (b *interferingBody) Read(p []byte) (int, error) {
	if !b.done && b.pos >= b.at {
		b.done = true
		b.action()
		if b.fail {
			return 0, errors.New("verif: body broke off after the interfering request")
		}
	}
	if b.pos >= len(b.data) {
		return 0, io.EOF
	}
	end := len(b.data)
	if !b.done && b.at > b.pos && b.at < end {
		end = b.at
	}
	n := copy(p, b.data[b.pos:end])
	b.pos += n
	return n, nil
}
func (b *interferingBody) Close() error { return nil }

type InterfereCase struct {
	Target   string `json:"target"`    // state of the PUT target: file | absent
	Cond     string `json:"cond"`      // none | if-match-current | if-none-match-star
	Other    string `json:"other"`     // the interfering request
	At       string `json:"at"`        // start | middle | end
	BodyFail bool   `json:"body_fail"` // the upload breaks off after the interference
}

// Interference drives uploads during which another request changes the
// target, its parent or a sibling. Monitors: a request answered >= 400 must
// leave nothing behind - the directory must be exactly what the interfering
// request alone leaves (C02, C04: "412 and nothing changes"); no response may
// disclose the host path (C17); no panic.
func Interference(c *fw.Ctx, mon Monitors) {
	e, err := NewEnv(c, mon, "interfere")
	if err != nil {
		c.Inconclusive(err.Error())
		return
	}
	defer e.Close()
	others := []string{"PUT-target", "DELETE-target", "DELETE-parent", "MKCOL-target-after-DELETE", "MOVE-target-away", "MOVE-sibling-onto-target", "PUT-sibling", "COPY-sibling-onto-target"}
	idx := 0
	for _, target := range []string{"file", "absent", "empty-file"} {
		for _, cond := range []string{"none", "if-match-current", "if-none-match-star"} {
			if (target == "absent") != (cond == "if-none-match-star") && cond != "none" {
				continue
			}
			for _, other := range others {
				for _, at := range []string{"start", "middle", "end"} {
					for _, bf := range []bool{false, true} {
						idx++
						if !c.Mine(idx) {
							continue
						}
						e.interfere(InterfereCase{Target: target, Cond: cond, Other: other, At: at, BodyFail: bf})
					}
				}
			}
		}
	}
}

func (e *Env) interfere(ic InterfereCase) {
	c := e.C
	tree := davtree.Tree{"/dir": {Dir: true}, "/dir/sib": {Data: "sibling content"}, "/keep": {Data: "keep"}}
	switch ic.Target {
	case "file":
		tree["/dir/t"] = davtree.Node{Data: "old content of the target"}
	case "empty-file":
		tree["/dir/t"] = davtree.Node{Data: ""}
	}
	other := func(env *Env) Resp {
		var r *http.Request
		switch ic.Other {
		case "PUT-target":
			r, _ = http.NewRequest("PUT", "http://"+Host+"/dir/t", strings.NewReader("written by the other request"))
		case "DELETE-target":
			r, _ = http.NewRequest("DELETE", "http://"+Host+"/dir/t", nil)
		case "DELETE-parent":
			r, _ = http.NewRequest("DELETE", "http://"+Host+"/dir", nil)
		case "MKCOL-target-after-DELETE":
			d, _ := http.NewRequest("DELETE", "http://"+Host+"/dir/t", nil)
			env.Serve(d)
			r, _ = http.NewRequest("MKCOL", "http://"+Host+"/dir/t", nil)
		case "MOVE-target-away":
			r, _ = http.NewRequest("MOVE", "http://"+Host+"/dir/t", nil)
			r.Header.Set("Destination", "/moved")
		case "MOVE-sibling-onto-target":
			r, _ = http.NewRequest("MOVE", "http://"+Host+"/dir/sib", nil)
			r.Header.Set("Destination", "/dir/t")
		case "COPY-sibling-onto-target":
			r, _ = http.NewRequest("COPY", "http://"+Host+"/dir/sib", nil)
			r.Header.Set("Destination", "/dir/t")
		default: // PUT-sibling
			r, _ = http.NewRequest("PUT", "http://"+Host+"/dir/other", strings.NewReader("another file"))
		}
		return env.Serve(r)
	}
	// reference: what the interfering request alone leaves behind
	if err := e.Materialise(tree); err != nil {
		c.Inconclusive(err.Error())
		return
	}
	other(e)
	reference := e.Snap().Shape()
	e.cur = ""
	// the real run
	if err := e.Materialise(tree); err != nil {
		c.Inconclusive(err.Error())
		return
	}
	data := []byte(strings.Repeat("UPLOAD-", 3000))
	at := map[string]int{"start": 0, "middle": len(data) / 2, "end": len(data)}[ic.At]
	req, _ := http.NewRequest("PUT", "http://"+Host+"/dir/t", strings.NewReader(string(data)))
	sreq, err := doubles.ServerRequest(req)
	if err != nil {
		c.Inconclusive(err.Error())
		return
	}
	switch ic.Cond {
	case "if-match-current":
		if fi, _ := webdav.LocalFileSystem(e.Root).Stat(context.Background(), "/dir/t"); fi != nil {
			sreq.Header.Set("If-Match", fmt.Sprintf("%q", fi.ETag))
		}
	case "if-none-match-star":
		sreq.Header.Set("If-None-Match", "*")
	}
	var otherResp Resp
	sreq.Body = &interferingBody{data: data, at: at, fail: ic.BodyFail, action: func() { otherResp = other(e) }}
	sreq.ContentLength = int64(len(data))
	c.Journal(ic)
	resp := e.ServeServerSide(sreq)
	c.JournalDone()
	postSnap := e.Snap()
	post := postSnap.Shape()
	e.cur = ""
	c.Eval(1)
	c.Observe("interference_status", fmt.Sprintf("upload %d / other %s %d", resp.Code, strings.SplitN(ic.Other, "-", 2)[0], otherResp.Code), 1)
	c.Distinct(fmt.Sprintf("interfere|%s|%s|%s|%s|fail=%v|%d", ic.Target, ic.Cond, ic.Other, ic.At, ic.BodyFail, resp.Code))
	wit := map[string]interface{}{"case": ic, "upload_status": resp.Code, "upload_body": trunc(string(resp.Body), 300), "other_status": otherResp.Code,
		"after_other_alone": reference, "after": post}
	if resp.Panicked {
		c.Report("interference|panic|"+fw.PanicSite(resp.Stack), "handler panicked during an upload with an interfering request: "+resp.PanicVal, wit)
		return
	}
	req0 := davtree.Req{Method: "PUT", Path: "/dir/t"}
	e.LeakScan("interference ("+ic.Other+")", req0, tree, resp)
	e.LeakScan("interference ("+ic.Other+", the other request)", davtree.Req{Method: strings.SplitN(ic.Other, "-", 2)[0], Path: "/dir/t"}, tree, otherResp)
	if !e.Mon.Unchanged || resp.Code < 400 {
		return
	}
	if ic.Target == "absent" {
		// A NEW file is written in place while it arrives, so the other
		// request may legitimately see, move or replace the partial file (the
		// statement makes no claim about concurrent access to one resource).
		// What a refused upload must never do is leave a name behind that
		// none of the requests involved ever named (a staging file, say), or
		// touch a resource neither of them addressed.
		named := map[string]bool{"": true, "dir": true, "dir/t": true, "dir/sib": true, "dir/other": true, "keep": true, "moved": true}
		for name := range postSnap {
			if !named[name] {
				c.Report(fmt.Sprintf("PUT|interference=%s|cond=%s|status=%d|left-a-stray-entry-behind", ic.Other, ic.Cond, resp.Code),
					fmt.Sprintf("an upload answered %d left %q behind, a name no request involved ever addressed", resp.Code, name), wit)
				return
			}
		}
		if k, ok := postSnap["keep"]; !ok || k.Data != "keep" {
			c.Report(fmt.Sprintf("PUT|interference=%s|cond=%s|status=%d|touched-an-unrelated-resource", ic.Other, ic.Cond, resp.Code),
				fmt.Sprintf("an upload answered %d changed a resource neither request addressed", resp.Code), wit)
		}
		return
	}
	// An EXISTING file is only ever replaced as a whole, so a refused or
	// failed upload must leave exactly what the interfering request alone leaves.
	if post != reference {
		c.Report(fmt.Sprintf("PUT|interference=%s|cond=%s|status=%d|left-something-behind", ic.Other, ic.Cond, resp.Code),
			fmt.Sprintf("an upload answered %d left the directory different from what the interfering %s alone leaves", resp.Code, ic.Other), wit)
	}
}

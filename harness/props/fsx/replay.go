package fsx

import (
	"encoding/json"
	"fmt"
	"os"

	"github.com/emersion/go-webdav/verifharness/fw"
	"github.com/emersion/go-webdav/verifharness/model/davtree"
)

// ReplayWitness re-executes a {tree, request} witness.
func ReplayWitness(c *fw.Ctx, mon Monitors, w json.RawMessage) {
	var wit struct {
		Tree    string      `json:"tree"`
		Request davtree.Req `json:"request"`
		Slice   *struct {
			Staging *StagingCase `json:"staging_case"`
		} `json:"slice_case"`
	}
	if err := json.Unmarshal(w, &wit); err != nil {
		fmt.Println("cannot read witness:", err)
		return
	}
	if wit.Slice != nil && wit.Slice.Staging != nil {
		// the names depend on the number of the process that serves: the case
		// is rebuilt for this process
		e, err := NewEnv(c, mon, "replay")
		if err != nil {
			fmt.Println(err)
			return
		}
		defer e.Close()
		fmt.Printf("staging-names case %+v, re-run in process %d\n", *wit.Slice.Staging, os.Getpid())
		e.runStagingCase(*wit.Slice.Staging)
		return
	}
	t, ok := ParseShape(wit.Tree)
	if !ok {
		fmt.Println("witness tree holds digested contents; cannot rebuild")
		return
	}
	e, err := NewEnv(c, mon, "replay")
	if err != nil {
		fmt.Println(err)
		return
	}
	defer e.Close()
	resp, post := e.RunOne("replay", t, wit.Request)
	fmt.Printf("tree before:\n%srequest: %+v\nstatus: %d\nbody: %.300q\ntree after:\n%smodel: %s\n", t.Shape(), wit.Request, resp.Code, string(resp.Body), post, davtree.Describe(davtree.Step(t, wit.Request)))
}

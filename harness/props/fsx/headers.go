package fsx

import (
	"crypto/md5"
	"crypto/sha256"
	"encoding/base64"
	"encoding/hex"

	"github.com/emersion/go-webdav/verifharness/model/davtree"
)

// The request-header dimension beyond Depth / Overwrite / Destination /
// If-Match / If-None-Match: header fields a client (or a proxy in front of
// the server) may send with any request and that a server may ignore or
// honour - integrity announcements that match the body or do not, partial
// content, content codings, HTTP/1.1 conditionals on dates, the WebDAV If and
// Lock-Token fields, method overrides, vendor extensions, WebDAV headers on
// methods they are not defined for, media types that invite body parsing.
// The RFC 4918 tree model has no rule for them (such requests are outside its
// universe: whatever the server answers is accepted), but the rule "answered
// >= 400 => nothing changed" holds for every request whatever it carries.

// HeaderFamily is one such set of header fields.
type HeaderFamily struct {
	Tag string
	H   [][2]string
}

// ExtraHeaderFamilies lists the families for a request whose body is body.
func ExtraHeaderFamilies(body string) []HeaderFamily {
	m := md5.Sum([]byte(body))
	mw := md5.Sum([]byte(body + "\x00damaged in transit"))
	s := sha256.Sum256([]byte(body))
	sw := sha256.Sum256([]byte(body + "\x00damaged in transit"))
	b64 := base64.StdEncoding.EncodeToString
	return []HeaderFamily{
		{"content-md5-right", [][2]string{{"Content-MD5", b64(m[:])}}},
		{"content-md5-wrong", [][2]string{{"Content-MD5", b64(mw[:])}}},
		{"content-md5-malformed", [][2]string{{"Content-MD5", "not base64 at all!"}}},
		{"digest-wrong", [][2]string{{"Digest", "MD5=" + b64(mw[:]) + ", SHA-256=" + b64(sw[:])}}},
		{"digest-right", [][2]string{{"Digest", "SHA-256=" + b64(s[:])}}},
		{"content-digest-wrong", [][2]string{{"Content-Digest", "sha-256=:" + b64(sw[:]) + ":"}, {"Repr-Digest", "sha-256=:" + b64(sw[:]) + ":"}}},
		{"oc-checksum-wrong", [][2]string{{"OC-Checksum", "MD5:" + hex.EncodeToString(mw[:])}}},
		{"x-checksum-wrong", [][2]string{{"X-Checksum-Md5", hex.EncodeToString(mw[:])}, {"X-Amz-Content-Sha256", hex.EncodeToString(sw[:])}}},
		{"content-range", [][2]string{{"Content-Range", "bytes 1-2/10"}}},
		{"content-encoding-gzip", [][2]string{{"Content-Encoding", "gzip"}}},
		{"content-encoding-unknown", [][2]string{{"Content-Encoding", "x-verif-coding"}}},
		{"if-unmodified-since-past", [][2]string{{"If-Unmodified-Since", "Thu, 01 Jan 1970 00:00:01 GMT"}}},
		{"if-unmodified-since-future", [][2]string{{"If-Unmodified-Since", "Fri, 01 Jan 2100 00:00:00 GMT"}}},
		{"if-modified-since-future", [][2]string{{"If-Modified-Since", "Fri, 01 Jan 2100 00:00:00 GMT"}}},
		{"if-range-and-range", [][2]string{{"Range", "bytes=0-0"}, {"If-Range", `"no-such-tag"`}}},
		{"dav-if-unknown-lock-token", [][2]string{{"If", `(<urn:uuid:00000000-0000-4000-8000-verif0q7x9z0>)`}}},
		{"dav-if-etag-list", [][2]string{{"If", `(["no-such-tag"])`}}},
		{"lock-token", [][2]string{{"Lock-Token", "<urn:uuid:00000000-0000-4000-8000-verif0q7x9z0>"}, {"Timeout", "Second-1"}}},
		{"expect-100-continue", [][2]string{{"Expect", "100-continue"}}},
		{"method-override-delete", [][2]string{{"X-HTTP-Method-Override", "DELETE"}, {"X-HTTP-Method", "DELETE"}, {"X-Method-Override", "DELETE"}}},
		{"method-override-put", [][2]string{{"X-HTTP-Method-Override", "PUT"}}},
		{"x-expected-entity-length-wrong", [][2]string{{"X-Expected-Entity-Length", "999999"}}},
		{"x-oc-mtime", [][2]string{{"X-OC-Mtime", "0"}}},
		{"overwrite-f-on-any-method", [][2]string{{"Overwrite", "F"}}},
		{"depth-0-on-any-method", [][2]string{{"Depth", "0"}}},
		{"depth-invalid-on-any-method", [][2]string{{"Depth", "minus one"}}},
		{"form-urlencoded", [][2]string{{"Content-Type", "application/x-www-form-urlencoded"}}},
		{"multipart-form", [][2]string{{"Content-Type", "multipart/form-data; boundary=c1"}}},
		{"prefer-brief-translate", [][2]string{{"Prefer", "return=minimal"}, {"Brief", "t"}, {"Translate", "f"}}},
	}
}

// withExtra returns r carrying the family's fields. Header fields the request
// sets for itself (Depth, Overwrite of COPY/MOVE, Content-Type of MKCOL) are
// not replaced: a family that names one of them is skipped for that request.
func withExtra(r davtree.Req, f HeaderFamily) (davtree.Req, bool) {
	for _, h := range f.H {
		switch h[0] {
		case "Depth", "Overwrite":
			if r.Method == "COPY" || r.Method == "MOVE" || r.Method == "PROPFIND" {
				return r, false
			}
		case "Content-Type":
			if r.Method == "MKCOL" {
				return r, false
			}
		}
	}
	r.Extra = f.H
	r.ExtraTag = f.Tag
	return r, true
}

// ExtraHeaderRequests lists, for tree number ti, the mutating requests of the
// universe that carry a header family. Quick deals a tenth of the families
// to each tree (all trees together see every family on every request kind);
// thorough gives every tree all of them.
func ExtraHeaderRequests(ti int, full bool) []davtree.Req {
	var l []davtree.Req
	var base []davtree.Req
	for _, p := range UniversePaths {
		if p == "/" {
			continue
		}
		base = append(base, davtree.Req{Method: "PUT", Path: p, HasBody: true, Body: "c2"})
		base = append(base, davtree.Req{Method: "DELETE", Path: p})
		base = append(base, davtree.Req{Method: "MKCOL", Path: p})
	}
	for _, m := range []string{"COPY", "MOVE"} {
		for _, sd := range [][2]string{{"/a", "/b"}, {"/a", "/b/a"}, {"/a/a", "/b"}, {"/b", "/a/b"}, {"/a/b", "/a/a"}, {"/a", "/a"}, {"/b/a", "/a/b/a"}} {
			base = append(base, davtree.Req{Method: m, Path: sd[0], Dest: sd[1], DestForm: "path"})
		}
	}
	for _, b := range base {
		for fi, f := range ExtraHeaderFamilies(b.Body) {
			if !full && (fi+ti)%10 != 0 {
				continue
			}
			if r, ok := withExtra(b, f); ok {
				l = append(l, r)
			}
		}
	}
	return l
}

package fsx

import (
	"fmt"
	"io"
	"io/ioutil"
	"net/http"
	"os"
	"regexp"
	"strconv"

	"github.com/emersion/go-webdav/verifharness/doubles"
	"github.com/emersion/go-webdav/verifharness/fw"
	"github.com/emersion/go-webdav/verifharness/model/davtree"
)

// StagingNames: member names are the clients' to choose, and a directory that
// is served may hold whatever an earlier server process, a backup or a client
// left in it - also entries named exactly like the entries a server creates
// for itself while it carries out a request (an upload received next to its
// target, a copy built next to the destination it replaces, a destination set
// aside). Such names are predictable: a fixed prefix, the number of the
// serving process and a small counter. The slice learns where the counter
// stands by looking into the collection while an upload is in flight, plants
// ordinary members (a file, an empty collection, a collection with a member)
// under the names the next requests would use, and runs the requests of the
// universe that replace, create and remove resources in that collection -
// complete uploads and uploads that break off, COPY and MOVE onto existing
// and new destinations, DELETE, MKCOL, PROPFIND and requests addressed to the
// planted members themselves. The planted members are resources like any
// other: the model (C01), "answered >= 400 => nothing changed" (C02) and the
// leak scan (C17) apply unchanged.

// StagingCase identifies one case of the slice (replayable: the names are
// recomputed from the replaying process's own number and counter).
type StagingCase struct {
	Place  string `json:"place"`  // collection that holds the targets: "/dir" or "" (the root)
	Which  string `json:"which"`  // put | copy | move
	Suffix string `json:"suffix"` // "" | "-replaced"
	Kind   string `json:"kind"`   // file | empty-coll | coll
	Req    int    `json:"req"`    // index into stagingRequests(place)
}

type peekBody struct {
	data []byte
	pos  int
	peek func()
	done bool
}

func (b *peekBody) Read(p []byte) (int, error) {
	// first a few bytes, then the look, then the rest
	if !b.done && b.pos > 0 {
		b.done = true
		b.peek()
	}
	if b.pos >= len(b.data) {
		return 0, io.EOF
	}
	n := copy(p[:1], b.data[b.pos:])
	b.pos += n
	return n, nil
}

var trailingNumber = regexp.MustCompile(`^(.*[^0-9])([0-9]+)$`)

// learnCounter replaces an existing file by an upload and looks into the
// collection while the body is being read: an entry that is neither the
// target nor anything the tree holds is the server's own. It returns the
// number such a name ends in (the counter's present value) and the names seen.
func (e *Env) learnCounter() (n uint64, names []string, ok bool) {
	t := davtree.Tree{"/peek": {Data: "a file that is about to be replaced"}}
	if err := e.Materialise(t); err != nil {
		return 0, nil, false
	}
	req, _ := http.NewRequest("PUT", "http://"+Host+"/peek", nil)
	sreq, err := doubles.ServerRequest(req)
	if err != nil {
		return 0, nil, false
	}
	body := &peekBody{data: []byte("replacement")}
	body.peek = func() {
		ents, _ := ioutil.ReadDir(e.Root)
		for _, en := range ents {
			if en.Name() != "peek" {
				names = append(names, en.Name())
			}
		}
	}
	sreq.Body = ioutil.NopCloser(body)
	sreq.ContentLength = int64(len(body.data))
	e.ServeServerSide(sreq)
	for _, nm := range names {
		if m := trailingNumber.FindStringSubmatch(nm); m != nil {
			if v, err := strconv.ParseUint(m[2], 10, 64); err == nil {
				return v, names, true
			}
		}
	}
	return 0, names, false
}

func stagingRequests(place string) []davtree.Req {
	C := place
	brk := func(k int) *int { return &k }
	var l []davtree.Req
	l = append(l,
		davtree.Req{Method: "PUT", Path: C + "/t", HasBody: true, Body: "new content"},
		davtree.Req{Method: "PUT", Path: C + "/t", HasBody: true, Body: "new content", BreakAfter: brk(0)},
		davtree.Req{Method: "PUT", Path: C + "/t", HasBody: true, Body: "new content", BreakAfter: brk(4)},
		davtree.Req{Method: "PUT", Path: C + "/new", HasBody: true, Body: "new content"},
		davtree.Req{Method: "PUT", Path: C + "/new", HasBody: true, Body: "new content", BreakAfter: brk(4)},
		davtree.Req{Method: "DELETE", Path: C + "/t"},
		davtree.Req{Method: "DELETE", Path: C + "/sub"},
		davtree.Req{Method: "MKCOL", Path: C + "/new"},
		davtree.Req{Method: "PROPFIND", Path: C + "/t", Depth: "0"},
	)
	if C != "" {
		l = append(l, davtree.Req{Method: "PROPFIND", Path: C, Depth: "1", PropBody: "five"})
	} else {
		l = append(l, davtree.Req{Method: "PROPFIND", Path: "/", Depth: "1", PropBody: "five"})
	}
	for _, m := range []string{"COPY", "MOVE"} {
		for _, src := range []string{"/src", "/srcdir"} {
			for _, dst := range []string{C + "/t", C + "/sub", C + "/esub", C + "/new"} {
				l = append(l, davtree.Req{Method: m, Path: src, Dest: dst, DestForm: "path"})
			}
			l = append(l, davtree.Req{Method: m, Path: src, Dest: C + "/t", DestForm: "path", Overwrite: "F"})
			l = append(l, davtree.Req{Method: m, Path: src, Dest: C + "/sub", DestForm: "url", Overwrite: "T"})
		}
		// within the collection
		l = append(l, davtree.Req{Method: m, Path: C + "/sub", Dest: C + "/t", DestForm: "path"})
		l = append(l, davtree.Req{Method: m, Path: C + "/t", Dest: C + "/esub", DestForm: "path"})
	}
	l = append(l, davtree.Req{Method: "COPY", Path: "/srcdir", Dest: C + "/sub", DestForm: "path", Depth: "0"})
	l = append(l, davtree.Req{Method: "COPY", Path: "/srcdir", Dest: C + "/t", DestForm: "path", Depth: "0"})
	return l
}

// plantedRequests address the planted member itself.
func plantedRequests(C, name string) []davtree.Req {
	p := C + "/" + name
	return []davtree.Req{
		{Method: "GET", Path: p},
		{Method: "PROPFIND", Path: p, Depth: "1"},
		{Method: "DELETE", Path: p},
		{Method: "PUT", Path: p, HasBody: true, Body: "new content"},
		{Method: "COPY", Path: p, Dest: C + "/t", DestForm: "path"},
		{Method: "MOVE", Path: p, Dest: C + "/t", DestForm: "path"},
		{Method: "COPY", Path: "/src", Dest: p, DestForm: "path"},
		{Method: "MOVE", Path: "/srcdir", Dest: p, DestForm: "path"},
	}
}

// StagingName is the convention the predictions follow.
func StagingName(which string, pid int, seq uint64, suffix string) string {
	return fmt.Sprintf(".webdav-%s-%d-%d%s", which, pid, seq, suffix)
}

func (e *Env) runStagingCase(sc StagingCase) {
	c := e.C
	n, seen, ok := e.learnCounter()
	if ok {
		c.Observe("staging_names", "counter learnt by looking into the collection during an upload", 1)
	} else if len(seen) > 0 {
		c.Observe("staging_names", "an entry of the server's own seen during an upload, its name not numbered", 1)
	} else {
		c.Observe("staging_names", "no entry of the server's own seen during an upload", 1)
	}
	C := sc.Place
	t := davtree.Tree{
		"/src": {Data: "source file"}, "/srcdir": {Dir: true}, "/srcdir/f": {Data: "member of the source"},
		C + "/t": {Data: "old content of the target"}, C + "/sub": {Dir: true}, C + "/sub/m": {Data: "member"}, C + "/esub": {Dir: true},
	}
	if C != "" {
		t[C] = davtree.Node{Dir: true}
	}
	first := ""
	for _, seq := range []uint64{n + 1, n + 2, n + 3} {
		name := StagingName(sc.Which, os.Getpid(), seq, sc.Suffix)
		if first == "" {
			first = name
		}
		p := C + "/" + name
		switch sc.Kind {
		case "file":
			t[p] = davtree.Node{Data: "a member that belongs to a user"}
		case "empty-coll":
			t[p] = davtree.Node{Dir: true}
		default:
			t[p] = davtree.Node{Dir: true}
			t[p+"/inner"] = davtree.Node{Data: "a member's member"}
		}
	}
	reqs := append(stagingRequests(C), plantedRequests(C, first)...)
	if sc.Req < 0 || sc.Req >= len(reqs) {
		return
	}
	r := reqs[sc.Req]
	saved, savedTag, savedWit := e.Mon, e.KeyTag, e.WitExtra
	e.KeyTag = "member-named-like-a-staging-entry"
	e.WitExtra = map[string]interface{}{"staging_case": sc, "planted": first}
	if !modelApplies(t, r) {
		e.Mon.Model = false
	}
	e.RunOne("staging-names", t, r)
	e.Mon, e.KeyTag, e.WitExtra = saved, savedTag, savedWit
	c.Observe("staging_names", fmt.Sprintf("%s with members named like %s entries (%s)", r.Method, sc.Which+sc.Suffix, sc.Kind), 1)
}

// StagingNames runs the slice.
func StagingNames(c *fw.Ctx, mon Monitors) {
	e, err := NewEnv(c, mon, "staging")
	if err != nil {
		c.Inconclusive(err.Error())
		return
	}
	defer e.Close()
	idx := 0
	for _, place := range []string{"/dir", ""} {
		nreq := len(stagingRequests(place)) + len(plantedRequests(place, "x"))
		for _, which := range []string{"put", "copy", "move"} {
			for _, suffix := range []string{"", "-replaced"} {
				for _, kind := range []string{"file", "empty-coll", "coll"} {
					for ri := 0; ri < nreq; ri++ {
						idx++
						if !c.Mine(idx) {
							continue
						}
						e.runStagingCase(StagingCase{Place: place, Which: which, Suffix: suffix, Kind: kind, Req: ri})
					}
				}
			}
		}
	}
}

// WideCollections: collections far wider than the two-name universe - more
// members than any single directory read returns - copied, moved, deleted and
// listed; model and snapshots as everywhere else.
func WideCollections(c *fw.Ctx, mon Monitors) {
	e, err := NewEnv(c, mon, "wide")
	if err != nil {
		c.Inconclusive(err.Error())
		return
	}
	defer e.Close()
	nfiles, ncolls := c.Pick(1500, 6000), c.Pick(50, 200)
	t := davtree.Tree{"/wide": {Dir: true}, "/there": {Dir: true}, "/there/old": {Data: "old member"}, "/file": {Data: "a file"}}
	for i := 0; i < nfiles; i++ {
		t[fmt.Sprintf("/wide/f%05d.txt", i)] = davtree.Node{Data: fmt.Sprintf("content %d", i%7)}
	}
	for i := 0; i < ncolls; i++ {
		t[fmt.Sprintf("/wide/c%03d", i)] = davtree.Node{Dir: true}
		t[fmt.Sprintf("/wide/c%03d/m", i)] = davtree.Node{Data: "m"}
	}
	reqs := []davtree.Req{
		{Method: "PROPFIND", Path: "/wide", Depth: "1"},
		{Method: "PROPFIND", Path: "/", Depth: "infinity", PropBody: "five"},
		{Method: "COPY", Path: "/wide", Dest: "/new", DestForm: "path"},
		{Method: "COPY", Path: "/wide", Dest: "/there", DestForm: "path", Depth: "infinity"},
		{Method: "COPY", Path: "/wide", Dest: "/file", DestForm: "path", Depth: "0"},
		{Method: "MOVE", Path: "/wide", Dest: "/new", DestForm: "path"},
		{Method: "MOVE", Path: "/wide", Dest: "/there", DestForm: "url", Overwrite: "T"},
		{Method: "DELETE", Path: "/wide"},
		{Method: "COPY", Path: "/there", Dest: "/wide", DestForm: "path"},
		{Method: "MOVE", Path: "/file", Dest: "/wide", DestForm: "path"},
	}
	for i, r := range reqs {
		if !c.Mine(i) {
			continue
		}
		e.KeyTag = "wide-collection"
		e.RunOne("wide-collection", t, r)
		e.KeyTag = ""
		c.Observe("wide_collections", fmt.Sprintf("%s on a collection of %d files and %d collections", r.Method, nfiles, ncolls), 1)
	}
}

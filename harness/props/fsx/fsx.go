// Package fsx is the file-server explorer shared by C01 (model comparison),
// C02 (failed requests change nothing) and C17 (no host path in responses):
// it materialises resource trees on disk, sends requests to the real
// webdav.Handler + LocalFileSystem, snapshots the directory before and after
// and hands each observation to the monitors that are switched on.
package fsx

import (
	"bytes"
	"fmt"
	"hash/fnv"
	"io"
	"io/ioutil"
	"net/http"
	"net/http/httptest"
	"net/url"
	"os"
	"path"
	"path/filepath"
	"sort"
	"strings"
	"time"

	"github.com/emersion/go-webdav"
	"github.com/emersion/go-webdav/verifharness/davx"
	"github.com/emersion/go-webdav/verifharness/doubles"
	"github.com/emersion/go-webdav/verifharness/fw"
	"github.com/emersion/go-webdav/verifharness/model/davtree"
	"github.com/emersion/go-webdav/verifharness/mon"
	"github.com/emersion/go-webdav/verifharness/xmltree"
)

var xmltreeOpts = xmltree.CmpOpts{IgnoreComments: true, IgnoreWhitespace: true}

// Monitors selects which oracles report.
type Monitors struct {
	Model     bool // C01
	Unchanged bool // C02
	Leak      bool // C17
}

type Env struct {
	C        *fw.Ctx
	Mon      Monitors
	Base     string // private scratch directory
	Root     string // served directory
	Resolved string // symlink-resolved root
	H        http.Handler
	cur      string // shape currently on disk ("" = unknown)
	cwdSaved string // working directory to return to after a relative root spelling
	// KeyTag, when set, is put in front of the finding keys of Observe: a
	// slice whose pre-states form a class of their own names it here.
	KeyTag string
	// WitExtra, when set, is added to the witnesses of Observe ("slice_case").
	WitExtra  interface{}
	mtimeSeen map[string]bool
}

// NewEnv creates <workdir>/<label>/sandbox-…/root with a long random-looking
// name so that substring scans for the root path have no false positives.
func NewEnv(c *fw.Ctx, mon Monitors, label string) (*Env, error) {
	return NewEnvAt(c, mon, filepath.Join(c.WorkDir, label))
}

// NewDiskEnv is NewEnv on the disk-backed temporary directory instead of the
// worker's tmpfs scratch space, so that both kinds of file system are seen.
// The directory is removed by Close.
func NewDiskEnv(c *fw.Ctx, mon Monitors, label string) (*Env, error) {
	base, err := ioutil.TempDir("", "verif-"+c.Prop+"-"+label+"-")
	if err != nil {
		return nil, err
	}
	return NewEnvAt(c, mon, base)
}

// NewEnvAt creates the sandbox below base.
func NewEnvAt(c *fw.Ctx, mon Monitors, base string) (*Env, error) {
	root := filepath.Join(base, fmt.Sprintf("sandbox-%d-%d-q7x9z", c.Seed, c.Shard), "served-root-k3j5h7")
	if err := os.MkdirAll(root, 0755); err != nil {
		return nil, err
	}
	res, err := filepath.EvalSymlinks(root)
	if err != nil {
		res = root
	}
	return &Env{C: c, Mon: mon, Base: base, Root: root, Resolved: res,
		H: &webdav.Handler{FileSystem: webdav.LocalFileSystem(root)}}, nil
}

func (e *Env) Close() {
	if e.cwdSaved != "" {
		os.Chdir(e.cwdSaved)
		e.cwdSaved = ""
	}
	os.RemoveAll(e.Base)
}

// UseRootSpelling re-creates the handler with the served directory configured
// in a valid but non-canonical spelling (k < 0: the clean path): trailing
// slash, doubled slash, dot segment, a detour through a sibling and back.
// The directory served is the same; only the configuration string differs.
func (e *Env) UseRootSpelling(k int) string {
	dir, base := filepath.Dir(e.Root), filepath.Base(e.Root)
	spelled := e.Root
	name := "clean"
	if e.cwdSaved != "" {
		os.Chdir(e.cwdSaved)
		e.cwdSaved = ""
	}
	if k >= 0 {
		switch k % 6 {
		case 4, 5:
			// a root named relative to the working directory (as the
			// command-line server does with "."): the worker changes into the
			// root's parent for the time this handler is in use
			if cwd, err := os.Getwd(); err == nil && os.Chdir(dir) == nil {
				e.cwdSaved = cwd
				spelled, name = base, "relative"
				if k%6 == 5 {
					spelled, name = "./"+base+"/", "relative-dot-slash"
				}
			}
		}
		switch k % 6 {
		case 0:
			spelled, name = e.Root+"/", "trailing-slash"
		case 1:
			spelled, name = dir+"//"+base, "double-slash"
		case 2:
			spelled, name = dir+"/./"+base, "dot-segment"
		case 3:
			os.MkdirAll(filepath.Join(dir, "detour"), 0755)
			spelled, name = dir+"/detour/../"+base, "detour-and-back"
		}
	}
	e.H = &webdav.Handler{FileSystem: webdav.LocalFileSystem(spelled)}
	return name
}

// Materialise makes the directory equal to t.
func (e *Env) Materialise(t davtree.Tree) error {
	shape := t.Shape()
	if e.cur == shape {
		return nil
	}
	// clear
	if ents, err := ioutil.ReadDir(e.Root); err == nil {
		for _, en := range ents {
			if err := os.RemoveAll(filepath.Join(e.Root, en.Name())); err != nil {
				return err
			}
		}
	} else {
		os.RemoveAll(e.Root)
		if err := os.MkdirAll(e.Root, 0755); err != nil {
			return err
		}
	}
	keys := make([]string, 0, len(t))
	for k := range t {
		keys = append(keys, k)
	}
	sort.Strings(keys)
	for _, k := range keys {
		n := t[k]
		p := filepath.Join(e.Root, filepath.FromSlash(k))
		if n.Dir {
			if err := os.Mkdir(p, 0755); err != nil {
				return err
			}
		} else {
			if err := ioutil.WriteFile(p, []byte(n.Data), 0644); err != nil {
				return err
			}
		}
	}
	// Modification times: a served directory holds files of any age (unpacked
	// archives, restored backups, clock changes), not only files written a
	// moment ago. Which stored time a node gets is a function of the tree and
	// the node's path, so that a witness {tree, request} replays identically.
	sh := fnv.New32a()
	sh.Write([]byte(shape))
	shapeHash := sh.Sum32()
	for _, k := range keys {
		cls, mt := mtimeFor(shapeHash, k)
		if cls == "now" {
			continue
		}
		p := filepath.Join(e.Root, filepath.FromSlash(k))
		if err := os.Chtimes(p, mt, mt); err != nil {
			return err
		}
		if !e.mtimeSeen[cls] {
			if e.mtimeSeen == nil {
				e.mtimeSeen = map[string]bool{}
			}
			e.mtimeSeen[cls] = true
			e.C.Observe("stored_mtime_classes", cls, 1)
		}
	}
	e.cur = shape
	return nil
}

// MtimeClasses are the stored modification times Materialise deals out.
var MtimeClasses = []struct {
	Name string
	T    time.Time
}{
	{"now", time.Time{}}, {"now", time.Time{}}, {"now", time.Time{}},
	{"unix-epoch", time.Unix(0, 0)},
	{"one-second-before-the-epoch", time.Unix(-1, 0)},
	{"one-second-after-the-epoch", time.Unix(1, 0)},
	{"half-a-second-after-the-epoch", time.Unix(0, 500000000)},
	{"half-a-second-before-the-epoch", time.Unix(-1, 500000000)},
	{"last-nanosecond-of-a-second", time.Unix(1000000000, 999999999)},
	{"2^31-1", time.Unix(1<<31-1, 0)},
	{"2^31", time.Unix(1<<31, 0)},
	{"-2^31", time.Unix(-(1 << 31), 0)},
	{"dos-epoch-1980", time.Unix(315532800, 0)},
	{"year-2100", time.Unix(4102444800, 123456789)},
	{"leap-day-midnight", time.Unix(951782400, 0)},
}

func mtimeFor(shapeHash uint32, path string) (string, time.Time) {
	h := fnv.New32a()
	fmt.Fprintf(h, "%d|%s", shapeHash, path)
	m := MtimeClasses[h.Sum32()%uint32(len(MtimeClasses))]
	return m.Name, m.T
}

// Resp is what the handler answered.
type Resp struct {
	Code     int
	Header   http.Header
	Body     []byte
	Panicked bool
	PanicVal string
	Stack    string
}

const Host = "dav.test"

const FivePropBody = `<?xml version="1.0" encoding="utf-8"?><D:propfind xmlns:D="DAV:"><D:prop><D:resourcetype/><D:getcontentlength/><D:getlastmodified/><D:getcontenttype/><D:getetag/></D:prop></D:propfind>`

func escPath(p string) string { return (&url.URL{Path: p}).EscapedPath() }

// BuildRequest turns a model request into a client-side *http.Request.
func BuildRequest(r davtree.Req) (*http.Request, error) {
	target := escPath(davtree.Spell(r.Path, r.PathForm))
	if r.TrailingSlash && !strings.HasSuffix(target, "/") {
		target += "/"
	}
	var body io.Reader
	pfBody, hasPfBody := "", false
	if r.Method == "PROPFIND" {
		pfBody, hasPfBody = propfindBody(r.PropBody)
	}
	switch {
	case hasPfBody:
		body = strings.NewReader(pfBody)
	case r.HasBody:
		body = strings.NewReader(r.Body)
	}
	req, err := http.NewRequest(r.Method, "http://"+Host+target, body)
	if err != nil {
		return nil, err
	}
	if hasPfBody {
		req.Header.Set("Content-Type", "application/xml; charset=utf-8")
	}
	if r.ContentType != "" {
		req.Header.Set("Content-Type", r.ContentType)
	}
	if r.Depth != "" {
		req.Header.Set("Depth", r.Depth)
	}
	if r.Overwrite != "" {
		req.Header.Set("Overwrite", r.Overwrite)
	}
	switch r.DestForm {
	case "path":
		req.Header.Set("Destination", escPath(r.Dest))
	case "url":
		req.Header.Set("Destination", "http://"+Host+escPath(r.Dest))
	case "url-upper":
		req.Header.Set("Destination", "http://"+strings.ToUpper(Host)+escPath(r.Dest))
	case "url-port":
		req.Header.Set("Destination", "http://"+Host+":80"+escPath(r.Dest))
	case "netpath":
		req.Header.Set("Destination", "//"+Host+escPath(r.Dest))
	case "slash":
		d := escPath(r.Dest)
		if !strings.HasSuffix(d, "/") {
			d += "/"
		}
		req.Header.Set("Destination", d)
	case "dotseg", "dblslash", "updown":
		req.Header.Set("Destination", escPath(davtree.Spell(r.Dest, r.DestForm)))
	case "garbage":
		req.Header.Set("Destination", "http://[::1")
	case "relative":
		req.Header.Set("Destination", strings.TrimPrefix(escPath(r.Dest), "/"))
	case "nopath":
		req.Header.Set("Destination", "http://"+Host)
	}
	for _, h := range r.Extra {
		req.Header.Set(h[0], h[1])
	}
	return req, nil
}

// Serve runs one client-side request through the handler.
func (e *Env) Serve(req *http.Request) Resp {
	sreq, err := doubles.ServerRequest(req)
	if err != nil {
		return Resp{Code: -1, PanicVal: "cannot serialise request: " + err.Error()}
	}
	// One request in four reaches the handler with its body in another legal
	// presentation (doubles.BodyShapes); which one is a function of the
	// request and of the tree it meets, so a replay takes the same path.
	h := fnv.New32a()
	fmt.Fprintf(h, "%s %s %d %s", req.Method, req.URL.String(), req.ContentLength, e.cur)
	if v := h.Sum32(); v%4 == 0 {
		shape := doubles.BodyShapes[(v/4)%uint32(len(doubles.BodyShapes))]
		body, rerr := ioutil.ReadAll(sreq.Body)
		if rerr == nil {
			doubles.ShapeBody(sreq, body, shape)
			e.C.Observe("body_shape", req.Method+" "+shape, 1)
		} else {
			sreq.Body = ioutil.NopCloser(bytes.NewReader(body))
		}
	}
	return e.ServeServerSide(sreq)
}

// ServeModel is Serve for the request built from r; when r.BreakAfter is set
// the body the handler reads breaks off with an error after that many bytes
// (the announced length stays the full one).
func (e *Env) ServeModel(r davtree.Req, req *http.Request) Resp {
	if r.BreakAfter == nil {
		return e.Serve(req)
	}
	sreq, err := doubles.ServerRequest(req)
	if err != nil {
		return Resp{Code: -1, PanicVal: "cannot serialise request: " + err.Error()}
	}
	sreq.Body = ioutil.NopCloser(&breakingBody{data: []byte(r.Body), left: *r.BreakAfter})
	sreq.ContentLength = int64(len(r.Body))
	return e.ServeServerSide(sreq)
}

// ServeServerSide runs a request that is already in server-side form.
func (e *Env) ServeServerSide(sreq *http.Request) Resp {
	rec := httptest.NewRecorder()
	panicked, pv, stack := fw.Guard(func() { e.H.ServeHTTP(rec, sreq) })
	e.cur = "" // unknown until snapshotted
	res := rec.Result()
	b, _ := ioutil.ReadAll(res.Body)
	return Resp{Code: rec.Code, Header: res.Header, Body: b, Panicked: panicked, PanicVal: fmt.Sprint(pv), Stack: stack}
}

// goneWriter is a client that goes away: it takes left bytes of the answer,
// then every Write fails.
type goneWriter struct {
	h    http.Header
	left int
}

func (w *goneWriter) Header() http.Header { return w.h }
func (w *goneWriter) WriteHeader(int)     {}
func (w *goneWriter) Write(p []byte) (int, error) {
	n := len(p)
	if n > w.left {
		n = w.left
	}
	w.left -= n
	if n < len(p) {
		return n, fmt.Errorf("verif: the client has gone away")
	}
	return n, nil
}

// ServeUndelivered serves a read-only request whose answer cannot be
// delivered beyond its first k bytes. Nothing is judged but a panic; the point
// is what such a request leaves behind for the requests that follow.
func (e *Env) ServeUndelivered(req *http.Request, k int) (panicked bool, pv interface{}, stack string) {
	sreq, err := doubles.ServerRequest(req)
	if err != nil {
		return false, nil, ""
	}
	return fw.Guard(func() { e.H.ServeHTTP(&goneWriter{h: http.Header{}, left: k}, sreq) })
}

// Snap snapshots the served directory.
func (e *Env) Snap() mon.Snap {
	s, err := mon.Snapshot(e.Root)
	if err != nil {
		e.C.Inconclusive("snapshot failed: " + err.Error())
	}
	return s
}

// LeakScan reports a host path in a response (C17).
func (e *Env) LeakScan(what string, r davtree.Req, pre davtree.Tree, resp Resp) {
	if !e.Mon.Leak {
		return
	}
	needles := []string{e.Root, e.Resolved, e.Base}
	hit := func(s string) string {
		for _, n := range needles {
			if n != "" && strings.Contains(s, n) {
				return n
			}
		}
		return ""
	}
	where := ""
	if hit(string(resp.Body)) != "" {
		where = "body"
	}
	for k, vs := range resp.Header {
		for _, v := range vs {
			if hit(v) != "" {
				where = "header " + k
			}
		}
	}
	if where == "" {
		return
	}
	op := leakOp(string(resp.Body))
	key := fmt.Sprintf("%s|%s|status=%d|in=%s|%s", r.Method, classOf(pre, r), resp.Code, strings.SplitN(where, " ", 2)[0], op)
	e.C.Report(key, fmt.Sprintf("%s: response discloses the served directory's host path (%s): %.200q", what, where, string(resp.Body)),
		map[string]interface{}{"tree": pre.Shape(), "request": r, "status": resp.Code, "body": string(resp.Body)})
}

// leakOp extracts the failing system call named in an error text, if any.
func leakOp(body string) string {
	for _, op := range []string{"rename", "mkdir", "open", "stat", "lstat", "unlinkat", "remove", "readdirent", "link", "openat", "fdopendir"} {
		if strings.Contains(body, op+" ") {
			return "op=" + op
		}
	}
	return "op=?"
}

func depthClass(d string) string {
	switch d {
	case "", "infinity":
		return "deep"
	case "0", "1":
		return d
	}
	return "bad"
}

func owClass(o string) string {
	switch o {
	case "", "T":
		return "T"
	case "F":
		return "F"
	}
	return "bad"
}

// classOf is the abstract class of a request in a tree (finding-key prefix).
func classOf(t davtree.Tree, r davtree.Req) string {
	s := classOfPlain(t, r)
	if len(r.Extra) > 0 {
		s += "|hdr=" + r.ExtraTag
	}
	if r.BreakAfter != nil {
		s += "|body-breaks-off"
	}
	return s
}

func classOfPlain(t davtree.Tree, r davtree.Req) string {
	switch r.Method {
	case "COPY", "MOVE":
		rel := "dest-" + r.DestForm
		if davtree.DestNamesPath(r.DestForm) {
			rel = "dst=" + t.DestRelation(r.Path, r.Dest)
			if r.DestForm != "path" {
				rel += "(" + r.DestForm + ")"
			}
		}
		src := t.TargetClass(r.Path)
		if r.PathForm != "" {
			src += "(" + r.PathForm + ")"
		}
		return fmt.Sprintf("src=%s|%s|depth=%s|ow=%s", src, rel, depthClass(r.Depth), owClass(r.Overwrite))
	case "PROPFIND":
		return fmt.Sprintf("target=%s|depth=%s|body=%s", t.TargetClass(r.Path), depthKey(r.Depth), r.PropBody)
	case "MKCOL":
		v := "plain"
		if r.ContentType != "" {
			v = "content-type"
		} else if r.HasBody {
			v = "body-no-type"
		}
		return fmt.Sprintf("target=%s|%s", t.TargetClass(r.Path), v)
	}
	s := "target=" + t.TargetClass(r.Path)
	if r.PathForm != "" {
		s += "(" + r.PathForm + ")"
	}
	if r.TrailingSlash {
		s += "|slash"
	}
	return s
}

func depthKey(d string) string {
	switch d {
	case "":
		return "absent"
	case "0", "1", "infinity":
		return d
	}
	return "bad"
}

func effectClass(pre string, post string, outs []davtree.Outcome) string {
	if post == pre {
		return "unchanged"
	}
	for _, o := range outs {
		if !o.Refusal && o.Tree.Shape() == post {
			return "model-effect"
		}
	}
	return "other-effect"
}

// Observe applies the monitors to one executed request. pre is the model
// tree before (equal to the directory), preShape/postShape the directory
// shapes. It returns the model tree after (nil when model and server
// disagree or the model has no opinion and the tree changed).
func (e *Env) Observe(what string, pre davtree.Tree, r davtree.Req, resp Resp, preShape, postShape string) {
	c := e.C
	c.Eval(1)
	cls := classOf(pre, r)
	c.Observe("status_by_method", fmt.Sprintf("%s %d", r.Method, resp.Code), 1)
	wit := func() interface{} {
		m := map[string]interface{}{"tree": pre.Shape(), "request": r, "status": resp.Code,
			"body": trunc(string(resp.Body), 300), "tree_after": postShape}
		if e.WitExtra != nil {
			m["slice_case"] = e.WitExtra
		}
		return m
	}
	if resp.Panicked {
		c.Report("panic|"+fw.PanicSite(resp.Stack), what+": handler panicked: "+resp.PanicVal, wit())
		return
	}
	e.LeakScan(what, r, pre, resp)
	if e.Mon.Leak {
		c.Distinct("C17|" + r.Method + "|" + cls + "|" + fmt.Sprint(resp.Code))
	}
	if e.Mon.Unchanged && resp.Code >= 400 {
		c.Observe("refused_by_method", r.Method, 1)
		c.Distinct("C02|" + r.Method + "|" + cls + "|" + fmt.Sprint(resp.Code))
		if postShape != preShape {
			key := fmt.Sprintf("%s|%s|status=%d|tree-changed", r.Method, cls, resp.Code)
			if e.KeyTag != "" {
				key = fmt.Sprintf("%s|%s|answered>=400|tree-changed", e.KeyTag, r.Method)
			}
			c.Report(key, fmt.Sprintf("%s: answered %d but the tree changed", what, resp.Code), wit())
		}
	}
	if !e.Mon.Model {
		return
	}
	outs := davtree.Step(pre, r)
	if outs == nil {
		c.Observe("model", "outside-universe", 1)
		return
	}
	c.Observe("model", "decided", 1)
	nontrivial := false
	for _, o := range outs {
		if !o.Refusal || (len(o.Codes) > 0 && o.Codes[0] != 405) || o.Any4xx {
			nontrivial = true
		}
	}
	if r.Method == "OPTIONS" || !davtreeKnown(r.Method) {
		nontrivial = false
	}
	if nontrivial {
		c.Distinct("C01|" + r.Method + "|" + cls + "|" + davtree.Describe(outs))
	}
	matched := false
	for _, o := range outs {
		if o.Accepts(resp.Code) && o.Tree.Shape() == postShape {
			matched = true
			break
		}
	}
	if !matched {
		key := fmt.Sprintf("%s|%s|expect=%s|got=%d:%s", r.Method, cls, davtree.Describe(outs), resp.Code, effectClass(preShape, postShape, outs))
		if e.KeyTag != "" {
			// one key per method and kind of divergence: the slice is one class of pre-states
			div := "refused-where-the-model-succeeds"
			if ec := effectClass(preShape, postShape, outs); ec != "unchanged" {
				div = "tree-differs-from-the-model:" + ec
			} else if resp.Code < 400 {
				div = fmt.Sprintf("got=%d:unchanged", resp.Code)
			}
			key = fmt.Sprintf("%s|%s|%s", e.KeyTag, r.Method, div)
		}
		c.Report(key, fmt.Sprintf("%s: model expects %s, server answered %d and the tree is %s", what, davtree.Describe(outs), resp.Code, effectClass(preShape, postShape, outs)), wit())
		return
	}
	// content checks for reads
	switch r.Method {
	case "GET", "HEAD":
		if resp.Code == 200 && pre.Kind(r.Path) == davtree.File {
			e.checkGet(what, pre, r, resp)
		}
	case "OPTIONS":
		e.checkOptions(what, pre, r, resp)
	case "PROPFIND":
		if resp.Code == 207 {
			e.checkPropfind(what, pre, r, resp)
		}
	case "PUT":
		if resp.Code/100 == 2 {
			e.checkPutHeaders(what, r, resp, wit)
		}
	}
}

// checkPutHeaders: what a successful PUT says about the stored file in its
// entity headers must be true of the file (the statement's "entity headers").
// Last-Modified: the file's modification time to the second, as an HTTP-date
// (GMT) - whatever the local time zone of the serving process is.
func (e *Env) checkPutHeaders(what string, r davtree.Req, resp Resp, wit func() interface{}) {
	lm := resp.Header.Get("Last-Modified")
	if lm == "" {
		return
	}
	fi, err := os.Stat(filepath.Join(e.Root, filepath.FromSlash(r.Path)))
	if err != nil || fi.IsDir() {
		return
	}
	t, perr := http.ParseTime(lm)
	want := fi.ModTime().UTC().Truncate(time.Second)
	e.C.Observe("put_entity_headers", "Last-Modified compared with the stored file's mtime", 1)
	if perr != nil || !strings.HasSuffix(lm, " GMT") || !t.Equal(want) {
		_, off := time.Now().Zone()
		cls := "differs"
		if perr == nil && off != 0 && t.Equal(want.Add(time.Duration(off)*time.Second)) {
			cls = "shifted-by-the-process-zone-offset"
		}
		e.C.Report("PUT|entity-header|Last-Modified|"+cls, fmt.Sprintf("%s: PUT answered Last-Modified %q, the stored file's modification time is %s", what, lm, want.Format(http.TimeFormat)), wit())
	}
}

func davtreeKnown(m string) bool {
	switch m {
	case "OPTIONS", "GET", "HEAD", "PUT", "DELETE", "MKCOL", "COPY", "MOVE", "PROPFIND":
		return true
	}
	return false
}

func trunc(s string, n int) string {
	if len(s) > n {
		return s[:n] + "…"
	}
	return s
}

func (e *Env) checkGet(what string, pre davtree.Tree, r davtree.Req, resp Resp) {
	c := e.C
	data := pre[r.Path].Data
	wit := map[string]interface{}{"tree": pre.Shape(), "request": r, "status": resp.Code, "header": resp.Header, "body": trunc(string(resp.Body), 200)}
	if r.Method == "GET" && string(resp.Body) != data {
		c.Report("GET|file|body-differs", what+": GET body differs from the stored bytes", wit)
	}
	if r.Method == "HEAD" && len(resp.Body) != 0 {
		c.Report("HEAD|file|body-present", what+": HEAD answered with a body", wit)
	}
	if cl := resp.Header.Get("Content-Length"); cl != fmt.Sprint(len(data)) {
		c.Report(r.Method+"|file|content-length", fmt.Sprintf("%s: Content-Length %q, stored size %d", what, cl, len(data)), wit)
	}
	et := resp.Header.Get("ETag")
	if len(et) < 2 || et[0] != '"' || et[len(et)-1] != '"' {
		c.Report(r.Method+"|file|etag-not-quoted", fmt.Sprintf("%s: ETag %q is not a quoted string", what, et), wit)
	}
	if fi, err := os.Stat(filepath.Join(e.Root, filepath.FromSlash(r.Path))); err == nil {
		lm, perr := http.ParseTime(resp.Header.Get("Last-Modified"))
		if perr != nil || lm.Unix() != fi.ModTime().Unix() {
			c.Report(r.Method+"|file|last-modified", fmt.Sprintf("%s: Last-Modified %q, file mtime %v", what, resp.Header.Get("Last-Modified"), fi.ModTime().UTC()), wit)
		}
	}
}

func tokens(vals []string) map[string]bool {
	m := map[string]bool{}
	for _, v := range vals {
		for _, f := range strings.Split(v, ",") {
			f = strings.TrimSpace(f)
			if f != "" {
				m[strings.ToUpper(f)] = true
			}
		}
	}
	return m
}

func (e *Env) checkOptions(what string, pre davtree.Tree, r davtree.Req, resp Resp) {
	c := e.C
	wit := map[string]interface{}{"tree": pre.Shape(), "request": r, "status": resp.Code, "header": resp.Header}
	dav := tokens(resp.Header["Dav"])
	if !dav["1"] {
		c.Report("OPTIONS|dav-header-lacks-1", what+": DAV header does not contain class 1", wit)
	}
	allow := tokens(resp.Header["Allow"])
	var must, mustNot []string
	switch pre.Kind(r.Path) {
	case davtree.File:
		must = []string{"OPTIONS", "GET", "HEAD", "PUT", "DELETE", "COPY", "MOVE", "PROPFIND"}
		mustNot = []string{"MKCOL"}
	case davtree.Coll:
		must = []string{"OPTIONS", "PROPFIND"}
		if r.Path != "/" {
			must = append(must, "DELETE", "COPY", "MOVE")
		}
		mustNot = []string{"GET", "PUT", "MKCOL"}
	case davtree.Absent:
		if pre.Kind(davtree.Parent(r.Path)) == davtree.Coll {
			must = []string{"OPTIONS", "PUT", "MKCOL"}
		} else {
			must = []string{"OPTIONS"}
		}
	}
	cls := pre.TargetClass(r.Path)
	for _, m := range must {
		if !allow[m] {
			c.Report("OPTIONS|"+cls+"|allow-lacks-"+m, fmt.Sprintf("%s: Allow %v lacks %s although the model lets it succeed", what, resp.Header["Allow"], m), wit)
		}
	}
	for _, m := range mustNot {
		if allow[m] {
			c.Report("OPTIONS|"+cls+"|allow-has-"+m, fmt.Sprintf("%s: Allow %v contains %s although the model answers 405", what, resp.Header["Allow"], m), wit)
		}
	}
}

func cleanHref(p string) string {
	if p == "" {
		return p
	}
	q := path.Clean(p)
	return q
}

func (e *Env) checkPropfind(what string, pre davtree.Tree, r davtree.Req, resp Resp) {
	c := e.C
	wit := map[string]interface{}{"tree": pre.Shape(), "request": r, "status": resp.Code, "body": trunc(string(resp.Body), 1500)}
	cls := classOf(pre, r)
	ms, err := davx.ReadMultiStatus(resp.Body)
	if err != nil {
		c.Report("PROPFIND|unreadable-multistatus", what+": multi-status not readable by the independent reader: "+err.Error(), wit)
		return
	}
	depth := -1
	switch r.Depth {
	case "0":
		depth = 0
	case "1":
		depth = 1
	}
	want := pre.Scope(r.Path, depth)
	got := map[string]int{}
	for _, rs := range ms.Responses {
		if len(rs.Paths) != 1 {
			c.Report("PROPFIND|response-href-count", fmt.Sprintf("%s: a response carries %d hrefs", what, len(rs.Paths)), wit)
			return
		}
		p := rs.Paths[0]
		if !strings.HasPrefix(p, "/") {
			c.Report("PROPFIND|href-not-absolute", fmt.Sprintf("%s: href %q is not an absolute path", what, p), wit)
			return
		}
		got[cleanHref(p)]++
		// per-resource content
		k := pre.Kind(cleanHref(p))
		e.checkProps(what, cls, r.PropBody, rs, cleanHref(p), k, pre[cleanHref(p)].Data, wit)
	}
	var missing, extra, dup []string
	for _, w := range want {
		if got[w] == 0 {
			missing = append(missing, w)
		}
	}
	wantSet := map[string]bool{}
	for _, w := range want {
		wantSet[w] = true
	}
	for g, n := range got {
		if !wantSet[g] {
			extra = append(extra, g)
		}
		if n > 1 {
			dup = append(dup, g)
		}
	}
	if len(missing)+len(extra)+len(dup) > 0 {
		sort.Strings(extra)
		sort.Strings(dup)
		kind := ""
		if len(missing) > 0 {
			kind += "missing"
		}
		if len(extra) > 0 {
			kind += "+extra"
		}
		if len(dup) > 0 {
			kind += "+duplicate"
		}
		c.Report("PROPFIND|"+cls+"|scope-"+kind, fmt.Sprintf("%s: response set differs from the Depth scope: missing %v extra %v duplicate %v", what, missing, extra, dup), wit)
	}
}

// Probe checks that GET, HEAD and PROPFIND (and optionally a PUT response)
// announce one and the same entity tag / media type for an unmodified file.
func (e *Env) Probe(what string, pre davtree.Tree, p string, putETag string, havePut bool) {
	if !e.Mon.Model {
		return
	}
	c := e.C
	get := e.do(davtree.Req{Method: "GET", Path: p})
	head := e.do(davtree.Req{Method: "HEAD", Path: p})
	pf := e.do(davtree.Req{Method: "PROPFIND", Path: p, Depth: "0", PropBody: "five"})
	c.Eval(3)
	wit := map[string]interface{}{"tree": pre.Shape(), "path": p, "get": get.Header, "head": head.Header, "propfind": trunc(string(pf.Body), 800), "put_etag": putETag}
	if get.Code != 200 || head.Code != 200 || pf.Code != 207 {
		return // the status mismatch is reported by Observe on the enumerated requests
	}
	tags := map[string]string{"GET": get.Header.Get("ETag"), "HEAD": head.Header.Get("ETag")}
	if havePut {
		tags["PUT"] = putETag
	}
	var pfType string
	if ms, err := davx.ReadMultiStatus(pf.Body); err == nil && len(ms.Responses) == 1 {
		if n, code := ms.Responses[0].Prop(davx.NS, "getetag"); n != nil && code == 200 {
			tags["PROPFIND"] = strings.TrimSpace(n.TextContent())
		} else {
			tags["PROPFIND"] = ""
		}
		if n, code := ms.Responses[0].Prop(davx.NS, "getcontenttype"); n != nil && code == 200 {
			pfType = strings.TrimSpace(n.TextContent())
		}
	}
	ref := tags["GET"]
	for k, v := range tags {
		if v != ref || v == "" {
			c.Report("etag-disagreement|"+k, fmt.Sprintf("%s: entity tags announced for one unmodified file differ: %v", what, tags), wit)
			break
		}
	}
	c.Observe("probe", "etag-four-way", 1)
	gt, ht := get.Header.Get("Content-Type"), head.Header.Get("Content-Type")
	if gt != ht {
		c.Report("content-type|GET-vs-HEAD", fmt.Sprintf("%s: GET says %q, HEAD says %q", what, gt, ht), wit)
	}
	if pfType != "" {
		mt := strings.TrimSpace(strings.SplitN(gt, ";", 2)[0])
		pt := strings.TrimSpace(strings.SplitN(pfType, ";", 2)[0])
		if !strings.EqualFold(mt, pt) {
			c.Report("content-type|GET-vs-PROPFIND", fmt.Sprintf("%s: GET says %q, PROPFIND says %q", what, gt, pfType), wit)
		}
	}
}

// propSig renders the properties of one multistatus response (names,
// statuses, values) canonically.
func propSig(rs davx.Response) string {
	var l []string
	for _, ps := range rs.PropStats {
		for _, p := range ps.Props {
			l = append(l, fmt.Sprintf("%s@%d=%s", p.Name(), ps.Status.Code, p.Canon(xmltreeOpts)))
		}
	}
	sort.Strings(l)
	return strings.Join(l, "\n")
}

// ListingConsistency asks for a whole listing (PROPFIND / with Depth infinity
// and Depth 1 on every collection) and then for every listed resource alone
// (Depth 0): what a listing says about a resource must be exactly what the
// resource says about itself - same property names, statuses and values. It
// catches state carried from one listed resource to the next.
func (e *Env) ListingConsistency(what string, t davtree.Tree) {
	if !e.Mon.Model {
		return
	}
	c := e.C
	for _, body := range []string{"", "five"} {
		single := map[string]string{}
		ask := func(p string, depth string) map[string]string {
			resp := e.do(davtree.Req{Method: "PROPFIND", Path: p, Depth: depth, PropBody: body})
			c.Eval(1)
			if resp.Code != 207 {
				return nil
			}
			ms, err := davx.ReadMultiStatus(resp.Body)
			if err != nil {
				return nil
			}
			m := map[string]string{}
			for _, rs := range ms.Responses {
				if len(rs.Paths) == 1 {
					m[cleanHref(rs.Paths[0])] = propSig(rs)
				}
			}
			return m
		}
		var colls []string
		colls = append(colls, "/")
		for p, n := range t {
			if n.Dir {
				colls = append(colls, p)
			}
		}
		sort.Strings(colls)
		check := func(list map[string]string, from string) {
			for p, sig := range list {
				if _, ok := single[p]; !ok {
					if one := ask(p, "0"); one != nil {
						single[p] = one[p]
					}
				}
				if own, ok := single[p]; ok && own != sig {
					c.Report("PROPFIND|listing-differs-from-the-resource-itself|body="+body,
						fmt.Sprintf("%s: in the listing of %q the resource %q is described differently from its own Depth 0 answer", what, from, p),
						map[string]interface{}{"tree": t.Shape(), "listing_of": from, "resource": p, "in_listing": sig, "alone": own})
					return
				}
				c.Observe("probe", "listing-entries-compared-with-depth-0", 1)
			}
		}
		if all := ask("/", "infinity"); all != nil {
			check(all, "/ (Depth infinity)")
		}
		for _, cp := range colls {
			if l := ask(cp, "1"); l != nil {
				check(l, cp+" (Depth 1)")
			}
		}
	}
}

func (e *Env) do(r davtree.Req) Resp {
	req, err := BuildRequest(r)
	if err != nil {
		return Resp{Code: -1}
	}
	cur := e.cur
	resp := e.Serve(req)
	if r.Method == "GET" || r.Method == "HEAD" || r.Method == "PROPFIND" || r.Method == "OPTIONS" {
		e.cur = cur
	}
	return resp
}

// RunOne materialises t, executes r, observes. It returns the response.
func (e *Env) RunOne(what string, t davtree.Tree, r davtree.Req) (Resp, string) {
	if err := e.Materialise(t); err != nil {
		e.C.Inconclusive("materialise: " + err.Error())
		return Resp{Code: -1}, ""
	}
	preShape := t.Shape()
	req, err := BuildRequest(r)
	if err != nil {
		e.C.Inconclusive("build request: " + err.Error())
		return Resp{Code: -1}, ""
	}
	e.C.Journal(map[string]interface{}{"tree": preShape, "request": r})
	resp := e.ServeModel(r, req)
	post := e.Snap().Shape()
	e.cur = post
	e.Observe(what, t, r, resp, preShape, post)
	e.C.JournalDone()
	return resp, post
}

var _ = bytes.NewReader

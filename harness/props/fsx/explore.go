package fsx

import (
	"fmt"
	"math/rand"
	"os"
	"path/filepath"
	"strings"

	"github.com/emersion/go-webdav/verifharness/fw"
	"github.com/emersion/go-webdav/verifharness/model/davtree"
)

// Trees enumerates the bounded universe: names {a,b}, depth <= 2, file
// contents {c1,c2}: a level-2 node is absent, file c1, file c2 or an empty
// collection; a level-1 node is absent, file c1, file c2 or a collection with
// any of the 16 member combinations: 19 x 19 = 361 trees; plus 24 trees of a
// second family that reaches depth 3-4 along /a/b/a.
func Trees() []davtree.Tree {
	type opt func(t davtree.Tree, p string)
	var l1 []opt
	l1 = append(l1, func(t davtree.Tree, p string) {})
	l1 = append(l1, func(t davtree.Tree, p string) { t[p] = davtree.Node{Data: "c1"} })
	l1 = append(l1, func(t davtree.Tree, p string) { t[p] = davtree.Node{Data: "c2"} })
	l2 := []func(t davtree.Tree, p string){
		func(t davtree.Tree, p string) {},
		func(t davtree.Tree, p string) { t[p] = davtree.Node{Data: "c1"} },
		func(t davtree.Tree, p string) { t[p] = davtree.Node{Data: "c2"} },
		func(t davtree.Tree, p string) { t[p] = davtree.Node{Dir: true} },
	}
	for i := 0; i < 4; i++ {
		for j := 0; j < 4; j++ {
			i, j := i, j
			l1 = append(l1, func(t davtree.Tree, p string) {
				t[p] = davtree.Node{Dir: true}
				l2[i](t, p+"/a")
				l2[j](t, p+"/b")
			})
		}
	}
	var trees []davtree.Tree
	for _, oa := range l1 {
		for _, ob := range l1 {
			t := davtree.Tree{}
			oa(t, "/a")
			ob(t, "/b")
			trees = append(trees, t)
		}
	}
	// A second family reaches depth 3 (the probe path /a/b/a exists as a file
	// or collection), so that deep recursion of COPY/MOVE/DELETE/PROPFIND and
	// COPY Depth 0 of a nested collection are enumerated too.
	for _, b := range []func(davtree.Tree){
		func(t davtree.Tree) {},
		func(t davtree.Tree) { t["/b"] = davtree.Node{Data: "c1"} },
		func(t davtree.Tree) { t["/b"] = davtree.Node{Dir: true} },
	} {
		for _, aa := range []int{0, 1} { // /a/a absent or file
			for _, aba := range []int{0, 1, 2, 3} { // /a/b/a absent, file, empty collection, collection with a member
				t := davtree.Tree{"/a": {Dir: true}, "/a/b": {Dir: true}}
				if aa == 1 {
					t["/a/a"] = davtree.Node{Data: "c2"}
				}
				switch aba {
				case 1:
					t["/a/b/a"] = davtree.Node{Data: "c1"}
				case 2:
					t["/a/b/a"] = davtree.Node{Dir: true}
				case 3:
					t["/a/b/a"] = davtree.Node{Dir: true}
					t["/a/b/a/leaf"] = davtree.Node{Data: "c2"}
				}
				b(t)
				trees = append(trees, t)
			}
		}
	}
	return trees
}

var UniversePaths = []string{"/", "/a", "/b", "/a/a", "/a/b", "/b/a", "/b/b", "/a/b/a"}

// Requests enumerates the single-step requests of the universe.
func Requests(full bool) []davtree.Req {
	base, dealt := requestLists(full)
	return append(base, dealt...)
}

// requestLists gives the requests applied to every tree (base) and those the
// quick tier deals out over the trees, a third to each (dealt): the families
// added after the original product - request bodies of PROPFIND, collections
// addressed with a trailing slash, header values outside the grammars.
func requestLists(full bool) (base, dealt []davtree.Req) {
	var l, l2 []davtree.Req
	add := func(r davtree.Req) { l = append(l, r) }
	add2 := func(r davtree.Req) { l2 = append(l2, r) }
	for _, p := range UniversePaths {
		add(davtree.Req{Method: "OPTIONS", Path: p})
		add(davtree.Req{Method: "GET", Path: p})
		add(davtree.Req{Method: "HEAD", Path: p})
		add(davtree.Req{Method: "PUT", Path: p, HasBody: true, Body: "c1"})
		add(davtree.Req{Method: "PUT", Path: p, HasBody: true, Body: "c2"})
		add(davtree.Req{Method: "PUT", Path: p, HasBody: true, Body: ""})
		add(davtree.Req{Method: "DELETE", Path: p})
		add(davtree.Req{Method: "MKCOL", Path: p})
		add(davtree.Req{Method: "MKCOL", Path: p, HasBody: true, Body: "<x/>", ContentType: "text/xml"})
		add(davtree.Req{Method: "MKCOL", Path: p, HasBody: true, Body: "<x/>"})
		for _, d := range []string{"", "0", "1", "infinity", "2"} {
			for _, b := range []string{"", "five"} {
				add(davtree.Req{Method: "PROPFIND", Path: p, Depth: d, PropBody: b})
			}
		}
		// the request-body dimension of PROPFIND: the XML forms of allprop and
		// propname, and <prop> requests over live, foreign and near-miss names
		add2(davtree.Req{Method: "PROPFIND", Path: p, Depth: "1", PropBody: "allprop"})
		add2(davtree.Req{Method: "PROPFIND", Path: p, Depth: "1", PropBody: "propname"})
		for i, set := range PropSetNames() {
			add2(davtree.Req{Method: "PROPFIND", Path: p, Depth: []string{"1", "0", "infinity", ""}[i%4], PropBody: "names:" + set})
			if full {
				add2(davtree.Req{Method: "PROPFIND", Path: p, Depth: []string{"0", "1", "1", "0"}[i%4], PropBody: "names:" + set})
			}
		}
		// other spellings outside the Depth grammar ("0" | "1" | "infinity")
		for _, d := range BadDepths(full) {
			add2(davtree.Req{Method: "PROPFIND", Path: p, Depth: d})
		}
		for _, m := range []string{"FOO", "POST", "PATCH", "LOCK", "PROPPATCH"} {
			add(davtree.Req{Method: m, Path: p})
		}
		if p != "/" {
			for _, f := range []string{"dotseg", "dblslash", "updown"} {
				add(davtree.Req{Method: "GET", Path: p, PathForm: f})
				add(davtree.Req{Method: "PUT", Path: p, PathForm: f, HasBody: true, Body: "c2"})
				add(davtree.Req{Method: "DELETE", Path: p, PathForm: f})
				add(davtree.Req{Method: "MKCOL", Path: p, PathForm: f})
				add(davtree.Req{Method: "PROPFIND", Path: p, PathForm: f, Depth: "1"})
			}
			add(davtree.Req{Method: "PROPFIND", Path: p, Depth: "0", TrailingSlash: true})
			add(davtree.Req{Method: "DELETE", Path: p, TrailingSlash: true})
			add(davtree.Req{Method: "MKCOL", Path: p, TrailingSlash: true})
			// collections addressed the way clients address them: /a/
			add2(davtree.Req{Method: "OPTIONS", Path: p, TrailingSlash: true})
			add2(davtree.Req{Method: "GET", Path: p, TrailingSlash: true})
			add2(davtree.Req{Method: "HEAD", Path: p, TrailingSlash: true})
			add2(davtree.Req{Method: "PROPFIND", Path: p, Depth: "1", TrailingSlash: true})
			add2(davtree.Req{Method: "PROPFIND", Path: p, Depth: "infinity", PropBody: "five", TrailingSlash: true})
			add2(davtree.Req{Method: "PUT", Path: p, TrailingSlash: true, HasBody: true, Body: "c1"})
		}
	}
	type hdr struct{ d, o string }
	var hdrs []hdr
	if full {
		for _, d := range []string{"", "0", "1", "infinity", "2"} {
			for _, o := range []string{"", "T", "F", "X"} {
				hdrs = append(hdrs, hdr{d, o})
			}
		}
	} else {
		hdrs = []hdr{{"", ""}, {"0", ""}, {"infinity", "F"}, {"", "F"}, {"1", "T"}, {"2", ""}, {"", "X"}, {"0", "F"}, {"infinity", "T"}}
	}
	for _, m := range []string{"COPY", "MOVE"} {
		for _, s := range UniversePaths {
			for _, d := range UniversePaths {
				for _, h := range hdrs {
					add(davtree.Req{Method: m, Path: s, Dest: d, DestForm: "path", Depth: h.d, Overwrite: h.o})
				}
				for _, f := range []string{"dotseg", "dblslash", "updown"} {
					if d != "/" {
						add(davtree.Req{Method: m, Path: s, Dest: d, DestForm: f})
					}
					if s != "/" && (f == "dotseg" || full) {
						add(davtree.Req{Method: m, Path: s, PathForm: f, Dest: d, DestForm: "path"})
					}
				}
				add(davtree.Req{Method: m, Path: s, Dest: d, DestForm: "url"})
				// the same server under another spelling of its authority
				add(davtree.Req{Method: m, Path: s, Dest: d, DestForm: []string{"url-upper", "url-port", "netpath"}[(len(s)+len(d)+len(m))%3]})
				add(davtree.Req{Method: m, Path: s, Dest: d, DestForm: "slash"})
				add(davtree.Req{Method: m, Path: s, Dest: d, DestForm: "relative"})
			}
			if s != "/" {
				dests := []string{"/a", "/b", "/a/b", "/b/b"}
				if full {
					dests = UniversePaths
				}
				for _, d := range dests {
					// the source collection addressed with a trailing slash
					add2(davtree.Req{Method: m, Path: s, TrailingSlash: true, Dest: d, DestForm: "path"})
					add2(davtree.Req{Method: m, Path: s, TrailingSlash: true, Dest: d, DestForm: "slash", Overwrite: "F"})
					// spellings outside the Depth and Overwrite grammars
					if !full && d != "/b" && d != "/a/b" {
						continue
					}
					for _, bd := range BadDepths(full) {
						add2(davtree.Req{Method: m, Path: s, Dest: d, DestForm: "path", Depth: bd})
					}
					for _, bo := range BadOverwrites(full) {
						add2(davtree.Req{Method: m, Path: s, Dest: d, DestForm: "path", Overwrite: bo})
					}
					if full {
						// header cross terms: non-canonical spellings with Depth / Overwrite present
						for _, f := range []string{"dotseg", "dblslash", "updown"} {
							add2(davtree.Req{Method: m, Path: s, PathForm: f, Dest: d, DestForm: "path", Depth: "0", Overwrite: "F"})
							if d != "/" {
								add2(davtree.Req{Method: m, Path: s, Dest: d, DestForm: f, Depth: "infinity", Overwrite: "F"})
							}
						}
						for _, f := range []string{"url", "url-upper", "url-port", "netpath"} {
							add2(davtree.Req{Method: m, Path: s, Dest: d, DestForm: f, Depth: "0", Overwrite: "F"})
							add2(davtree.Req{Method: m, Path: s, Dest: d, DestForm: f, Overwrite: "T"})
						}
					}
				}
			}
			add(davtree.Req{Method: m, Path: s, DestForm: "missing"})
			add(davtree.Req{Method: m, Path: s, DestForm: "garbage"})
			add(davtree.Req{Method: m, Path: s, DestForm: "nopath"})
		}
	}
	return l, l2
}

// BadDepths / BadOverwrites: header values outside the grammars
// Depth = "0" | "1" | "infinity" and Overwrite = "T" | "F" that a lenient
// parser (a number parser, a prefix test, a list split) would let through.
func BadDepths(full bool) []string {
	if full {
		return []string{"-1", "00", "+1", "0, 1", "infinity,0", "01", "0x0", "1.0", "infinite", "0 1"}
	}
	return []string{"-1", "00", "0, 1"}
}

func BadOverwrites(full bool) []string {
	if full {
		return []string{"TF", "true", "0", "1", "T, F", "F, T", "yes", "FALSE", "T;q=1"}
	}
	return []string{"TF", "true", "F, T"}
}

// modelApplies filters requests whose spelling is outside the universe for
// this tree (trailing slash on a file path).
func modelApplies(t davtree.Tree, r davtree.Req) bool {
	if r.TrailingSlash && t.Kind(r.Path) == davtree.File {
		return false
	}
	if r.DestForm == "slash" {
		if t.Kind(r.Path) != davtree.Coll || t.Kind(r.Dest) == davtree.File {
			return false
		}
	}
	if r.Method == "PUT" && r.TrailingSlash {
		return false // a file name spelt like a collection's: the statement is silent
	}
	if r.DestForm == "relative" && r.Dest == "/" {
		return false // "" relative form of the root = missing header
	}
	return true
}

// Explore runs the exhaustive single-step universe.
func Explore(c *fw.Ctx, mon Monitors) {
	e, err := NewEnv(c, mon, "explore")
	if err != nil {
		c.Inconclusive(err.Error())
		return
	}
	defer e.Close()
	trees := Trees()
	baseReqs, dealtReqs := requestLists(c.Thorough())
	c.Note("universe", fmt.Sprintf("%d trees x (%d requests per tree + %d more requests, each tree a third of them (thorough: all)) (full header product: %v)", len(trees), len(baseReqs), len(dealtReqs), c.Thorough()))
	// listings must describe each resource as the resource describes itself:
	// a fixed tree mixing known and unknown media types, in every lexical order
	if c.Shard == 0 || c.NShardsOr1() == 1 {
		mixed := davtree.Tree{"/a.html": {Data: "<p>"}, "/b": {Data: "bb"}, "/c.png": {Data: "png"}, "/d": {Data: ""}, "/e": {Dir: true},
			"/e/a": {Data: "x"}, "/e/b.txt": {Data: "text"}, "/e/c": {Data: "y"}, "/e/d.css": {Data: "z"}, "/f.txt": {Data: "t"}, "/g": {Dir: true}, "/g/h.json": {Data: "{}"}, "/g/i": {Data: "i"}}
		if err := e.Materialise(mixed); err == nil {
			e.ListingConsistency("mixed-media-types", mixed)
		}
	}
	// a slice of the universe also runs on the disk-backed temp dir
	var disk *Env
	if d, err := NewDiskEnv(c, mon, "explore"); err == nil {
		disk = d
		defer disk.Close()
	}
	tmpfs := e
	for ti, t := range trees {
		if !c.Mine(ti) {
			continue
		}
		e = tmpfs
		if disk != nil && (ti/c.NShardsOr1())%c.Pick(12, 4) == 0 {
			e = disk
			c.Observe("universe", "trees-on-disk-backed-fs", 1)
		}
		c.Observe("universe", "trees", 1)
		// consistency probes on every stored file
		if err := e.Materialise(t); err != nil {
			c.Inconclusive("materialise: " + err.Error())
			return
		}
		for p, n := range t {
			if !n.Dir {
				e.Probe("probe", t, p, "", false)
			}
		}
		reqs := make([]davtree.Req, 0, len(baseReqs)+len(dealtReqs))
		reqs = append(reqs, baseReqs...)
		for j, r := range dealtReqs {
			if c.Thorough() || (j+ti)%3 == 0 {
				reqs = append(reqs, r)
			}
		}
		for _, r := range reqs {
			saved := e.Mon
			if !modelApplies(t, r) {
				e.Mon.Model = false
			}
			resp, post := e.RunOne("single-step", t, r)
			e.Mon = saved
			if mon.Model && r.Method == "PUT" && (resp.Code == 201 || resp.Code == 204 || resp.Code == 200) && davtree.InUniverse(r) {
				// the tag announced by PUT must be the tag GET/HEAD/PROPFIND announce
				if outs := davtree.Step(t, r); len(outs) == 1 && !outs[0].Refusal && outs[0].Tree.Shape() == post {
					e.Probe("probe-after-put", outs[0].Tree, r.Path, resp.Header.Get("ETag"), true)
				}
			}
			if c.WantSample() && r.Method == "MOVE" && resp.Code == 204 {
				c.Sample(map[string]interface{}{"tree": t.Shape(), "request": r, "status": resp.Code, "tree_after": post})
			}
		}
		// the same mutating requests carrying header fields the model has no
		// rule for: nothing for the model to judge, everything for the others
		if mon.Unchanged || mon.Leak {
			for _, r := range ExtraHeaderRequests(ti, c.Thorough()) {
				e.RunOne("single-step", t, r)
				c.Observe("extra_header_families", r.Method+" "+r.ExtraTag, 1)
			}
		}
	}
}

// Containment runs every COPY and MOVE between two resources of a fixed tree
// that are the same, contain one another or are siblings with prefix-related
// names, where the names look like dot segments without being any ("..trash",
// "...", "..", ".hidden", "a" / "ab"): the relations a path-containment test
// has to get right. Shared by C01 (model), C02 (refused => unchanged), C17.
func Containment(c *fw.Ctx, mon Monitors) {
	e, err := NewEnv(c, mon, "contain")
	if err != nil {
		c.Inconclusive(err.Error())
		return
	}
	defer e.Close()
	t := davtree.Tree{
		"/box": {Dir: true}, "/box/..trash": {Dir: true}, "/box/..trash/item.txt": {Data: "item"}, "/box/..trash/deep": {Dir: true}, "/box/..trash/deep/x": {Data: "x"},
		"/box/...": {Dir: true}, "/box/.../y": {Data: "y"}, "/box/..a": {Data: "file whose name starts with two dots"}, "/box/.hidden": {Dir: true}, "/box/.hidden/z": {Data: "z"},
		"/box/a": {Dir: true}, "/box/a/f": {Data: "f"}, "/box/ab": {Dir: true}, "/box/ab/g": {Data: "g"}, "/box/a.txt": {Data: "t"}, "/box2": {Dir: true}, "/box2/h": {Data: "h"}, "/bo": {Data: "bo"},
	}
	var paths []string
	for p := range t {
		paths = append(paths, p)
	}
	sortStrings(paths)
	related := func(a, b string) bool {
		return a == b || strings.HasPrefix(a, b) || strings.HasPrefix(b, a)
	}
	idx := 0
	for _, src := range paths {
		for _, dst := range paths {
			if !related(src, dst) {
				continue
			}
			for _, m := range []string{"COPY", "MOVE"} {
				for _, ow := range []string{"", "T", "F"} {
					for _, form := range []string{"path", "slash", "dotseg"} {
						idx++
						if !c.Mine(idx) {
							continue
						}
						r := davtree.Req{Method: m, Path: src, Dest: dst, DestForm: form, Overwrite: ow}
						if m == "COPY" && idx%3 == 0 {
							r.Depth = "0"
						}
						if form == "slash" && !t[dst].Dir {
							continue
						}
						saved := e.Mon
						if !modelApplies(t, r) {
							e.Mon.Model = false
						}
						e.RunOne("containment", t, r)
						e.Mon = saved
						c.Observe("containment", m+" between related paths", 1)
					}
				}
			}
		}
	}
}

// --- random histories -------------------------------------------------------

var hostileNames = []string{
	"a\uFFFEb.txt", "\uFFFF", "m.png", "n.html", "o",
	"a", "b", "c.txt", "d e", "p%q", "h#i", "q?r", "s;t", "u+v", `"w"`, "x<&>y", "é€ü", "..name", "a%2Fb", "n'o", ".hidden", "z.html", "back\\slash", "中文", "sp ace.txt",
	// names that look like somebody's implementation artefacts: they are
	// ordinary member names and must be treated as such
	".webdav-put-1-1", ".webdav-put-", ".webdav-put-x.txt", ".#lock", "x~", ".tmp", "lost+found", "...", ".DS_Store",
	// names whose final component sits at or near NAME_MAX (255 bytes), in
	// one-, two- and three-byte characters
	strings.Repeat("L", 255), strings.Repeat("k", 251) + ".txt", strings.Repeat("m", 236), strings.Repeat("é", 127), strings.Repeat("中", 85), strings.Repeat("n", 244),
}

func randContent(r *rand.Rand) string {
	switch r.Intn(6) {
	case 0:
		return ""
	case 1:
		return "x"
	case 2:
		return strings.Repeat("line of text\n", 1+r.Intn(50))
	case 3:
		n := 1 + r.Intn(256*1024)
		b := make([]byte, n)
		r.Read(b)
		return string(b)
	case 4:
		return "<html><body>hi</body></html>"
	}
	return fmt.Sprintf("content-%d", r.Intn(1000))
}

func pickPath(r *rand.Rand, t davtree.Tree, names []string) string {
	// existing path, child of existing collection, or a random deeper path
	var existing []string
	for k := range t {
		existing = append(existing, k)
	}
	// deterministic order
	sortStrings(existing)
	switch {
	case len(existing) > 0 && r.Intn(10) < 5:
		return existing[r.Intn(len(existing))]
	case r.Intn(10) < 7:
		// child of an existing collection (or of the root)
		colls := []string{"/"}
		for _, k := range existing {
			if t[k].Dir && strings.Count(k, "/") < 4 {
				colls = append(colls, k)
			}
		}
		p := colls[r.Intn(len(colls))]
		if p == "/" {
			return "/" + names[r.Intn(len(names))]
		}
		return p + "/" + names[r.Intn(len(names))]
	}
	d := 1 + r.Intn(4)
	p := ""
	for i := 0; i < d; i++ {
		p += "/" + names[r.Intn(len(names))]
	}
	return p
}

func sortStrings(l []string) {
	for i := 1; i < len(l); i++ {
		for j := i; j > 0 && l[j] < l[j-1]; j-- {
			l[j], l[j-1] = l[j-1], l[j]
		}
	}
}

// RandReq draws one request biased towards meaningful operations on t.
func RandReq(r *rand.Rand, t davtree.Tree, names []string) davtree.Req {
	p := pickPath(r, t, names)
	switch r.Intn(20) {
	case 0:
		return davtree.Req{Method: "OPTIONS", Path: p}
	case 1, 2:
		return davtree.Req{Method: "GET", Path: p}
	case 3:
		return davtree.Req{Method: "HEAD", Path: p}
	case 4, 5, 6, 7:
		return davtree.Req{Method: "PUT", Path: p, HasBody: true, Body: randContent(r)}
	case 8, 9:
		return davtree.Req{Method: "DELETE", Path: p, TrailingSlash: t.Kind(p) == davtree.Coll && r.Intn(3) == 0}
	case 10, 11, 12:
		return davtree.Req{Method: "MKCOL", Path: p, TrailingSlash: t.Kind(p) != davtree.File && r.Intn(3) == 0}
	case 13, 14:
		return davtree.Req{Method: "PROPFIND", Path: p, Depth: []string{"", "0", "1", "infinity"}[r.Intn(4)], PropBody: randPropBody(r),
			TrailingSlash: t.Kind(p) == davtree.Coll && r.Intn(3) == 0}
	}
	m := "COPY"
	if r.Intn(2) == 0 {
		m = "MOVE"
	}
	req := davtree.Req{Method: m, Path: p, Dest: pickPath(r, t, names), DestForm: []string{"path", "path", "url", "path", "dotseg", "dblslash", "updown", "url-upper", "url-port", "netpath"}[r.Intn(10)]}
	if r.Intn(8) == 0 {
		req.PathForm = []string{"dotseg", "dblslash", "updown"}[r.Intn(3)]
	}
	switch r.Intn(6) {
	case 0:
		req.Overwrite = "F"
	case 1:
		req.Overwrite = "T"
	}
	switch r.Intn(6) {
	case 0:
		req.Depth = "infinity"
	case 1:
		if m == "COPY" {
			req.Depth = "0"
		}
	}
	return req
}

func randPropBody(r *rand.Rand) string {
	switch r.Intn(8) {
	case 0, 1, 2:
		return ""
	case 3, 4:
		return "five"
	case 5:
		return []string{"allprop", "propname"}[r.Intn(2)]
	}
	sets := PropSetNames()
	return "names:" + sets[r.Intn(len(sets))]
}

// randExtra gives one mutating request in ten a header family the model has
// no rule for.
func randExtra(r *rand.Rand, req davtree.Req) davtree.Req {
	switch req.Method {
	case "PUT", "DELETE", "MKCOL", "COPY", "MOVE":
	default:
		return req
	}
	if r.Intn(10) != 0 {
		return req
	}
	fams := ExtraHeaderFamilies(req.Body)
	if q, ok := withExtra(req, fams[r.Intn(len(fams))]); ok {
		return q
	}
	return req
}

// Histories runs n random histories of the given length, model and server in
// lock-step; a history stops at its first divergence.
func Histories(c *fw.Ctx, mon Monitors, n, steps int) {
	e, err := NewEnv(c, mon, "hist")
	if err != nil {
		c.Inconclusive(err.Error())
		return
	}
	defer e.Close()
	for hi := 0; hi < n; hi++ {
		if !c.Mine(hi) {
			continue
		}
		r := c.Rand("history", hi)
		names := make([]string, 4)
		for i := range names {
			names[i] = hostileNames[r.Intn(len(hostileNames))]
		}
		if hi%3 == 1 {
			// siblings one of whose names is a proper string prefix of the
			// other (a / ab, report / report.bak): unrelated resources whose
			// paths are nevertheless prefix-related as strings
			sfx := []string{"2", "b", ".bak", "-old", " x", "%", ".", "~"}
			for _, k := range []int{0, 2} {
				for len(names[k]) > 100 {
					// keep the derived name well below NAME_MAX
					names[k] = hostileNames[r.Intn(len(hostileNames))]
				}
				names[k+1] = names[k] + sfx[r.Intn(len(sfx))]
			}
		}
		t := davtree.Tree{}
		if err := e.Materialise(t); err != nil {
			c.Inconclusive("materialise: " + err.Error())
			return
		}
		// a quarter of the histories serve the same directory through a
		// non-canonical spelling of the configured root
		spelling := -1
		if hi%4 == 3 {
			spelling = hi / 4
		}
		c.Observe("histories", "root-spelling "+e.UseRootSpelling(spelling), 1)
		var trace []davtree.Req
		shapes := map[string]bool{}
		for s := 0; s < steps; s++ {
			if (hi+s)%9 == 4 {
				// a listing or download whose client goes away after k bytes
				// of the answer; the history goes on as if nothing had been
				k := []int{0, 1, 100, 700, 5000}[(hi/3+s)%5]
				m, p, d := "PROPFIND", "/", "infinity"
				if (hi+s)%2 == 1 {
					if files := t.Files(); len(files) > 0 {
						m, p, d = "GET", files[(hi+s)%len(files)], ""
					}
				}
				if ureq, err := BuildRequest(davtree.Req{Method: m, Path: p, Depth: d}); err == nil {
					c.Journal(map[string]interface{}{"history": hi, "step": s, "undelivered": m + " " + p, "after_bytes": k})
					panicked, pv, stack := e.ServeUndelivered(ureq, k)
					c.JournalDone()
					c.Observe("histories", "answers that could not be delivered ("+m+")", 1)
					if panicked {
						c.Report(m+"|undelivered-answer|panic|"+fw.PanicSite(stack), fmt.Sprintf("handler panicked while its answer could not be delivered: %v", pv),
							map[string]interface{}{"history": hi, "trace": trace, "undelivered": m + " " + p, "after_bytes": k})
						break
					}
				}
			}
			if (hi+s)%7 == 3 {
				// the directory is edited behind the server's back the one way that
				// leaves the resource tree as it is: a file gets another stored
				// modification time
				if files := t.Files(); len(files) > 0 {
					f := files[(hi/7+s)%len(files)]
					if cls, mt := mtimeFor(uint32(hi), fmt.Sprint(s)); cls != "now" {
						os.Chtimes(filepath.Join(e.Root, filepath.FromSlash(f)), mt, mt)
						c.Observe("histories", "files given another stored modification time", 1)
					}
				}
			}
			req := randExtra(r, RandReq(r, t, names))
			trace = append(trace, req)
			preShape := t.Shape()
			hreq, err := BuildRequest(req)
			if err != nil {
				break
			}
			c.Journal(map[string]interface{}{"history": hi, "step": s, "request": req})
			resp := e.Serve(hreq)
			post := e.Snap().Shape()
			e.cur = post
			before := findingCount(c)
			e.Observe(fmt.Sprintf("history %d step %d", hi, s), t, req, resp, preShape, post)
			c.JournalDone()
			// advance the model; a request with header fields the model has no
			// rule for advances it like the plain request if that is what the
			// server did (no verdict), and ends the history otherwise
			plain := req
			plain.Extra, plain.ExtraTag = nil, ""
			outs := davtree.Step(t, plain)
			var next davtree.Tree
			for _, o := range outs {
				if o.Accepts(resp.Code) && o.Tree.Shape() == post {
					next = o.Tree
				}
			}
			if outs == nil && post == preShape {
				next = t
			}
			if next == nil || findingCount(c) != before {
				break // divergence (reported) or outside the universe with an effect: cut the history here
			}
			if mon.Model && req.Method == "PUT" && resp.Code/100 == 2 {
				e.Probe(fmt.Sprintf("history %d step %d probe", hi, s), next, req.Path, resp.Header.Get("ETag"), true)
			}
			t = next
			if !shapes[post] {
				shapes[post] = true
				c.Observe("histories", "distinct-tree-states-visited", 1)
			}
		}
		e.ListingConsistency(fmt.Sprintf("history %d end", hi), t)
		c.Observe("histories", "run", 1)
		c.Observe("histories", "steps", len(trace))
	}
}

func findingCount(c *fw.Ctx) int { return c.FindingCount() }

// ParseShape rebuilds a small-content tree from its Shape rendering (used by
// replay; digested contents cannot be rebuilt and yield ok=false).
func ParseShape(shape string) (davtree.Tree, bool) {
	t := davtree.Tree{}
	for _, ln := range strings.Split(shape, "\n") {
		if ln == "" {
			continue
		}
		var name, data string
		if strings.HasSuffix(ln, "/") {
			if _, err := fmt.Sscanf(ln, "%q/", &name); err != nil {
				return nil, false
			}
			if name != "" {
				t["/"+name] = davtree.Node{Dir: true}
			}
			continue
		}
		i := strings.Index(ln, "\"=")
		if i < 0 {
			return nil, false
		}
		if _, err := fmt.Sscanf(ln[:i+1], "%q", &name); err != nil {
			return nil, false
		}
		if _, err := fmt.Sscanf(ln[i+2:], "%q", &data); err != nil {
			return nil, false
		}
		t["/"+name] = davtree.Node{Data: data}
	}
	return t, true
}

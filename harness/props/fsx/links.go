package fsx

import (
	"fmt"
	"io/ioutil"
	"net"
	"net/http"
	"net/http/httptest"
	"os"
	"path/filepath"
	"strings"
	"syscall"

	"github.com/emersion/go-webdav"
	"github.com/emersion/go-webdav/verifharness/fw"
	"github.com/emersion/go-webdav/verifharness/mon"
)

// LinkSlice: failure modes that only symbolic links and special files placed
// directly in the served directory can provoke (EISDIR from a copy whose
// source link points at a directory, ENOENT below a dangling link, ELOOP,
// ENOTDIR, "not a regular file"): every method on, below, from and onto each
// of them. The statement quantifies over every failure mode the operating
// system can report; WebDAV cannot create these entries, an administrator can.
// FIFOs are left out on purpose (a GET of a FIFO blocks by design of open(2)).
// Shared by C17 (no host path in any response) and C02 (a request answered
// >= 400 leaves names, kinds and contents as they were; the tree also holds
// siblings whose names start with the names the requests create).

type linkReq struct {
	Method    string `json:"method"`
	Path      string `json:"path"`
	Dest      string `json:"dest,omitempty"`
	Overwrite string `json:"overwrite,omitempty"`
	Depth     string `json:"depth,omitempty"`
	Body      bool   `json:"body,omitempty"`
	Range     string `json:"range,omitempty"`
	// BodyFail > 0: the body breaks off with an error after BodyFail-1 bytes.
	BodyFail int `json:"body_fail,omitempty"`
	// Root: how the served directory is configured ("" = clean absolute path,
	// "relative" = relative to the working directory, "via-link" = an absolute
	// path one of whose elements is a symbolic link into another top-level
	// directory).
	Root string `json:"root,omitempty"`
}

type breakingBody struct {
	data []byte
	left int
}

func (b *breakingBody) Read(p []byte) (int, error) {
	if b.left <= 0 {
		return 0, fmt.Errorf("verif: injected body read error")
	}
	n := copy(p, b.data)
	if n > b.left {
		n = b.left
	}
	b.data, b.left = b.data[n:], b.left-n
	if n == 0 {
		return 0, fmt.Errorf("verif: injected body read error")
	}
	return n, nil
}

var linkNames = []string{"/ln-dir", "/ln-file", "/ln-abs-dir", "/ln-abs-file", "/dangling", "/dangling-deep", "/dangling-abs", "/loop", "/loop2a", "/ln-sock", "/ln-dev",
	"/album", "/album/latest", "/album/cover", "/dir/ln-up", "/ln-outside", "/ln-proc"}

func buildLinkTree(root string) error {
	os.RemoveAll(root)
	if sock := filepath.Join(filepath.Dir(root), "special.sock"); !isSocket(sock) {
		os.Remove(sock)
		if l, err := net.Listen("unix", sock); err == nil {
			// keep the file, drop the listener
			if ul, ok := l.(*net.UnixListener); ok {
				ul.SetUnlinkOnClose(false)
			}
			l.Close()
		}
	}
	// a character device of the harness's own (major 1, minor 3: what
	// /dev/null is), so that a server that removes or replaces what a link
	// points to harms nothing; where it cannot be made the link dangles
	if dev := filepath.Join(filepath.Dir(root), "special.null"); !isCharDevice(dev) {
		os.Remove(dev)
		syscall.Mknod(dev, syscall.S_IFCHR|0666, 1<<8|3)
	}
	for _, d := range []string{"dir", "dir/sub", "dir/emptysub", "album", "empty", "new-old/deep", "copy.d", "empty2", "moved~"} {
		if err := os.MkdirAll(filepath.Join(root, d), 0755); err != nil {
			return err
		}
	}
	for f, data := range map[string]string{"file.txt": "content of file", "dir/inner.txt": "inner", "dir/sub/deep.txt": "deep", "album/photo.jpg": "jpeg",
		"new.txt": "sibling new.txt", "new-old/deep/keep.txt": "keep", "copy-old": "sibling copy-old", "file.txt.bak": "sibling bak", "moved~/x": "x"} {
		if err := ioutil.WriteFile(filepath.Join(root, f), []byte(data), 0644); err != nil {
			return err
		}
	}
	links := [][2]string{
		{"ln-dir", "dir"}, {"ln-file", "file.txt"}, {"ln-abs-dir", filepath.Join(root, "dir")}, {"ln-abs-file", filepath.Join(root, "file.txt")},
		{"dangling", "missing-target"}, {"dangling-deep", "no-such-dir/target.txt"}, {"dangling-abs", filepath.Join(root, "no-such-dir", "t")},
		{"loop", "loop"}, {"loop2a", "loop2b"}, {"loop2b", "loop2a"},
		// something that is no regular file and no directory: a Unix socket of
		// the harness's own next to the root (never a system file such as
		// /dev/null: the server under test runs with the harness's privileges,
		// and a broken one may remove or overwrite what a link points to)
		{"ln-sock", filepath.Join(filepath.Dir(root), "special.sock")},
		{"ln-dev", filepath.Join(filepath.Dir(root), "special.null")},
		{"album/latest", "../dir"}, {"album/cover", "photo.jpg"}, {"dir/ln-up", ".."}, {"ln-outside", filepath.Dir(root)},
		// another file system, one that refuses to create anything (ENOENT on
		// create, EXDEV on rename); only names that do not exist there are used
		{"ln-proc", "/proc"},
	}
	for _, l := range links {
		if err := os.Symlink(l[1], filepath.Join(root, l[0])); err != nil {
			return err
		}
	}
	return nil
}

func isCharDevice(p string) bool {
	fi, err := os.Lstat(p)
	return err == nil && fi.Mode()&os.ModeCharDevice != 0
}

func isSocket(p string) bool {
	fi, err := os.Lstat(p)
	return err == nil && fi.Mode()&os.ModeSocket != 0
}

func linkRequests() []linkReq {
	var l []linkReq
	for _, n := range linkNames {
		for _, m := range []string{"OPTIONS", "GET", "HEAD", "DELETE", "MKCOL"} {
			l = append(l, linkReq{Method: m, Path: n})
		}
		l = append(l, linkReq{Method: "GET", Path: n, Range: "bytes=0-3"}, linkReq{Method: "GET", Path: n + "/"})
		for _, d := range []string{"0", "1", "infinity"} {
			l = append(l, linkReq{Method: "PROPFIND", Path: n, Depth: d})
		}
		// uploads that break off at once / half-way, onto and below the link
		for _, k := range []int{1, 12} {
			l = append(l, linkReq{Method: "PUT", Path: n, Body: true, BodyFail: k}, linkReq{Method: "PUT", Path: n + "/child", Body: true, BodyFail: k},
				linkReq{Method: "PUT", Path: n + "/inner.txt", Body: true, BodyFail: k})
		}
		l = append(l, linkReq{Method: "PUT", Path: n, Body: true}, linkReq{Method: "PUT", Path: n + "/child", Body: true},
			linkReq{Method: "MKCOL", Path: n + "/child"}, linkReq{Method: "GET", Path: n + "/child"}, linkReq{Method: "GET", Path: n + "/inner.txt"},
			linkReq{Method: "DELETE", Path: n + "/child"}, linkReq{Method: "PROPFIND", Path: n + "/child", Depth: "1"})
		for _, m := range []string{"COPY", "MOVE"} {
			for _, ow := range []string{"", "F"} {
				// the link as source ...
				l = append(l, linkReq{Method: m, Path: n, Dest: "/new", Overwrite: ow}, linkReq{Method: m, Path: n, Dest: "/file.txt", Overwrite: ow},
					linkReq{Method: m, Path: n, Dest: "/empty", Overwrite: ow}, linkReq{Method: m, Path: n, Dest: "/empty/new", Overwrite: ow})
				// ... as destination, and as the destination's parent
				l = append(l, linkReq{Method: m, Path: "/file.txt", Dest: n, Overwrite: ow}, linkReq{Method: m, Path: "/dir", Dest: n, Overwrite: ow},
					linkReq{Method: m, Path: "/file.txt", Dest: n + "/new", Overwrite: ow}, linkReq{Method: m, Path: "/dir", Dest: n + "/new", Overwrite: ow})
			}
			l = append(l, linkReq{Method: m, Path: n, Dest: "/new", Depth: "0"}, linkReq{Method: m, Path: n, Dest: "/ln-dir/new"}, linkReq{Method: m, Path: n, Dest: "/dangling-deep"})
			// shallow copies / moves onto what exists already
			for _, d := range []string{"/file.txt", "/empty", "/dir", "/album"} {
				for _, ow := range []string{"", "T"} {
					l = append(l, linkReq{Method: m, Path: n, Dest: d, Depth: "0", Overwrite: ow})
				}
			}
		}
	}
	// collections moved or copied to places inside themselves that only a link
	// makes look unrelated, onto existing empty / non-empty collections there
	for _, m := range []string{"COPY", "MOVE"} {
		for _, src := range []string{"/dir", "/album"} {
			for _, dst := range []string{"/ln-dir/emptysub", "/ln-dir/sub", "/ln-dir/new", "/ln-abs-dir/emptysub", "/album/latest/emptysub", "/album/latest/new", "/dir/ln-up/dir/emptysub", "/ln-outside/x"} {
				for _, ow := range []string{"", "T", "F"} {
					l = append(l, linkReq{Method: m, Path: src, Dest: dst, Overwrite: ow})
				}
			}
		}
	}
	// collections that contain links, as a whole
	for _, src := range []string{"/album", "/dir", "/"} {
		for _, d := range []string{"0", "1", "infinity"} {
			l = append(l, linkReq{Method: "PROPFIND", Path: src, Depth: d})
		}
		if src != "/" {
			l = append(l, linkReq{Method: "COPY", Path: src, Dest: "/copy"}, linkReq{Method: "COPY", Path: src, Dest: "/empty"}, linkReq{Method: "COPY", Path: src, Dest: "/copy", Depth: "0"},
				linkReq{Method: "MOVE", Path: src, Dest: "/moved"}, linkReq{Method: "DELETE", Path: src})
		}
	}
	return l
}

func LinkSlice(c *fw.Ctx, mn Monitors) {
	base := filepath.Join(c.WorkDir, "links", fmt.Sprintf("sandbox-%d-%d-q7x9z", c.Seed, c.Shard))
	root := filepath.Join(base, "served-root-k3j5h7")
	defer os.RemoveAll(filepath.Join(c.WorkDir, "links"))
	if err := os.MkdirAll(base, 0755); err != nil {
		c.Inconclusive(err.Error())
		return
	}
	needles := []string{root, base}
	if res, err := filepath.EvalSymlinks(base); err == nil && res != base {
		needles = append(needles, res)
	}
	// The served directory configured in three spellings: h[""] as a clean
	// absolute path; h["relative"] relative to the working directory;
	// h["via-link"] through a symbolic link that lives in another top-level
	// directory (/var -> /private/var, /srv -> /mnt/x are everyday cases), so
	// that the configured and the resolved path share no prefix.
	handlers := map[string]*webdav.Handler{"": {FileSystem: webdav.LocalFileSystem(root)}}
	modes := []string{""}
	if wd, err := os.Getwd(); err == nil {
		if rel, err := filepath.Rel(wd, root); err == nil && !filepath.IsAbs(rel) {
			handlers["relative"] = &webdav.Handler{FileSystem: webdav.LocalFileSystem(rel)}
			modes = append(modes, "relative")
		}
	}
	if via, err := ioutil.TempDir("", "verif-via-"); err == nil {
		defer os.RemoveAll(via)
		top := func(p string) string { return strings.SplitN(strings.TrimPrefix(filepath.Clean(p), "/"), "/", 2)[0] }
		if rv, err := filepath.EvalSymlinks(via); err == nil && top(rv) != top(root) && os.Symlink(base, filepath.Join(via, "mnt")) == nil {
			spelled := filepath.Join(via, "mnt", filepath.Base(root))
			handlers["via-link"] = &webdav.Handler{FileSystem: webdav.LocalFileSystem(spelled)}
			modes = append(modes, "via-link")
			needles = append(needles, spelled, via)
		}
	}
	if len(modes) < 3 {
		c.Observe("link_slice_root_spellings", fmt.Sprintf("only %v available here", modes), 1)
	}
	reqs := linkRequests()
	for i := 0; i < len(modes)*len(reqs); i++ {
		if !c.Mine(i) {
			continue
		}
		r := reqs[i%len(reqs)]
		r.Root = modes[i/len(reqs)]
		h := handlers[r.Root]
		c.Observe("link_slice_root_spellings", "requests under root spelling: "+map[string]string{"": "clean absolute"}[r.Root]+r.Root, 1)
		if err := buildLinkTree(root); err != nil {
			c.Inconclusive("link slice: " + err.Error())
			return
		}
		var req *http.Request
		if r.Body && r.BodyFail > 0 {
			data := []byte("data written through a link")
			req = httptest.NewRequest(r.Method, r.Path, &breakingBody{data: data, left: r.BodyFail - 1})
			req.ContentLength = int64(len(data))
		} else if r.Body {
			req = httptest.NewRequest(r.Method, r.Path, strings.NewReader("data written through a link"))
		} else {
			req = httptest.NewRequest(r.Method, r.Path, nil)
		}
		if r.Dest != "" {
			req.Header.Set("Destination", r.Dest)
		}
		if r.Overwrite != "" {
			req.Header.Set("Overwrite", r.Overwrite)
		}
		if r.Depth != "" {
			req.Header.Set("Depth", r.Depth)
		}
		if r.Range != "" {
			req.Header.Set("Range", r.Range)
		}
		var pre mon.Snap
		if mn.Unchanged {
			pre, _ = mon.Snapshot(root)
		}
		rec := httptest.NewRecorder()
		c.Journal(map[string]interface{}{"link_slice": r})
		panicked, pv, stack := fw.Guard(func() { h.ServeHTTP(rec, req) })
		c.JournalDone()
		c.Eval(1)
		if mn.Unchanged && !panicked && rec.Code >= 400 {
			if post, err := mon.Snapshot(root); err == nil && pre != nil {
				if d := mon.Diff(pre, post, false); len(d) > 0 {
					if len(d) > 12 {
						d = append(d[:12], fmt.Sprintf("... and %d more", len(d)-12))
					}
					c.Report(fmt.Sprintf("link-slice|%s|%s|status=%d|tree-changed", r.Method, linkKind(r), rec.Code),
						fmt.Sprintf("%s %s (Destination %q) on a tree with symbolic links answered %d but the tree changed: %v", r.Method, r.Path, r.Dest, rec.Code, d),
						map[string]interface{}{"link_slice": r, "status": rec.Code, "body": rec.Body.String(), "diff": d})
				}
			}
		}
		if !mn.Leak {
			c.Observe("link_slice_status", fmt.Sprintf("%s %s -> %d", r.Method, linkKind(r), rec.Code), 1)
			c.Distinct(fmt.Sprintf("link|%s|%s|%s|%d", r.Method, r.Path, r.Dest, rec.Code))
			continue
		}
		if panicked {
			c.Report(fmt.Sprintf("link-slice|%s|panic|%s", r.Method, fw.PanicSite(stack)), fmt.Sprintf("handler panicked: %v", pv), map[string]interface{}{"link_slice": r})
			continue
		}
		kind := linkKind(r)
		c.Observe("link_slice_status", fmt.Sprintf("%s %s -> %d", r.Method, kind, rec.Code), 1)
		c.Distinct(fmt.Sprintf("link|%s|%s|%s|%d", r.Method, r.Path, r.Dest, rec.Code))
		body := rec.Body.String()
		hay := body
		for k, vs := range rec.Header() {
			hay += "\n" + k + ": " + strings.Join(vs, ",")
		}
		for _, n := range needles {
			if strings.Contains(hay, n) {
				where := "header"
				if strings.Contains(body, n) {
					where = "body"
				}
				if len(body) > 400 {
					if i := strings.Index(body, n); i >= 0 {
						lo := i - 150
						if lo < 0 {
							lo = 0
						}
						body = "…" + body[lo:]
					}
					if len(body) > 400 {
						body = body[:400] + "…"
					}
				}
				c.Report(fmt.Sprintf("link-slice|%s|%s|status=%d|host-path-in-%s", r.Method, kind, rec.Code, where),
					fmt.Sprintf("%s %s (Destination %q) on a tree with symbolic links: response discloses the host path: %.300q", r.Method, r.Path, r.Dest, body),
					map[string]interface{}{"link_slice": r, "status": rec.Code, "body": body})
				break
			}
		}
	}
}

// linkKind names what the request meets (for keys and the evidence table).
func linkKind(r linkReq) string {
	role := "target"
	p := r.Path
	if r.Dest != "" {
		role = "source"
		if !isLinkPath(p) {
			role, p = "destination", r.Dest
		}
	}
	name := strings.TrimPrefix(p, "/")
	below := ""
	for _, n := range linkNames {
		if strings.HasPrefix(p, n+"/") && n != "/album" {
			name, below = strings.TrimPrefix(n, "/"), "/below"
		}
	}
	if !isLinkPath(p) {
		name = "collection-with-links"
	}
	k := role + "=" + name + below
	if r.BodyFail > 0 {
		k += "|body-breaks-off"
	}
	if r.Root != "" {
		k += "|root=" + r.Root
	}
	return k
}

func isLinkPath(p string) bool {
	for _, n := range linkNames {
		if n != "/album" && (p == n || strings.HasPrefix(p, n+"/")) {
			return true
		}
	}
	return false
}

package c08

import (
	"context"
	"errors"
	"fmt"
	"io"
	"io/ioutil"
	"math/rand"
	"net"
	"net/http"
	"strings"
	"sync"

	"github.com/emersion/go-webdav/caldav"
	"github.com/emersion/go-webdav/verifharness/davx"
	"github.com/emersion/go-webdav/verifharness/doubles"
	"github.com/emersion/go-webdav/verifharness/fw"
	"github.com/emersion/go-webdav/verifharness/rfc4791"
)

// client→backend family. The statement's first half ends at the wire and its
// second half starts there; this family runs both halves as ONE journey: a
// generated CalendarQuery / CalendarMultiGet is given to the real
// caldav.Client, whose HTTP client is a real net/http *http.Client (what the
// library itself uses when the caller passes nil); the request travels
// through net/http's own machinery to a front handler and from there to the
// real caldav.Handler in front of a recording backend. What the backend
// receives must be the caller's request.
//
// The road is varied the way deployments vary it:
//
//   - hops: the front answers the addressed URL with 307 / 308 (a moved
//     collection, a /.well-known style indirection), once or twice, with an
//     absolute-path or an absolute-URL Location; net/http re-sends a REPORT
//     across 307/308 with its method and body, provided the request the
//     library built can be sent again. (301/302/303 turn a REPORT into a GET
//     inside net/http; nothing is demanded there, they are not used.)
//   - net: "inproc" = http.Client over an in-process RoundTripper (HTTP/1.1
//     serialisation, no connection); "net/http" = http.Client over a real
//     http.Transport talking to a real http.Server through net.Pipe
//     connections (request framing, keep-alive reuse between the hops).
//
// No socket of the operating system and no wall-clock is involved.

const dirCB = "client→backend"

// ---------------------------------------------------------------------------
// The front: redirects the addressed URL, hop by hop, to the real handler.

func hopPrefix(n int) string { return fmt.Sprintf("/mv%d", n) }

type hopRecord struct {
	Path   string `json:"path"`
	Status int    `json:"answered,omitempty"` // 0 = handed to caldav.Handler
	Bytes  int    `json:"body_bytes"`
}

type front struct {
	hops   []int
	locURL bool
	inner  http.Handler

	mu  sync.Mutex
	log []hopRecord
}

func (f *front) ServeHTTP(w http.ResponseWriter, r *http.Request) {
	for i := len(f.hops); i >= 1; i-- {
		pre := hopPrefix(i)
		if !strings.HasPrefix(r.URL.Path, pre+"/") {
			continue
		}
		// a server that redirects still takes the request it was sent
		n, _ := io.Copy(ioutil.Discard, r.Body)
		rest := strings.TrimPrefix(r.URL.Path, pre)
		if i > 1 {
			rest = hopPrefix(i-1) + rest
		}
		loc := davx.EscapePath(rest)
		if f.locURL {
			loc = "http://h" + loc
		}
		status := f.hops[len(f.hops)-i]
		f.mu.Lock()
		f.log = append(f.log, hopRecord{Path: r.URL.Path, Status: status, Bytes: int(n)})
		f.mu.Unlock()
		w.Header().Set("Location", loc)
		w.WriteHeader(status)
		return
	}
	f.mu.Lock()
	f.log = append(f.log, hopRecord{Path: r.URL.Path, Bytes: int(r.ContentLength)})
	f.mu.Unlock()
	f.inner.ServeHTTP(w, r)
}

func (f *front) records() []hopRecord {
	f.mu.Lock()
	defer f.mu.Unlock()
	return append([]hopRecord(nil), f.log...)
}

// ---------------------------------------------------------------------------
// A real http.Transport in front of a real http.Server, joined by net.Pipe.

type pipeAddr struct{}

func (pipeAddr) Network() string { return "pipe" }
func (pipeAddr) String() string  { return "pipe" }

type pipeListener struct {
	ch   chan net.Conn
	done chan struct{}
	once sync.Once
}

func newPipeListener() *pipeListener {
	return &pipeListener{ch: make(chan net.Conn), done: make(chan struct{})}
}

func (l *pipeListener) Accept() (net.Conn, error) {
	select {
	case c := <-l.ch:
		return c, nil
	case <-l.done:
		return nil, errors.New("listener closed")
	}
}

func (l *pipeListener) Close() error   { l.once.Do(func() { close(l.done) }); return nil }
func (l *pipeListener) Addr() net.Addr { return pipeAddr{} }

func (l *pipeListener) dial(ctx context.Context, network, addr string) (net.Conn, error) {
	c, s := net.Pipe()
	select {
	case l.ch <- s:
		return c, nil
	case <-l.done:
		c.Close()
		s.Close()
		return nil, errors.New("listener closed")
	case <-ctx.Done():
		c.Close()
		s.Close()
		return nil, ctx.Err()
	}
}

// httpClientFor returns a net/http client whose requests reach h, and a
// function releasing what it holds.
func httpClientFor(netMode string, h http.Handler) (*http.Client, func()) {
	if netMode != "net/http" {
		return &http.Client{Transport: &doubles.InProc{Handler: h}}, func() {}
	}
	l := newPipeListener()
	srv := &http.Server{Handler: h}
	served := make(chan struct{})
	go func() { srv.Serve(l); close(served) }()
	tr := &http.Transport{DialContext: l.dial}
	return &http.Client{Transport: tr}, func() {
		tr.CloseIdleConnections()
		srv.Close()
		<-served
	}
}

// ---------------------------------------------------------------------------
// Execution and oracle.

type e2eOutcome struct {
	callErr error
	hops    []hopRecord
	calls   []doubles.Call
}

func runE2E(cs *Case, hops []int) (out *e2eOutcome, panicked bool, pv interface{}, stack string, err error) {
	be := &doubles.CalBackend{Principal: "/principal/", HomeSet: "/principal/cal/"}
	fr := &front{hops: hops, locURL: cs.LocURL, inner: &caldav.Handler{Backend: be}}
	hc, release := httpClientFor(cs.Net, fr)
	defer release()
	cl, err := caldav.NewClient(hc, cs.Endpoint)
	if err != nil {
		return nil, false, nil, "", err
	}
	callPath := cs.Path
	if len(hops) > 0 {
		callPath = hopPrefix(len(hops)) + cs.Path
	}
	out = &e2eOutcome{}
	panicked, pv, stack = fw.Guard(func() { out.callErr = callClient(cl, cs, []string{callPath}) })
	out.hops, out.calls = fr.records(), be.Calls()
	return out, panicked, pv, stack, nil
}

// delivered: did the backend receive a query / at least one object request?
func delivered(cs *Case, out *e2eOutcome) bool {
	op := "GetCalendarObject"
	if cs.Req.Kind == "calendar-query" {
		op = "QueryCalendarObjects"
	}
	for _, cl := range out.calls {
		if cl.Op == op {
			return true
		}
	}
	return false
}

func hopsName(hops []int) string {
	if len(hops) == 0 {
		return "direct"
	}
	var l []string
	for _, h := range hops {
		l = append(l, fmt.Sprint(h))
	}
	return "redirected " + strings.Join(l, " then ")
}

func execE2E(c *xctx, cs *Case) {
	z := newZoner(cs.ZoneMode)
	query := cs.Req.Kind == "calendar-query"
	c.Journal(cs)
	out, panicked, pv, stack, err := runE2E(cs, cs.Hops)
	c.JournalDone()
	if err != nil {
		c.Inconclusive(fmt.Sprintf("C08: caldav.NewClient(%q): %v", cs.Endpoint, err))
		return
	}
	c.Eval(1)
	c.Distinct(classOf(cs))
	netName := cs.Net
	if netName == "" {
		netName = "inproc"
	}
	c.Observe("client→backend: cases", cs.Req.Kind+", "+hopsName(cs.Hops)+", "+netName, 1)
	if len(cs.Hops) > 0 {
		if cs.LocURL {
			c.Observe("client→backend: cases", "Location is an absolute URL", 1)
		} else {
			c.Observe("client→backend: cases", "Location is an absolute path", 1)
		}
	}
	c.Observe("client→backend: cases", "endpoint "+cs.Endpoint, 1)
	observeFeatures(c, "client→backend: features of the caller's requests", cs)
	if panicked {
		report(c, cs, "request", "panic in "+fw.PanicSite(stack), fmt.Sprint(pv), map[string]interface{}{"stack": stack})
		return
	}
	extra := map[string]interface{}{"client_error": fw.ErrString(out.callErr), "requests_seen_by_the_server": out.hops}
	for _, h := range out.hops {
		if h.Status != 0 {
			c.Observe("client→backend: road", fmt.Sprintf("front answered %d", h.Status), 1)
		} else {
			c.Observe("client→backend: road", "request handed to caldav.Handler", 1)
		}
	}
	if out.callErr != nil {
		c.Observe("client→backend: road", "client call returned an error", 1)
	}
	for _, cl := range out.calls {
		c.Observe("client→backend: backend calls", cl.Op, 1)
	}

	if !delivered(cs, out) {
		if !query && len(cs.Paths) == 0 && len(out.hops) == 0 {
			c.Observe("client→backend: road", "empty Paths refused", 1)
			return
		}
		trans := "not delivered to the backend"
		if len(cs.Hops) > 0 {
			// Is it the road or the request?
			if o2, p2, _, _, e2 := runE2E(cs, nil); e2 == nil && !p2 && delivered(cs, o2) {
				trans = "not delivered to the backend across a 307/308 redirect (delivered when asked directly)"
			}
		}
		report(c, cs, cs.Req.Kind, trans, fmt.Sprintf("%s: the server saw %d request(s), the backend no %s; the client call returned: %v",
			hopsName(cs.Hops), len(out.hops), cs.Req.Kind, out.callErr), extra)
		return
	}

	d := &differ{zoneOff: z.off, ceilOK: func(u int64) bool { return z.nsec(u) != 0 }}
	wantData := cs.Req.Prop.Data
	if wantData == nil {
		wantData = &rfc4791.CalendarData{}
	}
	checkSel := func(got *caldav.CalendarCompRequest) {
		if got == nil {
			got = &caldav.CalendarCompRequest{}
		}
		// The zero selection may travel as a calendar-data without comp or
		// with an empty one, and the server's reading of those ("everything")
		// is not the statement's business.
		if !compIsZero(wantData.Comp) {
			gc := fromComp(got)
			d.comp(wantData.Comp, &gc)
		}
		d.expand(wantData.Expand, fromExpand(got.Expand))
	}

	if query {
		var qcalls []doubles.Call
		for _, cl := range out.calls {
			if cl.Op == "QueryCalendarObjects" {
				qcalls = append(qcalls, cl)
			}
		}
		if len(qcalls) != 1 {
			report(c, cs, "calendar-query", "not delivered exactly once", fmt.Sprintf("%d QueryCalendarObjects calls", len(qcalls)), extra)
			return
		}
		if qcalls[0].Path != cs.Path {
			d.add("request-target", "altered", "want path %q, backend got %q", cs.Path, qcalls[0].Path)
		}
		q, _ := qcalls[0].Arg.(*caldav.CalendarQuery)
		if q == nil {
			report(c, cs, "calendar-query", "dropped", "backend received a nil query", extra)
			return
		}
		extra["backend_received"] = q
		gf := fromCompFilter(q.CompFilter)
		d.compFilter(cs.Req.Filter, &gf)
		gc := fromComp(&q.CompRequest)
		if (!compIsZero(wantData.Comp) || wantData.Expand != nil) && compIsZero(&gc) && q.CompRequest.Expand == nil {
			d.add("calendar-query.calendar-data", "dropped", "the query's CompRequest is the zero value although the caller selects %s", dataClass(wantData))
		} else {
			checkSel(&q.CompRequest)
		}
	} else {
		var gp []string
		var reqs []*caldav.CalendarCompRequest
		for _, cl := range out.calls {
			if cl.Op == "GetCalendarObject" {
				gp = append(gp, cl.Path)
				r, _ := cl.Arg.(*caldav.CalendarCompRequest)
				reqs = append(reqs, r)
			}
		}
		if len(gp) <= 50 {
			extra["backend_received_paths"] = gp
		} else {
			extra["backend_received_paths_count"] = len(gp)
		}
		if len(reqs) > 0 {
			extra["backend_received_comp_request"] = reqs[0]
		}
		want := cs.Paths
		if len(want) == 0 {
			// documented: no Paths = the collection itself, as the caller named it
			want = []string{hopPrefix(len(cs.Hops)) + cs.Path}
			if len(cs.Hops) == 0 {
				want = []string{cs.Path}
			}
		}
		d.list("href", want, gp)
		seen := len(d.out)
		for _, r := range reqs {
			checkSel(r)
			if len(d.out) > seen {
				break // one object's selection is witness enough
			}
		}
	}
	reportDiffs(c, cs, d.out, extra)
}

// genE2E builds a client→backend case: a client→wire case inside the public
// type's domain, plus the road it travels.
func genE2E(r *rand.Rand) *Case {
	var cs *Case
	for {
		cs = genCW(rand.New(rand.NewSource(r.Int63())))
		if cs.OOD == "" {
			break
		}
	}
	cs.Dir = dirCB
	// object names are absolute here: what a relative name is relative to
	// once the request has been redirected is nobody's promise
	for i, p := range cs.Paths {
		if !strings.HasPrefix(p, "/") {
			cs.Paths[i] = "/" + p
		}
	}
	switch r.Intn(7) {
	case 0, 1:
	case 2, 3:
		cs.Hops = []int{308}
	case 4:
		cs.Hops = []int{307}
	case 5:
		cs.Hops = []int{308, 307}
	case 6:
		cs.Hops = []int{307, 308}
	}
	if r.Intn(2) == 0 {
		cs.Net = "net/http"
	}
	cs.LocURL = len(cs.Hops) > 0 && r.Intn(3) == 0
	return cs
}

package c08

import (
	"fmt"
	"math/rand"
	"strings"

	"github.com/emersion/go-webdav/verifharness/davx"
	"github.com/emersion/go-webdav/verifharness/rfc4791"
)

// Case is one executed case of either direction; it is the replayable
// witness. Everything the execution depends on is in here.
type Case struct {
	// Dir is dirCW or dirWB.
	Dir string `json:"dir"`
	// Path is the calendar (collection) path the request is addressed to.
	Path string `json:"path"`
	// Req is the neutral request: what the caller expresses (client→wire) or
	// what the document denotes (wire→backend).
	Req rfc4791.Request `json:"req"`
	// Paths: client→wire: CalendarMultiGet.Paths as given by the caller;
	// wire→backend: the decoded path every href of Req.Hrefs denotes.
	Paths []string `json:"paths,omitempty"`
	// Seq (witness only): which of several successive calls made with one
	// argument value this request belongs to.
	Seq string `json:"seq,omitempty"`

	// client→wire only.
	Endpoint string `json:"endpoint,omitempty"`
	// ZoneMode decides the time.Location of every caller instant: "utc",
	// "mixed" (per-instant offset derived from the value) or "fixed:<sec>".
	ZoneMode string `json:"zone_mode,omitempty"`
	// OOD names the out-of-domain feature injected ("" = inside the public
	// type's domain; only those cases get a verdict).
	OOD string `json:"ood,omitempty"`

	// wire→backend only.
	LexSeed int64  `json:"lex_seed,omitempty"` // 0 = plain rendering
	CType   string `json:"ctype,omitempty"`

	// Overlap family: the members are in flight together through ONE
	// caldav.Client (client→wire) or ONE caldav.Handler (wire→backend) at
	// GOMAXPROCS = Procs; OrderSeed decides the order in which the parked
	// requests are read / released. Every member has a unique Path.
	Group     []*Case `json:"group,omitempty"`
	Procs     int     `json:"procs,omitempty"`
	OrderSeed int64   `json:"order_seed,omitempty"`
	// Uniform: the members are copies of one request differing only in a
	// same-length marker (so that their documents have the same length).
	Uniform bool `json:"uniform,omitempty"`

	// client→backend only (e2e.go): the 307/308 answers the addressed URL
	// gives before the request arrives at Path, the form of their Location,
	// and whether net/http's Transport and Server are in the road ("net/http")
	// or only its Client ("" = in-process round tripper).
	Hops   []int  `json:"hops,omitempty"`
	LocURL bool   `json:"location_is_url,omitempty"`
	Net    string `json:"net,omitempty"`
}

const (
	dirCW = "client→wire"
	dirWB = "wire→backend"
)

var (
	compNames  = []string{"VCALENDAR", "VEVENT", "VTODO", "VJOURNAL", "VFREEBUSY", "VTIMEZONE", "VALARM", "STANDARD", "DAYLIGHT", "X-COMP"}
	propNames  = []string{"SUMMARY", "DTSTART", "DTEND", "DUE", "UID", "ATTENDEE", "ORGANIZER", "DESCRIPTION", "RRULE", "COMPLETED", "X-ABC-GUID", "VERSION", "DTSTAMP"}
	paramNames = []string{"PARTSTAT", "TZID", "CN", "ROLE", "VALUE", "X-PARAM"}
	words      = []string{"meeting", "ABCD-1234", "NEEDS-ACTION", "mailto:a@example.com", "Europe/Paris", "x", "a b", "1"}
	hostileFr  = []string{" ", "  ", "<", "&", ">", "\"", "'", "é", "日本", "😀", "a", "Z", "-", "]]>", "&amp;", "&#65;", "<!--", "\t", "\n", "\r", "%41", "#", "?", "\\", "/", "=", "ſ", " ", " "}

	// zone offsets in seconds east of UTC (±14 h, odd minutes, one second)
	zoneOffsets = []int64{3600, -18000, 19800, 20700, -34200, 50400, -43200, -50400, 45900, 60, -1, 7200, -28800}

	hrefSegs = []string{"a.ics", "event 1.ics", "100%.ics", "a#b.ics", "what?.ics", "é.ics", "日本語.ics", "a&b", "a+b", "a;b=c", "%41", "%2F", "%zz", "%",
		"a:b", "~user", "(x)", "a'b", "a\"b", "<x>", "[1]", "a\\b", "x,y", "@home", "a|b", "^", "`", "{x}", " lead", "trail ", "UPPER", "a=b&c=d", "😀", "a*b", "!$", "x.", "...", "cal"}

	otherProps = []rfc4791.PropName{{Space: "DAV:", Local: "getetag"}, {Space: "DAV:", Local: "getlastmodified"}, {Space: "DAV:", Local: "getcontenttype"},
		{Space: "DAV:", Local: "getcontentlength"}, {Space: "DAV:", Local: "displayname"}, {Space: rfc4791.NS, Local: "schedule-tag"}, {Space: "urn:example:x", Local: "foo"}}
)

type gen struct {
	r *rand.Rand
	// wire: generating a document for the wire→backend direction (elements
	// the public API cannot express may be added).
	wire bool
}

func (g *gen) chance(k int) bool { return g.r.Intn(k) == 0 }

func (g *gen) pick(l []string) string { return l[g.r.Intn(len(l))] }

// hostile builds a string out of XML metacharacters, blanks and non-ASCII.
func (g *gen) hostile() string {
	var sb strings.Builder
	n := 1 + g.r.Intn(5)
	for i := 0; i < n; i++ {
		sb.WriteString(g.pick(hostileFr))
	}
	s := sb.String()
	if g.chance(3) {
		s = " " + s
	}
	if g.chance(3) {
		s = s + " "
	}
	if g.chance(8) {
		s = "\t" + s + "\n"
	}
	return s
}

func (g *gen) name(pool []string) string {
	switch g.r.Intn(10) {
	case 0, 1:
		return g.hostile()
	case 2:
		if g.chance(4) {
			return ""
		}
		return " " + g.pick(pool) + " "
	}
	return g.pick(pool)
}

func (g *gen) text() string {
	switch g.r.Intn(8) {
	case 0:
		return ""
	case 1, 2, 3:
		return g.hostile()
	case 4:
		return "  " + g.pick(words) + "  "
	}
	return g.pick(words)
}

// Instants: years 0002..9998 so that every zone shift stays expressible.
const (
	minInstant = -62103974400 // 0002-01-02T00:00:00Z
	maxInstant = 253339228800 // 9998-01-10T00:00:00Z
)

var boundaryInstants = []int64{0, -1, 1, 86399, 86400, 951782400 /*2000-02-29*/, 951868799, 2147483647, 2147483648, 4294967296,
	1704067199 /*2023-12-31T23:59:59*/, 1704067200, -2208988800 /*1900*/, minInstant, maxInstant, -12219292800 /*1582-10-15*/, 1483228800}

func (g *gen) instant() int64 {
	switch g.r.Intn(10) {
	case 0:
		return boundaryInstants[g.r.Intn(len(boundaryInstants))]
	case 1:
		return minInstant + g.r.Int63n(maxInstant-minInstant)
	}
	// 1990 .. 2040
	return 631152000 + g.r.Int63n(1577923200)
}

// span returns start<end.
func (g *gen) span() (int64, int64) {
	s := g.instant()
	var d int64
	switch g.r.Intn(4) {
	case 0:
		d = 1
	case 1:
		d = 86400
	default:
		d = 1 + g.r.Int63n(400*86400)
	}
	e := s + d
	if e > maxInstant {
		s, e = maxInstant-d, maxInstant
	}
	return s, e
}

// timeRange returns one of: both bounds, start only, end only.
func (g *gen) timeRange() (start, end *int64) {
	s, e := g.span()
	switch g.r.Intn(4) {
	case 0:
		return &s, nil
	case 1:
		return nil, &e
	}
	return &s, &e
}

func (g *gen) textMatch() *rfc4791.TextMatch {
	tm := &rfc4791.TextMatch{Text: g.text(), Negate: g.chance(2)}
	if g.wire {
		if !tm.Negate && g.chance(2) {
			tm.ExplicitNo = true
		}
		if g.chance(3) {
			c := g.pick([]string{"i;ascii-casemap", "i;octet", "default"})
			tm.Collation = &c
		}
	}
	return tm
}

func (g *gen) paramFilter() rfc4791.ParamFilter {
	p := rfc4791.ParamFilter{Name: g.name(paramNames)}
	switch g.r.Intn(3) {
	case 0:
		p.IsNotDefined = true
	case 1:
		p.Text = g.textMatch()
	}
	return p
}

func (g *gen) propFilter() rfc4791.PropFilter {
	p := rfc4791.PropFilter{Name: g.name(propNames)}
	switch g.r.Intn(5) {
	case 0:
		p.IsNotDefined = true
		return p
	case 1:
		p.Start, p.End = g.timeRange()
	case 2, 3:
		p.Text = g.textMatch()
	}
	for n := g.fan(); n > 0; n-- {
		p.Params = append(p.Params, g.paramFilter())
	}
	return p
}

// fan returns 0..3, small values more often.
func (g *gen) fan() int {
	return []int{0, 0, 0, 1, 1, 1, 2, 2, 3, 3}[g.r.Intn(10)]
}

func (g *gen) compFilter(level int) rfc4791.CompFilter {
	f := rfc4791.CompFilter{}
	if level == 1 && !g.chance(6) {
		f.Name = "VCALENDAR"
	} else {
		f.Name = g.name(compNames)
	}
	if g.chance(7) {
		f.IsNotDefined = true
		return f
	}
	if g.chance(3) {
		f.Start, f.End = g.timeRange()
	}
	for n := g.fan(); n > 0; n-- {
		f.Props = append(f.Props, g.propFilter())
	}
	if level < 4 {
		n := g.fan()
		if level == 1 && n == 0 && !g.chance(4) {
			n = 1
		}
		for ; n > 0; n-- {
			f.Comps = append(f.Comps, g.compFilter(level+1))
		}
	}
	return f
}

func (g *gen) comp(level int) rfc4791.Comp {
	c := rfc4791.Comp{}
	if level == 1 && !g.chance(6) {
		c.Name = "VCALENDAR"
	} else {
		c.Name = g.name(compNames)
	}
	switch g.r.Intn(3) {
	case 0:
		c.AllProps = true
	case 1:
		for n := 1 + g.r.Intn(4); n > 0; n-- {
			p := rfc4791.PropSel{Name: g.name(propNames)}
			if g.wire && g.chance(3) {
				p.NoValue = g.pick([]string{"yes", "no"})
			}
			c.Props = append(c.Props, p)
		}
	}
	switch g.r.Intn(3) {
	case 0:
		c.AllComps = true
	case 1:
		if level < 3 {
			for n := 1 + g.r.Intn(3); n > 0; n-- {
				c.Comps = append(c.Comps, g.comp(level+1))
			}
		}
	}
	return c
}

func (g *gen) rng() *rfc4791.Range {
	s, e := g.span()
	return &rfc4791.Range{Start: s, End: e}
}

func (g *gen) calendarData() *rfc4791.CalendarData {
	d := &rfc4791.CalendarData{}
	if g.wire && g.chance(8) {
		// no comp child at all
	} else if g.chance(20) {
		d.Comp = &rfc4791.Comp{} // the zero CalendarCompRequest
	} else {
		c := g.comp(1)
		d.Comp = &c
	}
	switch {
	case g.chance(3):
		d.Expand = g.rng()
	case g.wire && g.chance(4):
		d.LimitRecurrence = g.rng()
	}
	if g.wire {
		if g.chance(5) {
			d.LimitFreeBusy = g.rng()
		}
		if g.chance(6) {
			ct := "text/calendar"
			d.ContentType = &ct
		}
		if g.chance(6) {
			v := "2.0"
			d.Version = &v
		}
	}
	return d
}

func (g *gen) path(maxSegs int) string {
	n := 1 + g.r.Intn(maxSegs)
	segs := make([]string, n)
	for i := range segs {
		if g.chance(3) {
			segs[i] = g.pick([]string{"cal", "user", "calendars", "work", "a.ics"})
		} else {
			segs[i] = g.pick(hrefSegs)
		}
	}
	p := "/" + strings.Join(segs, "/")
	if g.chance(4) {
		p += "/"
	}
	return p
}

// longListSizes, ascending; the smaller ones are drawn more often (they cost
// less and every cut-off below a size is visible from that size on).
var longListSizes = []int{999, 1000, 1001, 1023, 1024, 1025, 1500, 2000, 2001, 2047, 2049, 4097, 10001}

// hrefList returns 0..20 paths (min at least), biased to small counts, with
// the boundary sizes always reachable and occasional duplicates.
func (g *gen) hrefList(min int) []string {
	var n int
	switch g.r.Intn(6) {
	case 0:
		n = min
	case 1:
		n = 1
	case 2:
		n = 20
	default:
		n = min + g.r.Intn(21-min)
	}
	if g.chance(25) {
		// sizes around the round numbers at which an implementation might batch
		n = []int{99, 100, 101, 128, 150, 200, 201, 257, 513}[g.r.Intn(9)]
	}
	if g.chance(120) {
		// "arbitrary href lists": thousands of entries, sizes next to the
		// decimal and binary round numbers at which an implementation might
		// cut, chunk or switch representation
		i, j := g.r.Intn(len(longListSizes)), g.r.Intn(len(longListSizes))
		if j < i {
			i = j
		}
		n = longListSizes[i]
	}
	var l []string
	for i := 0; i < n; i++ {
		if i > 0 && g.chance(10) {
			l = append(l, l[g.r.Intn(len(l))])
			continue
		}
		l = append(l, g.path(4))
	}
	return l
}

// rawHref writes path p as an RFC 3986 reference in one of several
// equivalent spellings.
func (g *gen) rawHref(p string) string {
	esc := davx.EscapePath(p)
	switch g.r.Intn(6) {
	case 0:
		esc = escLowerHex(esc)
	case 1:
		// percent-encode some unreserved characters too
		var sb strings.Builder
		for i := 0; i < len(p); i++ {
			c := p[i]
			if c != '/' && (g.chance(4) || davx.EscapePath(string(c)) != string(c)) {
				fmt.Fprintf(&sb, "%%%02X", c)
			} else {
				sb.WriteByte(c)
			}
		}
		esc = sb.String()
	case 2:
		esc = "http://h" + esc
	}
	return esc
}

// escLowerHex lower-cases the hex digits of percent escapes only.
func escLowerHex(s string) string {
	b := []byte(s)
	for i := 0; i+2 < len(b); i++ {
		if b[i] == '%' {
			for j := i + 1; j <= i+2; j++ {
				if b[j] >= 'A' && b[j] <= 'F' {
					b[j] += 'a' - 'A'
				}
			}
			i += 2
		}
	}
	return string(b)
}

// genCW builds a client→wire case.
func genCW(r *rand.Rand) *Case {
	g := &gen{r: r}
	// The endpoint's own path and user information are not part of an
	// absolute collection path: the request goes to Path whatever they are.
	cs := &Case{Dir: dirCW, Endpoint: g.pick([]string{"http://h/", "http://h/", "http://h", "http://h/dav/", "http://h/dav", "http://u:p@h/a%20b/"})}
	switch r.Intn(5) {
	case 0:
		cs.ZoneMode = "utc"
	case 1:
		cs.ZoneMode = fmt.Sprintf("fixed:%d", zoneOffsets[r.Intn(len(zoneOffsets))])
	default:
		cs.ZoneMode = "mixed"
	}
	cs.Path = g.path(3)
	cs.Req.Prop.Form = "prop"
	cs.Req.Prop.Data = g.calendarData()
	if r.Intn(3) == 0 {
		cs.Req.Kind = "calendar-multiget"
		cs.Paths = g.hrefList(0)
		if g.chance(8) {
			// member names relative to the collection, some with a colon in
			// their first segment (as a reference they need "./" in front,
			// or they read as a URI with a scheme)
			for i := range cs.Paths {
				if g.chance(2) {
					cs.Paths[i] = g.pick([]string{"a.ics", "urn:uuid:1f0b5c3e.ics", "standup 09:30.ics", "a:b", "sub/a:b.ics", "x:y/z.ics", "mailto:a@b", "1:2", "é:ü.ics"})
				}
			}
		}
	} else {
		cs.Req.Kind = "calendar-query"
		f := g.compFilter(1)
		cs.Req.Filter = &f
	}
	if r.Intn(12) == 0 {
		g.injectOOD(cs)
	}
	return cs
}

// injectOOD puts one feature outside the public type's documented domain
// into the case (no verdict is given on such cases).
func (g *gen) injectOOD(cs *Case) {
	d := cs.Req.Prop.Data
	switch g.r.Intn(7) {
	case 0:
		if f := cs.Req.Filter; f != nil {
			f.IsNotDefined = true
			f.Comps = append(f.Comps, g.compFilter(4))
			cs.OOD = "comp-filter is-not-defined with children"
		}
	case 1:
		if f := cs.Req.Filter; f != nil {
			p := g.propFilter()
			p.IsNotDefined = true
			p.Text = g.textMatch()
			f.IsNotDefined = false
			f.Props = append(f.Props, p)
			cs.OOD = "prop-filter is-not-defined with text-match"
		}
	case 2:
		if f := cs.Req.Filter; f != nil {
			p := rfc4791.PropFilter{Name: "DTSTART", Text: g.textMatch()}
			p.Start, p.End = g.timeRange()
			f.IsNotDefined = false
			f.Props = append(f.Props, p)
			cs.OOD = "prop-filter time-range with text-match"
		}
	case 3:
		if f := cs.Req.Filter; f != nil {
			p := rfc4791.PropFilter{Name: "ATTENDEE", Params: []rfc4791.ParamFilter{{Name: "CN", IsNotDefined: true, Text: g.textMatch()}}}
			f.IsNotDefined = false
			f.Props = append(f.Props, p)
			cs.OOD = "param-filter is-not-defined with text-match"
		}
	case 4:
		if d.Comp != nil {
			d.Comp.AllProps = true
			d.Comp.Props = append(d.Comp.Props, rfc4791.PropSel{Name: "UID"})
			cs.OOD = "allprop with prop"
		}
	case 5:
		if d.Comp != nil {
			d.Comp.AllComps = true
			d.Comp.Comps = append(d.Comp.Comps, rfc4791.Comp{Name: "VEVENT"})
			cs.OOD = "allcomp with comp"
		}
	case 6:
		if f := cs.Req.Filter; f != nil && !f.IsNotDefined {
			s, e := g.span()
			f.Start, f.End = &e, &s
			cs.OOD = "time-range end before start"
		}
	}
}

// genWB builds a wire→backend case.
func genWB(r *rand.Rand) *Case {
	g := &gen{r: r, wire: true}
	cs := &Case{Dir: dirWB}
	cs.Path = g.path(3)
	cs.LexSeed = r.Int63()
	if r.Intn(10) == 0 {
		cs.LexSeed = 0
	}
	cs.CType = g.pick([]string{"application/xml", "text/xml", "application/xml; charset=utf-8", "text/xml; charset=\"utf-8\"", "Application/XML"})
	switch r.Intn(12) {
	case 0:
		cs.Req.Prop.Form = ""
	case 1:
		cs.Req.Prop.Form = "allprop"
	case 2:
		cs.Req.Prop.Form = "propname"
	default:
		cs.Req.Prop.Form = "prop"
		for n := r.Intn(4); n > 0; n-- {
			cs.Req.Prop.Others = append(cs.Req.Prop.Others, otherProps[r.Intn(len(otherProps))])
		}
		if r.Intn(12) != 0 {
			cs.Req.Prop.Data = g.calendarData()
			cs.Req.Prop.DataAt = r.Intn(len(cs.Req.Prop.Others) + 1)
		}
	}
	if r.Intn(3) == 0 {
		cs.Req.Kind = "calendar-multiget"
		cs.Paths = g.hrefList(1)
		for _, p := range cs.Paths {
			cs.Req.Hrefs = append(cs.Req.Hrefs, g.rawHref(p))
		}
	} else {
		cs.Req.Kind = "calendar-query"
		f := g.compFilter(1)
		cs.Req.Filter = &f
		if g.chance(5) {
			tz := "BEGIN:VCALENDAR\r\nVERSION:2.0\r\nBEGIN:VTIMEZONE\r\nTZID:X\r\nEND:VTIMEZONE\r\nEND:VCALENDAR\r\n"
			cs.Req.Timezone = &tz
		}
	}
	return cs
}

package c08

import (
	"bytes"
	"context"
	"encoding/json"
	"fmt"
	"io/ioutil"
	"math/rand"
	"net/http"
	"runtime"
	"strings"
	"sync"

	"github.com/emersion/go-ical"
	"github.com/emersion/go-webdav"
	"github.com/emersion/go-webdav/caldav"
	"github.com/emersion/go-webdav/verifharness/davx"
	"github.com/emersion/go-webdav/verifharness/doubles"
	"github.com/emersion/go-webdav/verifharness/fw"
	"github.com/emersion/go-webdav/verifharness/rfc4791"
)

// Overlap families. The statement quantifies over every request a caller can
// express; nothing in it restricts callers to one request at a time per
// Client (or per Handler). So K different requests are put in flight
// together and each one must still arrive as ITS OWN request:
//
//   - client→wire: K goroutines call QueryCalendar / MultiGetCalendar on one
//     caldav.Client whose HTTPClient parks every request until all K have
//     been built and handed over; only then are the bodies read (in a seeded
//     order) and answered. A body is attributed to its caller by the request
//     target (unique per member) and must decode, with the independent
//     reader, to the same request as the body the same call sends alone.
//   - wire→backend: K REPORT requests are served concurrently by one
//     caldav.Handler whose backend parks the first call of every request
//     until all K have reached it; what each request then delivers to the
//     backend (recorded after the release) must equal what the same request
//     delivers alone.
//
// No wall-clock is involved: the barrier opens when every member is either
// parked or has returned.

// ---------------------------------------------------------------------------
// Generation.

func cloneCase(cs *Case) *Case {
	b, _ := json.Marshal(cs)
	var o Case
	json.Unmarshal(b, &o)
	return &o
}

func genOverlap(r *rand.Rand, dir string) *Case {
	g := &Case{Dir: dir, Procs: []int{1, 1, 1, 2, 4, 8}[r.Intn(6)], OrderSeed: r.Int63(), Uniform: r.Intn(3) == 0}
	k := 2 + r.Intn(7)
	member := func() *Case {
		for {
			var m *Case
			if dir == dirCW {
				m = genCW(rand.New(rand.NewSource(r.Int63())))
			} else {
				m = genWB(rand.New(rand.NewSource(r.Int63())))
			}
			if m.OOD == "" {
				return m
			}
		}
	}
	var base *Case
	if g.Uniform {
		base = member()
	}
	for i := 0; i < k; i++ {
		var m *Case
		if g.Uniform {
			m = cloneCase(base)
			mark := fmt.Sprintf("member-%d", i)
			switch {
			case m.Req.Kind == "calendar-query" && !m.Req.Filter.IsNotDefined:
				m.Req.Filter.Props = append(m.Req.Filter.Props, rfc4791.PropFilter{Name: "X-MEMBER", Text: &rfc4791.TextMatch{Text: mark}})
			case m.Req.Kind == "calendar-query":
				m.Req.Filter.Name = "X-" + mark
			default:
				p := fmt.Sprintf("/o%d/%s.ics", i, mark)
				m.Paths = append(m.Paths, p)
				if dir == dirWB {
					m.Req.Hrefs = append(m.Req.Hrefs, p)
				}
			}
		} else {
			m = member()
		}
		m.Path = fmt.Sprintf("/o%d", i) + m.Path
		g.Group = append(g.Group, m)
	}
	return g
}

// ---------------------------------------------------------------------------
// Barrier: opens when every member is parked or has returned.

type barrier struct {
	k      int
	tokens chan struct{}
	mu     sync.Mutex
	open   bool
	parked []*parkedItem
}

type parkedItem struct {
	member  int
	payload interface{}
	release chan struct{}
}

func newBarrier(k int) *barrier { return &barrier{k: k, tokens: make(chan struct{}, 4*k+8)} }

// park blocks the caller until the coordinator releases it. It returns
// false, without blocking, when the barrier is already open.
func (b *barrier) park(member int, payload interface{}) bool {
	b.mu.Lock()
	if b.open {
		b.mu.Unlock()
		return false
	}
	it := &parkedItem{member: member, payload: payload, release: make(chan struct{})}
	b.parked = append(b.parked, it)
	b.mu.Unlock()
	b.tokens <- struct{}{}
	<-it.release
	return true
}

// returned is called by a member goroutine when its operation has returned.
func (b *barrier) returned() { b.tokens <- struct{}{} }

// wait blocks until k tokens (parked or returned members) have been seen,
// opens the barrier and hands back the parked items in a seeded order.
func (b *barrier) wait(orderSeed int64) []*parkedItem {
	for i := 0; i < b.k; i++ {
		<-b.tokens
	}
	b.mu.Lock()
	b.open = true
	items := append([]*parkedItem(nil), b.parked...)
	b.mu.Unlock()
	rand.New(rand.NewSource(orderSeed)).Shuffle(len(items), func(i, j int) { items[i], items[j] = items[j], items[i] })
	return items
}

// ---------------------------------------------------------------------------
// client→wire.

type gateClient struct {
	b   *barrier
	mu  sync.Mutex
	log []doubles.Exchange
}

func cannedMultiStatus(req *http.Request) *http.Response {
	body := []byte(`<?xml version="1.0"?><multistatus xmlns="DAV:"/>`)
	return &http.Response{StatusCode: 207, Status: "207 Multi-Status", Proto: "HTTP/1.1", ProtoMajor: 1, ProtoMinor: 1,
		Header: http.Header{"Content-Type": {"application/xml; charset=utf-8"}}, Body: ioutil.NopCloser(bytes.NewReader(body)),
		ContentLength: int64(len(body)), Request: req}
}

func (g *gateClient) read(req *http.Request) {
	var body []byte
	if req.Body != nil {
		body, _ = ioutil.ReadAll(req.Body)
		req.Body.Close()
	}
	g.mu.Lock()
	g.log = append(g.log, doubles.Exchange{Method: req.Method, Target: req.URL.RequestURI(), Path: req.URL.Path, Header: req.Header.Clone(), Body: body})
	g.mu.Unlock()
}

func (g *gateClient) Do(req *http.Request) (*http.Response, error) {
	if !g.b.park(-1, req) {
		// the barrier is open already (a second request of some call)
		g.read(req)
	}
	return cannedMultiStatus(req), nil
}

// soloBodies runs the call alone through a fresh Client and returns the
// bodies it sends.
func soloBodies(cs *Case) ([][]byte, error) {
	capt := &doubles.Capture{}
	cl, err := caldav.NewClient(capt, cs.Endpoint)
	if err != nil {
		return nil, err
	}
	if panicked, pv, _ := fw.Guard(func() { callClient(cl, cs, []string{cs.Path}) }); panicked {
		return nil, fmt.Errorf("panic: %v", pv)
	}
	var l [][]byte
	for _, e := range capt.Reqs {
		l = append(l, e.Body)
	}
	return l, nil
}

// decodeKey is a canonical rendering of what the independent reader makes of
// a body (request and violations), or of its failure.
func decodeKey(body []byte) string {
	req, viol, err := rfc4791.Read(body)
	if err != nil {
		return "unreadable: " + err.Error()
	}
	b, _ := json.Marshal(map[string]interface{}{"req": req, "violations": viol})
	return string(b)
}

const overlapCWField = "concurrent calls on one Client"
const overlapWBField = "concurrent requests through one Handler"

func overlapClass(g *Case) string {
	kinds := map[string]bool{}
	for _, m := range g.Group {
		kinds[m.Req.Kind] = true
	}
	kind := "mixed"
	if len(kinds) == 1 {
		kind = g.Group[0].Req.Kind
	}
	return fmt.Sprintf("%s|overlap|K=%d|procs=%d|uniform=%v|%s", g.Dir, len(g.Group), g.Procs, g.Uniform, kind)
}

func execOverlapCW(c *xctx, g *Case) {
	k := len(g.Group)
	// The ordinary, solo verdicts on every member, and the reference decoding.
	ref := make([][]string, k)
	for i, m := range g.Group {
		execCW(c, m)
		bodies, err := soloBodies(m)
		if err != nil {
			c.Inconclusive(fmt.Sprintf("C08 overlap: solo run of member %d failed: %v", i, err))
			return
		}
		for _, b := range bodies {
			ref[i] = append(ref[i], decodeKey(b))
		}
	}

	procs := g.Procs
	if procs < 1 {
		procs = 1
	}
	prev := runtime.GOMAXPROCS(procs)
	defer runtime.GOMAXPROCS(prev)

	gc := &gateClient{b: newBarrier(k)}
	cl, err := caldav.NewClient(gc, g.Group[0].Endpoint)
	if err != nil {
		c.Inconclusive(fmt.Sprintf("C08 overlap: NewClient: %v", err))
		return
	}
	c.Journal(g)
	panics := make([]string, k)
	var wg sync.WaitGroup
	for i, m := range g.Group {
		wg.Add(1)
		go func(i int, m *Case) {
			defer wg.Done()
			defer gc.b.returned()
			if panicked, pv, stack := fw.Guard(func() { callClient(cl, m, []string{m.Path}) }); panicked {
				panics[i] = fmt.Sprintf("%v in %s", pv, fw.PanicSite(stack))
			}
		}(i, m)
	}
	items := gc.b.wait(g.OrderSeed)
	c.Observe("client→wire overlap: requests parked together before any body was read", fmt.Sprintf("%d of %d", len(items), k), 1)
	for _, it := range items {
		gc.read(it.payload.(*http.Request))
	}
	for _, it := range items {
		close(it.release)
	}
	wg.Wait()
	c.JournalDone()

	c.Distinct(overlapClass(g))
	c.Observe("client→wire overlap: groups", fmt.Sprintf("K=%d", k), 1)
	c.Observe("client→wire overlap: groups", fmt.Sprintf("GOMAXPROCS=%d", procs), 1)
	if g.Uniform {
		c.Observe("client→wire overlap: groups", "same-length documents", 1)
	}

	// Attribute every captured body to its caller by the request target.
	got := make([][]doubles.Exchange, k)
	for _, ex := range gc.log {
		tp, _ := davx.HrefPath(ex.Target)
		owner := -1
		for i, m := range g.Group {
			if tp == m.Path {
				owner = i
			}
		}
		if owner < 0 {
			report(c, g, overlapCWField, "request with a target no caller asked for", fmt.Sprintf("target %q", ex.Target), nil)
			continue
		}
		got[owner] = append(got[owner], ex)
	}
	for i := range g.Group {
		c.Eval(1)
		if panics[i] != "" {
			report(c, g, overlapCWField, "panic", fmt.Sprintf("member %d: %s", i, panics[i]), nil)
			continue
		}
		if len(got[i]) != len(ref[i]) {
			report(c, g, overlapCWField, "request body is not the caller's own",
				fmt.Sprintf("member %d sends %d request(s) alone but %d when other calls are in flight", i, len(ref[i]), len(got[i])), map[string]interface{}{"member": i})
			continue
		}
		for j, ex := range got[i] {
			dk := decodeKey(ex.Body)
			if dk == ref[i][j] {
				c.Observe("client→wire overlap: bodies", "decodes to its own caller's request", 1)
				continue
			}
			whose := "no caller's request"
			for o := range g.Group {
				for _, r := range ref[o] {
					if o != i && r == dk {
						whose = fmt.Sprintf("the request of member %d", o)
					}
				}
			}
			if strings.HasPrefix(dk, "unreadable") {
				whose = "not a readable document (" + oneLine(dk) + ")"
			}
			c.Observe("client→wire overlap: bodies", "NOT its own caller's request", 1)
			report(c, g, overlapCWField, "request body is not the caller's own",
				fmt.Sprintf("the body sent to %s (member %d of %d, GOMAXPROCS=%d) decodes to %s", ex.Target, i, k, procs, whose),
				map[string]interface{}{"member": i, "target": ex.Target, "body_in_flight": string(ex.Body), "decoded_in_flight": dk, "decoded_alone": ref[i][j]})
		}
	}
}

// ---------------------------------------------------------------------------
// wire→backend.

type memberKey struct{}

func copyCompReq(r *caldav.CalendarCompRequest) *caldav.CalendarCompRequest {
	if r == nil {
		return nil
	}
	o := *r
	o.Props = append([]string(nil), r.Props...)
	o.Comps = nil
	for i := range r.Comps {
		o.Comps = append(o.Comps, *copyCompReq(&r.Comps[i]))
	}
	if r.Expand != nil {
		e := *r.Expand
		o.Expand = &e
	}
	return &o
}

// gatedBackend parks the first backend call of every member request until
// all members have reached the backend, then records (deep copies taken
// AFTER the release) what each member delivers.
type gatedBackend struct {
	b      *barrier
	mu     sync.Mutex
	parked map[int]bool
	calls  map[int][]doubles.Call
}

func (g *gatedBackend) enter(ctx context.Context) int {
	m, ok := ctx.Value(memberKey{}).(int)
	if !ok {
		return -1
	}
	g.mu.Lock()
	first := !g.parked[m]
	g.parked[m] = true
	g.mu.Unlock()
	if first {
		g.b.park(m, nil)
	}
	return m
}

func (g *gatedBackend) record(m int, cl doubles.Call) {
	g.mu.Lock()
	g.calls[m] = append(g.calls[m], cl)
	g.mu.Unlock()
}

func (g *gatedBackend) CurrentUserPrincipal(ctx context.Context) (string, error) {
	return "/principal/", nil
}
func (g *gatedBackend) CalendarHomeSetPath(ctx context.Context) (string, error) {
	return "/principal/cal/", nil
}
func (g *gatedBackend) CreateCalendar(ctx context.Context, cal *caldav.Calendar) error {
	return webdav.NewHTTPError(403, fmt.Errorf("read-only"))
}
func (g *gatedBackend) ListCalendars(ctx context.Context) ([]caldav.Calendar, error) { return nil, nil }
func (g *gatedBackend) GetCalendar(ctx context.Context, path string) (*caldav.Calendar, error) {
	return nil, webdav.NewHTTPError(404, fmt.Errorf("not found"))
}
func (g *gatedBackend) GetCalendarObject(ctx context.Context, path string, req *caldav.CalendarCompRequest) (*caldav.CalendarObject, error) {
	m := g.enter(ctx)
	g.record(m, doubles.Call{Op: "GetCalendarObject", Path: path, Arg: copyCompReq(req)})
	return nil, webdav.NewHTTPError(404, fmt.Errorf("not found"))
}
func (g *gatedBackend) ListCalendarObjects(ctx context.Context, path string, req *caldav.CalendarCompRequest) ([]caldav.CalendarObject, error) {
	return nil, nil
}
func (g *gatedBackend) QueryCalendarObjects(ctx context.Context, path string, q *caldav.CalendarQuery) ([]caldav.CalendarObject, error) {
	m := g.enter(ctx)
	g.record(m, doubles.Call{Op: "QueryCalendarObjects", Path: path, Arg: doubles.CopyCalendarQuery(q)})
	return nil, nil
}
func (g *gatedBackend) PutCalendarObject(ctx context.Context, path string, cal *ical.Calendar, opts *caldav.PutCalendarObjectOptions) (*caldav.CalendarObject, error) {
	return nil, webdav.NewHTTPError(403, fmt.Errorf("read-only"))
}
func (g *gatedBackend) DeleteCalendarObject(ctx context.Context, path string) error {
	return webdav.NewHTTPError(403, fmt.Errorf("read-only"))
}

var _ caldav.Backend = (*gatedBackend)(nil)

// callsDigest renders what a request delivered to the backend.
func callsDigest(status int, calls []doubles.Call) string {
	var sb strings.Builder
	fmt.Fprintf(&sb, "status %d", status)
	for _, cl := range calls {
		var arg interface{}
		switch a := cl.Arg.(type) {
		case *caldav.CalendarQuery:
			if a != nil {
				arg = map[string]interface{}{"filter": fromCompFilter(a.CompFilter), "comp": fromComp(&a.CompRequest), "expand": fromExpand(a.CompRequest.Expand)}
			}
		case *caldav.CalendarCompRequest:
			if a != nil {
				arg = map[string]interface{}{"comp": fromComp(a), "expand": fromExpand(a.Expand)}
			}
		}
		b, _ := json.Marshal(arg)
		fmt.Fprintf(&sb, "\n%s %q %s", cl.Op, cl.Path, b)
	}
	return sb.String()
}

func execOverlapWB(c *xctx, g *Case) {
	k := len(g.Group)
	docs := make([][]byte, k)
	ref := make([]string, k)
	for i, m := range g.Group {
		execWB(c, m) // ordinary solo verdicts (includes the writer/reader cross-check)
		docs[i] = renderDoc(m, m.LexSeed)
		var out *wbOutcome
		var err error
		if panicked, pv, _ := fw.Guard(func() { out, err = postReport(m, docs[i]) }); panicked || err != nil {
			c.Inconclusive(fmt.Sprintf("C08 overlap: solo delivery of member %d failed: %v %v", i, pv, err))
			return
		}
		ref[i] = callsDigest(out.status, out.calls)
	}

	procs := g.Procs
	if procs < 1 {
		procs = 1
	}
	prev := runtime.GOMAXPROCS(procs)
	defer runtime.GOMAXPROCS(prev)

	be := &gatedBackend{b: newBarrier(k), parked: map[int]bool{}, calls: map[int][]doubles.Call{}}
	cl := &doubles.InProc{Handler: &caldav.Handler{Backend: be}}
	status := make([]int, k)
	panics := make([]string, k)
	c.Journal(g)
	var wg sync.WaitGroup
	for i, m := range g.Group {
		wg.Add(1)
		go func(i int, m *Case) {
			defer wg.Done()
			defer be.b.returned()
			panicked, pv, stack := fw.Guard(func() {
				req, err := http.NewRequest("REPORT", "http://h"+davx.EscapePath(m.Path), bytes.NewReader(docs[i]))
				if err != nil {
					return
				}
				req = req.WithContext(context.WithValue(context.Background(), memberKey{}, i))
				req.Header.Set("Content-Type", m.CType)
				req.Header.Set("Depth", "1")
				resp, err := cl.Do(req)
				if err != nil {
					return
				}
				ioutil.ReadAll(resp.Body)
				resp.Body.Close()
				status[i] = resp.StatusCode
			})
			if panicked {
				panics[i] = fmt.Sprintf("%v in %s", pv, fw.PanicSite(stack))
			}
		}(i, m)
	}
	items := be.b.wait(g.OrderSeed)
	c.Observe("wire→backend overlap: requests parked together inside the backend", fmt.Sprintf("%d of %d", len(items), k), 1)
	for _, it := range items {
		close(it.release)
	}
	wg.Wait()
	c.JournalDone()

	c.Distinct(overlapClass(g))
	c.Observe("wire→backend overlap: groups", fmt.Sprintf("K=%d", k), 1)
	c.Observe("wire→backend overlap: groups", fmt.Sprintf("GOMAXPROCS=%d", procs), 1)
	for i := range g.Group {
		c.Eval(1)
		if panics[i] != "" {
			report(c, g, overlapWBField, "panic", fmt.Sprintf("member %d: %s", i, panics[i]), nil)
			continue
		}
		got := callsDigest(status[i], be.calls[i])
		if got == ref[i] {
			c.Observe("wire→backend overlap: deliveries", "backend received the request's own query/paths/selection", 1)
			continue
		}
		c.Observe("wire→backend overlap: deliveries", "NOT the request's own", 1)
		report(c, g, overlapWBField, "backend call is not the request's own",
			fmt.Sprintf("member %d of %d (GOMAXPROCS=%d) delivers something else than alone", i, k, procs),
			map[string]interface{}{"member": i, "document": string(docs[i]), "delivered_in_flight": got, "delivered_alone": ref[i]})
	}
}

// Package c08 decides property C08: CalDAV queries cross the wire without
// loss, in RFC 4791 form.
//
// client→wire: the real caldav.Client is driven with generated
// CalendarQuery / CalendarMultiGet values; the HTTP request it emits is
// captured and its body is read by the independent rfc4791 reader, which
// must find it conformant and decode it to the caller's request.
//
// wire→backend: the independent rfc4791 writer emits a conformant document
// for a generated neutral request in a random lexical form; it is sent as a
// REPORT to the real caldav.Handler in front of a recording backend; what the
// backend receives must equal the neutral request.
//
// client→backend (e2e.go): both halves as one journey through net/http, with
// 307/308 redirects on the road.
package c08

import (
	"bytes"
	"context"
	"encoding/json"
	"fmt"
	"io/ioutil"
	"math/rand"
	"mime"
	"net/http"
	"sort"
	"strconv"
	"strings"
	"time"

	"github.com/emersion/go-webdav/caldav"
	"github.com/emersion/go-webdav/verifharness/davx"
	"github.com/emersion/go-webdav/verifharness/doubles"
	"github.com/emersion/go-webdav/verifharness/fw"
	"github.com/emersion/go-webdav/verifharness/rfc4791"
	"github.com/emersion/go-webdav/verifharness/xmltree"
)

// ---------------------------------------------------------------------------
// Caller-side presentation of instants.

// zoner decides, as a pure function of the instant, in which time.Location
// and with which sub-second part the caller holds it.
type zoner struct {
	mode  string
	fixed int64
}

func newZoner(mode string) zoner {
	z := zoner{mode: mode}
	if strings.HasPrefix(mode, "fixed:") {
		z.mode = "fixed"
		z.fixed, _ = strconv.ParseInt(mode[len("fixed:"):], 10, 64)
	}
	return z
}

func mix(u int64) uint64 {
	x := uint64(u) * 0x9E3779B97F4A7C15
	x ^= x >> 29
	return x
}

func (z zoner) off(unix int64) int64 {
	switch z.mode {
	case "fixed":
		return z.fixed
	case "mixed":
		k := mix(unix) % uint64(len(zoneOffsets)+2)
		if int(k) >= len(zoneOffsets) {
			return 0
		}
		return zoneOffsets[k]
	}
	return 0
}

func (z zoner) nsec(unix int64) int64 {
	switch mix(unix+7) % 8 {
	case 0:
		return 999999999
	case 1:
		return 500000000
	case 2:
		return 1
	}
	return 0
}

func (z zoner) at(unix int64) time.Time {
	t := time.Unix(unix, z.nsec(unix))
	if off := z.off(unix); off != 0 {
		return t.In(time.FixedZone("", int(off)))
	}
	return t.UTC()
}

func (z zoner) opt(p *int64) time.Time {
	if p == nil {
		return time.Time{}
	}
	return z.at(*p)
}

// ---------------------------------------------------------------------------
// neutral -> public API value (caller side).

func toTextMatch(t *rfc4791.TextMatch) *caldav.TextMatch {
	if t == nil {
		return nil
	}
	return &caldav.TextMatch{Text: t.Text, NegateCondition: t.Negate}
}

func toCompFilter(f rfc4791.CompFilter, z zoner) caldav.CompFilter {
	o := caldav.CompFilter{Name: f.Name, IsNotDefined: f.IsNotDefined, Start: z.opt(f.Start), End: z.opt(f.End)}
	for _, p := range f.Props {
		op := caldav.PropFilter{Name: p.Name, IsNotDefined: p.IsNotDefined, Start: z.opt(p.Start), End: z.opt(p.End), TextMatch: toTextMatch(p.Text)}
		for _, pa := range p.Params {
			op.ParamFilter = append(op.ParamFilter, caldav.ParamFilter{Name: pa.Name, IsNotDefined: pa.IsNotDefined, TextMatch: toTextMatch(pa.Text)})
		}
		o.Props = append(o.Props, op)
	}
	for _, c := range f.Comps {
		o.Comps = append(o.Comps, toCompFilter(c, z))
	}
	return o
}

func toComp(c *rfc4791.Comp) caldav.CalendarCompRequest {
	var o caldav.CalendarCompRequest
	if c == nil {
		return o
	}
	o.Name, o.AllProps, o.AllComps = c.Name, c.AllProps, c.AllComps
	for _, p := range c.Props {
		o.Props = append(o.Props, p.Name)
	}
	for i := range c.Comps {
		o.Comps = append(o.Comps, toComp(&c.Comps[i]))
	}
	return o
}

func toCompReq(d *rfc4791.CalendarData, z zoner) caldav.CalendarCompRequest {
	if d == nil {
		return caldav.CalendarCompRequest{}
	}
	o := toComp(d.Comp)
	if d.Expand != nil {
		o.Expand = &caldav.CalendarExpandRequest{Start: z.at(d.Expand.Start), End: z.at(d.Expand.End)}
	}
	return o
}

// ---------------------------------------------------------------------------
// public API value (backend side) -> neutral.

func fromTime(t time.Time) *int64 {
	if t.IsZero() {
		return nil
	}
	u := t.Unix()
	return &u
}

func fromTextMatch(t *caldav.TextMatch) *rfc4791.TextMatch {
	if t == nil {
		return nil
	}
	return &rfc4791.TextMatch{Text: t.Text, Negate: t.NegateCondition}
}

func fromCompFilter(f caldav.CompFilter) rfc4791.CompFilter {
	o := rfc4791.CompFilter{Name: f.Name, IsNotDefined: f.IsNotDefined, Start: fromTime(f.Start), End: fromTime(f.End)}
	for _, p := range f.Props {
		op := rfc4791.PropFilter{Name: p.Name, IsNotDefined: p.IsNotDefined, Start: fromTime(p.Start), End: fromTime(p.End), Text: fromTextMatch(p.TextMatch)}
		for _, pa := range p.ParamFilter {
			op.Params = append(op.Params, rfc4791.ParamFilter{Name: pa.Name, IsNotDefined: pa.IsNotDefined, Text: fromTextMatch(pa.TextMatch)})
		}
		o.Props = append(o.Props, op)
	}
	for _, c := range f.Comps {
		o.Comps = append(o.Comps, fromCompFilter(c))
	}
	return o
}

func fromComp(c *caldav.CalendarCompRequest) rfc4791.Comp {
	o := rfc4791.Comp{Name: c.Name, AllProps: c.AllProps, AllComps: c.AllComps}
	for _, p := range c.Props {
		o.Props = append(o.Props, rfc4791.PropSel{Name: p})
	}
	for i := range c.Comps {
		o.Comps = append(o.Comps, fromComp(&c.Comps[i]))
	}
	return o
}

func fromExpand(e *caldav.CalendarExpandRequest) *rfc4791.Range {
	if e == nil {
		return nil
	}
	return &rfc4791.Range{Start: e.Start.Unix(), End: e.End.Unix()}
}

func compIsZero(c *rfc4791.Comp) bool {
	return c == nil || (c.Name == "" && !c.AllProps && !c.AllComps && len(c.Props) == 0 && len(c.Comps) == 0)
}

// ---------------------------------------------------------------------------
// Field-by-field comparison of neutral values.

type diff struct {
	Field  string `json:"field"`
	Trans  string `json:"transformation"`
	Detail string `json:"detail"`
}

type differ struct {
	out []diff
	// zoneOff: UTC offset in which the caller expressed this instant.
	zoneOff func(unix int64) int64
	// ceilOK: the caller's instant had a sub-second part, so rounding up is
	// as acceptable as truncating ("to the second").
	ceilOK func(unix int64) bool
}

func (d *differ) add(field, trans, format string, a ...interface{}) {
	d.out = append(d.out, diff{field, trans, fmt.Sprintf(format, a...)})
}

func (d *differ) str(field, want, got string) {
	if want == got {
		return
	}
	trans := "altered"
	switch {
	case got == "":
		// (a blank-only string that vanished counts as dropped, so that a
		// field that is never transported has one key whatever its value)
		trans = "dropped"
	case strings.TrimSpace(want) == strings.TrimSpace(got):
		trans = "blanks altered"
	}
	d.add(field, trans, "want %q, got %q", want, got)
}

func (d *differ) flag(field string, want, got bool) {
	if want == got {
		return
	}
	if want {
		d.add(field, "dropped", "want set, got unset")
	} else {
		d.add(field, "invented", "want unset, got set")
	}
}

func (d *differ) sameInstant(want, got int64) bool {
	return got == want || (d.ceilOK != nil && d.ceilOK(want) && got == want+1)
}

func (d *differ) instantVal(field string, want, got int64) {
	if d.sameInstant(want, got) {
		return
	}
	if d.zoneOff != nil {
		if off := d.zoneOff(want); off != 0 && got-want == off {
			d.add(field, "local wall-clock digits passed off as UTC", "want %s (caller zone offset %+ds), got %s", rfc4791.FormatUTC(want), off, rfc4791.FormatUTC(got))
			return
		}
	}
	d.add(field, "altered", "want %s, got %s", rfc4791.FormatUTC(want), rfc4791.FormatUTC(got))
}

func (d *differ) instant(field string, want, got *int64) {
	switch {
	case want == nil && got == nil:
	case want == nil:
		d.add(field, "open bound became an instant", "want the bound open (attribute absent), got %s", rfc4791.FormatUTC(*got))
	case got == nil:
		d.add(field, "dropped", "want %s, got an open bound", rfc4791.FormatUTC(*want))
	default:
		d.instantVal(field, *want, *got)
	}
}

func (d *differ) list(field string, want, got []string) {
	if len(want) == len(got) {
		same := true
		for i := range want {
			if want[i] != got[i] {
				same = false
			}
		}
		if same {
			return
		}
	}
	trans := "altered"
	switch {
	case len(got) < len(want):
		trans = "dropped"
	case len(got) > len(want):
		trans = "added"
	default:
		a := append([]string(nil), want...)
		b := append([]string(nil), got...)
		sort.Strings(a)
		sort.Strings(b)
		if strings.Join(a, "\x00") == strings.Join(b, "\x00") {
			trans = "reordered"
		}
	}
	if len(want)+len(got) > 60 {
		// long lists: say where they part instead of printing them
		i := 0
		for i < len(want) && i < len(got) && want[i] == got[i] {
			i++
		}
		at := func(l []string) string {
			if i < len(l) {
				return fmt.Sprintf("%q", l[i])
			}
			return "nothing (the list has ended)"
		}
		d.add(field, trans, "want %d entries, got %d; they agree on the first %d, then want %s, got %s", len(want), len(got), i, at(want), at(got))
		return
	}
	d.add(field, trans, "want %q, got %q", want, got)
}

func (d *differ) count(field string, want, got int) int {
	if got < want {
		d.add(field, "dropped", "want %d, got %d", want, got)
		return got
	}
	if got > want {
		d.add(field, "added", "want %d, got %d", want, got)
	}
	return want
}

func (d *differ) textMatch(parent string, want, got *rfc4791.TextMatch) {
	switch {
	case want == nil && got == nil:
	case want == nil:
		d.add(parent+".text-match", "invented", "want none, got %+v", *got)
	case got == nil:
		d.add(parent+".text-match", "dropped", "want %+v, got none", *want)
	default:
		d.str("text-match.text", want.Text, got.Text)
		d.flag("text-match.negate-condition", want.Negate, got.Negate)
	}
}

func (d *differ) compFilter(want, got *rfc4791.CompFilter) {
	d.str("comp-filter.name", want.Name, got.Name)
	d.flag("comp-filter.is-not-defined", want.IsNotDefined, got.IsNotDefined)
	d.instant("time-range.start", want.Start, got.Start)
	d.instant("time-range.end", want.End, got.End)
	n := d.count("comp-filter.prop-filter", len(want.Props), len(got.Props))
	for i := 0; i < n; i++ {
		d.propFilter(&want.Props[i], &got.Props[i])
	}
	n = d.count("comp-filter.comp-filter", len(want.Comps), len(got.Comps))
	for i := 0; i < n; i++ {
		d.compFilter(&want.Comps[i], &got.Comps[i])
	}
}

func (d *differ) propFilter(want, got *rfc4791.PropFilter) {
	d.str("prop-filter.name", want.Name, got.Name)
	d.flag("prop-filter.is-not-defined", want.IsNotDefined, got.IsNotDefined)
	d.instant("time-range.start", want.Start, got.Start)
	d.instant("time-range.end", want.End, got.End)
	d.textMatch("prop-filter", want.Text, got.Text)
	n := d.count("prop-filter.param-filter", len(want.Params), len(got.Params))
	for i := 0; i < n; i++ {
		w, g := &want.Params[i], &got.Params[i]
		d.str("param-filter.name", w.Name, g.Name)
		d.flag("param-filter.is-not-defined", w.IsNotDefined, g.IsNotDefined)
		d.textMatch("param-filter", w.Text, g.Text)
	}
}

func (d *differ) comp(want, got *rfc4791.Comp) {
	d.str("calendar-data.comp.name", want.Name, got.Name)
	d.flag("calendar-data.comp.allprop", want.AllProps, got.AllProps)
	var wn, gn []string
	for _, p := range want.Props {
		wn = append(wn, p.Name)
	}
	for _, p := range got.Props {
		gn = append(gn, p.Name)
	}
	d.list("calendar-data.comp.prop", wn, gn)
	d.flag("calendar-data.comp.allcomp", want.AllComps, got.AllComps)
	n := d.count("calendar-data.comp.comp", len(want.Comps), len(got.Comps))
	for i := 0; i < n; i++ {
		d.comp(&want.Comps[i], &got.Comps[i])
	}
}

func (d *differ) expand(want, got *rfc4791.Range) {
	switch {
	case want == nil && got == nil:
	case want == nil:
		d.add("calendar-data.expand", "invented", "want none, got %s..%s", rfc4791.FormatUTC(got.Start), rfc4791.FormatUTC(got.End))
	case got == nil:
		d.add("calendar-data.expand", "dropped", "want %s..%s, got none", rfc4791.FormatUTC(want.Start), rfc4791.FormatUTC(want.End))
	default:
		d.instantVal("expand.start", want.Start, got.Start)
		d.instantVal("expand.end", want.End, got.End)
	}
}

// ---------------------------------------------------------------------------
// Abstract case class (distinct_nontrivial) and feature census.

type census struct {
	depth, maxFan               int
	compIND, propIND, paramIND  int
	trBoth, trStart, trEnd      int
	text, negate, params, props int
	hostileName, blankText      int
	metaText, nonASCII          int
	instants                    int
}

func hostileStr(s string) bool { return strings.ContainsAny(s, "<&>\"'") }
func nonASCII(s string) bool {
	for _, r := range s {
		if r > 127 {
			return true
		}
	}
	return false
}
func blankEdge(s string) bool { return s != strings.TrimSpace(s) }

func (cn *census) str(s string, isText bool) {
	if isText {
		if blankEdge(s) {
			cn.blankText++
		}
		if hostileStr(s) {
			cn.metaText++
		}
	} else if hostileStr(s) || blankEdge(s) {
		cn.hostileName++
	}
	if nonASCII(s) {
		cn.nonASCII++
	}
}

func (cn *census) tr(s, e *int64) {
	switch {
	case s != nil && e != nil:
		cn.trBoth++
		cn.instants += 2
	case s != nil:
		cn.trStart++
		cn.instants++
	case e != nil:
		cn.trEnd++
		cn.instants++
	}
}

func (cn *census) tm(t *rfc4791.TextMatch) {
	if t == nil {
		return
	}
	cn.text++
	if t.Negate {
		cn.negate++
	}
	cn.str(t.Text, true)
}

func (cn *census) walk(f *rfc4791.CompFilter, level int) {
	if level > cn.depth {
		cn.depth = level
	}
	for _, k := range []int{len(f.Props), len(f.Comps)} {
		if k > cn.maxFan {
			cn.maxFan = k
		}
	}
	cn.str(f.Name, false)
	if f.IsNotDefined {
		cn.compIND++
	}
	cn.tr(f.Start, f.End)
	for i := range f.Props {
		p := &f.Props[i]
		cn.props++
		cn.str(p.Name, false)
		if p.IsNotDefined {
			cn.propIND++
		}
		cn.tr(p.Start, p.End)
		cn.tm(p.Text)
		if len(p.Params) > cn.maxFan {
			cn.maxFan = len(p.Params)
		}
		for _, pa := range p.Params {
			cn.params++
			cn.str(pa.Name, false)
			if pa.IsNotDefined {
				cn.paramIND++
			}
			cn.tm(pa.Text)
		}
	}
	for i := range f.Comps {
		cn.walk(&f.Comps[i], level+1)
	}
}

func b2i(b bool) int {
	if b {
		return 1
	}
	return 0
}

func cap3(n int) int {
	if n > 3 {
		return 3
	}
	return n
}

func dataClass(d *rfc4791.CalendarData) string {
	if d == nil {
		return "nodata"
	}
	s := "data"
	if d.Comp == nil {
		s += ":nocomp"
	} else {
		c := d.Comp
		s += fmt.Sprintf(":comp(ap=%d,p=%d,ac=%d,c=%d,named=%d)", b2i(c.AllProps), cap3(len(c.Props)), b2i(c.AllComps), cap3(len(c.Comps)), b2i(c.Name != ""))
	}
	if d.Expand != nil {
		s += ":expand"
	}
	if d.LimitRecurrence != nil {
		s += ":lrs"
	}
	if d.LimitFreeBusy != nil {
		s += ":lfs"
	}
	return s
}

func hrefBucket(n int) string {
	switch {
	case n == 0:
		return "0"
	case n == 1:
		return "1"
	case n <= 5:
		return "2-5"
	case n < 20:
		return "6-19"
	case n == 20:
		return "20"
	case n <= 1000:
		return "21-1000"
	}
	return "over 1000"
}

// classOf is the abstract key counted in distinct_nontrivial.
func classOf(cs *Case) string {
	var sb strings.Builder
	sb.WriteString(cs.Dir + "|" + cs.Req.Kind + "|" + cs.Req.Prop.Form + "|" + dataClass(cs.Req.Prop.Data))
	if cs.Dir == dirCB {
		fmt.Fprintf(&sb, "|hops=%d|net=%s", len(cs.Hops), cs.Net)
	}
	if cs.Dir == dirCW || cs.Dir == dirCB {
		zm := cs.ZoneMode
		if strings.HasPrefix(zm, "fixed:") {
			zm = "fixed"
		}
		sb.WriteString("|zone=" + zm)
	}
	if f := cs.Req.Filter; f != nil {
		var cn census
		cn.walk(f, 1)
		fmt.Fprintf(&sb, "|depth=%d|fan=%d|ind=%d%d%d|tr=%d%d%d|text=%d|neg=%d|param=%d|hostile=%d|blank=%d",
			cn.depth, cn.maxFan, b2i(cn.compIND > 0), b2i(cn.propIND > 0), b2i(cn.paramIND > 0),
			b2i(cn.trBoth > 0), b2i(cn.trStart > 0), b2i(cn.trEnd > 0), b2i(cn.text > 0), b2i(cn.negate > 0), b2i(cn.params > 0),
			b2i(cn.hostileName+cn.metaText > 0), b2i(cn.blankText > 0))
	} else {
		hostile := 0
		for _, p := range cs.Paths {
			if davx.EscapePath(p) != p {
				hostile = 1
			}
		}
		fmt.Fprintf(&sb, "|hrefs=%s|hostile=%d", hrefBucket(len(cs.Paths)), hostile)
	}
	return sb.String()
}

func observeFeatures(c *xctx, table string, cs *Case) {
	if f := cs.Req.Filter; f != nil {
		var cn census
		cn.walk(f, 1)
		c.Observe(table, fmt.Sprintf("filter depth %d", cn.depth), 1)
		c.Observe(table, fmt.Sprintf("filter max fan-out %d", cn.maxFan), 1)
		add := func(k string, n int) {
			if n > 0 {
				c.Observe(table, k, n)
			}
		}
		add("comp-filter is-not-defined", cn.compIND)
		add("prop-filter is-not-defined", cn.propIND)
		add("param-filter is-not-defined", cn.paramIND)
		add("time-range start+end", cn.trBoth)
		add("time-range open end", cn.trStart)
		add("time-range open start", cn.trEnd)
		add("text-match", cn.text)
		add("text-match negate-condition=yes", cn.negate)
		add("text with leading/trailing blanks", cn.blankText)
		add("text with XML metacharacters", cn.metaText)
		add("name with blanks or XML metacharacters", cn.hostileName)
		add("string with non-ASCII", cn.nonASCII)
		add("prop-filter", cn.props)
		add("param-filter", cn.params)
	} else {
		c.Observe(table, "multiget hrefs "+hrefBucket(len(cs.Paths)), 1)
		for _, p := range cs.Paths {
			if davx.EscapePath(p) != p {
				c.Observe(table, "href needing percent-encoding", 1)
			}
		}
	}
	d := cs.Req.Prop.Data
	switch {
	case d == nil:
		c.Observe(table, "selection: no calendar-data requested (prop form \""+cs.Req.Prop.Form+"\")", 1)
	case d.Comp == nil:
		c.Observe(table, "selection: calendar-data without comp", 1)
	default:
		var walk func(cp *rfc4791.Comp, level int)
		walk = func(cp *rfc4791.Comp, level int) {
			c.Observe(table, fmt.Sprintf("selection: comp at level %d", level), 1)
			if cp.AllProps {
				c.Observe(table, "selection: comp allprop", 1)
			}
			if len(cp.Props) > 0 {
				c.Observe(table, "selection: comp with named props", 1)
			}
			if cp.AllComps {
				c.Observe(table, "selection: comp allcomp", 1)
			}
			if !cp.AllProps && len(cp.Props) == 0 && !cp.AllComps && len(cp.Comps) == 0 {
				c.Observe(table, "selection: comp selecting nothing below it", 1)
			}
			if cp.Name == "" {
				c.Observe(table, "selection: comp with empty name", 1)
			}
			for i := range cp.Comps {
				walk(&cp.Comps[i], level+1)
			}
		}
		walk(d.Comp, 1)
	}
	if d != nil && d.Expand != nil {
		c.Observe(table, "selection: expand", 1)
	}
}

// ---------------------------------------------------------------------------
// Reporting.

// xctx wraps the worker context. Findings are buffered so that the smallest
// witness per key is the one reported; quiet suppresses the counting of a
// case that another shard counts (the hand-written boundary cases are
// executed by every shard so that every shard holds a small witness).
type xctx struct {
	*fw.Ctx
	quiet bool
	found map[string]*foundEntry
}

type foundEntry struct {
	what    string
	witness interface{}
	size    int
	count   int
}

func newX(c *fw.Ctx) *xctx { return &xctx{Ctx: c, found: map[string]*foundEntry{}} }

func (x *xctx) Eval(n int) {
	if !x.quiet {
		x.Ctx.Eval(n)
	}
}

func (x *xctx) Distinct(k string) {
	if !x.quiet {
		x.Ctx.Distinct(k)
	}
}

func (x *xctx) Observe(table, key string, n int) {
	if !x.quiet {
		x.Ctx.Observe(table, key, n)
	}
}

func (x *xctx) WantSample() bool { return !x.quiet && x.Ctx.WantSample() }

func (x *xctx) flush() {
	keys := make([]string, 0, len(x.found))
	for k := range x.found {
		keys = append(keys, k)
	}
	sort.Strings(keys)
	for _, k := range keys {
		e := x.found[k]
		for i := 0; i < e.count; i++ {
			x.Ctx.Report(k, e.what, e.witness)
		}
	}
	x.found = map[string]*foundEntry{}
}

func report(c *xctx, cs *Case, field, trans, what string, extra map[string]interface{}) {
	w := map[string]interface{}{"case": cs}
	for k, v := range extra {
		w[k] = v
	}
	key := cs.Dir + " | " + field + " | " + trans
	size := 0
	if b, err := json.Marshal(cs); err == nil {
		size = len(b)
	}
	e := c.found[key]
	if e == nil {
		e = &foundEntry{size: size + 1}
		c.found[key] = e
	}
	if !c.quiet || e.count == 0 {
		e.count++
	}
	if size < e.size {
		e.size, e.what, e.witness = size, cs.Dir+": "+field+" "+trans+": "+what, w
	}
}

func reportDiffs(c *xctx, cs *Case, diffs []diff, extra map[string]interface{}) {
	seen := map[string]bool{}
	for _, d := range diffs {
		k := d.Field + "|" + d.Trans
		if seen[k] {
			continue
		}
		seen[k] = true
		ex := map[string]interface{}{"diff": d}
		for k, v := range extra {
			ex[k] = v
		}
		report(c, cs, d.Field, d.Trans, d.Detail, ex)
	}
}

// ---------------------------------------------------------------------------
// client→wire.

// callClient makes the one public API call the case describes.
//
// paths: the call is made once per path, in order, every time with the SAME
// argument value (a caller may keep a query around and use it for several
// collections): what is sent for a later path must denote the caller's
// request for that path, whatever the earlier calls did with the argument.
func callClient(cl *caldav.Client, cs *Case, paths []string) error {
	z := newZoner(cs.ZoneMode)
	compReq := toCompReq(cs.Req.Prop.Data, z)
	var err error
	if cs.Req.Kind == "calendar-query" {
		q := &caldav.CalendarQuery{CompRequest: compReq, CompFilter: toCompFilter(*cs.Req.Filter, z)}
		for _, p := range paths {
			_, err = cl.QueryCalendar(context.Background(), p, q)
		}
	} else {
		var ps []string
		if len(cs.Paths) > 0 {
			ps = append([]string(nil), cs.Paths...)
		}
		mg := &caldav.CalendarMultiGet{Paths: ps, CompRequest: compReq}
		for _, p := range paths {
			_, err = cl.MultiGetCalendar(context.Background(), p, mg)
		}
	}
	return err
}

// earlierPath is another resource next to p (same spelling class).
func earlierPath(p string) string {
	if strings.HasSuffix(p, "/") {
		return strings.TrimSuffix(p, "/") + "-first/"
	}
	return p + "-first"
}

func execCW(c *xctx, cs *Case) {
	z := newZoner(cs.ZoneMode)
	capt := &doubles.Capture{}
	cl, err := caldav.NewClient(capt, cs.Endpoint)
	if err != nil {
		c.Inconclusive(fmt.Sprintf("C08: caldav.NewClient(%q): %v", cs.Endpoint, err))
		return
	}
	query := cs.Req.Kind == "calendar-query"
	var callErr error
	c.Journal(cs)
	// multigets always, queries one in four: the same argument value is first
	// used for another resource
	paths := []string{cs.Path}
	if !query || len(cs.Path)%4 == 1 {
		paths = []string{earlierPath(cs.Path), cs.Path}
		c.Observe("client→wire: cases", "two successive calls with one argument value", 1)
	}
	panicked, pv, stack := fw.Guard(func() { callErr = callClient(cl, cs, paths) })
	c.JournalDone()
	c.Eval(1)
	nreq := len(capt.Reqs)

	if cs.OOD != "" {
		// Outside the public type's domain: refusing and sending verbatim are
		// both fine. Only a census is kept.
		out := "sent"
		switch {
		case panicked:
			out = "panic"
		case nreq == 0:
			out = "refused"
		}
		c.Observe("client→wire: out-of-domain cases (no verdict)", cs.OOD+" -> "+out, 1)
		return
	}
	c.Distinct(classOf(cs))
	c.Observe("client→wire: cases", cs.Req.Kind+" zone="+strings.SplitN(cs.ZoneMode, ":", 2)[0], 1)
	observeFeatures(c, "client→wire: features of the caller's requests", cs)

	if panicked {
		report(c, cs, "request", "panic in "+fw.PanicSite(stack), fmt.Sprint(pv), map[string]interface{}{"stack": stack})
		return
	}
	if nreq == 0 {
		if !query && len(cs.Paths) == 0 {
			c.Observe("client→wire: wire", "empty Paths refused", 1)
			return
		}
		report(c, cs, "request", "refused", fmt.Sprintf("the client sent nothing: %v", callErr), nil)
		return
	}
	if nreq != len(paths) {
		report(c, cs, "request", "sent more than once", fmt.Sprintf("%d HTTP requests for %d call(s)", nreq, len(paths)), nil)
	}
	for i := 0; i < nreq && i < len(paths); i++ {
		csi := *cs
		csi.Path = paths[i]
		if len(paths) > 1 {
			csi.Seq = fmt.Sprintf("call %d of %d made with one argument value", i+1, len(paths))
		}
		judgeCW(c, &csi, capt.Reqs[i], z, query, callErr)
	}
}

// judgeCW compares one request as sent with the caller's request.
func judgeCW(c *xctx, cs *Case, ex doubles.Exchange, z zoner, query bool, callErr error) {
	wire := map[string]interface{}{"method": ex.Method, "target": ex.Target, "depth": ex.Header.Values("Depth"),
		"content_type": ex.Header.Values("Content-Type"), "body": string(ex.Body)}
	extra := map[string]interface{}{"wire": wire}
	c.Observe("client→wire: wire", "method "+ex.Method, 1)
	c.Observe("client→wire: wire", "Depth "+strings.Join(ex.Header.Values("Depth"), ","), 1)
	c.Observe("client→wire: wire", "Content-Type "+strings.Join(ex.Header.Values("Content-Type"), ","), 1)
	if callErr != nil {
		c.Observe("client→wire: wire", "call returned an error after sending", 1)
	}
	if c.WantSample() && query && cs.Req.Filter != nil && len(cs.Req.Filter.Comps) > 0 && len(ex.Body) < 1500 {
		c.Sample(map[string]interface{}{"case": cs, "wire": wire})
	}

	if ex.Method != "REPORT" {
		report(c, cs, "method", "altered", fmt.Sprintf("want REPORT, got %q", ex.Method), extra)
	}
	if tp, err := davx.HrefPath(ex.Target); err != nil || tp != cs.Path {
		report(c, cs, "request-target", "altered", fmt.Sprintf("want a target denoting %q, got %q (%v)", cs.Path, ex.Target, err), extra)
	}
	if query {
		// The query is about the members of the collection: Depth 1 (or
		// infinity, which covers them); absent means 0 for a REPORT.
		dv := ex.Header.Values("Depth")
		if len(dv) != 1 || (dv[0] != "1" && !strings.EqualFold(dv[0], "infinity")) {
			report(c, cs, "depth", "altered", fmt.Sprintf("want Depth: 1, got %q", dv), extra)
		}
	}
	if mt, params, err := mime.ParseMediaType(ex.Header.Get("Content-Type")); err != nil || (mt != "application/xml" && mt != "text/xml") ||
		(params["charset"] != "" && !strings.EqualFold(params["charset"], "utf-8")) {
		report(c, cs, "content-type", "altered", fmt.Sprintf("want an XML media type in UTF-8, got %q", ex.Header.Get("Content-Type")), extra)
	}

	got, viol, err := rfc4791.Read(ex.Body)
	if err != nil {
		report(c, cs, "document", "unreadable", err.Error(), extra)
		return
	}
	seen := map[string]bool{}
	for _, v := range viol {
		c.Observe("client→wire: grammar violations found by the RFC 4791 reader", v.Where+" | "+v.Rule, 1)
		if seen[v.Where+v.Rule] {
			continue
		}
		seen[v.Where+v.Rule] = true
		report(c, cs, v.Where, "not RFC 4791: "+v.Rule, v.Detail, map[string]interface{}{"wire": wire, "violation": v})
	}
	if got.Kind != cs.Req.Kind {
		report(c, cs, "document", "wrong report element", fmt.Sprintf("want %s, got %s", cs.Req.Kind, got.Kind), extra)
		return
	}

	d := &differ{zoneOff: z.off, ceilOK: func(u int64) bool { return z.nsec(u) != 0 }}
	// Selection.
	wantData := cs.Req.Prop.Data
	if wantData == nil {
		wantData = &rfc4791.CalendarData{}
	}
	if wantData.Comp == nil {
		wantData = &rfc4791.CalendarData{Comp: &rfc4791.Comp{}, Expand: wantData.Expand}
	}
	switch {
	case got.Prop.Form != "prop" || got.Prop.Data == nil:
		if !compIsZero(wantData.Comp) || wantData.Expand != nil {
			d.add("calendar-data", "dropped", "the request carries no calendar-data selection (prop form %q)", got.Prop.Form)
		}
	default:
		gd := got.Prop.Data
		switch {
		case gd.Comp == nil:
			if !compIsZero(wantData.Comp) {
				d.add("calendar-data.comp", "dropped", "want %+v, got no comp element", *wantData.Comp)
			}
		default:
			d.comp(wantData.Comp, gd.Comp)
		}
		d.expand(wantData.Expand, gd.Expand)
	}
	if query {
		if got.Filter == nil {
			d.add("filter.comp-filter", "dropped", "no comp-filter decoded")
		} else {
			d.compFilter(cs.Req.Filter, got.Filter)
		}
	} else {
		want := cs.Paths
		if len(want) == 0 {
			// documented: no Paths = the collection itself
			want = []string{cs.Path}
		}
		gp, err := got.Paths()
		if err != nil {
			d.add("href", "undecodable", "%v", err)
		} else {
			// A relative name may be written with "./" in front (RFC 3986
			// section 4.2: it must be when its first segment holds a colon);
			// both spellings resolve to the same resource.
			want = append([]string(nil), want...)
			for i := range want {
				if i >= len(gp) || strings.HasPrefix(want[i], "/") {
					continue
				}
				want[i] = strings.TrimPrefix(want[i], "./")
				gp[i] = strings.TrimPrefix(gp[i], "./")
				raw := strings.TrimSpace(got.Hrefs[i])
				if j := strings.IndexAny(raw, ":/?#"); j > 0 && raw[j] == ':' && isSchemeName(raw[:j]) {
					d.add("href", "relative name reads as a URI with a scheme", "href %q (for the relative name %q) is a URI of scheme %q, not a relative reference", raw, want[i], raw[:j])
				}
			}
			d.list("href", want, gp)
		}
	}
	reportDiffs(c, cs, d.out, extra)
}

// isSchemeName: ALPHA *( ALPHA / DIGIT / "+" / "-" / "." ) (RFC 3986 section 3.1).
func isSchemeName(s string) bool {
	for i, c := range s {
		switch {
		case c >= 'a' && c <= 'z', c >= 'A' && c <= 'Z':
		case i > 0 && (c >= '0' && c <= '9' || c == '+' || c == '-' || c == '.'):
		default:
			return false
		}
	}
	return s != ""
}

// ---------------------------------------------------------------------------
// wire→backend.

func sameJSON(a, b interface{}) bool {
	x, _ := json.Marshal(a)
	y, _ := json.Marshal(b)
	return bytes.Equal(x, y)
}

func renderDoc(cs *Case, lexSeed int64) []byte {
	var lx *xmltree.Lex
	if lexSeed != 0 {
		lx = xmltree.FullLex(rand.New(rand.NewSource(lexSeed)))
	}
	return xmltree.Render(rfc4791.Tree(&cs.Req), lx)
}

type wbOutcome struct {
	status int
	body   string
	calls  []doubles.Call
}

func postReport(cs *Case, doc []byte) (*wbOutcome, error) {
	be := &doubles.CalBackend{Principal: "/principal/", HomeSet: "/principal/cal/"}
	cl := &doubles.InProc{Handler: &caldav.Handler{Backend: be}}
	req, err := http.NewRequest("REPORT", "http://h"+davx.EscapePath(cs.Path), bytes.NewReader(doc))
	if err != nil {
		return nil, err
	}
	req.Header.Set("Content-Type", cs.CType)
	req.Header.Set("Depth", "1")
	resp, err := cl.Do(req)
	if err != nil {
		return nil, err
	}
	b, _ := ioutil.ReadAll(resp.Body)
	resp.Body.Close()
	return &wbOutcome{status: resp.StatusCode, body: string(b), calls: be.Calls()}, nil
}

func lexFeatures(doc string) []string {
	var l []string
	has := func(name, sub string) {
		if strings.Contains(doc, sub) {
			l = append(l, name)
		}
	}
	has("CDATA section", "<![CDATA[")
	has("comment", "<!--")
	has("default namespace declaration", "xmlns=")
	has("character reference", "&#")
	has("single-quoted attribute", "='")
	has("XML declaration", "<?xml")
	has("empty element as start+end tag", "></")
	has("unused namespace declaration", "urn:example:unused")
	return l
}

func execWB(c *xctx, cs *Case) {
	doc := renderDoc(cs, cs.LexSeed)

	// Soundness guard: the independent reader must find the writer's output
	// conformant and decode it to the same request, and every href must
	// denote the path it was made from; otherwise the harness is wrong.
	back, viol, err := rfc4791.Read(doc)
	if err != nil || len(viol) > 0 || !sameJSON(back, &cs.Req) {
		c.Inconclusive(fmt.Sprintf("C08 harness: rfc4791 writer and reader disagree (err=%v violations=%v) on %s", err, viol, doc))
		return
	}
	if cs.Req.Kind == "calendar-multiget" {
		bp, err := back.Paths()
		if err != nil || !sameJSON(bp, cs.Paths) {
			c.Inconclusive(fmt.Sprintf("C08 harness: hrefs %q do not denote %q (%v)", cs.Req.Hrefs, cs.Paths, err))
			return
		}
	}

	c.Journal(cs)
	var out *wbOutcome
	panicked, pv, stack := fw.Guard(func() { out, err = postReport(cs, doc) })
	c.JournalDone()
	c.Eval(1)
	c.Distinct(classOf(cs))
	extra := map[string]interface{}{"document": string(doc)}
	lexName := "full lexical variation"
	if cs.LexSeed == 0 {
		lexName = "plain rendering"
	}
	c.Observe("wire→backend: cases", cs.Req.Kind+", "+lexName, 1)
	observeFeatures(c, "wire→backend: features of the requests denoted", cs)
	for _, f := range lexFeatures(string(doc)) {
		c.Observe("wire→backend: lexical features of the documents sent", f, 1)
	}
	c.Observe("wire→backend: Content-Type sent", cs.CType, 1)
	if cs.Req.Timezone != nil {
		c.Observe("wire→backend: elements the API cannot express (varied, not compared)", "timezone", 1)
	}
	if d := cs.Req.Prop.Data; d != nil {
		if d.LimitRecurrence != nil {
			c.Observe("wire→backend: elements the API cannot express (varied, not compared)", "limit-recurrence-set", 1)
		}
		if d.LimitFreeBusy != nil {
			c.Observe("wire→backend: elements the API cannot express (varied, not compared)", "limit-freebusy-set", 1)
		}
		if d.ContentType != nil || d.Version != nil {
			c.Observe("wire→backend: elements the API cannot express (varied, not compared)", "calendar-data content-type/version", 1)
		}
	}

	if panicked {
		report(c, cs, "request", "panic in "+fw.PanicSite(stack), fmt.Sprint(pv), map[string]interface{}{"document": string(doc), "stack": stack})
		return
	}
	if err != nil {
		c.Inconclusive(fmt.Sprintf("C08 harness: cannot deliver the request: %v", err))
		return
	}
	c.Observe("wire→backend: response status", fmt.Sprintf("%s %d", cs.Req.Kind, out.status), 1)
	for _, cl := range out.calls {
		c.Observe("wire→backend: backend calls", cl.Op, 1)
	}
	if c.WantSample() && len(doc) < 1200 && len(doc) > 300 {
		c.Sample(map[string]interface{}{"case": cs, "document": string(doc), "status": out.status, "backend_calls": len(out.calls)})
	}
	extra["status"] = out.status
	if out.status != http.StatusMultiStatus {
		extra["response_body"] = out.body
		// Does the same request in the plainest lexical form get through?
		if cs.LexSeed != 0 {
			if o2, err2 := postReport(cs, renderDoc(cs, 0)); err2 == nil {
				extra["status_of_plain_rendering"] = o2.status
			}
		}
		report(c, cs, cs.Req.Kind, fmt.Sprintf("conformant request refused (%d)", out.status), oneLine(out.body), extra)
		return
	}

	d := &differ{}
	wantData := cs.Req.Prop.Data
	checkSel := func(got *caldav.CalendarCompRequest) {
		if wantData == nil {
			return // no calendar-data requested: the statement is silent
		}
		if got == nil {
			got = &caldav.CalendarCompRequest{}
		}
		if wantData.Comp != nil {
			gc := fromComp(got)
			d.comp(wantData.Comp, &gc)
		}
		d.expand(wantData.Expand, fromExpand(got.Expand))
	}

	if cs.Req.Kind == "calendar-query" {
		var qcalls []doubles.Call
		for _, cl := range out.calls {
			if cl.Op == "QueryCalendarObjects" {
				qcalls = append(qcalls, cl)
			}
		}
		if len(qcalls) != 1 {
			report(c, cs, "calendar-query", "not delivered exactly once", fmt.Sprintf("%d QueryCalendarObjects calls", len(qcalls)), extra)
			return
		}
		if qcalls[0].Path != cs.Path {
			d.add("request-target", "altered", "want path %q, backend got %q", cs.Path, qcalls[0].Path)
		}
		q, _ := qcalls[0].Arg.(*caldav.CalendarQuery)
		if q == nil {
			report(c, cs, "calendar-query", "dropped", "backend received a nil query", extra)
			return
		}
		extra["backend_received"] = q
		gf := fromCompFilter(q.CompFilter)
		d.compFilter(cs.Req.Filter, &gf)
		if wantData != nil {
			gc := fromComp(&q.CompRequest)
			wantNonTrivial := !compIsZero(wantData.Comp) || wantData.Expand != nil
			if wantNonTrivial && compIsZero(&gc) && q.CompRequest.Expand == nil {
				// one defect, one key: the whole selection of the query is lost
				d.add("calendar-query.calendar-data", "dropped", "the query's CompRequest is the zero value although the document selects %s", dataClass(wantData))
			} else {
				checkSel(&q.CompRequest)
			}
		}
	} else {
		var gp []string
		var reqs []*caldav.CalendarCompRequest
		for _, cl := range out.calls {
			if cl.Op == "GetCalendarObject" {
				gp = append(gp, cl.Path)
				r, _ := cl.Arg.(*caldav.CalendarCompRequest)
				reqs = append(reqs, r)
			}
		}
		extra["backend_received_paths"] = gp
		if len(reqs) > 0 {
			extra["backend_received_comp_request"] = reqs[0]
		}
		d.list("href", cs.Paths, gp)
		for _, r := range reqs {
			checkSel(r)
		}
	}
	reportDiffs(c, cs, d.out, extra)
}

func oneLine(s string) string {
	s = strings.Join(strings.Fields(s), " ")
	if len(s) > 300 {
		s = s[:300] + "…"
	}
	return s
}

// ---------------------------------------------------------------------------

func exec(c *xctx, cs *Case) {
	if len(cs.Group) > 0 {
		switch cs.Dir {
		case dirCW:
			execOverlapCW(c, cs)
		case dirWB:
			execOverlapWB(c, cs)
		}
		return
	}
	switch cs.Dir {
	case dirCW:
		execCW(c, cs)
	case dirWB:
		execWB(c, cs)
	case dirCB:
		execE2E(c, cs)
	}
}

func run(fc *fw.Ctx) {
	c := newX(fc)
	defer c.flush()
	// Hand-written boundary cases, present in every run. Every shard executes
	// all of them (so that its findings carry a small witness); only the
	// shard a case is dealt to counts it.
	for i, cs := range fixedCases() {
		c.quiet = !fc.Mine(i)
		exec(c, cs)
	}
	c.quiet = false
	n := fc.Pick(20000, 300000)
	for i := 0; i < n; i++ {
		if !fc.Mine(i) {
			continue
		}
		exec(c, genCW(fc.Rand("c08-cw", i)))
	}
	for i := 0; i < n; i++ {
		if !fc.Mine(i) {
			continue
		}
		exec(c, genWB(fc.Rand("c08-wb", i)))
	}
	// client→backend: the whole journey through net/http, with redirects.
	ne := fc.Pick(4000, 50000)
	for i := 0; i < ne; i++ {
		if fc.Mine(i) {
			exec(c, genE2E(fc.Rand("c08-e2e", i)))
		}
	}
	// Overlap families: several requests in flight through one Client / one
	// Handler.
	ncw, nwb := fc.Pick(3000, 40000), fc.Pick(1500, 20000)
	for i := 0; i < ncw; i++ {
		if fc.Mine(i) {
			exec(c, genOverlap(fc.Rand("c08-cw-overlap", i), dirCW))
		}
	}
	for i := 0; i < nwb; i++ {
		if fc.Mine(i) {
			exec(c, genOverlap(fc.Rand("c08-wb-overlap", i), dirWB))
		}
	}
}

func i64(v int64) *int64 { return &v }

// fixedCases are hand-written boundary cases present in every run.
func fixedCases() []*Case {
	var l []*Case
	vcal := func(children ...rfc4791.CompFilter) *rfc4791.CompFilter {
		return &rfc4791.CompFilter{Name: "VCALENDAR", Comps: children}
	}
	full := &rfc4791.CalendarData{Comp: &rfc4791.Comp{Name: "VCALENDAR", Props: []rfc4791.PropSel{{Name: "VERSION"}},
		Comps: []rfc4791.Comp{{Name: "VEVENT", Props: []rfc4791.PropSel{{Name: "SUMMARY"}, {Name: "UID"}}}, {Name: "VTIMEZONE", AllProps: true, AllComps: true}}},
		Expand: &rfc4791.Range{Start: 1136073600, End: 1136160000}}
	filters := []*rfc4791.CompFilter{
		vcal(rfc4791.CompFilter{Name: "VEVENT", Start: i64(1136073600), End: i64(1136160000)}),
		vcal(rfc4791.CompFilter{Name: "VEVENT", Start: i64(1136073600)}),
		vcal(rfc4791.CompFilter{Name: "VEVENT", End: i64(1136160000)}),
		vcal(rfc4791.CompFilter{Name: "VTODO", IsNotDefined: true}),
		vcal(rfc4791.CompFilter{Name: "VEVENT", Props: []rfc4791.PropFilter{{Name: "ATTENDEE", IsNotDefined: true}}}),
		vcal(rfc4791.CompFilter{Name: "VEVENT", Props: []rfc4791.PropFilter{{Name: "ATTENDEE", Params: []rfc4791.ParamFilter{{Name: "PARTSTAT", IsNotDefined: true}}}}}),
		vcal(rfc4791.CompFilter{Name: "VEVENT", Props: []rfc4791.PropFilter{{Name: "SUMMARY", Text: &rfc4791.TextMatch{Text: "  a <b> & \"c\" 'd' é  ", Negate: true}}}}),
		vcal(rfc4791.CompFilter{Name: "VEVENT", Props: []rfc4791.PropFilter{{Name: "ATTENDEE", Text: &rfc4791.TextMatch{Text: "mailto:x@example.com"},
			Params: []rfc4791.ParamFilter{{Name: "PARTSTAT", Text: &rfc4791.TextMatch{Text: "NEEDS-ACTION", Negate: true}}}}}}),
		vcal(rfc4791.CompFilter{Name: "VTODO", Props: []rfc4791.PropFilter{{Name: "COMPLETED", Start: i64(1136073600), End: i64(1136160000)}}}),
		vcal(rfc4791.CompFilter{Name: "VEVENT", Comps: []rfc4791.CompFilter{{Name: "VALARM", Start: i64(1136073600), End: i64(1136160000), Comps: []rfc4791.CompFilter{{Name: "X-DEEP"}}}}}),
	}
	for _, zm := range []string{"utc", "fixed:50400", "fixed:-50400", "fixed:20700"} {
		for _, f := range filters {
			l = append(l, &Case{Dir: dirCW, Endpoint: "http://h/", Path: "/cal/work/", ZoneMode: zm,
				Req: rfc4791.Request{Kind: "calendar-query", Prop: rfc4791.PropReq{Form: "prop", Data: full}, Filter: f}})
		}
		l = append(l, &Case{Dir: dirCW, Endpoint: "http://h/", Path: "/cal/work/", ZoneMode: zm, Paths: []string{"/cal/work/a b.ics", "/cal/work/100%.ics", "/cal/work/é#?.ics"},
			Req: rfc4791.Request{Kind: "calendar-multiget", Prop: rfc4791.PropReq{Form: "prop", Data: full}}})
	}
	l = append(l, &Case{Dir: dirCW, Endpoint: "http://h/", Path: "/cal/work/", ZoneMode: "utc",
		Req: rfc4791.Request{Kind: "calendar-multiget", Prop: rfc4791.PropReq{Form: "prop", Data: &rfc4791.CalendarData{Comp: &rfc4791.Comp{}}}}})
	for _, seed := range []int64{0, 1, 2, 3} {
		for _, f := range filters {
			l = append(l, &Case{Dir: dirWB, Path: "/cal/work/", LexSeed: seed, CType: "application/xml",
				Req: rfc4791.Request{Kind: "calendar-query", Prop: rfc4791.PropReq{Form: "prop", Data: full, Others: []rfc4791.PropName{{Space: "DAV:", Local: "getetag"}}, DataAt: 1}, Filter: f}})
		}
		l = append(l, &Case{Dir: dirWB, Path: "/cal/work/", LexSeed: seed, CType: "text/xml", Paths: []string{"/cal/work/a b.ics", "/cal/work/100%.ics", "/cal/work/é#?.ics"},
			Req: rfc4791.Request{Kind: "calendar-multiget", Prop: rfc4791.PropReq{Form: "prop", Data: full, Others: []rfc4791.PropName{{Space: "DAV:", Local: "getetag"}}},
				Hrefs: []string{"/cal/work/a%20b.ics", "http://h/cal/work/100%25.ics", "/cal/work/%C3%A9%23%3F.ics"}}})
	}
	return l
}

func init() {
	fw.Register(&fw.Property{
		ID:  "C08",
		Run: run,
		Replay: func(c *fw.Ctx, w json.RawMessage) {
			var wit struct {
				Case *Case `json:"case"`
			}
			if json.Unmarshal(w, &wit) == nil && wit.Case != nil {
				x := newX(c)
				// An overlap witness may depend on process history (warm
				// pools, scheduling): give it a few attempts.
				tries := 1
				if len(wit.Case.Group) > 0 {
					tries = 8
				}
				for i := 0; i < tries && len(x.found) == 0; i++ {
					exec(x, wit.Case)
				}
				x.flush()
			}
		},
		Rule: "client→backend family: generated CalendarQuery / CalendarMultiGet values are given to the real caldav.Client over a real net/http *http.Client (in-process round tripper, or a real http.Transport and http.Server joined by net.Pipe); " +
			"the addressed URL answers directly or with one or two 307/308 redirects (Location as absolute path or absolute URL) before the request arrives at the real caldav.Handler in front of a recording backend; " +
			"the backend must receive the caller's request (query filter and selection field by field, multiget paths in order with the selection), and a request that arrives when asked directly must also arrive across the redirects. " +
			"multiget href lists: 0..20 mostly, 99..513 in 1/25 and 999..10001 in 1/120 of the multigets of every family. " +
			"overlap families: K=2..8 different requests in flight together at GOMAXPROCS 1/2/4/8 - client→wire: K goroutines call QueryCalendar/MultiGetCalendar on ONE caldav.Client whose HTTP client parks every request " +
			"until all K have been built, then reads the bodies in a seeded order; each body (attributed by its unique request target) must decode to the same request as the body the same call sends alone; " +
			"wire→backend: K REPORTs served concurrently by ONE caldav.Handler whose backend parks the first call of each request until all K are inside, and each request must deliver what it delivers alone. " +
			"client→wire: generated CalendarQuery / CalendarMultiGet values (filter trees of depth <= 4 and fan-out <= 3, every flag, names/texts with blanks, XML metacharacters and non-ASCII, " +
			"instants in UTC and in fixed zones of -14h..+14h with and without sub-second parts, open starts/ends, expansion ranges, component/property selections, hrefs with hostile names) are given to the real " +
			"caldav.Client over a capturing HTTP client; the captured REPORT body is read by the independent RFC 4791 reader (namespaces, names, DTD child order, value grammars) and the decoded request is compared " +
			"field by field with the caller's. wire→backend: the independent RFC 4791 writer renders a neutral request in a random lexical form (prefixes, default namespaces, attribute order, white space, comments, " +
			"CDATA, character references, empty-element forms); it is sent as REPORT to the real caldav.Handler in front of a recording backend whose received CalendarQuery / paths / CalendarCompRequest are " +
			"compared field by field with the neutral request. distinct_nontrivial counts abstract case classes (direction, report kind, selection shape, zone mode, filter depth/fan-out, which of " +
			"is-not-defined@comp/prop/param, time-range both/open-end/open-start, text-match, negate, param-filter, hostile strings are present; href-count bucket).",
		Assumptions: []string{
			"verdicts only for values inside the public type's domain: IsNotDefined together with children/time-range/text-match, time-range together with text-match on one prop-filter, AllProps with Props, AllComps with Comps, end<=start are executed and counted but not judged",
			"a caller instant is compared as UTC seconds; when it has a sub-second part both truncation and rounding up are accepted; the zero time.Time means an open bound (attribute absent)",
			"strings are valid UTF-8 made of characters XML 1.0 can carry; paths are absolute, without '.'/'..' segments and without a leading '//'",
			"CalendarMultiGet with empty Paths: sending the collection path as the only href (documented) or refusing are both accepted",
			"calendar-multiget Depth header and the extra DAV properties the client asks for (getetag, getlastmodified) are not judged",
			"wire→backend: when the document requests no calendar-data, or a calendar-data without comp, the backend's CalendarCompRequest comp fields are not compared (semantics 'everything'); timezone, limit-recurrence-set, limit-freebusy-set, collation, novalue, content-type/version are varied on the wire but not compared",
			"overlap families: nothing in the statement restricts a Client or Handler to one request at a time; the barrier opens when every member is parked or has returned (no wall-clock); the solo run of the same call is the reference, and is itself judged by the ordinary oracle",
			"client→backend: only 307 and 308 are used (net/http itself turns a REPORT into a GET on 301/302/303); object names are absolute; the response the client makes of the server's answer is not judged here (C10); the zero selection's reading by the server is not compared",
			"the client endpoint varies (with and without a base path, trailing slash, user information); collection paths are absolute, so the request target is the collection path whatever the endpoint; how a relative collection path is resolved against the endpoint is not judged (the statement is silent)",
			"the writer's output is cross-checked by the reader before every wire→backend case (disagreement = inconclusive, never a finding)",
		},
		MinEvals:    func(t string) int64 { return 8000 },
		MinDistinct: func(t string) int64 { return 500 },
	})
}

// Package c01: the WebDAV file server behaves like the RFC 4918 resource-tree
// model (exhaustive single-step universe + random lock-step histories).
package c01

import (
	"encoding/json"

	"github.com/emersion/go-webdav/verifharness/fw"
	"github.com/emersion/go-webdav/verifharness/model/davtree"
	"github.com/emersion/go-webdav/verifharness/props/fsx"
)

func run(c *fw.Ctx) {
	m := fsx.Monitors{Model: true}
	fsx.Explore(c, m)
	fsx.Containment(c, m)
	fsx.Histories(c, m, c.Pick(96, 4000), c.Pick(80, 200))
}

type witness struct {
	Tree    string      `json:"tree"`
	Request davtree.Req `json:"request"`
}

func init() {
	fw.Register(&fw.Property{
		ID:  "C01",
		Run: run,
		Replay: func(c *fw.Ctx, w json.RawMessage) {
			fsx.ReplayWitness(c, fsx.Monitors{Model: true}, w)
		},
		Rule: "exhaustive: all 361 trees over names {a,b}, depth<=2, contents {c1,c2} plus 24 trees reaching depth 3-4 along /a/b/a x every single request over 8 paths (every method; COPY/MOVE over source x destination x Depth x Overwrite x Destination form; quick uses a reduced Depth x Overwrite product, thorough the full one), each on a freshly materialised directory with a snapshot before and after; plus entity-tag/media-type probes (GET/HEAD/PROPFIND/PUT four-way) on every stored file and after every successful PUT; plus seeded random lock-step histories over hostile names, depth<=4, contents up to 256 KiB. " +
			"distinct_nontrivial counts distinct (method, abstract tree/request class, model expectation) keys whose request changes the model tree or is refused for a tree-dependent reason.",
		Assumptions: []string{
			"mutations involving the root '/', PROPPATCH/LOCK, trailing slash on a file path, Destination on a foreign host and Range requests are outside the model's universe (statement silent)",
			"when several refusal reasons apply any of their codes is accepted; COPY into the source's own descendant may be refused (4xx) or carried out with the pre-request source; destination an ancestor of the source: any 4xx",
			"the directory is private to the worker (no concurrent modification); tmpfs and disk-backed file systems behave alike for these calls",
		},
		MinEvals:    func(t string) int64 { return 100000 },
		MinDistinct: func(t string) int64 { return 150 },
	})
}

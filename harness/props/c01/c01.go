// Package c01: the WebDAV file server behaves like the RFC 4918 resource-tree
// model (exhaustive single-step universe + random lock-step histories).
package c01

import (
	"encoding/json"

	"github.com/emersion/go-webdav/verifharness/fw"
	"github.com/emersion/go-webdav/verifharness/model/davtree"
	"github.com/emersion/go-webdav/verifharness/props/fsx"
)

func run(c *fw.Ctx) {
	m := fsx.Monitors{Model: true}
	fsx.Explore(c, m)
	fsx.Containment(c, m)
	fsx.Histories(c, m, c.Pick(96, 4000), c.Pick(80, 200))
	fsx.StagingNames(c, m)
	fsx.WideCollections(c, m)
}

type witness struct {
	Tree    string      `json:"tree"`
	Request davtree.Req `json:"request"`
}

func init() {
	fw.Register(&fw.Property{
		ID:  "C01",
		Run: run,
		Replay: func(c *fw.Ctx, w json.RawMessage) {
			fsx.ReplayWitness(c, fsx.Monitors{Model: true}, w)
		},
		Rule: "exhaustive: all 361 trees over names {a,b}, depth<=2, contents {c1,c2} plus 24 trees reaching depth 3-4 along /a/b/a x every single request over 8 paths (every method; COPY/MOVE over source x destination x Depth x Overwrite x Destination form; quick uses a reduced Depth x Overwrite product, thorough the full one), each on a freshly materialised directory with a snapshot before and after; plus entity-tag/media-type probes (GET/HEAD/PROPFIND/PUT four-way) on every stored file and after every successful PUT; plus seeded random lock-step histories over hostile names, depth<=4, contents up to 256 KiB. " +
			"Stored modification times are a dimension of every pre-state (the epoch, one second and half a second either side of it, 2^31-1, 2^31, -2^31, 1980, 2100, sub-second fractions, now), and GET/HEAD Last-Modified and PROPFIND getlastmodified are compared with what is stored; PROPFIND is also sent with the XML forms of allprop/propname and with <prop> requests over live, unknown, foreign-namespace and near-miss-namespace names (every name asked for is answered, nothing else is, nothing outside DAV: is reported as stored); collections are also addressed with a trailing slash (OPTIONS/GET/HEAD/PROPFIND/COPY/MOVE sources); Depth/Overwrite values outside the grammar in several spellings; a slice whose collections hold members named like the server's own staging entries (process number and counter learnt by looking into the collection during an upload); a slice with a collection of 1500 files and 50 collections. " +
			"distinct_nontrivial counts distinct (method, abstract tree/request class, model expectation) keys whose request changes the model tree or is refused for a tree-dependent reason.",
		Assumptions: []string{
			"mutations involving the root '/', PROPPATCH/LOCK, trailing slash on a file path, PUT to a name spelt with a trailing slash, Destination on a foreign host, Range requests and requests carrying header fields the model has no rule for (Content-MD5, If-Unmodified-Since, the If header...) are outside the model's universe (statement silent)",
			"PROPFIND <prop>: DAV: names other than resourcetype/getcontentlength/getlastmodified/getetag may be answered under any status; for collections only resourcetype is required under 200; a name asked for twice may be answered once or twice",
			"when several refusal reasons apply any of their codes is accepted; COPY into the source's own descendant may be refused (4xx) or carried out with the pre-request source; destination an ancestor of the source: any 4xx",
			"the directory is private to the worker (no concurrent modification); tmpfs and disk-backed file systems behave alike for these calls",
		},
		MinEvals:    func(t string) int64 { return 100000 },
		MinDistinct: func(t string) int64 { return 150 },
	})
}

package c19

import (
	"encoding/json"
	"fmt"
	"math"
	"strings"

	"github.com/emersion/go-ical"
	"github.com/emersion/go-webdav/caldav"
	"github.com/emersion/go-webdav/verifharness/fw"
)

// C19 — ValidateCalendarObject vs. an independent reference.

type c19Comp struct {
	Type string `json:"type"`
	UID  string `json:"uid"` // "" = component carries no UID
	// RawUID: UID is the raw property value, written without escaping (used
	// for values that are not valid TEXT: a lone trailing backslash, an
	// unknown escape); Binary adds VALUE=BINARY to the property.
	RawUID bool `json:"raw_uid,omitempty"`
	Binary bool `json:"binary,omitempty"`
	// Spelled: UID is a raw property value that IS valid TEXT (RFC 5545
	// 3.3.11); the UID it denotes is its unescaped form. Two spellings of one
	// value ("\n" and "\N" both stand for a line break) are the same UID.
	Spelled bool `json:"spelled,omitempty"`
	// UID2: a second UID property with ANOTHER value in the same component.
	// Which of the two the component "carries" is not said by the statement:
	// accept/reject is left open (like a malformed UID).
	UID2 string `json:"uid2,omitempty"`
}

// c19Fill stands for N copies of Comp placed before Comps[At] (a compact
// spelling of calendars with very many components).
type c19Fill struct {
	N    int     `json:"n"`
	Comp c19Comp `json:"comp"`
	At   int     `json:"at"`
}

// c19Unescape is the TEXT unescaping of RFC 5545 3.3.11 for values that use
// the four defined escapes only.
func c19Unescape(raw string) string {
	var sb strings.Builder
	for i := 0; i < len(raw); i++ {
		if raw[i] == '\\' && i+1 < len(raw) {
			i++
			switch raw[i] {
			case 'n', 'N':
				sb.WriteByte('\n')
			default:
				sb.WriteByte(raw[i])
			}
			continue
		}
		sb.WriteByte(raw[i])
	}
	return sb.String()
}

// uidOf is the UID a component denotes ("" = none).
func (c c19Comp) uidOf() string {
	if c.Spelled {
		return c19Unescape(c.UID)
	}
	return c.UID
}

type c19Case struct {
	Method bool `json:"method"`
	// MethodVal is the raw value of the METHOD property ("" with Method set is
	// a METHOD property without a value).
	MethodVal string    `json:"method_val,omitempty"`
	Comps     []c19Comp `json:"comps"`
	// ViaText: the calendar is written as iCalendar text and parsed by
	// go-ical before validation (instead of being built in memory).
	ViaText bool `json:"via_text,omitempty"`
	// Extras: content the rule does not look at and that therefore must not
	// change the verdict: "tzid-match" / "tzid-other" (every non-VTIMEZONE
	// component has DTSTART;TZID=Europe/Paris, the TZID of the VTIMEZONEs
	// here, resp. a TZID no VTIMEZONE defines), "valarm" (a VALARM without UID
	// nested in every VEVENT/VTODO), "x-method" (a calendar property
	// X-METHOD, which is not METHOD), "props" (SUMMARY, RRULE, ATTENDEE ...).
	//
	// Nested components are not components of the calendar ("all of its
	// components other than VTIMEZONE are of one single type" would otherwise
	// refuse every VEVENT with a VALARM and every VTIMEZONE with a STANDARD
	// part), so what they carry plays no part either: "nested-uid-same" (every
	// component holds a sub-component - VALARM in VEVENT/VTODO, DAYLIGHT in
	// VTIMEZONE, X-SUB elsewhere - whose UID is the parent's, or u1),
	// "nested-uid-other" (the sub-component has a UID of its own, as RFC 9074
	// gives to VALARM, and holds a further sub-component with yet another UID).
	//
	// go-ical keeps properties in a map from name to a list of values; a name
	// whose list is empty is a property the calendar does not have (Props.Get,
	// Props.Values and the encoder all say so): "nil-entries" (every component
	// and the calendar get a nil list for UID resp. METHOD where they have no
	// such property, and for X-GONE), "emptied-entries" (the same, the list
	// being one that was filled and then filtered down to nothing in place).
	//
	// "doubled" (every UID property, and METHOD, stands twice with the same
	// value), "uid-params" (UID properties carry X-P=1 / LANGUAGE=en /
	// VALUE=TEXT, none of which changes the value), "lower-case-names"
	// (text path only: property and component names in lower case).
	Extras []string `json:"extras,omitempty"`
	// Fill: see c19Fill.
	Fill *c19Fill `json:"fill,omitempty"`
}

// all is the sequence of components of the calendar, Fill expanded.
func (cs c19Case) all() []c19Comp {
	if cs.Fill == nil || cs.Fill.N <= 0 {
		return cs.Comps
	}
	at := cs.Fill.At
	if at < 0 {
		at = 0
	}
	if at > len(cs.Comps) {
		at = len(cs.Comps)
	}
	out := make([]c19Comp, 0, len(cs.Comps)+cs.Fill.N)
	out = append(out, cs.Comps[:at]...)
	for i := 0; i < cs.Fill.N; i++ {
		out = append(out, cs.Fill.Comp)
	}
	return append(out, cs.Comps[at:]...)
}

func (cs c19Case) has(x string) bool {
	for _, e := range cs.Extras {
		if e == x {
			return true
		}
	}
	return false
}

var c19Types = []string{"VEVENT", "VTODO", "VJOURNAL", "VFREEBUSY", "VTIMEZONE"}

// c19Model is the reference: accept, type, uid, and whether the accept
// decision is left open by the statement (no non-VTIMEZONE component at all).
func c19Model(cs c19Case) (accept bool, typ, uid string, open bool) {
	if cs.Method {
		return false, "", "", false
	}
	comps := cs.all()
	types := map[string]bool{}
	uids := map[string]bool{}
	if c19HasBadUID(cs) {
		// a UID that is not valid TEXT, or two different UIDs in one
		// component: outside the statement's domain for accept/reject (only
		// "rejection returns empty results" is checked)
		return true, "", "", true
	}
	for _, c := range comps {
		if c.Type != "VTIMEZONE" {
			types[c.Type] = true
			typ = c.Type
		}
		if u := c.uidOf(); u != "" {
			uids[u] = true
			uid = u
		}
	}
	if len(types) > 1 || len(uids) > 1 {
		return false, "", "", false
	}
	if len(types) == 0 {
		// "all components other than VTIMEZONE are of one single type" is
		// vacuous; the statement does not say which type is returned.
		return true, "", uid, true
	}
	return true, typ, uid, false
}

// c19Sub is a nested component of the case's extras.
type c19Sub struct {
	name, uid string
	inner     *c19Sub
}

func c19Plain(u string) bool {
	return u != "" && !strings.ContainsAny(u, ",;\\\r\n\t ")
}

// c19Subs lists the nested components component i (c) gets from the extras
// of the case, apart from the UID-less VALARM of "valarm".
func c19Subs(cs c19Case, i int, c c19Comp) []c19Sub {
	name := "X-SUB"
	switch c.Type {
	case "VEVENT", "VTODO":
		name = "VALARM"
	case "VTIMEZONE":
		name = "DAYLIGHT"
	}
	var subs []c19Sub
	if cs.has("nested-uid-same") {
		u := "u1"
		if !c.RawUID && !c.Binary && !c.Spelled && c19Plain(c.UID) {
			u = c.UID
		}
		subs = append(subs, c19Sub{name: name, uid: u})
	}
	if cs.has("nested-uid-other") {
		subs = append(subs, c19Sub{name: name, uid: fmt.Sprintf("sub-%d@nested", i), inner: &c19Sub{name: "X-INNER", uid: fmt.Sprintf("inner-%d@nested", i)}})
	}
	return subs
}

var c19UIDParams = [][2]string{{"X-P", "1"}, {"LANGUAGE", "en"}, {"VALUE", "TEXT"}}

func c19LowerNames(text string) string {
	lines := strings.Split(text, "\r\n")
	for i, l := range lines {
		j := strings.IndexAny(l, ";:")
		if j < 0 {
			continue
		}
		name := strings.ToLower(l[:j])
		if name == "begin" || name == "end" {
			lines[i] = strings.ToLower(l)
		} else {
			lines[i] = name + l[j:]
		}
	}
	return strings.Join(lines, "\r\n")
}

func c19Text(cs c19Case) string {
	var sb strings.Builder
	times := 1
	if cs.has("doubled") {
		times = 2
	}
	sb.WriteString("BEGIN:VCALENDAR\r\nVERSION:2.0\r\nPRODID:-//verif//EN\r\n")
	if cs.Method {
		for k := 0; k < times; k++ {
			sb.WriteString("METHOD:" + cs.MethodVal + "\r\n")
		}
	}
	if cs.has("x-method") {
		sb.WriteString("X-METHOD:PUBLISH\r\nCALSCALE:GREGORIAN\r\nX-WR-CALNAME:METHOD\r\n")
	}
	var writeSub func(s c19Sub)
	writeSub = func(s c19Sub) {
		sb.WriteString("BEGIN:" + s.name + "\r\nUID:" + s.uid + "\r\n")
		switch s.name {
		case "VALARM":
			sb.WriteString("ACTION:DISPLAY\r\nTRIGGER:-PT5M\r\nDESCRIPTION:x\r\n")
		case "DAYLIGHT":
			sb.WriteString("DTSTART:19700329T020000\r\nTZOFFSETFROM:+0100\r\nTZOFFSETTO:+0200\r\n")
		}
		if s.inner != nil {
			writeSub(*s.inner)
		}
		sb.WriteString("END:" + s.name + "\r\n")
	}
	for i, c := range cs.all() {
		sb.WriteString("BEGIN:" + c.Type + "\r\n")
		if c.UID != "" || c.RawUID {
			// (a Spelled UID is written as it is spelled, like a raw one)
			par := ""
			if c.Binary {
				par = ";VALUE=BINARY"
			} else if cs.has("uid-params") {
				p := c19UIDParams[i%len(c19UIDParams)]
				par = ";" + p[0] + "=" + p[1]
			}
			for k := 0; k < times; k++ {
				sb.WriteString("UID" + par + ":" + c.UID + "\r\n")
			}
		}
		if c.UID2 != "" {
			sb.WriteString("UID:" + c.UID2 + "\r\n")
		}
		if c.Type == "VTIMEZONE" {
			sb.WriteString("TZID:Europe/Paris\r\nBEGIN:STANDARD\r\nDTSTART:19701025T030000\r\nTZOFFSETFROM:+0200\r\nTZOFFSETTO:+0100\r\nEND:STANDARD\r\n")
		} else {
			sb.WriteString("DTSTAMP:20200101T000000Z\r\n")
			if cs.has("tzid-match") {
				sb.WriteString("DTSTART;TZID=Europe/Paris:20200101T100000\r\n")
			}
			if cs.has("tzid-other") {
				sb.WriteString("DTSTART;TZID=America/Nowhere:20200101T100000\r\nDUE;TZID=\"Mars/Olympus Mons\":20200102T100000\r\n")
			}
			if cs.has("props") {
				sb.WriteString("SUMMARY:method uid\\, vtimezone\r\nRRULE:FREQ=DAILY;COUNT=3\r\nATTENDEE;CN=UID:mailto:uid@example.com\r\nX-UID:other\r\nRELATED-TO:u2\r\n")
			}
			if cs.has("valarm") && (c.Type == "VEVENT" || c.Type == "VTODO") {
				sb.WriteString("BEGIN:VALARM\r\nACTION:DISPLAY\r\nTRIGGER:-PT5M\r\nDESCRIPTION:x\r\nEND:VALARM\r\n")
			}
		}
		for _, s := range c19Subs(cs, i, c) {
			writeSub(s)
		}
		sb.WriteString("END:" + c.Type + "\r\n")
	}
	sb.WriteString("END:VCALENDAR\r\n")
	if cs.has("lower-case-names") {
		return c19LowerNames(sb.String())
	}
	return sb.String()
}

func c19Build(cs c19Case) (*ical.Calendar, error) {
	if cs.ViaText {
		cal, err := ical.NewDecoder(strings.NewReader(c19Text(cs))).Decode()
		if err != nil {
			return nil, err
		}
		c19Post(cal, cs)
		return cal, nil
	}
	times := 1
	if cs.has("doubled") {
		times = 2
	}
	cal := ical.NewCalendar()
	cal.Props.SetText(ical.PropVersion, "2.0")
	cal.Props.SetText(ical.PropProductID, "-//verif//EN")
	if cs.has("x-method") {
		cal.Props.SetText("X-METHOD", "PUBLISH")
		cal.Props.SetText(ical.PropCalendarScale, "GREGORIAN")
		cal.Props.SetText("X-WR-CALNAME", "METHOD")
	}
	if cs.Method {
		mp := ical.NewProp(ical.PropMethod)
		mp.Value = cs.MethodVal
		for k := 0; k < times; k++ {
			cal.Props.Add(mp)
		}
	}
	var mkSub func(s c19Sub) *ical.Component
	mkSub = func(s c19Sub) *ical.Component {
		sub := ical.NewComponent(s.name)
		sub.Props.SetText(ical.PropUID, s.uid)
		if s.name == "VALARM" {
			sub.Props.SetText(ical.PropAction, "DISPLAY")
			sub.Props.SetText(ical.PropDescription, "x")
		}
		if s.inner != nil {
			sub.Children = append(sub.Children, mkSub(*s.inner))
		}
		return sub
	}
	for i, c := range cs.all() {
		comp := ical.NewComponent(c.Type)
		if c.UID != "" || c.RawUID {
			up := ical.NewProp(ical.PropUID)
			if c.RawUID || c.Binary || c.Spelled {
				up.Value = c.UID
			} else {
				up.SetText(c.UID)
			}
			if c.Binary {
				up.Params.Set(ical.ParamValue, "BINARY")
			} else if cs.has("uid-params") {
				p := c19UIDParams[i%len(c19UIDParams)]
				up.Params.Set(p[0], p[1])
			}
			for k := 0; k < times; k++ {
				comp.Props.Add(up)
			}
		}
		if c.UID2 != "" {
			up := ical.NewProp(ical.PropUID)
			up.SetText(c.UID2)
			comp.Props.Add(up)
		}
		if c.Type == "VTIMEZONE" {
			comp.Props.SetText(ical.PropTimezoneID, "Europe/Paris")
		} else {
			tzProp := func(name, tzid, v string) {
				p := ical.NewProp(name)
				p.Params.Set(ical.ParamTimezoneID, tzid)
				p.Value = v
				comp.Props.Add(p)
			}
			if cs.has("tzid-match") {
				tzProp(ical.PropDateTimeStart, "Europe/Paris", "20200101T100000")
			}
			if cs.has("tzid-other") {
				tzProp(ical.PropDateTimeStart, "America/Nowhere", "20200101T100000")
				tzProp(ical.PropDue, "Mars/Olympus Mons", "20200102T100000")
			}
			if cs.has("props") {
				comp.Props.SetText(ical.PropSummary, "method uid, vtimezone")
				rr := ical.NewProp(ical.PropRecurrenceRule)
				rr.Value = "FREQ=DAILY;COUNT=3"
				comp.Props.Set(rr)
				comp.Props.SetText("X-UID", "other")
				comp.Props.SetText(ical.PropRelatedTo, "u2")
			}
			if cs.has("valarm") && (c.Type == "VEVENT" || c.Type == "VTODO") {
				al := ical.NewComponent(ical.CompAlarm)
				al.Props.SetText(ical.PropAction, "DISPLAY")
				al.Props.SetText(ical.PropDescription, "x")
				comp.Children = append(comp.Children, al)
			}
		}
		for _, s := range c19Subs(cs, i, c) {
			comp.Children = append(comp.Children, mkSub(s))
		}
		cal.Children = append(cal.Children, comp)
	}
	c19Post(cal, cs)
	return cal, nil
}

// c19Post gives the calendar, however it was built, the empty map entries of
// "nil-entries" / "emptied-entries": a name a component has no property of
// (UID; METHOD on the calendar; X-GONE everywhere) gets a list of no values.
func c19Post(cal *ical.Calendar, cs c19Case) {
	nilE, emptied := cs.has("nil-entries"), cs.has("emptied-entries")
	if !nilE && !emptied {
		return
	}
	blank := func(props ical.Props, name string) {
		if _, ok := props[name]; ok {
			return
		}
		if emptied {
			// what an application leaves behind that drops the values of a
			// property it does not want by filtering the list in place
			p := ical.NewProp(name)
			p.Value = "REQUEST"
			props.Add(p)
			kept := props[name][:0]
			props[name] = kept
		} else {
			props[name] = nil
		}
	}
	blank(cal.Props, ical.PropMethod)
	blank(cal.Props, "X-GONE")
	var walk func(comp *ical.Component)
	walk = func(comp *ical.Component) {
		blank(comp.Props, ical.PropUID)
		blank(comp.Props, "X-GONE")
		for _, ch := range comp.Children {
			walk(ch)
		}
	}
	for _, ch := range cal.Children {
		walk(ch)
	}
}

// c19Family names the part of the case that the rule does not look at, for
// finding keys ("" for a plain calendar).
func c19Family(cs c19Case) string {
	f := ""
	if cs.has("nested-uid-same") || cs.has("nested-uid-other") {
		f += "|nested-uid"
	}
	if cs.has("nil-entries") || cs.has("emptied-entries") {
		f += "|empty-map-entries"
	}
	return f
}

func c19Class(cs c19Case) string {
	comps := cs.all()
	types := map[string]bool{}
	uids := map[string]bool{}
	for _, c := range comps {
		if c.Type != "VTIMEZONE" {
			types[c.Type] = true
		}
		if u := c.uidOf(); u != "" {
			uids[u] = true
		}
	}
	cap2 := func(n int) int {
		if n > 2 {
			return 2
		}
		return n
	}
	firstTZ, firstNoUID := false, false
	if len(comps) > 0 {
		firstTZ = comps[0].Type == "VTIMEZONE"
		firstNoUID = comps[0].UID == ""
	}
	// length: exact up to 6, then by order of magnitude
	n := fmt.Sprint(len(comps))
	switch {
	case len(comps) >= 100000:
		n = "1e5+"
	case len(comps) >= 10000:
		n = "1e4+"
	case len(comps) >= 1000:
		n = "1e3+"
	case len(comps) >= 100:
		n = "1e2+"
	case len(comps) > 6:
		n = "7"
	}
	mcls := fmt.Sprint(cs.Method)
	if cs.Method && cs.MethodVal != "PUBLISH" {
		mcls = "other-value"
		if strings.TrimLeft(cs.MethodVal, " ,") != cs.MethodVal || cs.MethodVal == "" {
			mcls = "empty-first-value"
		}
	}
	if c19HasBadUID(cs) {
		mcls += "+malformed-uid"
	}
	return fmt.Sprintf("m=%v|types=%d|uids=%d|firstTZ=%v|firstNoUID=%v|n=%s|text=%v",
		mcls, cap2(len(types)), cap2(len(uids)), firstTZ, firstNoUID, n, cs.ViaText)
}

func c19Exec(c *fw.Ctx, cs c19Case) {
	cal, err := c19Build(cs)
	if err != nil {
		c.Inconclusive(fmt.Sprintf("C19: cannot build calendar: %v", err))
		return
	}
	var typ, uid string
	var verr error
	panicked, pv, stack := fw.Guard(func() { typ, uid, verr = caldav.ValidateCalendarObject(cal) })
	c.Eval(1)
	cls := c19Class(cs)
	c.Distinct(cls)
	for _, e := range cs.Extras {
		c.Observe("extras", e, 1)
	}
	cls += c19Family(cs)
	if c.WantSample() && len(cs.Comps) >= 2 {
		c.Sample(map[string]interface{}{"case": cs, "type": typ, "uid": uid, "err": fw.ErrString(verr)})
	}
	if panicked {
		c.Report("panic|"+fw.PanicSite(stack), fmt.Sprintf("ValidateCalendarObject panicked: %v", pv), cs)
		return
	}
	accept, mtyp, muid, open := c19Model(cs)
	got := verr == nil
	if got {
		c.Observe("verdict", "accepted", 1)
	} else {
		c.Observe("verdict", "rejected", 1)
	}
	switch {
	case !got && (typ != "" || uid != ""):
		c.Report("reject-with-nonempty-results", fmt.Sprintf("rejected (%v) but returned type=%q uid=%q", verr, typ, uid), cs)
	case open && c19HasBadUID(cs):
		// only the rejection invariant above applies
	case open:
		if got && uid != muid {
			c.Report("accept-wrong-uid|no-typed-component"+c19Family(cs), fmt.Sprintf("accepted with uid=%q, want %q", uid, muid), cs)
		}
	case accept && !got:
		c.Report("rejects-valid|"+cls, fmt.Sprintf("valid object rejected: %v", verr), cs)
	case !accept && got:
		c.Report("accepts-invalid|"+cls, fmt.Sprintf("invalid object accepted (type=%q uid=%q)", typ, uid), cs)
	case accept && (typ != mtyp || uid != muid):
		c.Report("wrong-result|"+cls, fmt.Sprintf("accepted with type=%q uid=%q, want type=%q uid=%q", typ, uid, mtyp, muid), cs)
	}
}

// c19Revalidate calls ValidateCalendarObject twice on ONE calendar value that
// is edited in place between the calls; both verdicts are compared with the
// model of the calendar at the time of the call.
func c19Revalidate(c *fw.Ctx, idx *int) {
	type edit struct {
		name string
		do   func(cal *ical.Calendar, cs *c19Case)
	}
	setUID := func(i int, u string) edit {
		return edit{fmt.Sprintf("uid[%d]=%q", i, u), func(cal *ical.Calendar, cs *c19Case) {
			if i < len(cal.Children) {
				if u == "" {
					cal.Children[i].Props.Del(ical.PropUID)
				} else {
					cal.Children[i].Props.SetText(ical.PropUID, u)
				}
				cs.Comps[i].UID = u
			}
		}}
	}
	setType := func(i int, t string) edit {
		return edit{fmt.Sprintf("type[%d]=%s", i, t), func(cal *ical.Calendar, cs *c19Case) {
			if i < len(cal.Children) {
				cal.Children[i].Name = t
				cs.Comps[i].Type = t
			}
		}}
	}
	method := edit{"add METHOD", func(cal *ical.Calendar, cs *c19Case) {
		cal.Props.SetText(ical.PropMethod, "PUBLISH")
		cs.Method, cs.MethodVal = true, "PUBLISH"
	}}
	edits := []edit{setUID(0, "u2"), setUID(1, "u2"), setUID(1, ""), setUID(0, ""), setType(0, "VTODO"), setType(1, "VTODO"), setType(1, "VTIMEZONE"), setType(0, "VEVENT"), method}
	bases := [][]c19Comp{
		{{Type: "VEVENT", UID: "u1"}},
		{{Type: "VEVENT", UID: "u1"}, {Type: "VEVENT", UID: "u1"}},
		{{Type: "VTIMEZONE"}, {Type: "VEVENT", UID: "u1"}},
		{{Type: "VEVENT", UID: "u1"}, {Type: "VEVENT"}},
		{{Type: "VEVENT", UID: "u1"}, {Type: "VTODO", UID: "u1"}},
		{{Type: "VTODO", UID: "u2"}, {Type: "VTODO", UID: "u1"}},
		{{Type: "VEVENT"}, {Type: "VEVENT"}},
	}
	for _, b := range bases {
		for _, e1 := range edits {
			for _, e2 := range append([]edit{{"none", func(*ical.Calendar, *c19Case) {}}}, edits...) {
				*idx++
				if !c.Mine(*idx) {
					continue
				}
				cs := c19Case{Comps: append([]c19Comp(nil), b...)}
				cal, err := c19Build(cs)
				if err != nil {
					continue
				}
				steps := []string{"initial"}
				check := func() {
					var typ, uid string
					var verr error
					panicked, pv, stack := fw.Guard(func() { typ, uid, verr = caldav.ValidateCalendarObject(cal) })
					c.Eval(1)
					wit := map[string]interface{}{"base": b, "steps": steps, "now": cs, "type": typ, "uid": uid, "err": fw.ErrString(verr)}
					if panicked {
						c.Report("revalidate|panic|"+fw.PanicSite(stack), fmt.Sprintf("ValidateCalendarObject panicked: %v", pv), wit)
						return
					}
					accept, mtyp, muid, open := c19Model(cs)
					got := verr == nil
					switch {
					case !got && (typ != "" || uid != ""):
						c.Report("revalidate|reject-with-nonempty-results", "rejected but returned non-empty results", wit)
					case open:
					case accept != got:
						c.Report(fmt.Sprintf("revalidate|verdict-is-not-that-of-the-calendar-as-it-is-now|want-accept=%v", accept),
							fmt.Sprintf("after %v the calendar must be %s, got err=%v", steps, map[bool]string{true: "accepted", false: "rejected"}[accept], verr), wit)
					case accept && (typ != mtyp || uid != muid):
						c.Report("revalidate|results-are-not-those-of-the-calendar-as-it-is-now",
							fmt.Sprintf("after %v want type=%q uid=%q, got type=%q uid=%q", steps, mtyp, muid, typ, uid), wit)
					}
				}
				check()
				e1.do(cal, &cs)
				steps = append(steps, e1.name)
				check()
				if e2.name != "none" {
					e2.do(cal, &cs)
					steps = append(steps, e2.name)
					check()
				}
				c.Distinct(fmt.Sprintf("revalidate|%d|%s|%s", len(b), e1.name, e2.name))
				c.Observe("universe", "revalidate-after-in-place-edit", 1)
			}
		}
	}
}

func c19HasBadUID(cs c19Case) bool {
	bad := func(c c19Comp) bool { return c.RawUID || c.Binary || c.UID2 != "" }
	for _, c := range cs.Comps {
		if bad(c) {
			return true
		}
	}
	return cs.Fill != nil && cs.Fill.N > 0 && bad(cs.Fill.Comp)
}

// c19Sizes: 2^k (k >= 5) up to max2 and 10^k (k >= 2) up to max10, each with
// its two neighbours, ascending.
func c19Sizes(max2, max10 int) []int {
	var out []int
	for b := 32; b <= max2; b *= 2 {
		out = append(out, b-1, b, b+1)
	}
	for b := 100; b <= max10; b *= 10 {
		out = append(out, b-1, b, b+1)
	}
	return out
}

func c19Magnitude(n int) string {
	switch {
	case n >= 100000:
		return ">=100000"
	case n >= 10000:
		return "10000.."
	case n >= 1000:
		return "1000.."
	case n >= 100:
		return "100.."
	}
	return "<100"
}

var c19RandExtras = []string{"tzid-match", "valarm", "props", "x-method", "nested-uid-same", "nested-uid-other", "nil-entries", "emptied-entries", "doubled", "uid-params", "lower-case-names"}

func c19Run(c *fw.Ctx) {
	uids := []string{"", "u1", "u2"}
	maxLen := c.Pick(5, 6)
	idx := 0
	// Exhaustive enumeration: every sequence of <= maxLen components over
	// 5 types x 3 UID choices, with and without METHOD.
	var rec func(prefix []c19Comp)
	rec = func(prefix []c19Comp) {
		for _, m := range []bool{false, true} {
			if c.Mine(idx) {
				cs := c19Case{Method: m, Comps: append([]c19Comp(nil), prefix...)}
				c19Exec(c, cs)
				c.Observe("universe", "enumerated", 1)
				if len(prefix) <= 4 {
					// the same sequence as go-ical reads it from text
					// (METHOD:PUBLISH there, a METHOD without a value above)
					cs.ViaText = true
					if m {
						cs.MethodVal = "PUBLISH"
					}
					c19Exec(c, cs)
					c.Observe("universe", "enumerated-via-text", 1)
				}
			}
			idx++
		}
		if len(prefix) == maxLen {
			return
		}
		for _, t := range c19Types {
			for _, u := range uids {
				rec(append(prefix, c19Comp{Type: t, UID: u}))
			}
		}
	}
	rec(nil)
	// METHOD spelt in every way a property can be present (the rule is about
	// the presence of the property, not its value), and UIDs that are not
	// valid TEXT, each over all sequences of <= 3 components.
	methodVals := []string{"PUBLISH", "", ",PUBLISH", "REQUEST", "publish", " ", "\\", "X-CUSTOM"}
	badUIDs := []c19Comp{{UID: "abc\\", RawUID: true}, {UID: "a\\xb", RawUID: true}, {UID: "AAEC", Binary: true}, {UID: "", RawUID: true}, {UID: "u1", UID2: "u2"}, {UID: "u2", UID2: "u1"}}
	var rec2 func(prefix []c19Comp)
	rec2 = func(prefix []c19Comp) {
		for _, mv := range methodVals {
			if c.Mine(idx) {
				c19Exec(c, c19Case{Method: true, MethodVal: mv, Comps: append([]c19Comp(nil), prefix...)})
				c19Exec(c, c19Case{Method: true, MethodVal: mv, Comps: append([]c19Comp(nil), prefix...), ViaText: mv != "\\"})
				c.Observe("universe", "method-value-variants", 2)
			}
			idx++
		}
		for pos := 0; pos <= len(prefix); pos++ {
			for _, bad := range badUIDs {
				for _, t := range []string{"VEVENT", "VTODO", "VTIMEZONE"} {
					if c.Mine(idx) {
						comps := append([]c19Comp(nil), prefix[:pos]...)
						b := bad
						b.Type = t
						comps = append(comps, b)
						comps = append(comps, prefix[pos:]...)
						c19Exec(c, c19Case{Comps: comps})
						c19Exec(c, c19Case{Comps: comps, ViaText: true})
						c.Observe("universe", "malformed-uid-variants", 2)
					}
					idx++
				}
			}
		}
		if len(prefix) == 3 {
			return
		}
		for _, t := range c19Types {
			for _, u := range uids {
				rec2(append(prefix, c19Comp{Type: t, UID: u}))
			}
		}
	}
	rec2(nil)
	// Component names outside the usual five count like any other type
	// ("all of its components other than VTIMEZONE are of one single type"):
	// every sequence of <= 3 components over an extended alphabet.
	wide := []string{"VEVENT", "VTODO", "VTIMEZONE", "VAVAILABILITY", "X-CUSTOM", "VPOLL", "X-OTHER"}
	var rec3 func(prefix []c19Comp)
	rec3 = func(prefix []c19Comp) {
		unusual := false
		for _, p := range prefix {
			switch p.Type {
			case "VAVAILABILITY", "X-CUSTOM", "VPOLL", "X-OTHER":
				unusual = true
			}
		}
		if unusual {
			if c.Mine(idx) {
				c19Exec(c, c19Case{Comps: append([]c19Comp(nil), prefix...)})
				c19Exec(c, c19Case{Comps: append([]c19Comp(nil), prefix...), ViaText: true})
				c.Observe("universe", "unusual-component-names", 2)
			}
			idx++
		}
		if len(prefix) == 3 {
			return
		}
		for _, t := range wide {
			for _, u := range uids {
				rec3(append(prefix, c19Comp{Type: t, UID: u}))
			}
		}
	}
	rec3(nil)
	// Content the rule does not look at (TZID parameters with and without a
	// VTIMEZONE defining them, before or after their use; nested VALARMs;
	// calendar properties that merely resemble METHOD; ordinary properties):
	// every sequence of <= 3 components, each extras set, both build paths.
	// Likewise what nested components carry, the representation of an absent
	// property in go-ical's map of lists, properties standing twice, UID
	// parameters and the letter case of names (see c19Case.Extras).
	extraSets := [][]string{{"tzid-match"}, {"tzid-other"}, {"valarm"}, {"x-method"}, {"props"}, {"tzid-match", "tzid-other", "valarm", "x-method", "props"},
		{"nested-uid-same"}, {"nested-uid-other"}, {"nil-entries"}, {"emptied-entries"}, {"doubled"}, {"uid-params"}, {"lower-case-names"},
		{"nested-uid-same", "nested-uid-other", "valarm", "nil-entries", "doubled", "uid-params", "lower-case-names"}}
	var rec4 func(prefix []c19Comp)
	rec4 = func(prefix []c19Comp) {
		for _, ex := range extraSets {
			for _, m := range []bool{false, true} {
				if c.Mine(idx) {
					cs := c19Case{Method: m, MethodVal: "PUBLISH", Comps: append([]c19Comp(nil), prefix...), Extras: ex}
					c19Exec(c, cs)
					cs.ViaText = true
					c19Exec(c, cs)
					c.Observe("universe", "irrelevant-content-variants", 2)
				}
				idx++
			}
		}
		if len(prefix) == 3 {
			return
		}
		for _, t := range c19Types {
			for _, u := range uids {
				rec4(append(prefix, c19Comp{Type: t, UID: u}))
			}
		}
	}
	rec4(nil)
	// UIDs are compared as the strings they are: pairs of different values
	// that some notion of "similar" would merge (letter case, also inside a
	// UUID; surrounding or inner white space; one a prefix of the other;
	// composed vs. decomposed accents; look-alike letters; long common
	// prefixes), in every layout of two or three UID-carrying components.
	uidPairs := [][2]string{
		{"5b3f1b4c-9a7e-4d21-8c0f-6e2a9d1c7b30", "5B3F1B4C-9A7E-4D21-8C0F-6E2A9D1C7B30"}, {"5b3f1b4c-9a7e-4d21-8c0f-6e2a9d1c7b30", "5b3f1b4c-9a7e-4d21-8c0f-6e2a9d1c7B30"},
		{"urn:uuid:5b3f1b4c-9a7e-4d21-8c0f-6e2a9d1c7b30", "urn:uuid:5B3F1B4C-9A7E-4D21-8C0F-6E2A9D1C7B30"}, {"abc", "ABC"}, {"u1", "U1"}, {"u1", "u1 "}, {" u1", "u1"}, {"u 1", "u1"}, {"u1", "u10"},
		{"u1", "u1\tx"}, {"\u00e9", "e\u0301"}, {"a", "\u0430"}, {"user@example.com", "user@EXAMPLE.com"}, {"0", "00"}, {"1", "1.0"}, {"x-" + strings.Repeat("k", 254), "x-" + strings.Repeat("k", 255)},
		{strings.Repeat("p", 64) + "a", strings.Repeat("p", 64) + "b"}, {"u1", "u1\u200b"}, {"uid", "UID"}, {"null", "nil"},
	}
	for _, pr := range uidPairs {
		a, b := pr[0], pr[1]
		layouts := [][]c19Comp{
			{{Type: "VEVENT", UID: a}, {Type: "VEVENT", UID: b}}, {{Type: "VEVENT", UID: b}, {Type: "VEVENT", UID: a}},
			{{Type: "VEVENT", UID: a}, {Type: "VEVENT", UID: a}}, {{Type: "VEVENT", UID: b}, {Type: "VEVENT", UID: b}, {Type: "VEVENT", UID: b}},
			{{Type: "VTIMEZONE"}, {Type: "VTODO", UID: a}, {Type: "VTODO", UID: b}}, {{Type: "VTODO", UID: a}, {Type: "VTODO"}, {Type: "VTODO", UID: b}},
			{{Type: "VEVENT", UID: a}, {Type: "VEVENT", UID: a}, {Type: "VEVENT", UID: b}}, {{Type: "VTIMEZONE", UID: a}, {Type: "VEVENT", UID: b}}, {{Type: "VJOURNAL", UID: b}},
		}
		for _, l := range layouts {
			if c.Mine(idx) {
				c19Exec(c, c19Case{Comps: l})
				if !strings.ContainsAny(a+b, "\t") && strings.TrimSpace(a) == a && strings.TrimSpace(b) == b {
					c19Exec(c, c19Case{Comps: l, ViaText: true})
				}
				c.Observe("universe", "similar-uid-pairs", 1)
			}
			idx++
		}
	}
	// One UID, several spellings: "\n" and "\N" both stand for a line break,
	// so values that differ only there are the same UID (accept, and return
	// the unescaped value); a line break and a literal backslash followed by
	// n are different UIDs (reject).
	spellA, spellB, other := "room\\n1@example.com", "room\\N1@example.com", "room\\\\n1@example.com"
	mk := func(t, u string) c19Comp { return c19Comp{Type: t, UID: u, Spelled: true} }
	spelledLayouts := [][]c19Comp{
		{mk("VEVENT", spellA), mk("VEVENT", spellB)}, {mk("VEVENT", spellB), mk("VEVENT", spellA)}, {mk("VEVENT", spellA), mk("VEVENT", spellA)},
		{mk("VEVENT", spellA), mk("VEVENT", spellB), mk("VEVENT", spellA)}, {{Type: "VTIMEZONE"}, mk("VTODO", spellB), mk("VTODO", spellA)},
		{mk("VTODO", spellA), {Type: "VTODO"}, mk("VTODO", spellB)}, {mk("VJOURNAL", spellB)}, {mk("VEVENT", "a\\nb\\Nc"), mk("VEVENT", "a\\Nb\\nc")},
		{mk("VEVENT", spellA), mk("VEVENT", other)}, {mk("VEVENT", other), mk("VEVENT", spellB)}, {mk("VEVENT", other), mk("VEVENT", other)},
		{mk("VEVENT", "semi\\;colon"), mk("VEVENT", "semi\\;colon")}, {mk("VEVENT", "back\\\\slash"), mk("VEVENT", "back\\\\slash")},
	}
	for _, l := range spelledLayouts {
		if c.Mine(idx) {
			c19Exec(c, c19Case{Comps: l})
			c19Exec(c, c19Case{Comps: l, ViaText: true})
			c.Observe("universe", "one-uid-several-spellings", 2)
		}
		idx++
	}
	// Size plays no part: the same few shapes (valid; the one conflicting UID
	// resp. type at the very end; the only UID at the very end; time zones
	// only; METHOD) at every length of a ladder of powers of two and of ten,
	// each with its two neighbours, built in memory and (up to a bound) parsed
	// from text.
	for _, n := range c19Sizes(c.Pick(1<<16, 1<<18), 100000) {
		ev, td, tz := c19Comp{Type: "VEVENT", UID: "u1"}, c19Comp{Type: "VTODO"}, c19Comp{Type: "VTIMEZONE"}
		shapes := []c19Case{
			{Comps: []c19Comp{tz, ev}, Fill: &c19Fill{N: n, Comp: ev, At: 2}},
			{Comps: []c19Comp{{Type: "VEVENT", UID: "u2"}}, Fill: &c19Fill{N: n, Comp: ev, At: 0}},
			{Comps: []c19Comp{{Type: "VTODO", UID: "u2"}}, Fill: &c19Fill{N: n, Comp: td, At: 0}},
			{Comps: []c19Comp{{Type: "VTODO", UID: "u1"}}, Fill: &c19Fill{N: n, Comp: ev, At: 0}},
			{Comps: []c19Comp{ev, ev}, Fill: &c19Fill{N: n, Comp: tz, At: 1}},
			{Fill: &c19Fill{N: n, Comp: tz}},
			{Method: true, MethodVal: "PUBLISH", Fill: &c19Fill{N: n, Comp: c19Comp{Type: "VJOURNAL", UID: "u1"}}},
		}
		for _, cs := range shapes {
			for _, text := range []bool{false, true} {
				if text && n > c.Pick(5000, 70000) {
					continue
				}
				if c.Mine(idx) {
					cs.ViaText = text
					c19Exec(c, cs)
					c.Observe("universe", "size-ladder", 1)
					c.Observe("size-ladder components", c19Magnitude(n), 1)
				}
				idx++
			}
		}
	}
	// The verdict is a function of the calendar as it is NOW: validate, edit
	// the same object in place (same number of components), validate again.
	c19Revalidate(c, &idx)
	c.Note("exhaustive_part", fmt.Sprintf("all sequences of <= %d components over %v x uid{absent,u1,u2} x METHOD{absent,present}", maxLen, c19Types))

	// Random larger calendars, half of them through the go-ical text parser.
	n := c.Pick(40000, 1000000)
	uidPool := []string{"", "", "u1", "u1", "u2", "a,b;c\\n", "é€"}
	for i := 0; i < n; i++ {
		if !c.Mine(i) {
			continue
		}
		r := c.Rand("c19", i)
		cs := c19Case{Method: r.Intn(8) == 0, ViaText: r.Intn(2) == 0}
		if cs.Method {
			cs.MethodVal = []string{"PUBLISH", "", ",PUBLISH", "REQUEST", "CANCEL"}[r.Intn(5)]
		}
		k := r.Intn(30)
		// Bias towards nearly-valid calendars: one main type, one main uid.
		mainT := c19Types[r.Intn(4)]
		mainU := []string{"u1", "u2", "é€"}[r.Intn(3)]
		for j := 0; j < k; j++ {
			t, u := mainT, mainU
			switch r.Intn(12) {
			case 0:
				t = c19Types[r.Intn(5)]
			case 1, 2:
				t = "VTIMEZONE"
			case 3:
				t = []string{"VAVAILABILITY", "X-CUSTOM", "VPOLL"}[r.Intn(3)]
			}
			switch r.Intn(10) {
			case 0:
				u = uidPool[r.Intn(len(uidPool))]
			case 1, 2:
				u = ""
			}
			if cs.ViaText && strings.ContainsAny(u, ",;\\") {
				u = "u2"
			}
			if !cs.ViaText && strings.ContainsAny(u, ",;\\") {
				// set through SetText (escaped), compare unescaped
			}
			cs.Comps = append(cs.Comps, c19Comp{Type: t, UID: u})
		}
		// one calendar in four carries content the rule does not look at
		if r.Intn(4) == 0 {
			for _, e := range c19RandExtras {
				if r.Intn(4) == 0 {
					cs.Extras = append(cs.Extras, e)
				}
			}
		}
		// one in 64 is long: 30 .. 30000 further components of the main kind
		// (length log-uniform) somewhere in the sequence
		if r.Intn(64) == 0 {
			cs.Fill = &c19Fill{N: int(30 * math.Pow(1000, r.Float64())), Comp: c19Comp{Type: mainT, UID: mainU}, At: r.Intn(len(cs.Comps) + 1)}
			c.Observe("universe", "random-long", 1)
		}
		c19Exec(c, cs)
		c.Observe("universe", "random", 1)
	}
}

func init() {
	fw.Register(&fw.Property{
		ID:  "C19",
		Run: c19Run,
		Replay: func(c *fw.Ctx, w json.RawMessage) {
			var cs c19Case
			if json.Unmarshal(w, &cs) == nil {
				c19Exec(c, cs)
			}
		},
		Rule: "exhaustive: every sequence of <=5 (thorough <=6) components over {VEVENT,VTODO,VJOURNAL,VFREEBUSY,VTIMEZONE} x UID{absent,u1,u2} x METHOD{absent,present}; " +
			"random: calendars of up to 29 components biased to nearly-valid, half parsed from iCalendar text by go-ical; one in four with content the rule does not look at, one in 64 with 30..30000 further components. " +
			"families over all sequences of <=3 components: METHOD value spellings, malformed / doubled-with-another-value UIDs (open), unusual component names, irrelevant content (TZID parameters, VALARM, X-METHOD, ordinary properties, nested components with UIDs of their own, map entries without values, properties standing twice, UID parameters, lower-case names); similar UIDs; one UID in several spellings; size ladder 2^5..2^16 (thorough 2^18), 10^2..10^5, each +-1, seven shapes; revalidation after in-place edits. " +
			"distinct_nontrivial counts distinct abstract classes (METHOD, #non-VTIMEZONE types capped at 2, #UIDs capped at 2, first component is VTIMEZONE, first component lacks UID, length, text/in-memory).",
		Assumptions: []string{
			"UID values are non-empty valid TEXT (empty or malformed UID values are outside the statement's domain)",
			"a calendar without any non-VTIMEZONE component: accept/reject and returned type are left open by the statement; only 'rejection returns empty results' and the UID are checked there",
			"the components of a calendar are its direct children (the type clause would otherwise refuse every VEVENT with a VALARM): what nested components carry plays no part",
			"a property name whose value list in go-ical's Props map is empty or nil is a property the calendar does not have (Props.Get / Props.Values / the encoder agree)",
			"a component with two UID properties of different values: accept/reject left open",
		},
		MinEvals:    func(t string) int64 { return 100000 },
		MinDistinct: func(t string) int64 { return 100 },
	})
}

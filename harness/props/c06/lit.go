// Package c06 checks caldav.Match / caldav.Filter against an independent
// transcription of RFC 4791 sections 9.7-9.9 (property C06).
package c06

import (
	"sort"
	"strings"
	"time"
	_ "time/tzdata" // the zones of the zoned-recurrence universe, whatever the host has installed

	"github.com/emersion/go-ical"
	"github.com/emersion/go-webdav/caldav"
)

// ---------------------------------------------------------------------------
// Literal, JSON-able description of a case. The witness of a finding is such a
// literal; the go-ical / caldav values handed to the library are built from it.
// ---------------------------------------------------------------------------

// Param is one property parameter with its values.
type Param struct {
	Name string   `json:"name"`
	Vals []string `json:"values"`
}

// Prop is one property instance: name, parameters and the raw value text.
type Prop struct {
	Name   string  `json:"name"`
	Params []Param `json:"params,omitempty"`
	Value  string  `json:"value"`
}

// Comp is one component.
type Comp struct {
	Name     string `json:"name"`
	Props    []Prop `json:"props,omitempty"`
	Children []Comp `json:"children,omitempty"`
}

// Time is an instant ("20060102T150405Z", "" = the zero time.Time, i.e. an
// open bound) and the name of the Location the time.Time value carries.
type Time struct {
	UTC string `json:"utc,omitempty"`
	Loc string `json:"loc,omitempty"`
	// Nanos: the sub-second part of the instant (a time.Time argument need
	// not be a whole second)
	Nanos int `json:"nanos,omitempty"`
}

// TextMatch mirrors caldav.TextMatch.
type TextMatch struct {
	Text   string `json:"text"`
	Negate bool   `json:"negate,omitempty"`
}

// ParamFilter mirrors caldav.ParamFilter.
type ParamFilter struct {
	Name         string     `json:"name"`
	IsNotDefined bool       `json:"is_not_defined,omitempty"`
	Text         *TextMatch `json:"text_match,omitempty"`
}

// PropFilter mirrors caldav.PropFilter.
type PropFilter struct {
	Name         string        `json:"name"`
	IsNotDefined bool          `json:"is_not_defined,omitempty"`
	Start        Time          `json:"start"`
	End          Time          `json:"end"`
	Text         *TextMatch    `json:"text_match,omitempty"`
	Params       []ParamFilter `json:"param_filters,omitempty"`
}

// CompFilter mirrors caldav.CompFilter.
type CompFilter struct {
	Name         string       `json:"name"`
	IsNotDefined bool         `json:"is_not_defined,omitempty"`
	Start        Time         `json:"start"`
	End          Time         `json:"end"`
	Props        []PropFilter `json:"prop_filters,omitempty"`
	Comps        []CompFilter `json:"comp_filters,omitempty"`
}

const utcLayout = "20060102T150405Z"

func (t Time) open() bool { return t.UTC == "" }

func (t Time) hasRange() bool { return t.UTC != "" }

var locCache = map[string]*time.Location{}

func loadLoc(name string) (*time.Location, error) {
	if name == "" || name == "UTC" {
		return time.UTC, nil
	}
	if l, ok := locCache[name]; ok {
		return l, nil
	}
	l, err := time.LoadLocation(name)
	if err != nil {
		return nil, err
	}
	locCache[name] = l
	return l, nil
}

// goTime builds the time.Time handed to the library.
func (t Time) goTime() time.Time {
	if t.UTC == "" {
		return time.Time{}
	}
	v, err := time.ParseInLocation(utcLayout, t.UTC, time.UTC)
	if err != nil {
		panic("c06 harness: bad literal time " + t.UTC)
	}
	if t.Loc != "" && t.Loc != "UTC" {
		l, err := loadLoc(t.Loc)
		if err != nil {
			panic("c06 harness: bad literal location " + t.Loc)
		}
		v = v.In(l)
	}
	return v.Add(time.Duration(t.Nanos))
}

func mkTime(v time.Time, loc string) Time {
	return Time{UTC: v.UTC().Format(utcLayout), Loc: loc, Nanos: v.Nanosecond()}
}

// --- builders for the library side -----------------------------------------

func (c Comp) build() *ical.Component {
	out := ical.NewComponent(c.Name)
	out.Name = c.Name
	for _, p := range c.Props {
		ip := ical.Prop{Name: p.Name, Params: ical.Params{}, Value: p.Value}
		for _, pa := range p.Params {
			ip.Params[pa.Name] = append(ip.Params[pa.Name], pa.Vals...)
		}
		out.Props[p.Name] = append(out.Props[p.Name], ip)
	}
	for _, ch := range c.Children {
		out.Children = append(out.Children, ch.build())
	}
	return out
}

func (t *TextMatch) build() *caldav.TextMatch {
	if t == nil {
		return nil
	}
	return &caldav.TextMatch{Text: t.Text, NegateCondition: t.Negate}
}

func (f PropFilter) build() caldav.PropFilter {
	out := caldav.PropFilter{Name: f.Name, IsNotDefined: f.IsNotDefined,
		Start: f.Start.goTime(), End: f.End.goTime(), TextMatch: f.Text.build()}
	for _, p := range f.Params {
		out.ParamFilter = append(out.ParamFilter, caldav.ParamFilter{Name: p.Name, IsNotDefined: p.IsNotDefined, TextMatch: p.Text.build()})
	}
	return out
}

func (f CompFilter) build() caldav.CompFilter {
	out := caldav.CompFilter{Name: f.Name, IsNotDefined: f.IsNotDefined,
		Start: f.Start.goTime(), End: f.End.goTime()}
	for _, p := range f.Props {
		out.Props = append(out.Props, p.build())
	}
	for _, c := range f.Comps {
		out.Comps = append(out.Comps, c.build())
	}
	return out
}

// dumpIcal renders a go-ical component tree canonically (map keys sorted);
// used to detect modification of the arguments.
func dumpIcal(c *ical.Component, sb *strings.Builder) {
	if c == nil {
		sb.WriteString("<nil>")
		return
	}
	sb.WriteString("B:" + c.Name + "\n")
	names := make([]string, 0, len(c.Props))
	for k := range c.Props {
		names = append(names, k)
	}
	sort.Strings(names)
	for _, k := range names {
		for _, p := range c.Props[k] {
			sb.WriteString(k + "/" + p.Name)
			pn := make([]string, 0, len(p.Params))
			for n := range p.Params {
				pn = append(pn, n)
			}
			sort.Strings(pn)
			for _, n := range pn {
				sb.WriteString(";" + n + "=")
				for i, v := range p.Params[n] {
					if i > 0 {
						sb.WriteString("\x1f")
					}
					sb.WriteString(v)
				}
			}
			sb.WriteString(":" + p.Value + "\n")
		}
	}
	for _, ch := range c.Children {
		dumpIcal(ch, sb)
	}
	sb.WriteString("E:" + c.Name + "\n")
}

func dumpCal(c *ical.Component) string {
	var sb strings.Builder
	dumpIcal(c, &sb)
	return sb.String()
}

// --- deep copies -------------------------------------------------------------

func (c Comp) clone() Comp {
	out := Comp{Name: c.Name}
	if c.Props != nil {
		out.Props = make([]Prop, len(c.Props))
		for i, p := range c.Props {
			out.Props[i] = p.clone()
		}
	}
	if c.Children != nil {
		out.Children = make([]Comp, len(c.Children))
		for i, ch := range c.Children {
			out.Children[i] = ch.clone()
		}
	}
	return out
}

func (p Prop) clone() Prop {
	out := Prop{Name: p.Name, Value: p.Value}
	if p.Params != nil {
		out.Params = make([]Param, len(p.Params))
		for i, pa := range p.Params {
			out.Params[i] = Param{Name: pa.Name, Vals: append([]string(nil), pa.Vals...)}
		}
	}
	return out
}

func (t *TextMatch) clone() *TextMatch {
	if t == nil {
		return nil
	}
	c := *t
	return &c
}

func (f PropFilter) clone() PropFilter {
	out := f
	out.Text = f.Text.clone()
	out.Params = nil
	for _, p := range f.Params {
		q := p
		q.Text = p.Text.clone()
		out.Params = append(out.Params, q)
	}
	return out
}

func (f CompFilter) clone() CompFilter {
	out := f
	out.Props = nil
	out.Comps = nil
	for _, p := range f.Props {
		out.Props = append(out.Props, p.clone())
	}
	for _, c := range f.Comps {
		out.Comps = append(out.Comps, c.clone())
	}
	return out
}

// --- helpers to build literal properties through go-ical's own setters -------

func fromIcalProp(p *ical.Prop) Prop {
	out := Prop{Name: p.Name, Value: p.Value}
	names := make([]string, 0, len(p.Params))
	for n := range p.Params {
		names = append(names, n)
	}
	sort.Strings(names)
	for _, n := range names {
		out.Params = append(out.Params, Param{Name: n, Vals: append([]string(nil), p.Params[n]...)})
	}
	return out
}

// dtProp spells the instant v as a DATE-TIME property: spelling "utc" gives
// the Z form, any other spelling is a TZID (go-ical's Prop.SetDateTime).
func dtProp(name string, v time.Time, spelling string) Prop {
	p := ical.NewProp(name)
	if spelling == "utc" {
		p.SetDateTime(v.UTC())
	} else {
		l, err := loadLoc(spelling)
		if err != nil {
			panic("c06 harness: zone " + spelling + " not available")
		}
		p.SetDateTime(v.In(l))
	}
	return fromIcalProp(p)
}

// dateProp spells the calendar day of v (taken in UTC) as a DATE property.
func dateProp(name string, v time.Time) Prop {
	p := ical.NewProp(name)
	p.SetDate(v.UTC())
	return fromIcalProp(p)
}

func durProp(d time.Duration) Prop {
	p := ical.NewProp(ical.PropDuration)
	p.SetDuration(d)
	return fromIcalProp(p)
}

func textProp(name, text string, params ...Param) Prop {
	p := ical.NewProp(name)
	p.SetText(text)
	out := fromIcalProp(p)
	out.Params = append(out.Params, params...)
	return out
}

func rawProp(name, value string, params ...Param) Prop {
	return Prop{Name: name, Value: value, Params: params}
}

package c06

import (
	"fmt"
	"regexp"
	"strconv"
	"strings"
	"time"
)

// ---------------------------------------------------------------------------
// Reference evaluator: RFC 4791 sections 9.7 - 9.9 as restated by property C06.
//
// It is written from the RFC text and shares nothing with go-webdav, go-ical's
// value parsers or rrule-go. It is three-valued: where the RFC / the property
// statement admit several readings (raw vs. unescaped text, case-sensitive vs.
// ASCII-folded comparison, first vs. any of several same-named properties or
// parameter values, an empty parameter value counting as present or absent,
// the zone of floating / DATE values, a property value equal to the range
// start) every reading is evaluated and the verdict is triU ("don't care")
// unless all readings agree. Kleene connectives combine the pieces, which is
// sound: a definite result means every combination of local readings yields
// that result.
//
// Situations the statement does not cover at all are flagged "out of domain"
// (ood); a case with any ood flag is executed but no verdict is demanded.
// ---------------------------------------------------------------------------

type tri int8

const (
	triF tri = iota
	triT
	triU
)

func (t tri) String() string {
	switch t {
	case triF:
		return "false"
	case triT:
		return "true"
	}
	return "dont-care"
}

func tand(a, b tri) tri {
	if a == triF || b == triF {
		return triF
	}
	if a == triT && b == triT {
		return triT
	}
	return triU
}

func tor(a, b tri) tri {
	if a == triT || b == triT {
		return triT
	}
	if a == triF && b == triF {
		return triF
	}
	return triU
}

func tnot(a tri) tri {
	switch a {
	case triT:
		return triF
	case triF:
		return triT
	}
	return triU
}

func tbool(b bool) tri {
	if b {
		return triT
	}
	return triF
}

type refEval struct {
	ood map[string]int // out-of-domain situations met
	amb map[string]int // places where admissible readings disagree
}

func (r *refEval) flagOOD(why string) { r.ood[why]++ }
func (r *refEval) flagAmb(why string) { r.amb[why]++ }

// Reference evaluates filter f against the calendar object whose top-level
// component is root.
func Reference(f CompFilter, root Comp) (tri, *refEval) {
	r := &refEval{ood: map[string]int{}, amb: map[string]int{}}
	staticFilterCheck(f, r)
	// The top-level filter is matched against the top-level component itself.
	if f.Name != root.Name {
		r.flagOOD("top-level filter name differs from the object's top-level component")
	}
	v := r.compFilter(f, []Comp{root})
	if len(r.ood) > 0 {
		return triU, r
	}
	return v, r
}

// staticFilterCheck flags filters outside RFC 4791's grammar:
//
//	comp-filter  (is-not-defined | (time-range?, prop-filter*, comp-filter*))
//	prop-filter  (is-not-defined | ((time-range | text-match)?, param-filter*))
//	param-filter (is-not-defined | text-match)?
//	time-range   start and/or end, end after start
func staticFilterCheck(f CompFilter, r *refEval) {
	if f.Name == "" {
		r.flagOOD("filter without a name")
	}
	hasTR := f.Start.hasRange() || f.End.hasRange()
	if f.IsNotDefined && (hasTR || len(f.Props) > 0 || len(f.Comps) > 0) {
		r.flagOOD("comp-filter: is-not-defined combined with children")
	}
	checkRange(f.Start, f.End, r)
	for _, p := range f.Props {
		if p.Name == "" {
			r.flagOOD("filter without a name")
		}
		pTR := p.Start.hasRange() || p.End.hasRange()
		if p.IsNotDefined && (pTR || p.Text != nil || len(p.Params) > 0) {
			r.flagOOD("prop-filter: is-not-defined combined with children")
		}
		if pTR && p.Text != nil {
			r.flagOOD("prop-filter: both time-range and text-match")
		}
		checkRange(p.Start, p.End, r)
		for _, pa := range p.Params {
			if pa.Name == "" {
				r.flagOOD("filter without a name")
			}
			if pa.IsNotDefined && pa.Text != nil {
				r.flagOOD("param-filter: is-not-defined combined with text-match")
			}
		}
	}
	for _, c := range f.Comps {
		staticFilterCheck(c, r)
	}
}

func checkRange(s, e Time, r *refEval) {
	if s.hasRange() && e.hasRange() {
		if !e.goTime().After(s.goTime()) {
			r.flagOOD("time-range: end <= start")
		}
	}
}

// nameMatch compares an iCalendar name in a filter with an actual name.
func nameMatch(filterName, actual string) tri {
	if filterName == actual {
		return triT
	}
	if asciiFold(filterName) == asciiFold(actual) {
		return triU // names are case-insensitive in iCalendar, the statement says "of that name"
	}
	return triF
}

// fieldNameMatch is nameMatch for property and parameter names. RFC 5545
// section 3.1 / 3.2: these names are case-insensitive, and an object that was
// read from text holds them in upper case. A filter name that differs in
// letter case from such a name is therefore that name; only a name the object
// itself holds in another case (built in memory) stays undecided.
func fieldNameMatch(filterName, actual string) tri {
	nm := nameMatch(filterName, actual)
	if nm == triU && actual == strings.ToUpper(actual) {
		return triT
	}
	return nm
}

func asciiFold(s string) string {
	b := []byte(s)
	for i, c := range b {
		if c >= 'A' && c <= 'Z' {
			b[i] = c + 'a' - 'A'
		}
	}
	return string(b)
}

// --- comp-filter -------------------------------------------------------------

// compFilter: the filter holds iff a component of that name exists in scope
// that satisfies time range, nested comp-filters and prop-filters; with
// is-not-defined: iff no component of that name exists.
func (r *refEval) compFilter(f CompFilter, scope []Comp) tri {
	exists := triF
	res := triF
	for _, c := range scope {
		nm := nameMatch(f.Name, c.Name)
		if nm == triF {
			continue
		}
		exists = tor(exists, nm)
		if !f.IsNotDefined {
			res = tor(res, tand(nm, r.compBody(f, c)))
		}
	}
	if f.IsNotDefined {
		return tnot(exists)
	}
	return res
}

func (r *refEval) compBody(f CompFilter, c Comp) tri {
	v := r.compTimeRange(f, c)
	for _, cf := range f.Comps {
		v = tand(v, r.compFilter(cf, c.Children))
	}
	for _, pf := range f.Props {
		v = tand(v, r.propFilter(pf, c))
	}
	return v
}

// --- prop-filter / param-filter / text-match --------------------------------

func (r *refEval) propFilter(f PropFilter, c Comp) tri {
	exists := triF
	var results []tri
	for _, p := range c.Props {
		nm := fieldNameMatch(f.Name, p.Name)
		if nm == triF {
			continue
		}
		exists = tor(exists, nm)
		if !f.IsNotDefined {
			results = append(results, tand(nm, r.propBody(f, p)))
		}
	}
	if f.IsNotDefined {
		return tnot(exists)
	}
	if len(results) == 0 {
		return triF
	}
	// Several same-named properties: "the first", "any" and "all" are all
	// defensible; they coincide iff every instance gives the same result.
	res := results[0]
	for _, x := range results[1:] {
		if x != res {
			r.flagAmb("same-named properties disagree (first vs any)")
			return triU
		}
	}
	return res
}

func (r *refEval) propBody(f PropFilter, p Prop) tri {
	v := triT
	for _, pf := range f.Params {
		v = tand(v, r.paramFilter(pf, p))
	}
	if f.Start.hasRange() || f.End.hasRange() {
		v = tand(v, r.propTimeRange(f, p))
	}
	if f.Text != nil {
		v = tand(v, r.textVerdict(*f.Text, propTextCandidates(p.Value, r)))
	}
	return v
}

func (r *refEval) paramFilter(f ParamFilter, p Prop) tri {
	present := triF
	var vals []string
	for _, pa := range p.Params {
		nm := fieldNameMatch(f.Name, pa.Name)
		if nm == triF {
			continue
		}
		if nm == triU {
			r.flagAmb("parameter name differs in case only")
		}
		here := nm
		if len(pa.Vals) == 0 {
			here = tand(here, triU)
			r.flagAmb("parameter without a value (present vs absent)")
		}
		for _, v := range pa.Vals {
			if v == "" {
				here = tand(here, triU)
				r.flagAmb("empty parameter value (present vs absent)")
			}
		}
		present = tor(present, here)
		vals = append(vals, pa.Vals...)
	}
	if f.IsNotDefined {
		return tnot(present)
	}
	if present == triF {
		return triF
	}
	if f.Text == nil {
		return present
	}
	// Multi-valued parameter: first vs any value.
	var res tri
	for i, v := range vals {
		x := r.textVerdict(*f.Text, [][]string{{v}})
		if i == 0 {
			res = x
		} else if x != res {
			r.flagAmb("parameter values disagree (first vs any)")
			res = triU
		}
	}
	if len(vals) == 0 {
		res = triU
	}
	return tand(present, res)
}

// textVerdict: substring test on the property (or parameter) value, inverted
// by negate-condition (RFC 4791 9.7.5). Each reading is a set of haystacks and
// holds iff some haystack of the set contains the text; comparison is tried
// octet-wise, under ASCII case folding (RFC 4791's default collation
// i;ascii-casemap vs. the statement's plain "substring") and under Unicode
// lower- and upper-casing (i;unicode-casemap, which a server may apply). A
// verdict is given only if every reading agrees.
func (r *refEval) textVerdict(tm TextMatch, readings [][]string) tri {
	if readings == nil {
		return triU
	}
	seenT, seenF := false, false
	for _, hay := range readings {
		// i;octet, i;ascii-casemap, and the two ways a full Unicode case
		// mapping (i;unicode-casemap, RFC 5051) is commonly implemented
		exact, folded, lower, upper := false, false, false, false
		for _, c := range hay {
			if strings.Contains(c, tm.Text) {
				exact = true
			}
			if strings.Contains(asciiFold(c), asciiFold(tm.Text)) {
				folded = true
			}
			if strings.Contains(strings.ToLower(c), strings.ToLower(tm.Text)) {
				lower = true
			}
			if strings.Contains(strings.ToUpper(c), strings.ToUpper(tm.Text)) {
				upper = true
			}
		}
		for _, b := range []bool{exact, folded, lower, upper} {
			if b {
				seenT = true
			} else {
				seenF = true
			}
		}
	}
	if seenT && seenF {
		r.flagAmb("text readings disagree (escaping / case / list item boundary)")
		return triU
	}
	v := seenT
	if tm.Negate {
		v = !v
	}
	return tbool(v)
}

// propTextCandidates lists the admissible readings of "the property value"
// for a text-match:
//
//	(1) the raw value as stored in the iCalendar stream,
//	(2) the whole value with the RFC 5545 TEXT escapes undone,
//	(3) the value as a comma-separated list of TEXT items (CATEGORIES,
//	    RESOURCES, ...): the text occurs in SOME item (unescaped).
//
// A text lying wholly inside one item, away from any escape, is contained
// under all three, whichever item it is; a text spanning an escape sequence
// or an item boundary is contained under some readings only (don't care).
// "Only the first item" is not a reading of "the property value". nil means
// "no reading is safe" (malformed escape).
func propTextCandidates(raw string, r *refEval) [][]string {
	if !strings.ContainsAny(raw, "\\,") {
		return [][]string{{raw}}
	}
	var whole strings.Builder
	var item strings.Builder
	var items []string
	for i := 0; i < len(raw); i++ {
		ch := raw[i]
		switch ch {
		case '\\':
			i++
			if i >= len(raw) {
				r.flagAmb("malformed TEXT escape")
				return nil
			}
			var u byte
			switch raw[i] {
			case '\\', ';', ',':
				u = raw[i]
			case 'n', 'N':
				u = '\n'
			default:
				r.flagAmb("malformed TEXT escape")
				return nil
			}
			whole.WriteByte(u)
			item.WriteByte(u)
		case ',':
			whole.WriteByte(ch)
			items = append(items, item.String())
			item.Reset()
		default:
			whole.WriteByte(ch)
			item.WriteByte(ch)
		}
	}
	items = append(items, item.String())
	return [][]string{{raw}, {whole.String()}, items}
}

// --- time values -------------------------------------------------------------

type calTime struct {
	abs      bool      // an absolute instant (UTC "Z" form or TZID)
	t        time.Time // if abs
	y, mo, d int       // local fields otherwise
	h, mi, s int
	date     bool   // DATE value
	spelling string // utc | tzid | floating | date
}

func allDigits(s string) bool {
	if s == "" {
		return false
	}
	for i := 0; i < len(s); i++ {
		if s[i] < '0' || s[i] > '9' {
			return false
		}
	}
	return true
}

func paramVals(p Prop, name string) (vals []string, n int) {
	for _, pa := range p.Params {
		if asciiFold(pa.Name) == asciiFold(name) {
			n++
			vals = append(vals, pa.Vals...)
		}
	}
	return
}

// safeLocal builds the instant for local fields in zone z and refuses local
// times that do not exist, or that lie within a day of a UTC-offset change
// (ambiguous local times, nominal vs. exact durations).
func safeLocal(y, mo, d, h, mi, s int, z *time.Location) (time.Time, string) {
	t := time.Date(y, time.Month(mo), d, h, mi, s, 0, z)
	if t.Year() != y || int(t.Month()) != mo || t.Day() != d || t.Hour() != h || t.Minute() != mi || t.Second() != s {
		return t, "invalid or non-existent local time"
	}
	_, off := t.Zone()
	_, o1 := t.Add(-26 * time.Hour).Zone()
	_, o2 := t.Add(26 * time.Hour).Zone()
	if o1 != off || o2 != off {
		return t, "local time near a UTC-offset transition"
	}
	return t, ""
}

// parseCalTime reads a DATE or DATE-TIME property value (RFC 5545 3.3.4/3.3.5).
func parseCalTime(p Prop) (calTime, string) {
	var ct calTime
	vt := ""
	if vals, n := paramVals(p, "VALUE"); n > 0 {
		if n != 1 || len(vals) != 1 {
			return ct, "malformed VALUE parameter"
		}
		vt = vals[0]
		if vt != "DATE" && vt != "DATE-TIME" {
			return ct, "time value with VALUE type other than DATE / DATE-TIME"
		}
	}
	tzid := ""
	if vals, n := paramVals(p, "TZID"); n > 0 {
		if n != 1 || len(vals) != 1 || vals[0] == "" {
			return ct, "malformed TZID parameter"
		}
		tzid = vals[0]
	}
	v := p.Value
	switch {
	case len(v) == 8 && allDigits(v):
		if vt != "DATE" {
			return ct, "DATE value without VALUE=DATE"
		}
		if tzid != "" {
			return ct, "TZID on a DATE value"
		}
		ct.date = true
		ct.spelling = "date"
	case (len(v) == 15 || len(v) == 16) && allDigits(v[:8]) && v[8] == 'T' && allDigits(v[9:15]) && (len(v) == 15 || v[15] == 'Z'):
		if vt == "DATE" {
			return ct, "DATE-TIME value with VALUE=DATE"
		}
		ct.h, _ = strconv.Atoi(v[9:11])
		ct.mi, _ = strconv.Atoi(v[11:13])
		ct.s, _ = strconv.Atoi(v[13:15])
	default:
		return ct, "unparseable DATE / DATE-TIME value"
	}
	ct.y, _ = strconv.Atoi(v[0:4])
	ct.mo, _ = strconv.Atoi(v[4:6])
	ct.d, _ = strconv.Atoi(v[6:8])
	if ct.date {
		return ct, ""
	}
	if len(v) == 16 {
		if tzid != "" {
			return ct, "TZID on a UTC date-time"
		}
		t, why := safeLocal(ct.y, ct.mo, ct.d, ct.h, ct.mi, ct.s, time.UTC)
		if why != "" {
			return ct, why
		}
		ct.abs, ct.t, ct.spelling = true, t, "utc"
		return ct, ""
	}
	if tzid != "" {
		loc, err := loadLoc(tzid)
		if err != nil || tzid == "Local" {
			return ct, "TZID that cannot be resolved"
		}
		t, why := safeLocal(ct.y, ct.mo, ct.d, ct.h, ct.mi, ct.s, loc)
		if why != "" {
			return ct, why
		}
		ct.abs, ct.t, ct.spelling = true, t, "tzid"
		return ct, ""
	}
	ct.spelling = "floating"
	return ct, ""
}

func (ct calTime) resolve(z *time.Location) (time.Time, string) {
	if ct.abs {
		return ct.t, ""
	}
	return safeLocal(ct.y, ct.mo, ct.d, ct.h, ct.mi, ct.s, z)
}

var durRE = regexp.MustCompile(`^([+-])?P(?:(\d+)W|(?:(\d+)D)?(?:T(?:(\d+)H)?(?:(\d+)M)?(?:(\d+)S)?)?)$`)

// parseDuration reads an RFC 5545 3.3.6 DURATION.
func parseDuration(v string) (d time.Duration, neg bool, ok bool) {
	m := durRE.FindStringSubmatch(v)
	if m == nil || v == "P" || strings.HasSuffix(v, "T") || len(v) < 3 {
		return 0, false, false
	}
	num := func(s string) time.Duration {
		if s == "" {
			return 0
		}
		n, err := strconv.ParseInt(s, 10, 32)
		if err != nil {
			ok = false
		}
		return time.Duration(n)
	}
	ok = true
	d = num(m[2])*7*24*time.Hour + num(m[3])*24*time.Hour + num(m[4])*time.Hour + num(m[5])*time.Minute + num(m[6])*time.Second
	return d, m[1] == "-", ok
}

const oodExdateList = "EXDATE property holding a list of values"

// --- recurrence: the family FREQ=SECONDLY|MINUTELY|HOURLY|DAILY|WEEKLY -------
// [;COUNT=n | ;UNTIL=<UTC date-time>][;INTERVAL=k]: instance k starts k fixed
// steps after DTSTART (on the UTC clock, or on a zone's wall clock for whole-day
// steps). Without COUNT and UNTIL the series never ends.

type recRule struct {
	step     time.Duration
	count    int // 0: no COUNT
	until    time.Time
	hasUntil bool
	freq     string
	ival     int
}

var freqSteps = map[string]time.Duration{"SECONDLY": time.Second, "MINUTELY": time.Minute, "HOURLY": time.Hour,
	"DAILY": 24 * time.Hour, "WEEKLY": 7 * 24 * time.Hour}

const (
	maxEnumCount = 1000     // series up to this COUNT are expanded instance by instance
	maxCount     = 10000000 // longer ones are outside the family
)

func parseRRule(v string) (*recRule, bool) {
	seen := map[string]bool{}
	rr := &recRule{ival: 1}
	for _, part := range strings.Split(v, ";") {
		kv := strings.SplitN(part, "=", 2)
		if len(kv) != 2 || seen[kv[0]] {
			return nil, false
		}
		seen[kv[0]] = true
		switch kv[0] {
		case "FREQ":
			if freqSteps[kv[1]] == 0 {
				return nil, false
			}
			rr.freq = kv[1]
		case "COUNT":
			n, err := strconv.Atoi(kv[1])
			if err != nil || n < 1 || n > maxCount || !allDigits(kv[1]) {
				return nil, false
			}
			rr.count = n
		case "UNTIL":
			t, err := time.Parse(utcLayout, kv[1])
			if err != nil {
				return nil, false
			}
			rr.until, rr.hasUntil = t, true
		case "INTERVAL":
			n, err := strconv.Atoi(kv[1])
			if err != nil || n < 1 || n > 100 || !allDigits(kv[1]) {
				return nil, false
			}
			rr.ival = n
		default:
			return nil, false
		}
	}
	if rr.freq == "" || (rr.count != 0 && rr.hasUntil) {
		return nil, false
	}
	rr.step = time.Duration(rr.ival) * freqSteps[rr.freq]
	return rr, true
}

// enumerable: the series is short enough to be listed instance by instance.
func (rr *recRule) enumerable() bool {
	return rr.count >= 1 && rr.count <= maxEnumCount && !rr.hasUntil
}

// wholeDays: the step is a number of calendar days (DAILY, WEEKLY).
func (rr *recRule) wholeDays() bool { return rr.freq == "DAILY" || rr.freq == "WEEKLY" }

// spell renders the rule the way the generators write it.
func (rr *recRule) spell() string {
	s := "FREQ=" + rr.freq
	if rr.count != 0 {
		s += fmt.Sprintf(";COUNT=%d", rr.count)
	}
	if rr.hasUntil {
		s += ";UNTIL=" + rr.until.UTC().Format(utcLayout)
	}
	if rr.ival != 1 {
		s += fmt.Sprintf(";INTERVAL=%d", rr.ival)
	}
	return s
}

// --- VEVENT intervals (RFC 4791 9.9) ------------------------------------------

type evInterval struct {
	kind     string // DTEND | DURATION>0 | DURATION=0 | DTSTART-only(DATE-TIME) | DTSTART-only(DATE)
	spelling string // of DTSTART: utc | tzid | floating | date
	floating bool   // some value depends on the zone of interpretation
	S, E     time.Time
	instant  bool
	rec      *recRule
	// wall != nil: the recurrence runs on the wall clock of this zone (a
	// DTSTART with TZID): instance k starts k steps of whole days later at
	// the same local time, whatever the UTC offset is by then.
	wall *time.Location
	// excluded: instance starts taken out by EXDATE (an occurrence removed by
	// an exception date is not an instance)
	excluded map[int64]bool
}

func propsNamed(c Comp, name string) []Prop {
	var out []Prop
	for _, p := range c.Props {
		if p.Name == name {
			out = append(out, p)
		}
	}
	return out
}

// eventInterval computes the first instance of VEVENT c, floating values
// being read in zone z. A non-empty string is an out-of-domain reason.
func eventInterval(c Comp, z *time.Location) (evInterval, string) {
	var iv evInterval
	for _, p := range c.Props {
		up := asciiFold(p.Name)
		switch up {
		case "recurrence-id", "rdate", "exrule":
			return iv, "VEVENT with RECURRENCE-ID / RDATE / EXRULE under a time-range"
		case "exdate":
			if p.Name != "EXDATE" {
				return iv, "lower-case spelling of a time property"
			}
		case "dtstart", "dtend", "duration", "rrule":
			if p.Name != strings.ToUpper(p.Name) {
				return iv, "lower-case spelling of a time property"
			}
		}
	}
	starts := propsNamed(c, "DTSTART")
	ends := propsNamed(c, "DTEND")
	durs := propsNamed(c, "DURATION")
	rules := propsNamed(c, "RRULE")
	if len(starts) != 1 {
		return iv, "VEVENT without exactly one DTSTART under a time-range"
	}
	if len(ends) > 1 || len(durs) > 1 || len(ends)+len(durs) > 1 || len(rules) > 1 {
		return iv, "VEVENT with several DTEND / DURATION / RRULE"
	}
	st, why := parseCalTime(starts[0])
	if why != "" {
		return iv, "DTSTART: " + why
	}
	iv.spelling = st.spelling
	iv.floating = !st.abs
	S, why := st.resolve(z)
	if why != "" {
		return iv, "DTSTART: " + why
	}
	iv.S = S
	mixed := false // DTSTART and DTEND: one absolute, the other floating
	switch {
	case len(ends) == 1:
		et, why := parseCalTime(ends[0])
		if why != "" {
			return iv, "DTEND: " + why
		}
		if et.date != st.date {
			return iv, "DTSTART and DTEND of different value types"
		}
		if !et.abs {
			iv.floating = true
		}
		mixed = et.abs != st.abs
		E, why := et.resolve(z)
		if why != "" {
			return iv, "DTEND: " + why
		}
		if !E.After(S) {
			return iv, "DTEND <= DTSTART"
		}
		iv.kind, iv.E = "DTEND", E
	case len(durs) == 1:
		if len(durs[0].Params) > 0 {
			return iv, "DURATION with parameters"
		}
		d, neg, ok := parseDuration(durs[0].Value)
		if !ok {
			return iv, "unparseable DURATION"
		}
		if neg && d != 0 {
			return iv, "negative DURATION"
		}
		if d == 0 {
			iv.kind, iv.E, iv.instant = "DURATION=0", S, true
		} else {
			// safeLocal has already excluded offset changes within a day;
			// longer durations on zoned/floating starts are re-checked.
			E := S.Add(d)
			if !st.abs || st.spelling == "tzid" {
				_, o1 := S.Zone()
				_, o2 := E.In(S.Location()).Zone()
				if o1 != o2 {
					return iv, "DURATION across a UTC-offset transition (nominal vs exact)"
				}
			}
			iv.kind, iv.E = "DURATION>0", E
		}
	case st.date:
		E := S.AddDate(0, 0, 1)
		if E.Sub(S) != 24*time.Hour {
			return iv, "all-day event on a day that is not 24h long"
		}
		iv.kind, iv.E = "DTSTART-only(DATE)", E
	default:
		iv.kind, iv.E, iv.instant = "DTSTART-only(DATE-TIME)", S, true
	}
	if len(rules) == 1 {
		if len(rules[0].Params) > 0 {
			return iv, "recurrence outside the bounded family (RRULE with parameters)"
		}
		rr, ok := parseRRule(rules[0].Value)
		if !ok {
			return iv, "recurrence outside the bounded family (FREQ=SECONDLY..WEEKLY[;COUNT|;UNTIL][;INTERVAL])"
		}
		if rr.hasUntil && rr.until.Before(S) {
			return iv, "recurrence outside the bounded family (UNTIL before DTSTART)"
		}
		switch {
		case iv.floating && (st.abs || mixed || !(rr.enumerable() && rr.wholeDays())):
			return iv, "recurrence outside the bounded family (a floating or DATE DTSTART needs FREQ=DAILY|WEEKLY, a COUNT up to 1000 and an end of its own kind)"
		case st.spelling == "utc":
			iv.rec = rr
		case st.spelling == "tzid" && !(rr.enumerable() && rr.wholeDays()):
			return iv, "recurrence outside the bounded family (a TZID DTSTART needs FREQ=DAILY|WEEKLY and a COUNT up to 1000)"
		case st.spelling == "tzid" || iv.floating:
			// The series runs on a wall clock: the zone named by TZID, or - for
			// a floating or DATE DTSTART - the zone of interpretation z.
			iv.rec, iv.wall = rr, S.Location()
			// Every instance must start at a local time that exists exactly
			// once and lies at least 3 h from any UTC-offset transition, and
			// must not reach across one (nominal vs. exact duration).
			d := iv.E.Sub(iv.S)
			for _, in := range iv.instances() {
				_, off := in[0].Zone()
				_, o1 := in[0].Add(-3 * time.Hour).Zone()
				_, o2 := in[0].Add(3 * time.Hour).Zone()
				_, o3 := in[0].Add(d).In(iv.wall).Zone()
				_, o4 := in[0].Add(d + 3*time.Hour).In(iv.wall).Zone()
				if o1 != off || o2 != off || o3 != off || o4 != off {
					return iv, "recurrence instance within 3h of a UTC-offset transition of its zone"
				}
			}
		default:
			return iv, "recurrence outside the bounded family (DTSTART neither UTC nor TZID)"
		}
	}
	if exs := propsNamed(c, "EXDATE"); len(exs) > 0 {
		// Bounded family: UTC DATE-TIME exception dates on a recurring event
		// with a UTC DTSTART; each must name the start of an instance.
		if iv.rec == nil || iv.wall != nil || st.spelling != "utc" || !iv.rec.enumerable() {
			return iv, "EXDATE outside the bounded family (needs a recurring event with a UTC DTSTART and a COUNT up to 1000)"
		}
		starts := map[int64]bool{}
		for _, in := range iv.instances() {
			starts[in[0].Unix()] = true
		}
		iv.excluded = map[int64]bool{}
		for _, ex := range exs {
			if len(ex.Params) > 0 {
				return iv, "EXDATE with parameters"
			}
			if strings.Contains(ex.Value, ",") {
				// RFC 5545 3.8.5.1 allows a list; the pinned go-ical cannot
				// read one (Match fails with "error parsing exdate"): no
				// verdict is demanded here, the failure is reported on its
				// own under one key (c06.go).
				return iv, oodExdateList
			}
			for _, v := range strings.Split(ex.Value, ",") {
				t, err := time.Parse("20060102T150405Z", v)
				if err != nil {
					return iv, "EXDATE value that is not a UTC DATE-TIME"
				}
				if !starts[t.Unix()] {
					return iv, "EXDATE that names no instance start"
				}
				iv.excluded[t.Unix()] = true
			}
		}
	}
	return iv, ""
}

// instances lists the [start, end) intervals of all instances of a
// non-recurring event or of an enumerable series.
func (iv evInterval) instances() [][2]time.Time {
	if iv.rec == nil {
		return [][2]time.Time{{iv.S, iv.E}}
	}
	out := make([][2]time.Time, 0, iv.rec.count)
	d := iv.E.Sub(iv.S)
	for k := 0; k < iv.rec.count; k++ {
		s := iv.S.Add(time.Duration(k) * iv.rec.step)
		if iv.wall != nil {
			l := iv.S.In(iv.wall)
			days := k * int(iv.rec.step/(24*time.Hour))
			s = time.Date(l.Year(), l.Month(), l.Day()+days, l.Hour(), l.Minute(), l.Second(), 0, iv.wall)
		}
		if iv.excluded[s.Unix()] {
			continue
		}
		out = append(out, [2]time.Time{s, s.Add(d)})
	}
	return out
}

// horizon: series that are not listed instance by instance are judged only for
// ranges that begin (open start: end) within this distance of DTSTART.
const horizon = 200 * 365 * 24 * time.Hour

// near lists the instances that can decide whether the range rs..re overlaps
// the series: all of them for an enumerable series; otherwise (fixed steps on
// the UTC clock, no exceptions; COUNT, UNTIL - inclusive - or no end at all)
// the instances whose number is within a few steps of the place where the
// range begins, plus the first and the last one. Instance k is [S+k*step,
// S+k*step+d): an earlier one than those listed ends before the range begins,
// a later one starts after the listed ones, which already start after the
// range's first instant - so it overlaps only if a listed one does.
func (iv evInterval) near(rs time.Time, openStart bool) [][2]time.Time {
	if iv.rec == nil || iv.rec.enumerable() {
		return iv.instances()
	}
	d := iv.E.Sub(iv.S)
	step := iv.rec.step
	last := int64(-1) // number of the last instance; -1: none (endless)
	switch {
	case iv.rec.count != 0:
		last = int64(iv.rec.count) - 1
	case iv.rec.hasUntil:
		last = int64(iv.rec.until.Sub(iv.S) / step)
	}
	var k0 int64
	if !openStart && rs.After(iv.S) {
		k0 = int64(rs.Sub(iv.S)/step) - int64(d/step) - 2
	}
	if k0 < 0 {
		k0 = 0
	}
	k1 := k0 + 5 + int64(d/step)
	var out [][2]time.Time
	add := func(k int64) {
		if k < 0 || (last >= 0 && k > last) || k > int64(horizon/step)+int64(d/step)+8 {
			return // no such instance, or one beyond the horizon (it decides nothing)
		}
		s := iv.S.Add(time.Duration(k) * step)
		out = append(out, [2]time.Time{s, s.Add(d)})
	}
	if k0 > 0 {
		add(0)
	}
	for k := k0; k <= k1; k++ {
		add(k)
	}
	if last > k1 {
		add(last)
	}
	return out
}

// overlaps is the RFC 4791 9.9 VEVENT table. An absent range bound is
// -infinity (start) or +infinity (end).
func overlaps(rs, re time.Time, openStart, openEnd bool, S, E time.Time, instant bool) bool {
	if instant {
		// start <= DTSTART AND end > DTSTART
		return (openStart || !rs.After(S)) && (openEnd || re.After(S))
	}
	// start < DTEND AND end > DTSTART   (DTEND, DTSTART+DURATION, DTSTART+P1D)
	return (openStart || rs.Before(E)) && (openEnd || re.After(S))
}

// floatingZones: RFC 4791 7.3 lets a server without a calendar-timezone
// resolve floating and DATE values in a time zone of its choice, and the
// property statement names none. Every UTC offset from -12h to +14h (15-minute
// lattice, which contains every offset in use) is therefore an admissible
// reading, in addition to UTC itself and the Location carried by the range.
var floatingZones = func() []*time.Location {
	zs := []*time.Location{time.UTC}
	for off := -12 * 3600; off <= 14*3600; off += 900 {
		if off != 0 {
			zs = append(zs, time.FixedZone("", off))
		}
	}
	return zs
}()

func zonesFor(s, e Time) []*time.Location {
	zs := floatingZones
	for _, t := range []Time{s, e} {
		if t.hasRange() && t.Loc != "" && t.Loc != "UTC" {
			if l, err := loadLoc(t.Loc); err == nil {
				zs = append(zs[:len(zs):len(zs)], l)
			}
		}
	}
	return zs
}

func (r *refEval) compTimeRange(f CompFilter, c Comp) tri {
	if !f.Start.hasRange() && !f.End.hasRange() {
		return triT
	}
	if c.Name != "VEVENT" {
		r.flagOOD("time-range on a non-VEVENT component")
		return triU
	}
	rs, re := f.Start.goTime(), f.End.goTime()
	first := true
	res := triU
	for _, z := range zonesFor(f.Start, f.End) {
		iv, why := eventInterval(c, z)
		if why != "" {
			r.flagOOD(why)
			return triU
		}
		if iv.rec != nil && !iv.rec.enumerable() {
			anchor := rs
			if f.Start.open() {
				anchor = re
			}
			if anchor.Sub(iv.S) > horizon {
				r.flagOOD("range more than 200 years after the DTSTART of a long or endless series")
				return triU
			}
		}
		hit := false
		for _, in := range iv.near(rs, f.Start.open()) {
			if overlaps(rs, re, f.Start.open(), f.End.open(), in[0], in[1], iv.instant) {
				hit = true
			}
		}
		if first {
			res, first = tbool(hit), false
		} else if tbool(hit) != res {
			r.flagAmb("floating / DATE value: verdict depends on the zone of interpretation")
			return triU
		}
		if !iv.floating {
			break
		}
	}
	return res
}

var dateTimeProps = map[string]bool{"DTSTART": true, "DTEND": true, "DUE": true, "DTSTAMP": true,
	"COMPLETED": true, "CREATED": true, "LAST-MODIFIED": true, "RECURRENCE-ID": true}

// propTimeRange: start <= value < end, the tie value == start being left
// open (the statement spells the rule out for events only).
func (r *refEval) propTimeRange(f PropFilter, p Prop) tri {
	if !dateTimeProps[p.Name] {
		r.flagOOD("time-range on a property that is not DATE / DATE-TIME valued")
		return triU
	}
	ct, why := parseCalTime(p)
	if why != "" {
		r.flagOOD("prop time-range: " + why)
		return triU
	}
	rs, re := f.Start.goTime(), f.End.goTime()
	first := true
	res := triU
	for _, z := range zonesFor(f.Start, f.End) {
		V, why := ct.resolve(z)
		if why != "" {
			r.flagOOD("prop time-range: " + why)
			return triU
		}
		lower, upper := triT, triT
		if !f.Start.open() {
			switch {
			case V.Equal(rs):
				lower = triU
				r.flagAmb("property value equals range start")
			case V.Before(rs):
				lower = triF
			}
		}
		if !f.End.open() && !V.Before(re) {
			upper = triF
		}
		v := tand(lower, upper)
		if ct.date {
			// a DATE value may also be read as the whole day [V, V+24h)
			if tbool(overlaps(rs, re, f.Start.open(), f.End.open(), V, V.Add(24*time.Hour), false)) != v {
				r.flagAmb("DATE property value: instant vs whole-day reading")
				return triU
			}
		}
		if first {
			res, first = v, false
		} else if v != res {
			r.flagAmb("floating / DATE value: verdict depends on the zone of interpretation")
			return triU
		}
		if ct.abs {
			break
		}
	}
	return res
}

package c06

import (
	"encoding/json"
	"fmt"
	"reflect"
	"regexp"
	"strconv"
	"strings"
	"time"

	"github.com/emersion/go-ical"
	"github.com/emersion/go-webdav/caldav"
	"github.com/emersion/go-webdav/verifharness/fw"
)

// Case is the literal, replayable description of one monitored call.
type Case struct {
	Op       string `json:"op"` // "match" | "filter"
	Universe string `json:"universe,omitempty"`
	// match: Filter against Object. filter: Filter (nil = nil query) over Objects.
	Filter  *CompFilter `json:"filter,omitempty"`
	Object  *Comp       `json:"object,omitempty"`
	Objects []Comp      `json:"objects,omitempty"`
	// WithRequest: the CalendarQuery also carries a calendar-data selection.
	WithRequest bool `json:"with_request,omitempty"`
	// Large: generator spec of a large-list Filter case (op "filter-large");
	// Filter and Objects are rebuilt from it, so the witness stays small.
	Large *LargeSpec `json:"large,omitempty"`
}

// witness is the replayable form written to journals and findings.
func (cs Case) witness() Case {
	if cs.Large != nil {
		return Case{Op: "filter-large", Universe: cs.Universe, Large: cs.Large}
	}
	return cs
}

type outcome struct {
	Class    string // agree | dont-care | skip | missed | spurious | error:<class> | panic:<site>
	Want     tri
	Got      bool
	Err      string
	Panic    string
	Ref      *refEval
	Modified string
}

var fixedModTime = time.Date(2024, 1, 1, 0, 0, 0, 0, time.UTC)

var (
	reQuoted = regexp.MustCompile(`"[^"]*"`)
	reDigits = regexp.MustCompile(`[0-9]+`)
)

func errClass(err error) string {
	s := err.Error()
	s = reQuoted.ReplaceAllString(s, "Q")
	s = reDigits.ReplaceAllString(s, "N")
	if len(s) > 100 {
		s = s[:100]
	}
	return s
}

// runMatch executes the real caldav.Match on values built from the literal,
// compares the arguments before/after, and classifies the result against the
// reference.
func runMatch(f CompFilter, root Comp) outcome {
	var o outcome
	lf := f.build()
	pristine := f.build()
	cal := &ical.Calendar{Component: root.build()}
	co := &caldav.CalendarObject{Path: "/cal/obj.ics", ModTime: fixedModTime, ContentLength: 1, ETag: `"e"`, Data: cal}
	before := dumpCal(cal.Component)
	var got bool
	var err error
	panicked, pv, stack := fw.Guard(func() { got, err = caldav.Match(lf, co) })
	switch {
	case co.Data != cal || cal.Component == nil || co.Path != "/cal/obj.ics" || !co.ModTime.Equal(fixedModTime) || co.ContentLength != 1 || co.ETag != `"e"`:
		o.Modified = "object-fields"
	case dumpCal(cal.Component) != before:
		o.Modified = "object-data"
	case !reflect.DeepEqual(lf, pristine):
		o.Modified = "filter"
	}
	o.Got = got
	if err != nil {
		o.Err = err.Error()
	}
	want, ref := Reference(f, root)
	o.Want, o.Ref = want, ref
	switch {
	case len(ref.ood) > 0:
		o.Class = "skip"
	case want == triU:
		o.Class = "dont-care"
	case panicked:
		o.Panic = fmt.Sprint(pv)
		o.Class = "panic:" + fw.PanicSite(stack)
	case err != nil:
		o.Class = "error:" + errClass(err)
	case got == (want == triT):
		o.Class = "agree"
	case want == triT:
		o.Class = "missed"
	default:
		o.Class = "spurious"
	}
	if panicked && o.Panic == "" {
		o.Panic = fmt.Sprint(pv)
	}
	return o
}

func failing(class string) bool {
	return class == "missed" || class == "spurious" || strings.HasPrefix(class, "error:") || strings.HasPrefix(class, "panic:")
}

// execMatch is the monitor for one Match call.
func execMatch(c *fw.Ctx, cs Case) outcome {
	c.Journal(cs)
	f, root := *cs.Filter, *cs.Object
	o := runMatch(f, root)
	c.Eval(1)
	c.Observe("universe", cs.Universe, 1)
	switch o.Class {
	case "skip":
		c.Observe("domain", "outside-domain (executed, no verdict demanded)", 1)
		for why := range o.Ref.ood {
			c.Observe("outside_domain_reasons", why, 1)
		}
		if o.Ref.ood[oodExdateList] > 0 && strings.Contains(strings.ToLower(o.Err), "exdate") {
			// a valid object (RFC 5545 3.8.5.1) Match cannot evaluate
			c.Report("recurring|EXDATE property holding a list of values|Match fails with an exdate parse error",
				"Match failed with "+strconv.Quote(o.Err)+" on a valid recurring event whose EXDATE property lists several dates", cs)
		}
		if strings.Contains(o.Err, "unknown time zone") && usesOwnTimezone(root) {
			// a valid object (RFC 5545 3.2.19, 3.6.5: a TZID names a
			// VTIMEZONE of the same object) Match cannot evaluate
			c.Report("time-range|TZID defined by a VTIMEZONE of the object, not an IANA name|Match fails with an unknown-time-zone error",
				"Match failed with "+strconv.Quote(o.Err)+" on a valid event whose TZID names a VTIMEZONE component of the same calendar object", cs)
		}
		if o.Panic != "" {
			c.Observe("outside_domain_behaviour", "panic: "+o.Panic, 1)
		} else if o.Err != "" {
			c.Observe("outside_domain_behaviour", "error", 1)
		} else {
			c.Observe("outside_domain_behaviour", fmt.Sprintf("returned %v", o.Got), 1)
		}
	case "dont-care":
		c.Observe("domain", "dont-care (admissible readings disagree)", 1)
		for why := range o.Ref.amb {
			c.Observe("dont_care_reasons", why, 1)
		}
	default:
		c.Observe("domain", "verdict demanded", 1)
		c.Observe("reference_verdict", o.Want.String(), 1)
		c.Distinct(renderComp(f, []Comp{root}, true, true) + "=>" + o.Want.String())
		features(c, f)
		if c.WantSample() && (len(f.Comps) > 0 && (len(f.Comps[0].Props) > 0 || f.Comps[0].Start.hasRange())) {
			c.Sample(map[string]interface{}{"case": cs, "reference": o.Want.String(), "match_returned": o.Got, "match_error": o.Err})
		}
	}
	if o.Modified != "" {
		c.Report("Match|inputs-modified|"+o.Modified, "Match modified its arguments ("+o.Modified+")", cs)
	}
	c.Observe("inputs_unmodified_checks", "Match", 1)
	if failing(o.Class) {
		rf, rroot, steps := shrink(f, root, o.Class)
		c.Observe("reduction", "failing cases reduced", 1)
		c.Observe("reduction", "reduction candidate evaluations", steps)
		ro := runMatch(rf, rroot)
		key := keyOf(rf, rroot, o.Class)
		what := fmt.Sprintf("Match returned %v, RFC 4791 reference says %v", ro.Got, ro.Want)
		if ro.Err != "" {
			what = fmt.Sprintf("Match failed with %q, RFC 4791 reference says %v", ro.Err, ro.Want)
		}
		if ro.Panic != "" {
			what = fmt.Sprintf("Match panicked (%s), RFC 4791 reference says %v", ro.Panic, ro.Want)
		}
		red := Case{Op: "match", Universe: cs.Universe, Filter: &rf, Object: &rroot}
		c.Report(key, what, map[string]interface{}{"case": red, "reference": ro.Want.String(), "match_returned": ro.Got, "match_error": ro.Err})
	}
	return o
}

// features records which filter constructs took part in demanded verdicts.
func features(c *fw.Ctx, f CompFilter) {
	var walk func(f CompFilter, depth int)
	walk = func(f CompFilter, depth int) {
		if f.IsNotDefined {
			c.Observe("constructs_in_demanded_cases", "comp-filter is-not-defined", 1)
		}
		if f.Start.hasRange() || f.End.hasRange() {
			switch {
			case !f.Start.hasRange():
				c.Observe("constructs_in_demanded_cases", "comp time-range open start", 1)
			case !f.End.hasRange():
				c.Observe("constructs_in_demanded_cases", "comp time-range open end", 1)
			default:
				c.Observe("constructs_in_demanded_cases", "comp time-range closed", 1)
			}
		}
		if depth >= 2 {
			c.Observe("constructs_in_demanded_cases", "comp-filter nested >= 2 below VCALENDAR", 1)
		}
		for _, p := range f.Props {
			if p.IsNotDefined {
				c.Observe("constructs_in_demanded_cases", "prop-filter is-not-defined", 1)
			}
			if p.Start.hasRange() || p.End.hasRange() {
				c.Observe("constructs_in_demanded_cases", "prop time-range", 1)
			}
			if p.Text != nil {
				if p.Text.Negate {
					c.Observe("constructs_in_demanded_cases", "prop text-match negate", 1)
				} else {
					c.Observe("constructs_in_demanded_cases", "prop text-match", 1)
				}
			}
			for _, pa := range p.Params {
				switch {
				case pa.IsNotDefined:
					c.Observe("constructs_in_demanded_cases", "param-filter is-not-defined", 1)
				case pa.Text != nil && pa.Text.Negate:
					c.Observe("constructs_in_demanded_cases", "param text-match negate", 1)
				case pa.Text != nil:
					c.Observe("constructs_in_demanded_cases", "param text-match", 1)
				default:
					c.Observe("constructs_in_demanded_cases", "param-filter plain", 1)
				}
			}
		}
		for _, cf := range f.Comps {
			walk(cf, depth+1)
		}
	}
	walk(f, 0)
}

// execFilter is the monitor for one Filter call: the result must be the
// order-preserving subsequence of the input made of exactly the matching
// objects, the objects themselves unmodified; the whole input for a nil
// query. Per-object Match discrepancies against the reference are reported by
// execMatch (under Match keys); here Filter is compared with Match object by
// object, and with the reference wherever Match agrees with it.
func execFilter(c *fw.Ctx, cs Case) {
	wit := cs.witness()
	c.Journal(wit)
	n := len(cs.Objects)
	cos := make([]caldav.CalendarObject, n)
	orig := make([]caldav.CalendarObject, n)
	dumps := make([]string, n)
	for i, o := range cs.Objects {
		cos[i] = caldav.CalendarObject{Path: fmt.Sprintf("/cal/%d.ics", i), ModTime: fixedModTime.Add(time.Duration(i) * time.Second),
			ContentLength: int64(100 + i), ETag: fmt.Sprintf(`"etag-%d"`, i), Data: &ical.Calendar{Component: o.build()}}
		orig[i] = cos[i]
		dumps[i] = dumpCal(cos[i].Data.Component)
	}
	var query, pristine *caldav.CalendarQuery
	if cs.Filter != nil {
		mk := func() *caldav.CalendarQuery {
			q := &caldav.CalendarQuery{CompFilter: cs.Filter.build()}
			if cs.WithRequest {
				q.CompRequest = caldav.CalendarCompRequest{Name: "VCALENDAR", Props: []string{"VERSION"},
					Comps: []caldav.CalendarCompRequest{{Name: "VEVENT", Props: []string{"SUMMARY", "UID"}}}}
			}
			return q
		}
		query, pristine = mk(), mk()
	}
	var out []caldav.CalendarObject
	var err error
	panicked, pv, stack := fw.Guard(func() { out, err = caldav.Filter(query, cos) })
	c.Eval(1)
	c.Observe("universe", cs.Universe+" (Filter)", 1)
	c.Observe("inputs_unmodified_checks", "Filter", 1)

	// arguments unmodified
	mod := ""
	for i := range cos {
		if cos[i] != orig[i] {
			mod = "input-slice-element"
		} else if dumpCal(cos[i].Data.Component) != dumps[i] {
			mod = "object-data"
		}
	}
	if !reflect.DeepEqual(query, pristine) {
		mod = "query"
	}
	if mod != "" {
		c.Report("Filter|inputs-modified|"+mod, "Filter modified its arguments ("+mod+")", wit)
	}
	if panicked {
		// by-design panic only for nil Data, never generated
		c.Report("Filter|panic:"+fw.PanicSite(stack), fmt.Sprintf("Filter panicked: %v", pv), wit)
		return
	}

	// per-object Match on fresh values + reference
	type per struct {
		m       bool
		failed  bool
		want    tri
		inScope bool
	}
	pers := make([]per, n)
	anyFail := false
	allDemanded := true
	if cs.Filter != nil {
		for i, o := range cs.Objects {
			ro := runMatch(*cs.Filter, o)
			pers[i] = per{m: ro.Got, failed: ro.Err != "" || ro.Panic != "", want: ro.Want, inScope: ro.Class != "skip" && ro.Class != "dont-care"}
			if pers[i].failed {
				anyFail = true
			}
			if !pers[i].inScope {
				allDemanded = false
			}
		}
	}

	if cs.Filter == nil {
		c.Observe("filter_function", "nil query", 1)
		ok := err == nil && len(out) == n
		if ok {
			for i := range out {
				if out[i] != orig[i] || dumpCal(out[i].Data.Component) != dumps[i] {
					ok = false
				}
			}
		}
		if !ok {
			c.Report("Filter|nil-query|not-the-whole-input", fmt.Sprintf("Filter(nil) returned %d objects / err=%v for %d inputs", len(out), err, n), wit)
		}
		return
	}
	if err != nil {
		c.Observe("filter_function", "returned error", 1)
		if !anyFail && allDemanded {
			c.Report("Filter|error-although-every-Match-succeeds", "Filter failed with "+err.Error(), wit)
		}
		return
	}
	if anyFail {
		c.Observe("filter_function", "no error although a Match errs (not judged)", 1)
		return
	}
	c.Observe("filter_function", "judged", 1)
	c.Observe("filter_function", fmt.Sprintf("input size %d", n), 1)
	if cs.Large != nil {
		c.Observe("filter_large_lists", fmt.Sprintf("n=%d judged", n), 1)
		c.Observe("filter_large_lists", fmt.Sprintf("pattern %s / GOMAXPROCS %d", cs.Large.Pattern, cs.Large.Procs), 1)
		c.Distinct(fmt.Sprintf("filter-large|n=%d|%s|%s|%s|procs=%d", n, cs.Large.Pattern, cs.Large.Flavor, cs.Large.Heavy, cs.Large.Procs))
	}
	// subsequence + identity
	pos := 0
	included := make([]bool, n)
	for _, o := range out {
		found := false
		for pos < n {
			if orig[pos].Path == o.Path {
				found = true
				break
			}
			pos++
		}
		if !found {
			// right objects in the wrong order, or duplicates / foreign objects?
			seen := map[string]int{}
			for _, x := range out {
				seen[x.Path]++
			}
			orderOnly := true
			for p, k := range seen {
				known := false
				for i := range orig {
					if orig[i].Path == p {
						known = true
						break
					}
				}
				if k != 1 || !known {
					orderOnly = false
				}
			}
			if orderOnly {
				c.Report("Filter|returned-objects-not-in-input-order", fmt.Sprintf("Filter returned %d distinct input objects, but not in input order (first out of place: %s)", len(out), o.Path), wit)
			} else {
				c.Report("Filter|not-an-order-preserving-subsequence", "Filter output is not a subsequence of its input (duplicate or foreign object)", wit)
			}
			return
		}
		if o != orig[pos] || dumpCal(o.Data.Component) != dumps[pos] {
			c.Report("Filter|returned-object-differs-from-input", "Filter returned a modified object for "+o.Path, wit)
			return
		}
		included[pos] = true
		pos++
	}
	for i := range pers {
		c.Observe("filter_function", "objects judged", 1)
		if included[i] != pers[i].m {
			if included[i] {
				c.Report("Filter|includes-object-Match-rejects", fmt.Sprintf("Filter returned object %d although Match reports false", i), wit)
			} else {
				c.Report("Filter|drops-object-Match-accepts", fmt.Sprintf("Filter dropped object %d although Match reports true", i), wit)
			}
			continue
		}
		if pers[i].inScope {
			if included[i] == (pers[i].want == triT) {
				c.Observe("filter_function", "objects where Filter = reference", 1)
			} else {
				c.Observe("filter_function", "objects where Filter deviates exactly as Match does (reported under the Match key)", 1)
			}
		}
	}
}

func c06Run(c *fw.Ctx) {
	idx := 0
	deal := func() bool {
		mine := c.Mine(idx)
		idx++
		return mine
	}
	runTimeRangeUniverse(c, deal)
	runTreeUniverse(c, deal)
	runRecurringUniverse(c, deal)
	runOwnTimezoneUniverse(c, deal)
	runRandomUniverse(c)
	runLargeListUniverse(c, deal)
	runTextUniverse(c, deal)
	c.JournalDone()
}

func replay(c *fw.Ctx, w json.RawMessage) {
	var wrap struct {
		Case *Case `json:"case"`
	}
	var cs Case
	if json.Unmarshal(w, &wrap) == nil && wrap.Case != nil {
		cs = *wrap.Case
	} else if json.Unmarshal(w, &cs) != nil {
		return
	}
	switch cs.Op {
	case "match":
		if cs.Filter != nil && cs.Object != nil {
			o := execMatch(c, cs)
			fmt.Printf("replay: Match returned %v err=%q; reference %v; class %s\n", o.Got, o.Err, o.Want, o.Class)
		}
	case "filter-large":
		if cs.Large != nil {
			execLarge(c, *cs.Large)
		}
	case "filter":
		execFilter(c, cs)
		if cs.Filter != nil {
			for i := range cs.Objects {
				execMatch(c, Case{Op: "match", Universe: cs.Universe, Filter: cs.Filter, Object: &cs.Objects[i]})
			}
		}
	}
}

func init() {
	fw.Register(&fw.Property{
		ID:     "C06",
		Run:    c06Run,
		Replay: replay,
		Rule: "Every case calls the real caldav.Match (or caldav.Filter) on go-ical objects built in memory and compares with an independent three-valued RFC 4791 9.7-9.9 evaluator. " +
			"Exhaustive sub-universes (flagged in observations.universe): (a) time-range: every placement of {range start, range end, DTSTART, end} on a 5-point hour grid (hence every weak ordering incl. all ties) for DTEND / DURATION>0 / DURATION=0 / DATE-TIME start only, open-start and open-end variants, DTSTART spelled in UTC, TZID=Europe/Paris, TZID=America/New_York and floating, range values carried in UTC and in a zoned time.Time, with and without a non-overlapping decoy VEVENT placed first; all-day (DATE) starts on a threshold grid; " +
			"(b) filter trees: every tree of <= 3 (thorough <= 4) nodes below the VCALENDAR filter over kinds {comp, prop, param, text-match, time-range} x flags {is-not-defined, negate-condition} with names from a 3-component / 3-property / 2-parameter alphabet, against 8 fixed calendars; " +
			"(c) recurring: FREQ=DAILY|WEEKLY x COUNT 1-4 x INTERVAL 1-2 x duration {0, 1h, 25h} (DTEND and DURATION spellings) x all ranges over a grid of instance boundaries +-30min, instances computed by the harness's own expander; zoned (TZID across a UTC-offset change) and EXDATE variants; " +
			"(c-long) the range far into a series: FREQ=SECONDLY|MINUTELY|HOURLY|DAILY|WEEKLY x INTERVAL 1|3 x {no end, COUNT, UNTIL: instance n is the last one / the first that no longer exists} x instances of length {0, half a step, one and a half steps} on a ladder of n = 0, 7.., 60.., 400.., 1500.., 6000.., 20000.. (thorough also 60000.., 200000..) instances between DTSTART and the range (exact n drawn from the seed), ranges: first second of instance n, the gaps before and behind it, open-ended from there; the reference decides these arithmetically (instance k = DTSTART + k steps); " +
			"(c-allday) recurring events with a DATE or floating DTSTART (DAILY/WEEKLY, COUNT 1-3; no end / DTEND / DURATION), the series expanded on the wall clock of every admissible zone of interpretation, windows over the instance-boundary grid bracketed at -14h / 0 / +12h, range values in UTC and in America/New_York; " +
			"(g) events whose TZID names a VTIMEZONE of the object itself (not an IANA name): no verdict, Match must evaluate them without an error; " +
			"(a) also carries range bounds half a second off the grid and range start / end in different Locations; " +
			"random: seeded larger objects and filters, plus caldav.Filter over lists of objects (subsequence, identity, nil query). " +
			"(f) text-match, exhaustive: 18 property values (TEXT escapes \\\\ \\, \\; \\n \\N, unescaped commas = list values, semicolons, empty, leading/trailing comma, non-ASCII, mixed case) x every needle that is a substring (<= 5 runes) of the raw value, of the unescaped value or of a list item, whole items, ASCII case variants, the empty and an absent needle x negate on/off x properties {SUMMARY, CATEGORIES, RESOURCES (TEXT), X-A (no type), X-A;VALUE=TEXT}; parameter values likewise (single, and as 2nd value of a multi-valued parameter). " +
			"(e) large lists: caldav.Filter over lists of 16..4096 objects (lengths around every power of two and 100/500/1000) x match patterns {all, none, alternating, first-only, last-only, ends-only, random} x text / time-range queries x cheap / front-heavy / back-heavy objects, each at GOMAXPROCS 1 and >1, repeated; also nil query. " +
			"distinct_nontrivial counts distinct abstract renderings (node kinds, flags, existence relations, order pattern of range vs. event) of cases in which a verdict was demanded.",
		Assumptions: []string{
			"the reference evaluator transcribes RFC 4791 9.7-9.9 as restated by the property; a verdict is demanded only when all admissible readings agree (raw vs unescaped text, octet vs ASCII-folded comparison, list item vs whole value, first vs any of several same-named properties / parameter values, empty parameter value present vs absent, names differing in case only, zone of floating and DATE values: any UTC offset -12h..+14h, property value equal to the range start)",
			"outside the domain (executed, not judged): time-range on non-VEVENT components, DTEND <= DTSTART, range end <= start, prop-filter with both time-range and text-match, is-not-defined combined with children, top-level filter name different from the object's top-level component, VEVENT without exactly one DTSTART or with RECURRENCE-ID/EXDATE/RDATE under a time-range, recurrence rules outside FREQ=SECONDLY|MINUTELY|HOURLY|DAILY|WEEKLY[;COUNT<=10^7|;UNTIL=<UTC date-time, not before DTSTART>][;INTERVAL<=100] with a UTC DTSTART (a TZID, floating or DATE DTSTART, and EXDATE: FREQ=DAILY|WEEKLY with COUNT<=1000 only), ranges more than 200 years after the DTSTART of a series that is not expanded instance by instance (COUNT>1000, UNTIL or endless: rrule-go's own horizon is about 290 years), local times within 26h of a UTC-offset transition",
			"objects are component trees rooted at VCALENDAR with upper-case names, built in memory with go-ical; nil Data (documented panic) is never generated",
			"TZID values are IANA names resolvable on this machine (Europe/Paris, America/New_York); VTIMEZONE definitions are not consulted",
			"Filter is compared with Match object by object and Match with the reference, so Filter = reference follows wherever both comparisons are silent",
		},
		MinEvals: func(t string) int64 {
			if t == "thorough" {
				return 1500000
			}
			return 100000
		},
		MinDistinct: func(t string) int64 { return 10000 },
	})
}

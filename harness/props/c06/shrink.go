package c06

import (
	"sort"
	"strings"
	"time"
)

// ---------------------------------------------------------------------------
// Reduction of a failing (filter, object) pair to a locally minimal one, and
// the abstract key of the reduced pair: "filter node kind | flags | relation
// pattern" (DESIGN.md section 4).
//
// A reduction step is accepted iff the reduced pair is still in the domain and
// still fails in the same way (same class: missed / spurious / same error
// class / same panic site). Every step strictly decreases
// (#filter nodes + #flags + #object nodes + #non-UTC spellings + sub-second
// range bounds + rule parts + COUNT + INTERVAL + distance of DTSTART from the
// year 2200 / from UNTIL), so the loop terminates.
// ---------------------------------------------------------------------------

func shrink(f CompFilter, root Comp, class string) (CompFilter, Comp, int) {
	steps := 0
	for {
		improved := false
		tryCand := func(nf CompFilter, nr Comp) bool {
			steps++
			if o := runMatch(nf, nr); o.Class == class {
				f, root = nf, nr
				improved = true
				return true
			}
			return false
		}
		// A. keep a single child filter of the top-level filter
		if len(f.Comps)+len(f.Props) > 1 {
			for i := range f.Comps {
				nf := f.clone()
				nf.Comps = []CompFilter{nf.Comps[i]}
				nf.Props = nil
				if tryCand(nf, root) {
					break
				}
			}
			if improved {
				continue
			}
			for i := range f.Props {
				nf := f.clone()
				nf.Props = []PropFilter{nf.Props[i]}
				nf.Comps = nil
				if tryCand(nf, root) {
					break
				}
			}
			if improved {
				continue
			}
		}
		// B. keep a single child component of the object
		if len(root.Children) > 1 {
			for i := range root.Children {
				nr := root.clone()
				nr.Children = []Comp{nr.Children[i]}
				if tryCand(f, nr) {
					break
				}
			}
			if improved {
				continue
			}
		}
		// C. lift a plain nested comp-filter (and the component it is applied
		// to) one level up
		for i, g := range f.Comps {
			if g.IsNotDefined || g.Start.hasRange() || g.End.hasRange() {
				continue
			}
			for _, ch := range root.Children {
				if ch.Name != g.Name {
					continue
				}
				nf := f.clone()
				nf.Comps = append([]CompFilter(nil), nf.Comps[i].Comps...)
				nf.Props = append([]PropFilter(nil), f.clone().Comps[i].Props...)
				nr := Comp{Name: root.Name, Props: ch.clone().Props, Children: ch.clone().Children}
				if tryCand(nf, nr) {
					break
				}
			}
			if improved {
				break
			}
		}
		if improved {
			continue
		}
		// D/E. single-node removals and flag clearings in the filter
		for k := 0; ; k++ {
			nf := f.clone()
			kk := k
			if !reduceCompFilter(&nf, &kk) {
				break
			}
			if tryCand(nf, root) {
				break
			}
		}
		if improved {
			continue
		}
		// F/G/H. single-node removals and simplifications in the object
		for k := 0; ; k++ {
			nr := root.clone()
			kk := k
			if !reduceComp(&nr, &kk) {
				break
			}
			if tryCand(f, nr) {
				break
			}
		}
		if improved {
			continue
		}
		return f, root, steps
	}
}

func hit(k *int) bool {
	if *k == 0 {
		*k = -1
		return true
	}
	*k--
	return false
}

func reduceTextMatch(t **TextMatch, k *int) bool {
	if *t == nil {
		return false
	}
	if hit(k) {
		*t = nil
		return true
	}
	if (*t).Negate && hit(k) {
		(*t).Negate = false
		return true
	}
	return false
}

func reduceRange(s, e *Time, k *int) bool {
	if !s.hasRange() && !e.hasRange() {
		return false
	}
	if hit(k) {
		*s, *e = Time{}, Time{}
		return true
	}
	if (s.Loc != "" && s.Loc != "UTC") || (e.Loc != "" && e.Loc != "UTC") {
		if hit(k) {
			s.Loc, e.Loc = "", ""
			return true
		}
	}
	if (s.Nanos != 0 || e.Nanos != 0) && hit(k) {
		s.Nanos, e.Nanos = 0, 0
		return true
	}
	return false
}

// reduceCompFilter applies the k-th single reduction (pre-order) in place.
func reduceCompFilter(f *CompFilter, k *int) bool {
	if reduceRange(&f.Start, &f.End, k) {
		return true
	}
	if f.IsNotDefined && hit(k) {
		f.IsNotDefined = false
		return true
	}
	for i := range f.Props {
		if hit(k) {
			f.Props = append(f.Props[:i:i], f.Props[i+1:]...)
			return true
		}
	}
	for i := range f.Comps {
		if hit(k) {
			f.Comps = append(f.Comps[:i:i], f.Comps[i+1:]...)
			return true
		}
	}
	for i := range f.Props {
		p := &f.Props[i]
		if reduceRange(&p.Start, &p.End, k) {
			return true
		}
		if p.IsNotDefined && hit(k) {
			p.IsNotDefined = false
			return true
		}
		if reduceTextMatch(&p.Text, k) {
			return true
		}
		for j := range p.Params {
			if hit(k) {
				p.Params = append(p.Params[:j:j], p.Params[j+1:]...)
				return true
			}
		}
		for j := range p.Params {
			pa := &p.Params[j]
			if pa.IsNotDefined && hit(k) {
				pa.IsNotDefined = false
				return true
			}
			if reduceTextMatch(&pa.Text, k) {
				return true
			}
		}
	}
	for i := range f.Comps {
		if reduceCompFilter(&f.Comps[i], k) {
			return true
		}
	}
	return false
}

// reduceComp applies the k-th single reduction of the object in place.
func reduceComp(c *Comp, k *int) bool {
	for i := range c.Children {
		if hit(k) {
			c.Children = append(c.Children[:i:i], c.Children[i+1:]...)
			return true
		}
	}
	for i := range c.Props {
		if hit(k) {
			c.Props = append(c.Props[:i:i], c.Props[i+1:]...)
			return true
		}
	}
	for i := range c.Props {
		p := &c.Props[i]
		for j := range p.Params {
			if p.Params[j].Name == "VALUE" {
				continue // removing VALUE=DATE makes the value malformed, not smaller
			}
			if p.Params[j].Name == "TZID" {
				// respell the zoned date-time as the same instant in UTC
				if ct, why := parseCalTime(*p); why == "" && ct.abs && hit(k) {
					*p = dtProp(p.Name, ct.t, "utc")
					return true
				}
				continue
			}
			if hit(k) {
				p.Params = append(p.Params[:j:j], p.Params[j+1:]...)
				return true
			}
			if len(p.Params[j].Vals) > 1 {
				for v := range p.Params[j].Vals {
					if hit(k) {
						vs := p.Params[j].Vals
						p.Params[j].Vals = append(vs[:v:v], vs[v+1:]...)
						return true
					}
				}
			}
		}
	}
	// respell a DATE or floating time value as the UTC date-time with the
	// same digits (fewer non-UTC spellings)
	respellable := func(p Prop) (time.Time, bool) {
		if !dateTimeProps[p.Name] {
			return time.Time{}, false
		}
		ct, why := parseCalTime(p)
		if why != "" || ct.abs {
			return time.Time{}, false
		}
		t, why := ct.resolve(time.UTC)
		return t, why == ""
	}
	nres := 0
	for _, p := range c.Props {
		if _, ok := respellable(p); ok {
			nres++
		}
	}
	if nres > 1 && hit(k) { // all of them at once (DTSTART and DTEND must agree in type)
		for i := range c.Props {
			if t, ok := respellable(c.Props[i]); ok {
				c.Props[i] = dtProp(c.Props[i].Name, t, "utc")
			}
		}
		return true
	}
	for i := range c.Props {
		if t, ok := respellable(c.Props[i]); ok && hit(k) {
			c.Props[i] = dtProp(c.Props[i].Name, t, "utc")
			return true
		}
	}
	if reduceRecurrence(c, k) {
		return true
	}
	for i := range c.Children {
		if reduceComp(&c.Children[i], k) {
			return true
		}
	}
	return false
}

// reduceRecurrence: drop COUNT / UNTIL; drop the last m instances, drop the first m instances
// (shift the event by m steps) for m = the powers of two below the number of
// instances, largest first; an endless series or one with UNTIL only loses
// leading instances; INTERVAL -> 1. A series of thousands of instances is thus
// cut down in a few dozen steps.
func reduceRecurrence(c *Comp, k *int) bool {
	if c.Name != "VEVENT" {
		return false
	}
	ri := -1
	for i, p := range c.Props {
		if p.Name == "RRULE" {
			ri = i
		}
	}
	if ri < 0 {
		return false
	}
	rr, ok := parseRRule(c.Props[ri].Value)
	if !ok {
		return false
	}
	// shifting DTSTART (and DTEND) needs UTC spellings
	shiftable := true
	var start time.Time
	for _, p := range c.Props {
		if p.Name == "DTSTART" || p.Name == "DTEND" {
			ct, why := parseCalTime(p)
			if why != "" || !ct.abs || ct.spelling != "utc" {
				shiftable = false
			} else if p.Name == "DTSTART" {
				start = ct.t
			}
		}
	}
	shift := func(m int) {
		for i, p := range c.Props {
			if p.Name == "DTSTART" || p.Name == "DTEND" {
				ct, _ := parseCalTime(p)
				c.Props[i] = dtProp(p.Name, ct.t.Add(time.Duration(m)*rr.step), "utc")
			}
		}
	}
	// a series whose end plays no part in the failure is stated without one
	if (rr.count != 0 || rr.hasUntil) && hit(k) {
		n := *rr
		n.count, n.hasUntil = 0, false
		c.Props[ri].Value = n.spell()
		return true
	}
	top := 1
	switch {
	case rr.count > 1:
		for top*2 < rr.count {
			top *= 2
		}
		for m := top; m >= 1; m /= 2 {
			if hit(k) {
				n := *rr
				n.count -= m
				c.Props[ri].Value = n.spell()
				return true
			}
			if shiftable && hit(k) {
				n := *rr
				n.count -= m
				c.Props[ri].Value = n.spell()
				shift(m)
				return true
			}
		}
	case rr.count == 0 && shiftable && !start.IsZero():
		// the series keeps its end (if any); DTSTART moves towards it, never
		// past UNTIL nor past the year 2200, so this comes to an end
		limit := time.Date(2200, 1, 1, 0, 0, 0, 0, time.UTC)
		if rr.hasUntil && rr.until.Before(limit) {
			limit = rr.until
		}
		for m := 1 << 22; m >= 1; m /= 2 {
			if time.Duration(m) > horizon/rr.step {
				continue
			}
			if !start.Add(time.Duration(m)*rr.step).After(limit) && hit(k) {
				shift(m)
				return true
			}
		}
	}
	if rr.ival > 1 && hit(k) {
		n := *rr
		n.ival = 1
		c.Props[ri].Value = n.spell()
		return true
	}
	return false
}

// ---------------------------------------------------------------------------
// Abstract keys
// ---------------------------------------------------------------------------

type point struct {
	label string
	t     time.Time
	rank  int
}

// orderPattern renders the weak ordering of the labelled instants, e.g.
// "rs=S<E=re".
func orderPattern(pts []point) string {
	sort.SliceStable(pts, func(i, j int) bool {
		if !pts[i].t.Equal(pts[j].t) {
			return pts[i].t.Before(pts[j].t)
		}
		return pts[i].rank < pts[j].rank
	})
	var sb strings.Builder
	for i, p := range pts {
		if i > 0 {
			if p.t.Equal(pts[i-1].t) {
				sb.WriteByte('=')
			} else {
				sb.WriteByte('<')
			}
		}
		sb.WriteString(p.label)
	}
	return sb.String()
}

func rangePattern(s, e Time, S, E time.Time, instant bool) string {
	var pts []point
	prefix := ""
	if s.hasRange() {
		pts = append(pts, point{"rs", s.goTime(), 0})
	} else {
		prefix = "open-start:"
	}
	pts = append(pts, point{"S", S, 1})
	if !instant {
		pts = append(pts, point{"E", E, 2})
	}
	if e.hasRange() {
		pts = append(pts, point{"re", e.goTime(), 3})
	} else {
		prefix = "open-end:"
	}
	return prefix + orderPattern(pts)
}

// decisiveInstance picks the instance that explains the reference verdict:
// the first overlapping one, or else the one nearest to the range.
func decisiveInstance(f CompFilter, iv evInterval) (time.Time, time.Time) {
	rs, re := f.Start.goTime(), f.End.goTime()
	ins := iv.near(rs, f.Start.open())
	if len(ins) == 0 {
		return iv.S, iv.E
	}
	for _, in := range ins {
		if overlaps(rs, re, f.Start.open(), f.End.open(), in[0], in[1], iv.instant) {
			return in[0], in[1]
		}
	}
	best := 0
	var bestGap time.Duration = -1
	for i, in := range ins {
		var gap time.Duration
		switch {
		case !f.End.open() && !in[0].Before(re):
			gap = in[0].Sub(re)
		case !f.Start.open():
			gap = rs.Sub(in[1])
		}
		if gap < 0 {
			gap = -gap
		}
		if bestGap < 0 || gap < bestGap {
			best, bestGap = i, gap
		}
	}
	return ins[best][0], ins[best][1]
}

func verdictWord(v tri) string {
	switch v {
	case triT:
		return "holds"
	case triF:
		return "fails"
	}
	return "open"
}

// compTRPattern: for a single component the full order pattern; for several
// components only the reference's per-component verdicts, in order.
func compTRPattern(f CompFilter, named []Comp, deep bool) string {
	if len(named) > 1 && !deep {
		var l []string
		for i, c := range named {
			if i == 3 {
				l = append(l, "...")
				break
			}
			r := &refEval{ood: map[string]int{}, amb: map[string]int{}}
			v := r.compTimeRange(f, c)
			switch {
			case len(r.ood) > 0:
				l = append(l, "out-of-domain")
			case v == triT:
				l = append(l, "overlap")
			case v == triF:
				l = append(l, "no-overlap")
			default:
				l = append(l, "open")
			}
		}
		return "[" + strings.Join(l, ",") + "]" + rangeZoneSuffix(f.Start, f.End)
	}
	set := map[string]bool{}
	for _, c := range named {
		if c.Name != "VEVENT" {
			set["non-VEVENT"] = true
			continue
		}
		// floating / DATE values are placed in the Location carried by the
		// range bounds (UTC if none) for the purpose of the pattern
		zone := time.UTC
		for _, t := range []Time{f.Start, f.End} {
			if t.hasRange() && t.Loc != "" && t.Loc != "UTC" {
				if l, err := loadLoc(t.Loc); err == nil {
					zone = l
				}
			}
		}
		iv, why := eventInterval(c, zone)
		if why != "" {
			set["out-of-domain"] = true
			continue
		}
		s := iv.kind
		S, E := iv.S, iv.E
		if iv.rec != nil {
			s += "|recurring"
			switch {
			case iv.rec.count > 1:
				s += "(several instances)"
			case iv.rec.hasUntil:
				s += "(until)"
			case iv.rec.count == 0:
				s += "(endless)"
			}
			S, E = decisiveInstance(f, iv)
		}
		s += "|" + rangePattern(f.Start, f.End, S, E, iv.instant)
		if iv.spelling != "utc" {
			s += "|" + iv.spelling
		} else if iv.floating {
			s += "|floating-end"
		}
		set[s] = true
	}
	return joinSet(set) + rangeZoneSuffix(f.Start, f.End)
}

func rangeZoneSuffix(s, e Time) string {
	if (s.hasRange() && s.Loc != "" && s.Loc != "UTC") || (e.hasRange() && e.Loc != "" && e.Loc != "UTC") {
		return "|range-in-zone"
	}
	return ""
}

func joinSet(set map[string]bool) string {
	if len(set) == 0 {
		return "not-applied"
	}
	var l []string
	for k := range set {
		l = append(l, k)
	}
	sort.Strings(l)
	if len(l) > 2 {
		l = append(l[:2], "more")
	}
	return strings.Join(l, "+")
}

func existsWord(what string, n int) string {
	switch {
	case n == 0:
		return what + "-absent"
	case n == 1:
		return what + "-exists"
	}
	return what + "-exists-many"
}

func joinKids(kids []string) string {
	if len(kids) == 1 {
		return kids[0]
	}
	return "(" + strings.Join(kids, " & ") + ")"
}

// renderComp renders a comp-filter against the components in scope. deep
// selects the fully detailed rendering (used to count distinct cases); keys
// use the shallow one, which abbreviates sibling filters and multi-component
// time patterns to the reference's verdicts.
func renderComp(f CompFilter, scope []Comp, top, deep bool) string {
	var named []Comp
	for _, c := range scope {
		if c.Name == f.Name {
			named = append(named, c)
		}
	}
	s := "comp-filter"
	if top {
		s = "comp-filter(top)"
	}
	if f.IsNotDefined {
		s += "|is-not-defined"
	}
	s += "|" + existsWord("component", len(named))
	hasTR := f.Start.hasRange() || f.End.hasRange()
	if hasTR {
		s += "|time-range|" + compTRPattern(f, named, deep)
	}
	var childScope []Comp
	for _, c := range named {
		childScope = append(childScope, c.Children...)
	}
	var kids []string
	if len(f.Comps)+len(f.Props) > 1 && !deep {
		// several sibling filters: each only by kind, flag and the
		// reference's verdict for it alone
		for _, cf := range f.Comps {
			r := &refEval{ood: map[string]int{}, amb: map[string]int{}}
			k := "comp-filter"
			if cf.IsNotDefined {
				k += "|is-not-defined"
			}
			kids = append(kids, k+":"+verdictWord(r.compFilter(cf, childScope)))
		}
		for _, pf := range f.Props {
			k := "prop-filter"
			if pf.IsNotDefined {
				k += "|is-not-defined"
			}
			kids = append(kids, k+":"+propVerdictOver(pf, named))
		}
	} else {
		for _, cf := range f.Comps {
			kids = append(kids, renderComp(cf, childScope, false, deep))
		}
		for _, pf := range f.Props {
			kids = append(kids, renderProp(pf, named, deep))
		}
	}
	if len(kids) == 0 {
		return s
	}
	if top && !f.IsNotDefined && !hasTR && len(named) == 1 {
		return joinKids(kids)
	}
	return s + " > " + joinKids(kids)
}

func propVerdictOver(pf PropFilter, comps []Comp) string {
	set := map[string]bool{}
	for _, c := range comps {
		r := &refEval{ood: map[string]int{}, amb: map[string]int{}}
		set[verdictWord(r.propFilter(pf, c))] = true
	}
	if len(set) == 1 {
		for k := range set {
			return k
		}
	}
	if len(set) == 0 {
		return "not-applied"
	}
	return "mixed"
}

func containsWord(vals []string, text string) string {
	yes, no := 0, 0
	for _, v := range vals {
		if strings.Contains(v, text) {
			yes++
		} else {
			no++
		}
	}
	switch {
	case yes > 0 && no > 0:
		return "some-contain"
	case yes > 0:
		return "contains"
	case no > 0:
		return "not-contains"
	}
	return "no-value"
}

func renderText(t *TextMatch, vals []string) string {
	if t == nil {
		return ""
	}
	s := "|text-match"
	if t.Negate {
		s += "|negate"
	}
	s += "|" + containsWord(vals, t.Text)
	comma, esc := false, false
	for _, v := range vals {
		if strings.Contains(v, ",") {
			comma = true
		}
		if strings.Contains(v, "\\") {
			esc = true
		}
	}
	if comma {
		s += "|comma-in-value"
	}
	if esc {
		s += "|backslash-in-value"
	}
	return s
}

func renderProp(f PropFilter, comps []Comp, deep bool) string {
	var insts []Prop
	for _, c := range comps {
		for _, p := range c.Props {
			if p.Name == f.Name {
				insts = append(insts, p)
			}
		}
	}
	s := "prop-filter"
	if f.IsNotDefined {
		s += "|is-not-defined"
	}
	s += "|" + existsWord("property", len(insts))
	if f.Start.hasRange() || f.End.hasRange() {
		set := map[string]bool{}
		for _, p := range insts {
			ct, why := parseCalTime(p)
			if why != "" || !dateTimeProps[p.Name] {
				set["out-of-domain"] = true
				continue
			}
			V, why := ct.resolve(time.UTC)
			if why != "" {
				set["out-of-domain"] = true
				continue
			}
			var pts []point
			prefix := ""
			if f.Start.hasRange() {
				pts = append(pts, point{"rs", f.Start.goTime(), 0})
			} else {
				prefix = "open-start:"
			}
			pts = append(pts, point{"V", V, 1})
			if f.End.hasRange() {
				pts = append(pts, point{"re", f.End.goTime(), 3})
			} else {
				prefix = "open-end:"
			}
			x := prefix + orderPattern(pts)
			if ct.spelling != "utc" {
				x += "|" + ct.spelling
			}
			set[x] = true
		}
		s += "|time-range|" + joinSet(set) + rangeZoneSuffix(f.Start, f.End)
	}
	var vals []string
	for _, p := range insts {
		vals = append(vals, p.Value)
	}
	s += renderText(f.Text, vals)
	var kids []string
	for _, pf := range f.Params {
		if len(f.Params) > 1 && !deep {
			k := "param-filter"
			if pf.IsNotDefined {
				k += "|is-not-defined"
			}
			set := map[string]bool{}
			for _, p := range insts {
				r := &refEval{ood: map[string]int{}, amb: map[string]int{}}
				set[verdictWord(r.paramFilter(pf, p))] = true
			}
			w := "mixed"
			if len(set) == 1 {
				for x := range set {
					w = x
				}
			} else if len(set) == 0 {
				w = "not-applied"
			}
			kids = append(kids, k+":"+w)
			continue
		}
		kids = append(kids, renderParam(pf, insts))
	}
	if len(kids) == 0 {
		return s
	}
	return s + " > " + joinKids(kids)
}

func renderParam(f ParamFilter, insts []Prop) string {
	n := 0
	var vals []string
	empty := false
	for _, p := range insts {
		for _, pa := range p.Params {
			if pa.Name == f.Name {
				n++
				vals = append(vals, pa.Vals...)
				if len(pa.Vals) == 0 {
					empty = true
				}
				for _, v := range pa.Vals {
					if v == "" {
						empty = true
					}
				}
			}
		}
	}
	s := "param-filter"
	if f.IsNotDefined {
		s += "|is-not-defined"
	}
	switch {
	case n == 0:
		s += "|param-absent"
	case empty:
		s += "|param-empty-value"
	case len(vals) > n:
		s += "|param-multi-valued"
	default:
		s += "|" + existsWord("param", n)
	}
	return s + renderText(f.Text, vals)
}

// keyOf is the abstract signature of a (reduced) failing pair.
func keyOf(f CompFilter, root Comp, class string) string {
	return renderComp(f, []Comp{root}, true, false) + " => " + class
}

package c06

import (
	"fmt"
	"math/rand"
	"runtime"
	"sort"
	"strings"
	"time"
	"unicode/utf8"

	"github.com/emersion/go-webdav/verifharness/fw"
)

// All generated local times lie in January / February 2024, far from any
// UTC-offset transition of the zones used.
var base = time.Date(2024, 1, 15, 10, 0, 0, 0, time.UTC)

func g(i int) time.Time { return base.Add(time.Duration(i) * time.Hour) }

func vcal(children ...Comp) Comp {
	return Comp{Name: "VCALENDAR", Props: []Prop{rawProp("VERSION", "2.0"), rawProp("PRODID", "-//verif//EN")}, Children: children}
}

// spelled writes instant v as a DATE-TIME property in the given spelling:
// "utc" (Z form), "floating" (the UTC digits without Z), or a TZID name.
func spelled(name string, v time.Time, spelling string) Prop {
	if spelling == "floating" {
		return rawProp(name, v.UTC().Format("20060102T150405"))
	}
	return dtProp(name, v, spelling)
}

// mkEvent states the interval [S, E) in one of the five ways of RFC 4791 9.9.
func mkEvent(kind, spelling string, S, E time.Time) Comp {
	ev := Comp{Name: "VEVENT", Props: []Prop{rawProp("UID", "u1")}}
	switch kind {
	case "DTEND":
		ev.Props = append(ev.Props, spelled("DTSTART", S, spelling), spelled("DTEND", E, spelling))
	case "DURATION>0":
		ev.Props = append(ev.Props, spelled("DTSTART", S, spelling), durProp(E.Sub(S)))
	case "DURATION=0":
		ev.Props = append(ev.Props, spelled("DTSTART", S, spelling), durProp(0))
	case "DTSTART-only":
		ev.Props = append(ev.Props, spelled("DTSTART", S, spelling))
	case "DATE":
		ev.Props = append(ev.Props, dateProp("DTSTART", S))
	case "DATE+DTEND":
		ev.Props = append(ev.Props, dateProp("DTSTART", S), dateProp("DTEND", E))
	case "DATE+DURATION":
		ev.Props = append(ev.Props, dateProp("DTSTART", S), rawProp("DURATION", fmt.Sprintf("P%dD", int(E.Sub(S)/(24*time.Hour)))))
	default:
		panic("c06 harness: unknown event kind " + kind)
	}
	return ev
}

func rangeFilter(rs, re Time) CompFilter {
	return CompFilter{Name: "VCALENDAR", Comps: []CompFilter{{Name: "VEVENT", Start: rs, End: re}}}
}

// ---------------------------------------------------------------------------
// (a) time-range universe
// ---------------------------------------------------------------------------

func runTimeRangeUniverse(c *fw.Ctx, deal func() bool) {
	n := 0
	one := func(ev Comp, rs, re Time, decoy bool, S time.Time) {
		if !deal() {
			return
		}
		n++
		cal := vcal(ev)
		if decoy {
			// a VEVENT that cannot overlap, placed before the event under test
			far := S.Add(-1000 * time.Hour)
			if rs.open() {
				far = S.Add(1000 * time.Hour)
			}
			cal = vcal(mkEvent("DTEND", "utc", far, far.Add(time.Hour)), ev)
		}
		f := rangeFilter(rs, re)
		o := execMatch(c, Case{Op: "match", Universe: "a:time-range (exhaustive)", Filter: &f, Object: &cal})
		if iv, why := eventInterval(ev, time.UTC); why == "" {
			res := o.Class
			if failing(res) {
				res = "deviates"
			}
			form := "closed"
			if rs.open() {
				form = "open-start"
			} else if re.open() {
				form = "open-end"
			}
			c.Observe("a_time_range_by_end_kind", iv.kind+" / DTSTART "+iv.spelling+" / "+form+" / "+res, 1)
		}
	}
	mk := func(i int, loc string, at func(int) time.Time) Time {
		if i < 0 {
			return Time{}
		}
		return mkTime(at(i), loc)
	}
	// DATE-TIME events on the 5-point hour grid
	for _, kind := range []string{"DTEND", "DURATION>0", "DURATION=0", "DTSTART-only"} {
		instant := kind == "DURATION=0" || kind == "DTSTART-only"
		for _, spelling := range []string{"utc", "Europe/Paris", "America/New_York"} {
			for _, rloc := range []string{"", "Europe/Paris"} {
				for _, decoy := range []bool{false, true} {
					if decoy && (spelling != "utc" || rloc != "") {
						continue
					}
					for s := 0; s <= 4; s++ {
						for e := s; e <= 4; e++ {
							if instant != (e == s) {
								continue
							}
							ev := mkEvent(kind, spelling, g(s), g(e))
							for rs := -1; rs <= 4; rs++ {
								for re := -1; re <= 4; re++ {
									if rs < 0 && re < 0 {
										continue
									}
									one(ev, mk(rs, rloc, g), mk(re, rloc, g), decoy, g(s))
								}
							}
						}
					}
				}
			}
		}
	}
	// range bounds that are not whole seconds: half a second past a grid point
	// (the verdict differs from the grid point's only at a tie)
	half := func(i int) time.Time { return g(i).Add(500 * time.Millisecond) }
	for _, kind := range []string{"DTEND", "DURATION>0", "DURATION=0", "DTSTART-only"} {
		instant := kind == "DURATION=0" || kind == "DTSTART-only"
		for s := 0; s <= 4; s++ {
			for e := s; e <= 4; e++ {
				if instant != (e == s) {
					continue
				}
				ev := mkEvent(kind, "utc", g(s), g(e))
				for rs := -1; rs <= 4; rs++ {
					for re := -1; re <= 4; re++ {
						if rs >= 0 {
							one(ev, mk(rs, "", half), mk(re, "", g), false, g(s))
						}
						if re >= 0 {
							one(ev, mk(rs, "", g), mk(re, "", half), false, g(s))
						}
					}
				}
			}
		}
	}
	// all-day and floating events: the zone of interpretation is open, so the
	// grid brackets the thresholds (-14h, +12h around each boundary)
	day := time.Date(2024, 1, 15, 0, 0, 0, 0, time.UTC)
	hours := []int{-24, -14, -13, 0, 5, 7, 10, 11, 12, 13, 24, 29, 34, 36, 37, 48, 53, 60, 61, 72}
	at := func(i int) time.Time { return day.Add(time.Duration(hours[i]) * time.Hour) }
	type fk struct {
		kind, spelling string
		days           int
	}
	for _, k := range []fk{{"DATE", "", 1}, {"DATE+DTEND", "", 2}, {"DATE+DURATION", "", 1}, {"DTSTART-only", "floating", 0}, {"DTEND", "floating", 1}} {
		ev := mkEvent(k.kind, k.spelling, day, day.Add(time.Duration(k.days)*24*time.Hour))
		for _, rloc := range []string{"", "America/New_York"} {
			for rs := -1; rs < len(hours); rs++ {
				for re := -1; re < len(hours); re++ {
					if rs < 0 && re < 0 {
						continue
					}
					one(ev, mk(rs, rloc, at), mk(re, rloc, at), false, day)
				}
			}
		}
		// range start and end carried in different Locations
		for rs := -1; rs < len(hours); rs++ {
			for re := -1; re < len(hours); re++ {
				if rs < 0 && re < 0 {
					continue
				}
				one(ev, mk(rs, "America/New_York", at), mk(re, "", at), false, day)
			}
		}
	}
	// time-range on a property value (prop-filter): value, start, end on the grid
	propRange := func(p Prop, rs, re Time) {
		if !deal() {
			return
		}
		n++
		cal := vcal(Comp{Name: "VEVENT", Props: []Prop{rawProp("UID", "u1"), p}})
		f := CompFilter{Name: "VCALENDAR", Comps: []CompFilter{{Name: "VEVENT", Props: []PropFilter{{Name: p.Name, Start: rs, End: re}}}}}
		execMatch(c, Case{Op: "match", Universe: "a:time-range (exhaustive)", Filter: &f, Object: &cal})
	}
	for _, spelling := range []string{"utc", "Europe/Paris"} {
		for _, rloc := range []string{"", "Europe/Paris"} {
			for v := 0; v <= 4; v++ {
				for rs := -1; rs <= 4; rs++ {
					for re := -1; re <= 4; re++ {
						if rs < 0 && re < 0 {
							continue
						}
						propRange(spelled("DTSTAMP", g(v), spelling), mk(rs, rloc, g), mk(re, rloc, g))
					}
				}
			}
		}
	}
	for _, p := range []Prop{dateProp("DTSTART", day), spelled("DTSTART", day, "floating")} {
		for rs := -1; rs < len(hours); rs++ {
			for re := -1; re < len(hours); re++ {
				if rs < 0 && re < 0 {
					continue
				}
				propRange(p, mk(rs, "", at), mk(re, "", at))
			}
		}
	}
	if n > 0 {
		c.Note("universe_a", "time-range grid enumerated completely (cases are dealt to shards by index)")
	}
}

// ---------------------------------------------------------------------------
// (b) filter-tree universe
// ---------------------------------------------------------------------------

var (
	bComps  = []string{"VEVENT", "VTODO", "VALARM"}
	bProps  = []string{"SUMMARY", "X-A", "DTSTART"}
	bParams = []string{"CN", "ROLE"}
	bTexts  = []string{"a", "bc"}
	bHit    = [2]Time{mkTime(g(1), ""), mkTime(g(4), "")}
	bMiss   = [2]Time{mkTime(g(10), ""), mkTime(g(12), "")}
)

func enumTexts() []*TextMatch {
	var out []*TextMatch
	for _, t := range bTexts {
		for _, neg := range []bool{false, true} {
			out = append(out, &TextMatch{Text: t, Negate: neg})
		}
	}
	return out
}

// enumParams: all param-filters of exactly n nodes.
func enumParams(n int) []ParamFilter {
	var out []ParamFilter
	for _, name := range bParams {
		for _, ind := range []bool{false, true} {
			switch n {
			case 1:
				out = append(out, ParamFilter{Name: name, IsNotDefined: ind})
			case 2:
				for _, t := range enumTexts() {
					out = append(out, ParamFilter{Name: name, IsNotDefined: ind, Text: t})
				}
			}
		}
	}
	return out
}

// seqParams: all ordered lists of param-filters with n nodes in total.
func seqParams(n int) [][]ParamFilter {
	if n == 0 {
		return [][]ParamFilter{nil}
	}
	var out [][]ParamFilter
	for s := 1; s <= n && s <= 2; s++ {
		for _, first := range enumParams(s) {
			for _, rest := range seqParams(n - s) {
				out = append(out, append([]ParamFilter{first}, rest...))
			}
		}
	}
	return out
}

var propMemo = map[int][]PropFilter{}

// enumProps: all prop-filters of exactly n nodes.
func enumProps(n int) []PropFilter {
	if v, ok := propMemo[n]; ok {
		return v
	}
	var out []PropFilter
	for _, name := range bProps {
		for _, ind := range []bool{false, true} {
			for _, tr := range []int{0, 1, 2} { // none, hit, miss
				for _, withText := range []bool{false, true} {
					rest := n - 1
					if tr > 0 {
						rest--
					}
					if withText {
						rest--
					}
					if rest < 0 {
						continue
					}
					texts := []*TextMatch{nil}
					if withText {
						texts = enumTexts()
					}
					for _, t := range texts {
						for _, ps := range seqParams(rest) {
							pf := PropFilter{Name: name, IsNotDefined: ind, Text: t, Params: ps}
							switch tr {
							case 1:
								pf.Start, pf.End = bHit[0], bHit[1]
							case 2:
								pf.Start, pf.End = bMiss[0], bMiss[1]
							}
							out = append(out, pf)
						}
					}
				}
			}
		}
	}
	propMemo[n] = out
	return out
}

var seqPropMemo = map[int][][]PropFilter{}

func seqProps(n int) [][]PropFilter {
	if n == 0 {
		return [][]PropFilter{nil}
	}
	if v, ok := seqPropMemo[n]; ok {
		return v
	}
	var out [][]PropFilter
	for s := 1; s <= n; s++ {
		for _, first := range enumProps(s) {
			for _, rest := range seqProps(n - s) {
				out = append(out, append([]PropFilter{first}, rest...))
			}
		}
	}
	seqPropMemo[n] = out
	return out
}

var compMemo = map[int][]CompFilter{}

// enumComps: all comp-filters of exactly n nodes (names from bComps).
func enumComps(n int) []CompFilter {
	if v, ok := compMemo[n]; ok {
		return v
	}
	var out []CompFilter
	for _, name := range bComps {
		for _, ind := range []bool{false, true} {
			for _, tr := range []int{0, 1, 2} {
				rest := n - 1
				if tr > 0 {
					rest--
				}
				if rest < 0 {
					continue
				}
				for mc := 0; mc <= rest; mc++ {
					for _, cs := range seqComps(mc) {
						for _, ps := range seqProps(rest - mc) {
							cf := CompFilter{Name: name, IsNotDefined: ind, Comps: cs, Props: ps}
							switch tr {
							case 1:
								cf.Start, cf.End = bHit[0], bHit[1]
							case 2:
								cf.Start, cf.End = bMiss[0], bMiss[1]
							}
							out = append(out, cf)
						}
					}
				}
			}
		}
	}
	compMemo[n] = out
	return out
}

var seqCompMemo = map[int][][]CompFilter{}

func seqComps(n int) [][]CompFilter {
	if n == 0 {
		return [][]CompFilter{nil}
	}
	if v, ok := seqCompMemo[n]; ok {
		return v
	}
	var out [][]CompFilter
	for s := 1; s <= n; s++ {
		for _, first := range enumComps(s) {
			for _, rest := range seqComps(n - s) {
				out = append(out, append([]CompFilter{first}, rest...))
			}
		}
	}
	seqCompMemo[n] = out
	return out
}

// treeCalendars: the fixed objects of universe (b). Events "in" lie strictly
// inside bHit and far from bMiss, so this universe exercises tree logic, not
// boundary arithmetic.
func treeCalendars() []Comp {
	in := func(ps ...Prop) []Prop {
		return append([]Prop{dtProp("DTSTART", g(1).Add(30*time.Minute), "utc"), dtProp("DTEND", g(2).Add(30*time.Minute), "utc")}, ps...)
	}
	out := func(ps ...Prop) []Prop {
		return append([]Prop{dtProp("DTSTART", g(20), "utc"), dtProp("DTEND", g(21), "utc")}, ps...)
	}
	pm := func(n string, v ...string) Param { return Param{Name: n, Vals: v} }
	return []Comp{
		vcal(),
		vcal(Comp{Name: "VEVENT", Props: in(textProp("SUMMARY", "a"))}),
		vcal(
			Comp{Name: "VEVENT", Props: out(textProp("SUMMARY", "xyz"), textProp("X-A", "abc", pm("CN", "a")))},
			Comp{Name: "VEVENT", Props: in(textProp("SUMMARY", "abc")),
				Children: []Comp{{Name: "VALARM", Props: []Prop{textProp("SUMMARY", "a"), textProp("X-A", "x", pm("ROLE", "bc"))}}}},
		),
		vcal(
			Comp{Name: "VTODO", Props: []Prop{textProp("SUMMARY", "a"), dtProp("DTSTART", g(2), "utc")}},
			Comp{Name: "VEVENT", Props: []Prop{dtProp("DTSTART", g(2), "utc"), durProp(time.Hour), textProp("X-A", "a", pm("CN", "abc"), pm("ROLE", "a"))}},
		),
		vcal(Comp{Name: "VEVENT", Props: in(textProp("SUMMARY", "bc", pm("CN", "a")), textProp("SUMMARY", "a", pm("CN", "x")))}),
		vcal(Comp{Name: "VEVENT", Props: in(textProp("SUMMARY", "A", pm("CN", ""))),
			Children: []Comp{{Name: "VALARM"}, {Name: "VALARM", Props: []Prop{textProp("SUMMARY", "bc")}}}}),
		vcal(
			Comp{Name: "VTODO", Children: []Comp{{Name: "VALARM", Props: []Prop{textProp("SUMMARY", "a", pm("ROLE", "a"))}}}},
			Comp{Name: "VTODO", Props: []Prop{textProp("X-A", "bc")}},
		),
		vcal(Comp{Name: "VEVENT", Props: []Prop{dtProp("DTSTART", g(2), "Europe/Paris"), textProp("SUMMARY", "a,bc", pm("CN", "a", "bc"))},
			Children: []Comp{{Name: "VALARM", Props: []Prop{textProp("X-A", "abc", pm("CN", "bc"), pm("ROLE", "a"))}}}}),
	}
}

func runTreeUniverse(c *fw.Ctx, deal func() bool) {
	maxNodes := c.Pick(3, 4)
	cals := treeCalendars()
	nfilters := 0
	visit := func(f CompFilter) {
		nfilters++
		for ci := range cals {
			if deal() {
				ff := f.clone()
				execMatch(c, Case{Op: "match", Universe: "b:filter-trees (exhaustive)", Filter: &ff, Object: &cals[ci]})
			}
		}
		// every 8th filter also goes through caldav.Filter over all calendars
		if nfilters%8 == 0 && deal() {
			ff := f.clone()
			execFilter(c, Case{Op: "filter", Universe: "b:filter-trees (exhaustive)", Filter: &ff, Objects: cals, WithRequest: nfilters%16 == 0})
		}
	}
	for total := 0; total <= maxNodes; total++ {
		for mc := 0; mc <= total; mc++ {
			for _, cs := range seqComps(mc) {
				for _, ps := range seqProps(total - mc) {
					visit(CompFilter{Name: "VCALENDAR", Comps: cs, Props: ps})
					if total <= 1 {
						visit(CompFilter{Name: "VCALENDAR", IsNotDefined: true, Comps: cs, Props: ps})
					}
				}
			}
		}
	}
	if deal() {
		execFilter(c, Case{Op: "filter", Universe: "b:filter-trees (exhaustive)", Filter: nil, Objects: cals})
	}
	c.Note("universe_b", fmt.Sprintf("%d filter trees (<= %d nodes below the VCALENDAR filter) x %d calendars", nfilters, maxNodes, len(cals)))
}

// ---------------------------------------------------------------------------
// (c) recurring universe
// ---------------------------------------------------------------------------

func runRecurringUniverse(c *fw.Ctx, deal func() bool) {
	shapes := 0
	for _, freq := range []string{"DAILY", "WEEKLY"} {
		for count := 1; count <= 4; count++ {
			for ival := 1; ival <= 2; ival++ {
				for _, dur := range []time.Duration{0, time.Hour, 25 * time.Hour} {
					for _, endSpelling := range []string{"DTEND", "DURATION", "none"} {
						if dur == 0 && endSpelling == "DTEND" {
							continue // DTEND == DTSTART is outside the domain
						}
						if dur != 0 && endSpelling == "none" {
							continue
						}
						shapes++
						S := g(0)
						ev := Comp{Name: "VEVENT", Props: []Prop{rawProp("UID", "r1"), dtProp("DTSTART", S, "utc")}}
						switch endSpelling {
						case "DTEND":
							ev.Props = append(ev.Props, dtProp("DTEND", S.Add(dur), "utc"))
						case "DURATION":
							ev.Props = append(ev.Props, durProp(dur))
						}
						rule := fmt.Sprintf("FREQ=%s;COUNT=%d", freq, count)
						if ival != 1 {
							rule += fmt.Sprintf(";INTERVAL=%d", ival)
						}
						ev.Props = append(ev.Props, rawProp("RRULE", rule))
						step := time.Duration(ival) * 24 * time.Hour
						if freq == "WEEKLY" {
							step *= 7
						}
						// grid: boundaries of the first two and the last instance, +-30 min
						pts := map[int64]time.Time{}
						add := func(t time.Time) { pts[t.Unix()] = t }
						for _, k := range []int{0, 1, count - 1, count} { // count = one step past the last instance
							s := S.Add(time.Duration(k) * step)
							for _, t := range []time.Time{s, s.Add(dur)} {
								add(t)
								add(t.Add(-30 * time.Minute))
								add(t.Add(30 * time.Minute))
							}
						}
						var grid []time.Time
						for _, t := range pts {
							grid = append(grid, t)
						}
						sort.Slice(grid, func(i, j int) bool { return grid[i].Before(grid[j]) })
						cal := vcal(ev)
						for rs := -1; rs < len(grid); rs++ {
							for re := -1; re < len(grid); re++ {
								if (rs < 0 && re < 0) || (rs >= 0 && re >= 0 && re <= rs) {
									continue
								}
								if !deal() {
									continue
								}
								var a, b Time
								if rs >= 0 {
									a = mkTime(grid[rs], "")
								}
								if re >= 0 {
									b = mkTime(grid[re], "")
								}
								f := rangeFilter(a, b)
								execMatch(c, Case{Op: "match", Universe: "c:recurring (exhaustive)", Filter: &f, Object: &cal})
							}
						}
					}
				}
			}
		}
	}
	c.Note("universe_c", fmt.Sprintf("%d recurring event shapes x all (start,end) pairs over the instance-boundary grid", shapes))
	runZonedRecurringUniverse(c, deal)
	runExdateUniverse(c, deal)
	runLongSeriesUniverse(c, deal)
	runAllDayRecurringUniverse(c, deal)
}

// (c-long) the range lies far into the series. The dimension stretched here is
// the number of instances between DTSTART and the range: a ladder from none to
// tens of thousands (thorough: hundreds of thousands), the exact number on a
// rung drawn from the seed. Series: FREQ=SECONDLY..WEEKLY, INTERVAL 1 or 3,
// without an end, or with a COUNT or an UNTIL that makes instance n the last
// one or the first one that no longer exists; instances of no length, half a
// step long, one and a half steps long (overlapping each other). Ranges: the
// first second of instance n, the gap before and behind it, and the open-ended
// ranges beginning there (a bounded series is then walked to its end).
func runLongSeriesUniverse(c *fw.Ctx, deal func() bool) {
	ladder := []int{0, 7, 60, 400, 1500, 6000, 20000}
	if c.Thorough() {
		ladder = append(ladder, 60000, 200000)
	}
	S := g(0)
	shapes := 0
	for fi, freq := range []string{"SECONDLY", "MINUTELY", "HOURLY", "DAILY", "WEEKLY"} {
		for _, ival := range []int{1, 3} {
			step := time.Duration(ival) * freqSteps[freq]
			for _, durKind := range []string{"none", "half a step", "one and a half steps"} {
				var dur time.Duration
				switch durKind {
				case "half a step":
					dur = step / 2
				case "one and a half steps":
					dur = step * 3 / 2
				}
				if dur%time.Second != 0 || (dur == 0) != (durKind == "none") {
					continue
				}
				for ri, rung := range ladder {
					n := rung + c.Rand("c06-long", fi*100+ival*10+ri).Intn(rung/4+1)
					if time.Duration(n+2) > 60*365*24*time.Hour/step {
						continue // keep well inside the horizon of the reference
					}
					at := func(k int) time.Time { return S.Add(time.Duration(k) * step) }
					// behind(k): the first instant at which instance k is over
					behind := func(k int) time.Time {
						if dur == 0 {
							return at(k).Add(time.Second)
						}
						return at(k).Add(dur)
					}
					for _, bound := range []string{"endless", "COUNT: n is the last", "COUNT: n-1 is the last", "UNTIL: n is the last", "UNTIL: n-1 is the last"} {
						if n == 0 && strings.Contains(bound, "n-1") {
							continue
						}
						rule := "FREQ=" + freq
						switch bound {
						case "COUNT: n is the last":
							rule += fmt.Sprintf(";COUNT=%d", n+1)
						case "COUNT: n-1 is the last":
							rule += fmt.Sprintf(";COUNT=%d", n)
						case "UNTIL: n is the last":
							rule += ";UNTIL=" + at(n).Format(utcLayout)
						case "UNTIL: n-1 is the last":
							rule += ";UNTIL=" + at(n).Add(-time.Second).Format(utcLayout)
						}
						if ival != 1 {
							rule += fmt.Sprintf(";INTERVAL=%d", ival)
						}
						shapes++
						ev := Comp{Name: "VEVENT", Props: []Prop{rawProp("UID", "rl"), dtProp("DTSTART", S, "utc")}}
						switch durKind {
						case "half a step":
							ev.Props = append(ev.Props, durProp(dur))
						case "one and a half steps":
							ev.Props = append(ev.Props, dtProp("DTEND", S.Add(dur), "utc"))
						}
						ev.Props = append(ev.Props, rawProp("RRULE", rule))
						cal := vcal(ev)
						ranges := [][2]Time{
							{mkTime(at(n), ""), mkTime(at(n).Add(time.Second), "")},
							{mkTime(at(n), ""), {}},
							{mkTime(behind(n), ""), {}},
						}
						if behind(n).Before(at(n + 1)) {
							ranges = append(ranges, [2]Time{mkTime(behind(n), ""), mkTime(at(n+1), "")})
						}
						if n > 0 && behind(n-1).Before(at(n)) {
							ranges = append(ranges, [2]Time{mkTime(behind(n-1), ""), mkTime(at(n), "")})
						}
						for _, rg := range ranges {
							if !deal() {
								continue
							}
							f := rangeFilter(rg[0], rg[1])
							o := execMatch(c, Case{Op: "match", Universe: "c:recurring, range far into a long or endless series", Filter: &f, Object: &cal})
							if o.Class == "agree" {
								c.Observe("long_series_judged", fmt.Sprintf("%6d.. instances before the range / reference %s", rung, o.Want), 1)
								c.Observe("long_series_shapes_judged", freq+" / "+strings.SplitN(bound, ":", 2)[0], 1)
							}
						}
					}
				}
			}
		}
	}
	c.Note("universe_c_long", fmt.Sprintf("%d long or endless recurring event shapes (FREQ=SECONDLY..WEEKLY, INTERVAL 1|3, no end / COUNT / UNTIL) on a ladder of up to %d.. instances between DTSTART and the range", shapes, ladder[len(ladder)-1]))
}

// (c-allday) recurring events whose DTSTART is a DATE or a floating DATE-TIME.
// The zone in which such a value is read is open (any UTC offset from -12h to
// +14h), and the series runs on that zone's wall clock; a verdict is demanded
// where all readings agree. The grid brackets every instance boundary at the
// thresholds of that envelope (-14h, 0, +12h); windows of growing width, and
// open-ended ones, begin at every grid point; range values in UTC and in a
// zoned time.Time.
func runAllDayRecurringUniverse(c *fw.Ctx, deal func() bool) {
	day := time.Date(2024, 1, 15, 0, 0, 0, 0, time.UTC)
	type fk struct {
		kind, spelling string
		S              time.Time
		dur            time.Duration
	}
	kinds := []fk{
		{"DATE", "", day, 24 * time.Hour},
		{"DATE+DTEND", "", day, 48 * time.Hour},
		{"DATE+DURATION", "", day, 24 * time.Hour},
		{"DTSTART-only", "floating", day.Add(10 * time.Hour), 0},
		{"DTEND", "floating", day.Add(10 * time.Hour), time.Hour},
		{"DURATION>0", "floating", day.Add(10 * time.Hour), time.Hour},
	}
	offsets := []time.Duration{-14*time.Hour - 30*time.Minute, -14 * time.Hour, -30 * time.Minute, 0, 30 * time.Minute, 12 * time.Hour, 12*time.Hour + 30*time.Minute}
	shapes := 0
	for _, k := range kinds {
		for _, rule := range []string{"FREQ=DAILY;COUNT=3", "FREQ=DAILY;COUNT=2;INTERVAL=3", "FREQ=WEEKLY;COUNT=2", "FREQ=DAILY;COUNT=1"} {
			rr, ok := parseRRule(rule)
			if !ok {
				continue
			}
			shapes++
			ev := mkEvent(k.kind, k.spelling, k.S, k.S.Add(k.dur))
			ev.Props = append(ev.Props, rawProp("RRULE", rule))
			cal := vcal(ev)
			pts := map[int64]time.Time{}
			for _, in := range (evInterval{S: k.S, E: k.S.Add(k.dur), rec: rr}).instances() {
				for _, t := range []time.Time{in[0], in[1]} {
					for _, off := range offsets {
						u := t.Add(off)
						pts[u.Unix()] = u
					}
				}
			}
			var grid []time.Time
			for _, t := range pts {
				grid = append(grid, t)
			}
			sort.Slice(grid, func(i, j int) bool { return grid[i].Before(grid[j]) })
			for _, rloc := range []string{"", "America/New_York"} {
				one := func(a, b Time) {
					if !deal() {
						return
					}
					f := rangeFilter(a, b)
					o := execMatch(c, Case{Op: "match", Universe: "c:recurring with a DATE or floating DTSTART (zone envelope)", Filter: &f, Object: &cal})
					res := o.Class
					if failing(res) {
						res = "deviates"
					}
					c.Observe("allday_recurring", k.kind+" "+k.spelling+" / "+res, 1)
				}
				for rs := 0; rs < len(grid); rs++ {
					for w := 1; rs+w < len(grid); w *= 2 {
						one(mkTime(grid[rs], rloc), mkTime(grid[rs+w], rloc))
					}
					one(mkTime(grid[rs], rloc), Time{})
					one(Time{}, mkTime(grid[rs], rloc))
				}
			}
		}
	}
	c.Note("universe_c_allday", fmt.Sprintf("%d recurring event shapes with a DATE or floating DTSTART (DAILY/WEEKLY, COUNT 1-3) x windows over the instance-boundary grid bracketed at -14h / 0 / +12h, range values in UTC and in America/New_York", shapes))
}

// usesOwnTimezone: some property of a VEVENT of the calendar carries a TZID
// that is not an IANA name but is defined by a VTIMEZONE child of the calendar.
func usesOwnTimezone(root Comp) bool {
	defined := map[string]bool{}
	for _, ch := range root.Children {
		if ch.Name == "VTIMEZONE" {
			for _, p := range ch.Props {
				if p.Name == "TZID" {
					defined[p.Value] = true
				}
			}
		}
	}
	for _, ch := range root.Children {
		if ch.Name != "VEVENT" {
			continue
		}
		for _, p := range ch.Props {
			if vals, n := paramVals(p, "TZID"); n == 1 && len(vals) == 1 && defined[vals[0]] {
				if _, err := loadLoc(vals[0]); err != nil {
					return true
				}
			}
		}
	}
	return false
}

// (g) events in a time zone of the object's own: the TZID is not an IANA name
// but names a VTIMEZONE component of the same calendar (RFC 5545 3.6.5), as
// calendars exported by several widespread clients do. The reference does not
// interpret VTIMEZONE definitions, so no verdict is demanded; what is checked
// is that Match evaluates such a valid object at all.
func runOwnTimezoneUniverse(c *fw.Ctx, deal func() bool) {
	S := time.Date(2024, 1, 15, 10, 0, 0, 0, time.UTC)
	local := func(name, tzid string, t time.Time) Prop {
		return rawProp(name, t.Format("20060102T150405"), Param{Name: "TZID", Vals: []string{tzid}})
	}
	for _, tzid := range []string{"W. Europe Standard Time", "/example.org/20240101_1/Berlin"} {
		vtz := Comp{Name: "VTIMEZONE", Props: []Prop{rawProp("TZID", tzid)}, Children: []Comp{
			{Name: "STANDARD", Props: []Prop{rawProp("DTSTART", "16011028T030000"), rawProp("RRULE", "FREQ=YEARLY;BYDAY=-1SU;BYMONTH=10"),
				rawProp("TZOFFSETFROM", "+0200"), rawProp("TZOFFSETTO", "+0100")}},
			{Name: "DAYLIGHT", Props: []Prop{rawProp("DTSTART", "16010325T020000"), rawProp("RRULE", "FREQ=YEARLY;BYDAY=-1SU;BYMONTH=3"),
				rawProp("TZOFFSETFROM", "+0100"), rawProp("TZOFFSETTO", "+0200")}},
		}}
		for _, kind := range []string{"DTEND", "DURATION", "DTSTART-only", "recurring"} {
			ev := Comp{Name: "VEVENT", Props: []Prop{rawProp("UID", "z1"), local("DTSTART", tzid, S)}}
			switch kind {
			case "DTEND":
				ev.Props = append(ev.Props, local("DTEND", tzid, S.Add(time.Hour)))
			case "DURATION":
				ev.Props = append(ev.Props, durProp(time.Hour))
			case "recurring":
				ev.Props = append(ev.Props, rawProp("RRULE", "FREQ=DAILY;COUNT=3"))
			}
			cal := vcal(vtz, ev)
			for _, rg := range [][2]Time{
				{mkTime(S.Add(-24*time.Hour), ""), mkTime(S.Add(24*time.Hour), "")},
				{mkTime(S.Add(-48*time.Hour), ""), mkTime(S.Add(-24*time.Hour), "")},
				{mkTime(S.Add(-24*time.Hour), ""), {}},
				{{}, mkTime(S.Add(24*time.Hour), "")},
			} {
				if !deal() {
					continue
				}
				f := rangeFilter(rg[0], rg[1])
				o := execMatch(c, Case{Op: "match", Universe: "g:TZID defined by the object's own VTIMEZONE", Filter: &f, Object: &cal})
				if o.Err != "" {
					c.Observe("own_timezone", kind+" / Match failed", 1)
				} else {
					c.Observe("own_timezone", kind+" / Match returned a verdict (not judged)", 1)
				}
			}
		}
	}
}

// (c-exdate) exception dates: every non-empty proper subset of the instances of a
// DAILY rule with COUNT 2..4 taken out by EXDATE (one property with a list,
// or one property per date), zero-length and one-hour instances; ranges over
// the instance-boundary grid. An occurrence removed by EXDATE is not an
// instance - also when it is the one at DTSTART.
func runExdateUniverse(c *fw.Ctx, deal func() bool) {
	shapes := 0
	S := g(0)
	for count := 2; count <= 4; count++ {
		for _, dur := range []time.Duration{0, time.Hour} {
			for mask := 1; mask < (1<<count)-1; mask++ {
				for _, listed := range []bool{true, false} {
					shapes++
					ev := Comp{Name: "VEVENT", Props: []Prop{rawProp("UID", "rx"), dtProp("DTSTART", S, "utc")}}
					if dur != 0 {
						ev.Props = append(ev.Props, durProp(dur))
					}
					ev.Props = append(ev.Props, rawProp("RRULE", fmt.Sprintf("FREQ=DAILY;COUNT=%d", count)))
					var vals []string
					for k := 0; k < count; k++ {
						if mask&(1<<k) != 0 {
							vals = append(vals, S.Add(time.Duration(k)*24*time.Hour).UTC().Format("20060102T150405Z"))
						}
					}
					if listed {
						ev.Props = append(ev.Props, rawProp("EXDATE", strings.Join(vals, ",")))
					} else {
						for _, v := range vals {
							ev.Props = append(ev.Props, rawProp("EXDATE", v))
						}
					}
					pts := map[int64]time.Time{}
					for k := 0; k <= count; k++ {
						s := S.Add(time.Duration(k) * 24 * time.Hour)
						for _, t := range []time.Time{s, s.Add(dur)} {
							for _, off := range []time.Duration{0, -30 * time.Minute, 30 * time.Minute} {
								u := t.Add(off)
								pts[u.Unix()] = u
							}
						}
					}
					var grid []time.Time
					for _, t := range pts {
						grid = append(grid, t)
					}
					sort.Slice(grid, func(i, j int) bool { return grid[i].Before(grid[j]) })
					cal := vcal(ev)
					for rs := -1; rs < len(grid); rs++ {
						for re := rs + 1; re <= len(grid); re++ {
							if rs < 0 && re == len(grid) {
								continue
							}
							if !deal() {
								continue
							}
							var a, b Time
							if rs >= 0 {
								a = mkTime(grid[rs], "")
							}
							if re < len(grid) {
								b = mkTime(grid[re], "")
							}
							f := rangeFilter(a, b)
							execMatch(c, Case{Op: "match", Universe: "c:recurring with EXDATE (exhaustive)", Filter: &f, Object: &cal})
						}
					}
				}
			}
		}
	}
	c.Note("universe_c_exdate", fmt.Sprintf("%d recurring event shapes with exception dates (every non-empty proper subset of the instances) x all ranges over the instance-boundary grid", shapes))
}

// (c') recurring events whose DTSTART carries a TZID, the rule running across
// a change of the zone's UTC offset: the instances keep their local time, so
// their distance in absolute time is not a multiple of 24 h. The grid holds
// the boundaries of every instance, and the same boundaries shifted by the
// size of the offset change (where an expansion on the wrong clock puts them).
func runZonedRecurringUniverse(c *fw.Ctx, deal func() bool) {
	type zc struct {
		zone       string
		y, m, d    int // local date of the first instance (two days before the change)
		h          int
		shift      time.Duration
		transition string
	}
	cases := []zc{
		{"Europe/Berlin", 2024, 3, 29, 10, time.Hour, "spring forward 2024-03-31"},
		{"Europe/Berlin", 2024, 10, 25, 10, time.Hour, "fall back 2024-10-27"},
		{"America/New_York", 2024, 3, 8, 9, time.Hour, "spring forward 2024-03-10"},
		{"America/New_York", 2024, 11, 1, 18, time.Hour, "fall back 2024-11-03"},
		{"Australia/Lord_Howe", 2024, 4, 5, 12, 30 * time.Minute, "half-hour change 2024-04-07"},
		{"Asia/Kolkata", 2024, 3, 29, 10, 0, "no change (control)"},
	}
	shapes := 0
	for _, z := range cases {
		loc, err := loadLoc(z.zone)
		if err != nil {
			c.Note("universe_c_zoned", "zone "+z.zone+" not available: "+err.Error())
			continue
		}
		S := time.Date(z.y, time.Month(z.m), z.d, z.h, 0, 0, 0, loc)
		for _, rule := range []string{"FREQ=DAILY;COUNT=4", "FREQ=DAILY;COUNT=3;INTERVAL=2", "FREQ=WEEKLY;COUNT=2", "FREQ=DAILY;COUNT=1"} {
			for _, dur := range []time.Duration{0, time.Hour} {
				for _, endSpelling := range []string{"DTEND", "DURATION", "none"} {
					if (dur == 0) != (endSpelling == "none") {
						continue
					}
					shapes++
					ev := Comp{Name: "VEVENT", Props: []Prop{rawProp("UID", "rz"), dtProp("DTSTART", S, z.zone)}}
					switch endSpelling {
					case "DTEND":
						ev.Props = append(ev.Props, dtProp("DTEND", S.Add(dur), z.zone))
					case "DURATION":
						ev.Props = append(ev.Props, durProp(dur))
					}
					ev.Props = append(ev.Props, rawProp("RRULE", rule))
					rr, ok := parseRRule(rule)
					if !ok {
						continue
					}
					iv := evInterval{S: S, E: S.Add(dur), rec: rr, wall: loc}
					pts := map[int64]time.Time{}
					for _, in := range iv.instances() {
						for _, t := range []time.Time{in[0], in[1]} {
							for _, sh := range []time.Duration{0, z.shift, -z.shift} {
								for _, off := range []time.Duration{0, -30 * time.Minute, 30 * time.Minute} {
									u := t.Add(sh + off)
									pts[u.Unix()] = u
								}
							}
						}
					}
					var grid []time.Time
					for _, t := range pts {
						grid = append(grid, t)
					}
					sort.Slice(grid, func(i, j int) bool { return grid[i].Before(grid[j]) })
					cal := vcal(ev)
					for rs := -1; rs < len(grid); rs++ {
						for re := rs + 1; re < len(grid) && re <= rs+4; re++ {
							// narrow windows (up to four grid steps) tell the hours apart; plus the open-ended ones
							if !deal() {
								continue
							}
							var a, b Time
							if rs >= 0 {
								a = mkTime(grid[rs], "")
							}
							b = mkTime(grid[re], "")
							f := rangeFilter(a, b)
							execMatch(c, Case{Op: "match", Universe: "c:recurring with TZID across an offset change (exhaustive)", Filter: &f, Object: &cal})
						}
						if rs >= 0 && deal() {
							f := rangeFilter(mkTime(grid[rs], ""), Time{})
							execMatch(c, Case{Op: "match", Universe: "c:recurring with TZID across an offset change (exhaustive)", Filter: &f, Object: &cal})
						}
					}
				}
			}
		}
	}
	c.Note("universe_c_zoned", fmt.Sprintf("%d zoned recurring event shapes (Europe/Berlin, America/New_York, Australia/Lord_Howe, Asia/Kolkata; DAILY/WEEKLY across a UTC-offset change) x narrow ranges over the instance-boundary grid, also shifted by the size of the change", shapes))
}

// ---------------------------------------------------------------------------
// (d) random universe
// ---------------------------------------------------------------------------

var (
	rTopComps  = []string{"VEVENT", "VEVENT", "VEVENT", "VTODO", "VJOURNAL", "VTIMEZONE", "VFREEBUSY"}
	rTextProps = []string{"SUMMARY", "DESCRIPTION", "LOCATION", "CATEGORIES", "STATUS", "UID", "X-A", "ATTENDEE", "ORGANIZER"}
	rValues    = []string{"Meeting", "meeting", "Team Meeting at 10", `a\,b`, `Lunch\nbreak`, "", "ABC", "abc", "x;y",
		"CONFIRMED", "mailto:a@example.com", "one,two,three", `back\\slash`, "a", "bc"}
	rParams    = []string{"CN", "ROLE", "PARTSTAT", "LANGUAGE", "X-P"}
	rParamVals = []string{"Alice", "alice", "REQ-PARTICIPANT", "", "en", "a b", "a", "bc"}
	rZones     = []string{"Europe/Paris", "America/New_York"}
)

func pick(r *rand.Rand, l []string) string { return l[r.Intn(len(l))] }

func randProps(r *rand.Rand, n int) []Prop {
	var out []Prop
	for i := 0; i < n; i++ {
		p := rawProp(pick(r, rTextProps), pick(r, rValues))
		for j := r.Intn(3); j > 0; j-- {
			name := pick(r, rParams)
			dup := false
			for _, q := range p.Params {
				if q.Name == name {
					dup = true
				}
			}
			if dup {
				continue
			}
			pa := Param{Name: name, Vals: []string{pick(r, rParamVals)}}
			if r.Intn(10) == 0 {
				pa.Vals = append(pa.Vals, pick(r, rParamVals))
			}
			p.Params = append(p.Params, pa)
		}
		out = append(out, p)
	}
	return out
}

// randEvent returns a VEVENT and the instants of its boundaries (for range
// generation).
func randEvent(r *rand.Rand) (Comp, []time.Time) {
	ev := Comp{Name: "VEVENT"}
	S := g(r.Intn(72))
	d := time.Duration(1+r.Intn(30)) * time.Hour
	spelling := "utc"
	switch x := r.Intn(20); {
	case x < 5:
		spelling = pick(r, rZones)
	case x < 7:
		spelling = "floating"
	}
	marks := []time.Time{S, S.Add(d)}
	switch x := r.Intn(20); {
	case x < 7:
		ev = mkEvent("DTEND", spelling, S, S.Add(d))
	case x < 11:
		if spelling == "floating" {
			// a floating start with DURATION cannot be reduced to the forms
			// of universe (a); keep the random keys inside that universe
			ev = mkEvent("DTEND", spelling, S, S.Add(d))
		} else {
			ev = mkEvent("DURATION>0", spelling, S, S.Add(d))
		}
	case x < 13:
		ev = mkEvent("DURATION=0", spelling, S, S)
	case x < 16:
		ev = mkEvent("DTSTART-only", spelling, S, S)
	case x < 18:
		day := time.Date(2024, 1, 15+r.Intn(3), 0, 0, 0, 0, time.UTC)
		ev = mkEvent("DATE", "", day, day)
		marks = []time.Time{day, day.Add(24 * time.Hour), day.Add(-14 * time.Hour), day.Add(36 * time.Hour)}
	case x < 19:
		day := time.Date(2024, 1, 15+r.Intn(3), 0, 0, 0, 0, time.UTC)
		ev = mkEvent("DATE+DTEND", "", day, day.Add(48*time.Hour))
		marks = []time.Time{day, day.Add(48 * time.Hour)}
	default:
		// deliberately outside the domain
		switch r.Intn(4) {
		case 0:
			ev.Props = []Prop{dtProp("DTSTART", S, "utc"), dtProp("DTEND", S.Add(-time.Hour), "utc")}
		case 1:
			ev.Props = []Prop{dtProp("DTSTART", S, "utc"), dtProp("DTEND", S.Add(d), "utc"), durProp(d)}
		case 2:
			ev.Props = []Prop{dtProp("DTSTART", S, "utc"), rawProp("DURATION", "-PT1H")}
		default:
			ev.Props = []Prop{dtProp("DTSTART", S, "utc"), dtProp("DTSTART", S.Add(d), "utc")}
		}
	}
	if r.Intn(4) == 0 {
		freq := []string{"DAILY", "WEEKLY"}[r.Intn(2)]
		rule := fmt.Sprintf("FREQ=%s;COUNT=%d", freq, 1+r.Intn(5))
		iv := 1
		if r.Intn(3) == 0 {
			iv = 2 + r.Intn(2)
			rule += fmt.Sprintf(";INTERVAL=%d", iv)
		}
		if r.Intn(15) == 0 {
			rule = "FREQ=MONTHLY;COUNT=2" // outside the family
		}
		ev.Props = append(ev.Props, rawProp("RRULE", rule))
		step := time.Duration(iv) * 24 * time.Hour
		if freq == "WEEKLY" {
			step *= 7
		}
		k := time.Duration(r.Intn(3))
		marks = append(marks, S.Add(k*step), S.Add(k*step+d))
	}
	ev.Props = append(ev.Props, dtProp("DTSTAMP", g(r.Intn(72)), "utc"))
	ev.Props = append(ev.Props, randProps(r, r.Intn(5))...)
	for j := r.Intn(3); j > 0; j-- {
		ev.Children = append(ev.Children, Comp{Name: "VALARM", Props: randProps(r, r.Intn(3))})
	}
	return ev, marks
}

func randObject(r *rand.Rand) (Comp, []time.Time) {
	cal := vcal()
	var marks []time.Time
	for i := r.Intn(5); i > 0; i-- {
		name := pick(r, rTopComps)
		if name == "VEVENT" {
			ev, m := randEvent(r)
			cal.Children = append(cal.Children, ev)
			marks = append(marks, m...)
			continue
		}
		comp := Comp{Name: name, Props: randProps(r, r.Intn(4))}
		switch name {
		case "VTODO":
			if r.Intn(2) == 0 {
				comp.Props = append(comp.Props, dtProp("DUE", g(r.Intn(72)), "utc"))
			}
			for j := r.Intn(2); j > 0; j-- {
				comp.Children = append(comp.Children, Comp{Name: "VALARM", Props: randProps(r, r.Intn(3))})
			}
		case "VTIMEZONE":
			comp.Props = append(comp.Props, rawProp("TZID", pick(r, rZones)))
			comp.Children = append(comp.Children, Comp{Name: "STANDARD", Props: []Prop{rawProp("DTSTART", "19701025T030000")}})
		}
		cal.Children = append(cal.Children, comp)
	}
	return cal, marks
}

func randRange(r *rand.Rand, marks []time.Time) (Time, Time) {
	pt := func() time.Time {
		if len(marks) > 0 && r.Intn(2) == 0 {
			t := marks[r.Intn(len(marks))]
			switch r.Intn(4) {
			case 0:
				t = t.Add(-time.Hour)
			case 1:
				t = t.Add(time.Hour)
			}
			return t
		}
		return g(r.Intn(80) - 4)
	}
	a, b := pt(), pt()
	if b.Before(a) {
		a, b = b, a
	}
	if a.Equal(b) && r.Intn(4) != 0 {
		b = a.Add(time.Duration(1+r.Intn(30)) * time.Hour)
	}
	if r.Intn(40) == 0 {
		a, b = b.Add(time.Hour), a // inverted: outside the domain
	}
	loc := ""
	if r.Intn(6) == 0 {
		loc = pick(r, rZones)
	}
	s, e := mkTime(a, loc), mkTime(b, loc)
	switch r.Intn(7) {
	case 0:
		s = Time{}
	case 1:
		e = Time{}
	}
	return s, e
}

func randText(r *rand.Rand, vals []string) *TextMatch {
	src := pick(r, rValues)
	if len(vals) > 0 && r.Intn(3) != 0 {
		src = vals[r.Intn(len(vals))]
	}
	t := src
	if len(src) > 1 && r.Intn(3) != 0 {
		i := r.Intn(len(src))
		j := i + 1 + r.Intn(len(src)-i)
		t = src[i:j]
	}
	switch r.Intn(12) {
	case 0:
		t = strings.ToUpper(t)
	case 1:
		t = strings.ToLower(t)
	case 2:
		t = "zz"
	case 3:
		t = ""
	}
	return &TextMatch{Text: t, Negate: r.Intn(3) == 0}
}

func randPropFilter(r *rand.Rand, comps []Comp) PropFilter {
	var have []Prop
	for _, c := range comps {
		have = append(have, c.Props...)
	}
	pf := PropFilter{Name: pick(r, rTextProps)}
	var target *Prop
	if len(have) > 0 && r.Intn(4) != 0 {
		target = &have[r.Intn(len(have))]
		pf.Name = target.Name
	}
	if r.Intn(30) == 0 {
		pf.Name = strings.ToLower(pf.Name)
	}
	pf.IsNotDefined = r.Intn(7) == 0
	if pf.IsNotDefined && r.Intn(8) != 0 {
		return pf
	}
	var vals []string
	for _, p := range have {
		if p.Name == pf.Name {
			vals = append(vals, p.Value)
		}
	}
	switch x := r.Intn(10); {
	case x < 5:
		pf.Text = randText(r, vals)
	case x < 6:
		names := []string{"DTSTART", "DTSTAMP", "DTEND", "DUE", pf.Name}
		pf.Name = pick(r, names)
		var marks []time.Time
		for _, p := range have {
			if p.Name == pf.Name {
				if ct, why := parseCalTime(p); why == "" && ct.abs {
					marks = append(marks, ct.t)
				}
			}
		}
		pf.Start, pf.End = randRange(r, marks)
		if r.Intn(25) == 0 {
			pf.Text = randText(r, vals) // both: outside the domain
		}
	}
	for j := r.Intn(3); j > 0; j-- {
		pa := ParamFilter{Name: pick(r, rParams)}
		var pvals []string
		if target != nil && len(target.Params) > 0 && r.Intn(3) != 0 {
			tp := target.Params[r.Intn(len(target.Params))]
			pa.Name = tp.Name
			pvals = tp.Vals
		}
		if r.Intn(6) == 0 {
			// the same name in another letter case (names are case-insensitive)
			pa.Name = []string{strings.ToLower(pa.Name), strings.Title(strings.ToLower(pa.Name))}[r.Intn(2)]
		}
		pa.IsNotDefined = r.Intn(5) == 0
		if (!pa.IsNotDefined && r.Intn(2) == 0) || r.Intn(30) == 0 {
			pa.Text = randText(r, pvals)
			if len(pvals) == 0 && r.Intn(2) == 0 {
				pa.Text.Text = pick(r, rParamVals)
			}
		}
		pf.Params = append(pf.Params, pa)
	}
	return pf
}

func randCompFilter(r *rand.Rand, scope []Comp, marks []time.Time, depth int) CompFilter {
	cf := CompFilter{Name: pick(r, rTopComps)}
	if depth > 0 {
		cf.Name = "VALARM"
	}
	if len(scope) > 0 && r.Intn(4) != 0 {
		cf.Name = scope[r.Intn(len(scope))].Name
	}
	if r.Intn(40) == 0 {
		cf.Name = strings.ToLower(cf.Name)
	}
	cf.IsNotDefined = r.Intn(7) == 0
	if cf.IsNotDefined && r.Intn(8) != 0 {
		return cf
	}
	var named []Comp
	var below []Comp
	for _, c := range scope {
		if c.Name == cf.Name {
			named = append(named, c)
			below = append(below, c.Children...)
		}
	}
	if (cf.Name == "VEVENT" && r.Intn(2) == 0) || r.Intn(25) == 0 {
		cf.Start, cf.End = randRange(r, marks)
	}
	for j := r.Intn(3); j > 0; j-- {
		cf.Props = append(cf.Props, randPropFilter(r, named))
	}
	if depth < 2 && r.Intn(3) == 0 {
		cf.Comps = append(cf.Comps, randCompFilter(r, below, marks, depth+1))
	}
	return cf
}

func randFilter(r *rand.Rand, obj Comp, marks []time.Time) CompFilter {
	f := CompFilter{Name: "VCALENDAR"}
	if r.Intn(40) == 0 {
		f.Name = "VEVENT"
	}
	if r.Intn(40) == 0 {
		f.IsNotDefined = true
		if r.Intn(3) != 0 {
			return f
		}
	}
	if r.Intn(60) == 0 {
		f.Start, f.End = randRange(r, marks)
	}
	for j := 1 + r.Intn(3); j > 0; j-- {
		f.Comps = append(f.Comps, randCompFilter(r, obj.Children, marks, 0))
	}
	if r.Intn(5) == 0 {
		f.Props = append(f.Props, randPropFilter(r, []Comp{obj}))
	}
	return f
}

func runRandomUniverse(c *fw.Ctx) {
	n := c.Pick(30000, 600000)
	for i := 0; i < n; i++ {
		if !c.Mine(i) {
			continue
		}
		r := c.Rand("c06-random", i)
		obj, marks := randObject(r)
		f := randFilter(r, obj, marks)
		if i%5 == 4 {
			// caldav.Filter over a list; the query is aimed at the first object
			objs := []Comp{obj}
			for k := r.Intn(5); k > 0; k-- {
				o, _ := randObject(r)
				if r.Intn(4) == 0 {
					o = obj.clone() // equal twins must both be kept or both dropped
				}
				objs = append(objs, o)
			}
			r.Shuffle(len(objs), func(a, b int) { objs[a], objs[b] = objs[b], objs[a] })
			if r.Intn(8) == 0 {
				objs = nil
			}
			cs := Case{Op: "filter", Universe: "d:random", Filter: &f, Objects: objs, WithRequest: r.Intn(2) == 0}
			if r.Intn(10) == 0 {
				cs.Filter = nil
			}
			execFilter(c, cs)
			if cs.Filter != nil {
				for k := range objs {
					execMatch(c, Case{Op: "match", Universe: "d:random", Filter: &f, Object: &objs[k]})
				}
			}
			continue
		}
		execMatch(c, Case{Op: "match", Universe: "d:random", Filter: &f, Object: &obj})
	}
}

// ---------------------------------------------------------------------------
// (e) large-list universe: caldav.Filter over long lists
// ---------------------------------------------------------------------------

// LargeSpec generates one large-list Filter case; it is the witness.
type LargeSpec struct {
	N       int    `json:"n"`
	Pattern string `json:"pattern"` // all | none | alternating | first-only | last-only | ends-only | random
	Flavor  string `json:"flavor"`  // text | time-range
	Heavy   string `json:"heavy"`   // none | front | back: where the expensive-to-match objects sit
	Procs   int    `json:"gomaxprocs"`
	Seed    int64  `json:"seed"`
	Nil     bool   `json:"nil_query,omitempty"`
	Request bool   `json:"with_request,omitempty"`
}

var (
	largeLengths  = []int{16, 17, 31, 32, 33, 64, 65, 100, 127, 128, 129, 130, 255, 256, 257, 500, 511, 512, 513, 1000, 1024, 1025, 2048, 2049, 4096}
	largePatterns = []string{"all", "none", "alternating", "first-only", "last-only", "ends-only", "random"}
)

// buildLarge builds the query and the objects. Object i matches iff the
// pattern says so; objects vary in shape, and "heavy" ones (recurring with
// many instances, several alarms and properties) cost more to match.
func buildLarge(sp LargeSpec) (*CompFilter, []Comp) {
	r := rand.New(rand.NewSource(sp.Seed*1000003 + int64(sp.N)))
	want := func(i int) bool {
		switch sp.Pattern {
		case "all":
			return true
		case "none":
			return false
		case "alternating":
			return i%2 == 0
		case "first-only":
			return i == 0
		case "last-only":
			return i == sp.N-1
		case "ends-only":
			return i == 0 || i == sp.N-1
		}
		return r.Intn(2) == 0
	}
	objs := make([]Comp, sp.N)
	for i := range objs {
		m := want(i)
		heavy := (sp.Heavy == "front" && i < sp.N/4) || (sp.Heavy == "back" && i >= sp.N-sp.N/4)
		ev := Comp{Name: "VEVENT", Props: []Prop{rawProp("UID", fmt.Sprintf("u%d", i))}}
		// time: strictly inside [g(1), g(4)) when matching, far away otherwise
		S := g(2)
		if !m || sp.Flavor != "time-range" {
			S = g(200 + i%7)
		}
		if sp.Flavor == "time-range" && m && heavy {
			// first instance long before the range, a later one inside it
			S = g(2).Add(-20 * 24 * time.Hour)
		}
		switch i % 3 {
		case 0:
			ev.Props = append(ev.Props, dtProp("DTSTART", S, "utc"), dtProp("DTEND", S.Add(time.Hour), "utc"))
		case 1:
			ev.Props = append(ev.Props, dtProp("DTSTART", S, "utc"), durProp(30*time.Minute))
		default:
			ev.Props = append(ev.Props, dtProp("DTSTART", S, "utc"))
		}
		if heavy {
			ev.Props = append(ev.Props, rawProp("RRULE", "FREQ=DAILY;COUNT=40"))
			for k := 0; k < 4; k++ {
				ev.Children = append(ev.Children, Comp{Name: "VALARM", Props: []Prop{textProp("DESCRIPTION", "alarm")}})
				ev.Props = append(ev.Props, textProp("X-PAD", fmt.Sprintf("padding %d", k)))
			}
		}
		sum := "no such thing"
		if m || sp.Flavor != "text" {
			sum = fmt.Sprintf("yes %d", i)
		}
		ev.Props = append(ev.Props, textProp("SUMMARY", sum))
		cal := vcal(ev)
		if i%5 == 0 {
			cal = vcal(Comp{Name: "VTODO", Props: []Prop{textProp("SUMMARY", "yes")}}, ev)
		}
		objs[i] = cal
	}
	if sp.Nil {
		return nil, objs
	}
	f := CompFilter{Name: "VCALENDAR"}
	if sp.Flavor == "time-range" {
		f.Comps = []CompFilter{{Name: "VEVENT", Start: mkTime(g(1), ""), End: mkTime(g(4), "")}}
	} else {
		f.Comps = []CompFilter{{Name: "VEVENT", Props: []PropFilter{{Name: "SUMMARY", Text: &TextMatch{Text: "yes"}}}}}
	}
	return &f, objs
}

func execLarge(c *fw.Ctx, sp LargeSpec) {
	f, objs := buildLarge(sp)
	if sp.Procs > 0 {
		prev := runtime.GOMAXPROCS(sp.Procs)
		defer runtime.GOMAXPROCS(prev)
	}
	execFilter(c, Case{Op: "filter", Universe: "e:large-lists", Filter: f, Objects: objs, WithRequest: sp.Request, Large: &sp})
}

func runLargeListUniverse(c *fw.Ctx, deal func() bool) {
	procs := []int{1, 4}
	reps := 2
	if c.Thorough() {
		procs = []int{1, 2, 8}
		reps = 4
	}
	k := 0
	for rep := 0; rep < reps; rep++ {
		for _, n := range largeLengths {
			for _, pat := range largePatterns {
				for _, p := range procs {
					k++
					if !deal() {
						continue
					}
					sp := LargeSpec{N: n, Pattern: pat, Procs: p, Seed: c.Seed*31 + int64(rep),
						Flavor:  []string{"text", "time-range"}[(k/2)%2],
						Heavy:   []string{"none", "front", "back"}[(k/3)%3],
						Request: k%4 == 0}
					execLarge(c, sp)
				}
			}
			// nil query over a long list: the whole input
			for _, p := range procs {
				if deal() {
					execLarge(c, LargeSpec{N: n, Pattern: "random", Flavor: "text", Heavy: "none", Procs: p, Seed: c.Seed*31 + int64(rep), Nil: true})
				}
			}
		}
	}
	c.Note("universe_e", fmt.Sprintf("large lists: lengths %v x patterns %v x GOMAXPROCS %v x %d repetitions", largeLengths, largePatterns, procs, reps))
}

// ---------------------------------------------------------------------------
// (f) text-match universe: needles placed everywhere in values with TEXT
// escapes, list commas, semicolons, empty / non-ASCII / mixed-case content
// ---------------------------------------------------------------------------

var fValues = []string{
	"WORK,HOME", "WORK,HOME,TRAVEL", "Work,home", `a\, b`, `a\; b`, `back\\slash`, `line1\nline2`, `line1\Nline2`,
	"x;y;z", "", "plain text", `one\,still one,two`, "trail,", ",lead", "Résumé,Café", "MiXeD Case",
	`p\,q,r\;s,t\\u`, "Lunch, then coffee",
}

// runeSubstrings: all substrings of s of 1..maxRunes runes, cut at rune
// boundaries (so every needle is valid UTF-8 and survives JSON).
func runeSubstrings(s string, maxRunes int, into map[string]bool) {
	var idx []int
	for i := range s {
		idx = append(idx, i)
	}
	idx = append(idx, len(s))
	for a := 0; a < len(idx)-1; a++ {
		for b := a + 1; b < len(idx) && b-a <= maxRunes; b++ {
			into[s[idx[a]:idx[b]]] = true
		}
	}
}

// needlesFor: every placement of a needle relative to value v.
func needlesFor(v string) []string {
	set := map[string]bool{"": true, "zz": true, v: true}
	runeSubstrings(v, 5, set)
	r := &refEval{ood: map[string]int{}, amb: map[string]int{}}
	for _, reading := range propTextCandidates(v, r) {
		for _, h := range reading {
			set[h] = true
			runeSubstrings(h, 5, set)
		}
	}
	// ASCII case variants of the short ones
	for n := range set {
		if utf8.RuneCountInString(n) <= 3 {
			if u := strings.ToUpper(n); utf8.ValidString(u) {
				set[u] = true
			}
			if l := strings.ToLower(n); utf8.ValidString(l) {
				set[l] = true
			}
		}
	}
	out := make([]string, 0, len(set))
	for n := range set {
		out = append(out, n)
	}
	sort.Strings(out)
	return out
}

// needlePlacement classifies a needle for the evidence tables.
func needlePlacement(v, needle string) string {
	r := &refEval{ood: map[string]int{}, amb: map[string]int{}}
	readings := propTextCandidates(v, r)
	if readings == nil {
		return "malformed escape"
	}
	switch r.textVerdict(TextMatch{Text: needle}, readings) {
	case triU:
		return "readings disagree (spans escape / item boundary, or case variant)"
	case triF:
		return "absent under every reading"
	}
	if len(readings) == 3 {
		items := readings[2]
		if len(items) > 1 && !strings.Contains(items[0], needle) {
			return "within a 2nd+ list item (all readings contain)"
		}
		if len(items) > 1 {
			return "within the 1st list item (all readings contain)"
		}
	}
	return "contained under every reading"
}

func runTextUniverse(c *fw.Ctx, deal func() bool) {
	type pk struct {
		name   string
		params []Param
	}
	props := []pk{{"SUMMARY", nil}, {"CATEGORIES", nil}, {"RESOURCES", nil}, {"X-A", nil}, {"X-A", []Param{{Name: "VALUE", Vals: []string{"TEXT"}}}}}
	n := 0
	for _, v := range fValues {
		needles := needlesFor(v)
		for _, needle := range needles {
			place := needlePlacement(v, needle)
			for _, neg := range []bool{false, true} {
				for _, p := range props {
					if !deal() {
						continue
					}
					n++
					cal := vcal(Comp{Name: "VEVENT", Props: []Prop{rawProp("UID", "t1"), rawProp(p.name, v, p.params...)}})
					f := CompFilter{Name: "VCALENDAR", Comps: []CompFilter{{Name: "VEVENT",
						Props: []PropFilter{{Name: p.name, Text: &TextMatch{Text: needle, Negate: neg}}}}}}
					o := execMatch(c, Case{Op: "match", Universe: "f:text-match (exhaustive)", Filter: &f, Object: &cal})
					res := o.Class
					if failing(res) {
						res = "deviates"
					}
					c.Observe("f_text_match_needle_placement", place+" / "+res, 1)
				}
			}
		}
	}
	// parameter values: single-valued, and as the 2nd value of a multi-valued parameter
	for _, v := range []string{"Doe, John", "a;b:c", "Alice", "MiXeD", "Äö ü", `quo"te`} {
		set := map[string]bool{"": true, "zz": true, v: true}
		runeSubstrings(v, 4, set)
		for nd := range set {
			if utf8.RuneCountInString(nd) <= 2 {
				set[strings.ToUpper(nd)] = true
				set[strings.ToLower(nd)] = true
			}
		}
		var needles []string
		for nd := range set {
			if utf8.ValidString(nd) {
				needles = append(needles, nd)
			}
		}
		sort.Strings(needles)
		for _, needle := range needles {
			for _, neg := range []bool{false, true} {
				for _, multi := range []bool{false, true} {
					if !deal() {
						continue
					}
					n++
					vals := []string{v}
					if multi {
						vals = []string{"first", v}
					}
					cal := vcal(Comp{Name: "VEVENT", Props: []Prop{rawProp("ATTENDEE", "mailto:a@example.com", Param{Name: "CN", Vals: vals})}})
					f := CompFilter{Name: "VCALENDAR", Comps: []CompFilter{{Name: "VEVENT",
						Props: []PropFilter{{Name: "ATTENDEE", Params: []ParamFilter{{Name: "CN", Text: &TextMatch{Text: needle, Negate: neg}}}}}}}}
					o := execMatch(c, Case{Op: "match", Universe: "f:text-match (exhaustive)", Filter: &f, Object: &cal})
					res := o.Class
					if failing(res) {
						res = "deviates"
					}
					form := "single-valued parameter"
					if multi {
						form = "2nd value of a multi-valued parameter"
					}
					c.Observe("f_text_match_parameter", form+" / "+res, 1)
				}
			}
		}
	}
	if n > 0 {
		c.Note("universe_f", fmt.Sprintf("text-match: %d property values x all needle placements x negate x 5 properties, plus parameter values", len(fValues)))
	}
}

package c04

import (
	"fmt"
	"math/rand"
	"net/http"
	"strings"

	"github.com/emersion/go-webdav"
	"github.com/emersion/go-webdav/caldav"
	"github.com/emersion/go-webdav/carddav"
	"github.com/emersion/go-webdav/internal"
	"github.com/emersion/go-webdav/verifharness/doubles"
	"github.com/emersion/go-webdav/verifharness/fw"
)

type passCase struct {
	Part    string `json:"part"`
	Server  string `json:"server"` // "caldav" | "carddav"
	IMKind  string `json:"if_match_kind"`
	INMKind string `json:"if_none_match_kind"`
	SendIM  bool   `json:"send_if_match"`
	SendINM bool   `json:"send_if_none_match"`
	IMHex   string `json:"if_match_hex,omitempty"`
	INMHex  string `json:"if_none_match_hex,omitempty"`
	IMQ     string `json:"if_match_quoted,omitempty"`
	INMQ    string `json:"if_none_match_quoted,omitempty"`
	Exists  bool   `json:"object_exists"`
	// Prefix: the handler serves below this URL path prefix (Handler.Prefix);
	// the backend's paths lie below it too.
	Prefix string `json:"prefix,omitempty"`
	// observed
	SeenIM  string `json:"server_saw_if_match,omitempty"`
	SeenINM string `json:"server_saw_if_none_match,omitempty"`
	GotIM   string `json:"backend_got_if_match,omitempty"`
	GotINM  string `json:"backend_got_if_none_match,omitempty"`
	Status  int    `json:"status,omitempty"`
}

var passKinds = []string{"unset", "empty", "*", "quoted-plain", "quoted-hostile", "weak", "list", "garbage", "padded", "high-bytes", "long", "star-padded"}

func genHeaderValue(r *rand.Rand, kind string) (send bool, v string) {
	switch kind {
	case "unset":
		return false, ""
	case "empty":
		return true, ""
	case "*":
		return true, "*"
	case "quoted-plain":
		return true, `"` + genTag(r, "plain") + `"`
	case "quoted-hostile":
		return true, internal.ETag(genTag(r, tagClasses[r.Intn(10)])).String()
	case "weak":
		return true, `W/"` + genTag(r, "plain") + `"`
	case "list":
		return true, `"` + genTag(r, "plain") + `", "` + genTag(r, "plain") + `", *`
	case "garbage":
		const pool = "abcXYZ019 !#$%&'()*+,-./:;<=>?@[\\]^_`{|}~\"\t"
		n := 1 + r.Intn(30)
		b := make([]byte, n)
		for i := range b {
			b[i] = pool[r.Intn(len(pool))]
		}
		return true, string(b)
	case "padded":
		pad := []string{" ", "  ", "\t", " \t "}
		return true, pad[r.Intn(4)] + `"` + genTag(r, "plain") + `"` + pad[r.Intn(4)]
	case "high-bytes":
		n := 1 + r.Intn(20)
		b := make([]byte, n)
		for i := range b {
			b[i] = byte(0x80 + r.Intn(0x80))
		}
		return true, `"` + string(b) + `"`
	case "long":
		return true, `"` + strings.Repeat(genTag(r, "plain"), 200+r.Intn(300)) + `"`
	case "star-padded":
		return true, []string{" *", "* ", "**", "*,*", `"*"`}[r.Intn(5)]
	}
	return false, ""
}

const passICS = "BEGIN:VCALENDAR\r\nVERSION:2.0\r\nPRODID:-//verif//c04//EN\r\nBEGIN:VEVENT\r\nUID:c04-event\r\nDTSTAMP:20200101T000000Z\r\nDTSTART:20200102T100000Z\r\nDTEND:20200102T110000Z\r\nSUMMARY:c04\r\nEND:VEVENT\r\nEND:VCALENDAR\r\n"
const passVCF = "BEGIN:VCARD\r\nVERSION:4.0\r\nUID:c04-card\r\nFN:C Four\r\nEND:VCARD\r\n"

func execPass(c *fw.Ctx, cs passCase) {
	cs.Part = "passthru"
	c.Journal(cs)
	defer c.JournalDone()
	im, inm := unhx(cs.IMHex), unhx(cs.INMHex)
	cs.IMQ, cs.INMQ = q(im), q(inm)

	var (
		inner  http.Handler
		target string
		ctype  string
		body   string
		putOp  string
		calls  func() []doubles.Call
	)
	px := cs.Prefix
	switch cs.Server {
	case "caldav":
		b := &doubles.CalBackend{Principal: px + "/u/", HomeSet: px + "/u/cal/", Calendars: []caldav.Calendar{{Path: px + "/u/cal/c1/", Name: "c1", SupportedComponentSet: []string{"VEVENT"}}}}
		if cs.Exists {
			b.Objects = []caldav.CalendarObject{{Path: px + "/u/cal/c1/x.ics", ETag: "old"}}
		}
		inner, calls = &caldav.Handler{Backend: b, Prefix: px}, b.Calls
		target, ctype, body, putOp = px+"/u/cal/c1/x.ics", "text/calendar; charset=utf-8", passICS, "PutCalendarObject"
	default:
		b := &doubles.CardBackend{Principal: px + "/u/", HomeSet: px + "/u/card/", Books: []carddav.AddressBook{{Path: px + "/u/card/b1/", Name: "b1"}}}
		if cs.Exists {
			b.Objects = []carddav.AddressObject{{Path: px + "/u/card/b1/x.vcf", ETag: "old"}}
		}
		inner, calls = &carddav.Handler{Backend: b, Prefix: px}, b.Calls
		target, ctype, body, putOp = px+"/u/card/b1/x.vcf", "text/vcard; charset=utf-8", passVCF, "PutAddressObject"
	}
	h := &tap{inner: inner}
	hs := []hdr{{"Content-Type", ctype}}
	if cs.SendIM {
		hs = append(hs, hdr{"If-Match", im})
	}
	if cs.SendINM {
		hs = append(hs, hdr{"If-None-Match", inm})
	}
	rp := do(h, "PUT", target, hs, []byte(body))
	c.Eval(1)
	c.Distinct("passthru|" + cs.Server + "|" + cs.IMKind + "|" + cs.INMKind)
	c.Observe("passthru handler prefix", q(cs.Prefix), 1)
	key := "passthru|" + cs.Server + "|"
	if rp.Panic != "" {
		c.Report(key+"panic", "PUT handler panicked: "+rp.Panic, cs)
		return
	}
	if rp.Err != "" || h.last == nil {
		c.Inconclusive(fmt.Sprintf("C04 passthru: exchange failed: %s (If-Match %s, If-None-Match %s)", rp.Err, cs.IMQ, cs.INMQ))
		return
	}
	cs.Status = rp.Status
	cs.SeenIM, cs.SeenINM = q(h.last.IM), q(h.last.INM)
	if h.last.NIM > 1 || h.last.NINM > 1 {
		c.Inconclusive("C04 passthru: more than one header line reached the server")
		return
	}
	// how net/http delivered the value (observation only)
	deliver := func(sent bool, v, seen string) string {
		switch {
		case !sent:
			return "not sent"
		case v == seen:
			return "verbatim"
		case strings.TrimSpace(v) == seen:
			return "trimmed by net/http"
		}
		return "altered by net/http"
	}
	c.Observe("passthru delivery", deliver(cs.SendIM, im, h.last.IM), 1)
	c.Observe("passthru delivery", deliver(cs.SendINM, inm, h.last.INM), 1)

	var gotIM, gotINM webdav.ConditionalMatch
	found := false
	for _, call := range calls() {
		if call.Op != putOp {
			continue
		}
		switch o := call.Arg2.(type) {
		case caldav.PutCalendarObjectOptions:
			gotIM, gotINM, found = o.IfMatch, o.IfNoneMatch, true
		case carddav.PutAddressObjectOptions:
			gotIM, gotINM, found = o.IfMatch, o.IfNoneMatch, true
		}
	}
	c.Observe("passthru "+cs.Server, fmt.Sprintf("status %d, backend called: %v", rp.Status, found), 1)
	if !found {
		c.Report(key+"backend not called", fmt.Sprintf("a valid PUT answered %d and never reached %s", rp.Status, putOp), cs)
		return
	}
	cs.GotIM, cs.GotINM = q(string(gotIM)), q(string(gotINM))
	if c.WantSample() && c.Shard%4 == 3 && cs.SendIM && cs.SendINM {
		c.Sample(cs)
	}
	okIM, okINM := string(gotIM) == h.last.IM, string(gotINM) == h.last.INM
	switch {
	case !okIM && !okINM:
		c.Report(key+"both values altered", fmt.Sprintf("server saw If-Match %s / If-None-Match %s, backend received %s / %s", cs.SeenIM, cs.SeenINM, cs.GotIM, cs.GotINM), cs)
	case !okIM:
		c.Report(key+"If-Match "+alteration(h.last.IM, string(gotIM)), fmt.Sprintf("server saw If-Match %s, backend received %s", cs.SeenIM, cs.GotIM), cs)
	case !okINM:
		c.Report(key+"If-None-Match "+alteration(h.last.INM, string(gotINM)), fmt.Sprintf("server saw If-None-Match %s, backend received %s", cs.SeenINM, cs.GotINM), cs)
	}
}

func alteration(seen, got string) string {
	if got == "" {
		return "dropped"
	}
	if seen == "" {
		return "invented"
	}
	return "altered"
}

func runPassThrough(c *fw.Ctx) {
	n := c.Pick(1000, 20000)
	k := len(passKinds)
	for i := 0; i < n; i++ {
		if !c.Mine(i) {
			continue
		}
		r := c.Rand("c04-passthru", i)
		cs := passCase{IMKind: passKinds[i%k], INMKind: passKinds[(i/k)%k], Exists: r.Intn(2) == 0}
		var im, inm string
		cs.SendIM, im = genHeaderValue(r, cs.IMKind)
		cs.SendINM, inm = genHeaderValue(r, cs.INMKind)
		cs.IMHex, cs.INMHex = hx(im), hx(inm)
		cs.Prefix = []string{"", "", "/dav", "/a/b"}[r.Intn(4)]
		for _, srv := range []string{"caldav", "carddav"} {
			cs.Server = srv
			execPass(c, cs)
		}
	}
}

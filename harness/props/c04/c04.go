// Package c04 monitors property C04: If-Match / If-None-Match preconditions
// are honoured exactly.
//
// Four monitors run the real go-webdav code and judge what they see at its
// public boundary:
//
//   - product:  the exhaustive 3 x 9 x 9 x 2 truth table against
//     webdav.Handler{LocalFileSystem} (status + strict directory snapshot);
//   - announce: the tag announced by PUT, GET, HEAD and PROPFIND for one
//     unmodified file is one string, and it is accepted back;
//   - codec:    ConditionalMatch helpers and the getetag XML property over
//     seeded hostile tag strings, plus the full server path over a MemFS
//     holding a file with that tag;
//   - passthru: CalDAV / CardDAV PUT hands both header values to the backend.
package c04

import (
	"bytes"
	"context"
	"encoding/hex"
	"encoding/json"
	"fmt"
	"io"
	"io/ioutil"
	"net/http"
	"strconv"
	"time"

	"github.com/emersion/go-webdav/verifharness/davx"
	"github.com/emersion/go-webdav/verifharness/doubles"
	"github.com/emersion/go-webdav/verifharness/fw"
	"github.com/emersion/go-webdav/verifharness/props/fsx"
)

// hdr is one request header line (K in canonical form).
type hdr struct{ K, V string }

// reply is what came back from one in-process exchange.
type reply struct {
	Status int
	Header http.Header
	Body   []byte
	Panic  string // non-empty: the handler panicked (site)
	Err    string // non-empty: the exchange could not be carried out at all
}

// seenHdr is what the handler under test was handed by net/http.
type seenHdr struct {
	IM, INM   string
	NIM, NINM int
}

// tap records the conditional headers exactly as the server-side request
// carries them, then hands the request to the real handler.
type tap struct {
	inner http.Handler
	last  *seenHdr
	// done, when non-empty, makes the handler see a request whose context is
	// already done, as behind a timeout middleware or a reverse proxy whose
	// deadline has run out ("deadline"), or after the client has gone away
	// ("cancelled"). The request itself (headers, body) is complete.
	done string
}

func (t *tap) ServeHTTP(w http.ResponseWriter, r *http.Request) {
	t.last = &seenHdr{
		IM: r.Header.Get("If-Match"), INM: r.Header.Get("If-None-Match"),
		NIM: len(r.Header.Values("If-Match")), NINM: len(r.Header.Values("If-None-Match")),
	}
	switch t.done {
	case "cancelled":
		ctx, cancel := context.WithCancel(r.Context())
		cancel()
		r = r.WithContext(ctx)
	case "deadline":
		// a deadline in 1970 has passed whatever the clock says
		ctx, cancel := context.WithDeadline(r.Context(), time.Unix(0, 0))
		defer cancel()
		r = r.WithContext(ctx)
	}
	t.inner.ServeHTTP(w, r)
}

// do sends one request through a real HTTP/1.1 serialisation to h.
func do(h http.Handler, method, target string, hs []hdr, body []byte) (rp reply) {
	var rd io.Reader
	if body != nil {
		rd = bytes.NewReader(body)
	}
	req, err := http.NewRequest(method, "http://dav.test"+target, rd)
	if err != nil {
		rp.Err = "NewRequest: " + err.Error()
		return
	}
	for _, x := range hs {
		req.Header[x.K] = append(req.Header[x.K], x.V)
	}
	cl := &doubles.InProc{Handler: h}
	var resp *http.Response
	panicked, pv, stack := fw.Guard(func() { resp, err = cl.Do(req) })
	if panicked {
		rp.Panic = fw.PanicSite(stack) + ": " + fmt.Sprint(pv)
		return
	}
	if err != nil {
		rp.Err = "Do: " + err.Error()
		return
	}
	rp.Status = resp.StatusCode
	rp.Header = resp.Header
	rp.Body, _ = ioutil.ReadAll(resp.Body)
	resp.Body.Close()
	return
}

// etagHeader returns the ETag response header and whether there is exactly one.
func (rp reply) etagHeader() (string, bool) {
	v := rp.Header.Values("Etag")
	if len(v) != 1 {
		return "", false
	}
	return v[0], true
}

const propfindGetETag = `<?xml version="1.0" encoding="utf-8"?><D:propfind xmlns:D="DAV:"><D:prop><D:getetag/></D:prop></D:propfind>`

// propfindETag asks for getetag of path and returns the property's text as
// read by the independent multistatus reader.
func propfindETag(h http.Handler, target, depth, wantPath string, allprop bool) (val string, found bool, problem string) {
	hs := []hdr{{"Depth", depth}}
	var body []byte
	if !allprop {
		hs = append(hs, hdr{"Content-Type", "application/xml; charset=utf-8"})
		body = []byte(propfindGetETag)
	}
	rp := do(h, "PROPFIND", target, hs, body)
	if rp.Panic != "" {
		return "", false, "panic " + rp.Panic
	}
	if rp.Err != "" {
		return "", false, rp.Err
	}
	if rp.Status != 207 {
		return "", false, fmt.Sprintf("PROPFIND status %d", rp.Status)
	}
	ms, err := davx.ReadMultiStatus(rp.Body)
	if err != nil {
		return "", false, "multistatus unreadable: " + err.Error()
	}
	for _, r := range ms.Responses {
		if len(r.Paths) == 1 && r.Paths[0] == wantPath {
			n, code := r.Prop(davx.NS, "getetag")
			if n != nil && code == 200 {
				return n.TextContent(), true, ""
			}
			return "", false, ""
		}
	}
	return "", false, "no response for " + wantPath
}

// q renders a byte string for witnesses and messages (ASCII only).
func q(s string) string { return strconv.QuoteToASCII(s) }

func hx(s string) string { return hex.EncodeToString([]byte(s)) }

func unhx(s string) string {
	b, _ := hex.DecodeString(s)
	return string(b)
}

// ---------------------------------------------------------------------------

func run(c *fw.Ctx) {
	runProduct(c)
	runNear(c)
	runAnnounce(c)
	runCodec(c)
	runPassThrough(c)
	// conditional uploads during which another request changes the target:
	// "otherwise it is answered 412 and nothing changes" also when the
	// precondition stops holding mid-upload (shared family, see props/fsx)
	fsx.Interference(c, fsx.Monitors{Unchanged: true})
}

func replay(c *fw.Ctx, w json.RawMessage) {
	var head struct {
		Part string `json:"part"`
	}
	if json.Unmarshal(w, &head) != nil {
		return
	}
	switch head.Part {
	case "product":
		var cs prodCase
		if json.Unmarshal(w, &cs) == nil {
			execProduct(c, cs)
		}
	case "announce":
		var cs annCase
		if json.Unmarshal(w, &cs) == nil {
			execAnnounce(c, cs)
		}
	case "codec":
		var cs codecCase
		if json.Unmarshal(w, &cs) == nil {
			execCodec(c, cs)
		}
	case "passthru":
		var cs passCase
		if json.Unmarshal(w, &cs) == nil {
			execPass(c, cs)
		}
	}
}

func init() {
	fw.Register(&fw.Property{
		ID:     "C04",
		Run:    run,
		Replay: replay,
		Rule: "product (exhaustive, both tiers): resource state {absent,file,collection} x If-Match {unset,*,current,stale,other,bare-word,weak,list,unterminated} x If-None-Match likewise x {PUT,DELETE} = 486 requests against webdav.Handler{LocalFileSystem}, each on a fresh tree with explicit mtimes, judged by the statement's truth table on (status, strict before/after snapshot incl. directory mtimes); current/stale tags are the strings the server announced (GET ETag) before/after a size+mtime change (collections: LocalFileSystem.Stat). " +
			"every cell is repeated with an ignorable date validator, under another spelling of the path, one in four at another placement (/d/t; served directory named with a trailing slash or a '.' element), and once as a request whose context is already done when the handler sees it (cancelled / deadline passed): such a request may be given up with 5xx/408, but one whose preconditions fail changes nothing and any other answer is judged as with a live context. " +
			"near: the earlier ('stale') state of the file differs from the current one by 1 ns / <1 us / <1 ms / <1 s of modification time at equal size, or by one byte at equal modification time (os.Chtimes on a file system that stores what was set, else skipped), earlier or later, random base time: the earlier state's tag in If-Match -> 412 unchanged, in If-None-Match -> holds; and well-formed tags one character away from the current one (prefix, extension, other case, one digit) behave as 'other'. " +
			"announce: files created by PUT with seeded sizes, optionally re-dated with os.Chtimes (epoch, 1ns, pre-1970, far future, random ns): ETag of PUT/GET/HEAD and getetag of PROPFIND (allprop, prop, Depth 1 on the parent) are one string; that string in If-None-Match -> 412 unchanged, in If-Match -> carried out. " +
			"codec: seeded tag byte strings (quotes, backslashes, control bytes, non-ASCII, invalid UTF-8, escape look-alikes) through internal.ETag.String -> ConditionalMatch.{IsSet,IsWildcard,ETag,MatchETag} and xml.Marshal(GetETag) -> independent reader / xml.Unmarshal; by-construction malformed values must be refused by the helpers; every 4th tag is also served from a MemFS through webdav.Handler (GET/HEAD/PROPFIND/PUT announce one string; the options the FileSystem received equal the header strings the server saw). " +
			"passthru: seeded header value pairs (unset, empty, *, quoted, hostile-quoted, weak, list, garbage, padded, long) PUT to caldav.Handler and carddav.Handler over recording backends: options received == r.Header.Get of both headers. " +
			"distinct_nontrivial counts distinct abstract classes: product cell (method,state,If-Match class,If-None-Match class), announce (mtime mode, accept-back branch), codec (tag class x value kind), passthru (server x If-Match kind x If-None-Match kind).",
		Assumptions: []string{
			"PUT onto an existing collection: whatever the unconditional request answers (405, or the status observed for the unconditional PUT in the same run) is accepted besides 412/400, and the tree must then look as after the unconditional request",
			"DELETE of an absent resource carrying If-Match: 404 and 412 are both accepted",
			"one header malformed and the other failing against an existing resource: 400 and 412 are both accepted",
			"a collection announces no entity tag over HTTP; its current tag is read with webdav.LocalFileSystem.Stat",
			"'not a quoted string' is decided by construction only: values without a leading or trailing double quote, with a W/ prefix, with text after the closing quote (lists), or Go character / raw-string literals; no value whose status as an HTTP quoted-string is debatable (backslash escapes) is ever labelled malformed",
			"well-formed header values are exactly those the library itself announced, plus \"…\" around [A-Za-z0-9._-]*",
			"header values are delivered through http.Request.Write / http.ReadRequest; the oracle of the pass-through part is relative to r.Header.Get as the handler sees it",
			"mtimes are set with os.Chtimes; no oracle depends on wall-clock time",
			"two states of a file are two states when the file system tells them apart (modification time in nanoseconds as stored, size); two states with the same (mtime, size) and different content are never used, nor pairs whose hex(mtime)+hex(size) concatenations coincide (the anchored definition of the tag makes them one tag)",
			"a request whose context is already done: the statement is silent on giving up; 5xx/408 with the tree unchanged is accepted for every cell, 5xx/408 after having done exactly what the request asked is accepted when the preconditions hold (the status of such a request is C02's business)",
			"interference family: an upload whose preconditions held when it began and that ends 2xx although another request changed the target meanwhile is tabulated, not judged - the statement does not fix the instant at which the tag is 'current'",
		},
		MinEvals: func(t string) int64 {
			if t == "thorough" {
				return 200000
			}
			return 7000
		},
		MinDistinct: func(t string) int64 { return 486 + 40 },
	})
}

package c04

import (
	"context"
	"fmt"
	"io/ioutil"
	"os"
	"path/filepath"
	"sort"
	"strings"
	"time"

	"github.com/emersion/go-webdav"
	"github.com/emersion/go-webdav/internal"
	"github.com/emersion/go-webdav/verifharness/fw"
	"github.com/emersion/go-webdav/verifharness/mon"
)

// --- the universe ----------------------------------------------------------

var (
	// "link": the resource is a symbolic link (placed on disk) to a regular
	// file elsewhere in the served directory; the tag GET announces for it is
	// the one conditional requests must accept back
	states  = []string{"absent", "file", "collection", "link"}
	methods = []string{"PUT", "DELETE"}
	conds   = []string{"unset", "*", "current", "stale", "other", "bare-word", "weak", "list", "unterminated"}
)

const otherHdr = `"c04-other-tag"`

var (
	tRoot  = time.Date(2001, 2, 3, 4, 5, 6, 123456789, time.UTC)
	tStale = time.Date(2005, 6, 7, 8, 9, 10, 987654321, time.UTC)
	tCur   = time.Date(2010, 11, 12, 13, 14, 15, 555000111, time.UTC)
)

func malformed(cond string) bool {
	switch cond {
	case "bare-word", "weak", "list", "unterminated":
		return true
	}
	return false
}

// fold is the class used in finding keys.
func fold(cond string) string {
	switch {
	case malformed(cond):
		return "malformed"
	case cond == "stale" || cond == "other":
		return "different-tag"
	case strings.HasPrefix(cond, "near-"):
		return "near-miss-tag"
	}
	return cond
}

// nearConds are well-formed tags that differ from the current one by very
// little; like "other" they are not the current tag.
var nearConds = []string{"near-prefix", "near-ext", "near-case", "near-byte"}

type prodCase struct {
	Part   string `json:"part"`
	Method string `json:"method"`
	State  string `json:"state"`
	IM     string `json:"if_match_class"`
	INM    string `json:"if_none_match_class"`
	// Extra: a further validator header that RFC 7232 tells a recipient to
	// ignore in this request, so the cell's verdict is the same with it:
	// "if-unmodified-since-old" (only with If-Match present; the date lies
	// before the resource's modification time), "if-modified-since-future"
	// (only with If-None-Match present).
	Extra string `json:"extra,omitempty"`
	// Spell: another spelling of the request path that names the same
	// resource: "slash" (/t/), "dotseg" (/./t), "dblslash" (//t), "updown"
	// (/x/../t). The verdict is the cell's.
	Spell string `json:"spell,omitempty"`
	// Ctx: the state of the request's context when the handler gets to see
	// the request: "" (live), "cancelled" or "deadline" (already done). The
	// preconditions evaluate to what they evaluate to with a live context; a
	// server may give up on such a request (5xx), it may not change its mind
	// about the resource.
	Ctx string `json:"request_context,omitempty"`
	// Near: the "stale" tag is the one the server announced for an earlier
	// state of the file that the file system distinguishes from the current
	// one by very little: the modification time differs by NearDeltaNs
	// nanoseconds and the size is the same ("mtime-1ns", "mtime-sub-us",
	// "mtime-sub-ms", "mtime-sub-s"), or the size differs by one byte and
	// the modification time is the same ("size-1"). The content differs.
	// Place: where the resource and the served directory are: "" (/t below
	// a served directory named by its clean absolute path), "nested" (/d/t),
	// "root-slash" / "root-dot" (the served directory is named with a
	// trailing slash / through a "." element). The verdict is the cell's.
	Place       string `json:"place,omitempty"`
	Near        string `json:"near,omitempty"`
	NearBaseNs  int64  `json:"near_mtime_ns,omitempty"`
	NearDeltaNs int64  `json:"near_delta_ns,omitempty"`
	// filled while executing (for the witness)
	IMValue  string `json:"if_match_value,omitempty"`
	INMValue string `json:"if_none_match_value,omitempty"`
	Status   int    `json:"status,omitempty"`
	Effect   string `json:"effect,omitempty"`
	Diff     string `json:"diff,omitempty"`
	Expected string `json:"expected,omitempty"`
}

// --- reference model (the statement's truth table) --------------------------

type verdict struct {
	carried  bool
	statuses map[int]bool // acceptable answers when not carried out
	want     string
}

// model decides one cell. exists = the resource exists before the request.
func model(method string, exists bool, im, inm string) verdict {
	const (
		holds = iota
		fails
		bad
	)
	var a, b int
	if !exists {
		// If-Match fails, If-None-Match holds, whatever the tag's syntax.
		if im != "unset" {
			a = fails
		}
		b = holds
	} else {
		switch {
		case im == "unset" || im == "*" || im == "current":
			a = holds
		case malformed(im):
			a = bad
		default:
			a = fails
		}
		switch {
		case inm == "unset":
			b = holds
		case inm == "*" || inm == "current":
			b = fails
		case malformed(inm):
			b = bad
		default:
			b = holds
		}
	}
	anyBad := a == bad || b == bad
	anyFail := a == fails || b == fails
	switch {
	case anyBad && anyFail:
		return verdict{statuses: map[int]bool{400: true, 412: true}, want: "400-or-412 unchanged"}
	case anyBad:
		return verdict{statuses: map[int]bool{400: true}, want: "400 unchanged"}
	case anyFail && !exists && method == "DELETE":
		return verdict{statuses: map[int]bool{404: true, 412: true}, want: "404-or-412 unchanged"}
	case anyFail:
		return verdict{statuses: map[int]bool{412: true}, want: "412 unchanged"}
	}
	return verdict{carried: true, want: "carried-out"}
}

// --- fixture -----------------------------------------------------------------

type fixture struct {
	noTag    bool // the resource (a collection) announces no entity tag
	root     string
	h        *tap
	curHdr   string // header value of the current tag
	staleHdr string // header value of a tag the resource had earlier
	curRaw   string // current tag without quotes when it is plain, else ""
	rel      string // the resource's name relative to the served directory: "t" or "d/t"
	coarse   bool   // the file system did not keep a modification time as set
}

func plainTag(s string) bool {
	if s == "" {
		return false
	}
	for i := 0; i < len(s); i++ {
		ch := s[i]
		if !(ch >= 'a' && ch <= 'z' || ch >= 'A' && ch <= 'Z' || ch >= '0' && ch <= '9' || ch == '-' || ch == '.' || ch == '_') {
			return false
		}
	}
	return true
}

// quoteTag turns a raw tag into a header value: plain tags are quoted by the
// harness itself, anything else by the library's own encoder.
func quoteTag(tag string) string {
	if plainTag(tag) {
		return `"` + tag + `"`
	}
	return internal.ETag(tag).String()
}

func writeAt(p, data string, t time.Time) error {
	if err := ioutil.WriteFile(p, []byte(data), 0644); err != nil {
		return err
	}
	return os.Chtimes(p, t, t)
}

func serverTag(h *tap, target string) (string, error) {
	rp := do(h, "GET", target, nil, nil)
	if rp.Panic != "" || rp.Err != "" {
		return "", fmt.Errorf("GET %s: %s%s", target, rp.Panic, rp.Err)
	}
	if rp.Status != 200 {
		return "", fmt.Errorf("GET %s: status %d", target, rp.Status)
	}
	v, ok := rp.etagHeader()
	if !ok || v == "" {
		return "", fmt.Errorf("GET %s: no single ETag header (%v)", target, rp.Header.Values("Etag"))
	}
	return v, nil
}

// buildFixture creates root with keep.txt and the resource "t" in the given
// state, having had two different tags in its life.
func buildFixture(dir, state string, cs *prodCase) (*fixture, error) {
	root := filepath.Join(dir, "root")
	if err := os.MkdirAll(root, 0755); err != nil {
		return nil, err
	}
	fx := &fixture{root: root, rel: "t"}
	served := root
	if cs != nil {
		switch cs.Place {
		case "nested":
			fx.rel = "d/t"
			if err := os.Mkdir(filepath.Join(root, "d"), 0755); err != nil {
				return nil, err
			}
		case "root-slash":
			served = root + "/"
		case "root-dot":
			served = dir + "/./root"
		}
	}
	url := "/" + fx.rel
	fx.h = &tap{inner: &webdav.Handler{FileSystem: webdav.LocalFileSystem(served)}}
	if err := writeAt(filepath.Join(root, "keep.txt"), "keep", tRoot); err != nil {
		return nil, err
	}
	t := filepath.Join(root, filepath.FromSlash(fx.rel))
	// the earlier and the current state of the file
	oldData, oldTime, curData, curTime := "old!", tStale, "current-body", tCur
	if cs != nil && cs.Near != "" {
		curTime = time.Unix(0, cs.NearBaseNs)
		oldTime = time.Unix(0, cs.NearBaseNs+cs.NearDeltaNs)
		oldData = "earlier-body" // as long as the current content
		if cs.Near == "size-1" {
			oldData = "earlier-body!"
		}
	}
	// stored: the file system keeps the modification time exactly as set
	// (states it cannot tell apart are no two states for any server)
	stored := func(p string, want time.Time) {
		if st, err := os.Stat(p); err != nil || st.ModTime().UnixNano() != want.UnixNano() {
			fx.coarse = true
		}
	}
	switch state {
	case "absent", "file":
		if err := writeAt(t, oldData, oldTime); err != nil {
			return nil, err
		}
		stored(t, oldTime)
		v, err := serverTag(fx.h, url)
		if err != nil {
			return nil, err
		}
		fx.staleHdr = v
		if err := writeAt(t, curData, curTime); err != nil {
			return nil, err
		}
		stored(t, curTime)
		if v, err = serverTag(fx.h, url); err != nil {
			return nil, err
		}
		fx.curHdr = v
		if state == "absent" {
			if err := os.Remove(t); err != nil {
				return nil, err
			}
		}
	case "link":
		lt := filepath.Join(filepath.Dir(t), "lt.txt")
		if err := writeAt(lt, oldData, oldTime); err != nil {
			return nil, err
		}
		stored(lt, oldTime)
		if err := os.Symlink("lt.txt", t); err != nil {
			return nil, err
		}
		v, err := serverTag(fx.h, url)
		if err != nil {
			return nil, err
		}
		fx.staleHdr = v
		if err := writeAt(lt, curData, curTime); err != nil {
			return nil, err
		}
		stored(lt, curTime)
		if v, err = serverTag(fx.h, url); err != nil {
			return nil, err
		}
		fx.curHdr = v
	case "collection":
		if err := os.Mkdir(t, 0755); err != nil {
			return nil, err
		}
		if err := os.Chtimes(t, tStale, tStale); err != nil {
			return nil, err
		}
		lfs := webdav.LocalFileSystem(served)
		fi, err := lfs.Stat(context.Background(), url)
		if err != nil {
			return nil, err
		}
		if fi.ETag != "" {
			fx.staleHdr = quoteTag(fi.ETag)
		}
		if err := os.Mkdir(filepath.Join(t, "sub"), 0755); err != nil {
			return nil, err
		}
		if err := writeAt(filepath.Join(t, "sub", "deep.txt"), "deep", tCur); err != nil {
			return nil, err
		}
		if err := writeAt(filepath.Join(t, "child.txt"), "child", tCur); err != nil {
			return nil, err
		}
		if err := os.Chtimes(filepath.Join(t, "sub"), tCur, tCur); err != nil {
			return nil, err
		}
		if err := os.Chtimes(t, tCur, tCur); err != nil {
			return nil, err
		}
		if fi, err = lfs.Stat(context.Background(), url); err != nil {
			return nil, err
		}
		if fi.ETag == "" {
			// A collection need not announce a tag. There is then no
			// "current" or "stale" value to send; the other condition
			// classes use a placeholder tag where they need one.
			fx.noTag = true
			fx.staleHdr = ""
		} else {
			fx.curHdr = quoteTag(fi.ETag)
		}
	}
	if fx.rel != "t" {
		if err := os.Chtimes(filepath.Dir(t), tRoot, tRoot); err != nil {
			return nil, err
		}
	}
	if err := os.Chtimes(root, tRoot, tRoot); err != nil {
		return nil, err
	}
	if len(fx.curHdr) >= 2 && fx.curHdr[0] == '"' && fx.curHdr[len(fx.curHdr)-1] == '"' && plainTag(fx.curHdr[1:len(fx.curHdr)-1]) {
		fx.curRaw = fx.curHdr[1 : len(fx.curHdr)-1]
	}
	return fx, nil
}

// value returns the header value of a condition class ("" = header not sent).
func (fx *fixture) value(cond string) string {
	cur := fx.curHdr
	if fx.noTag {
		cur = `"c04-placeholder"`
	}
	switch cond {
	case "*":
		return "*"
	case "current":
		return fx.curHdr
	case "stale":
		return fx.staleHdr
	case "other":
		return otherHdr
	case "bare-word":
		if fx.curRaw != "" {
			return fx.curRaw // the current tag without its quotes
		}
		return "c04bareword"
	case "weak":
		return "W/" + cur
	case "list":
		return cur + ", " + otherHdr
	case "unterminated":
		return cur[:len(cur)-1]
	}
	// near misses of a plain current tag ("" = there is none for this fixture)
	raw := fx.curRaw
	if raw == "" {
		return ""
	}
	near := ""
	switch cond {
	case "near-prefix":
		near = raw[:len(raw)-1]
	case "near-ext":
		near = raw + "0"
	case "near-case":
		near = strings.ToUpper(raw)
		if near == raw {
			near = strings.ToLower(raw)
		}
	case "near-byte":
		last := byte('0')
		if raw[len(raw)-1] == '0' {
			last = '1'
		}
		near = raw[:len(raw)-1] + string(last)
	}
	if near == "" || near == raw {
		return ""
	}
	return `"` + near + `"`
}

// --- effect classification ----------------------------------------------------

func under(rel, k string) bool { return k == rel || strings.HasPrefix(k, rel+"/") }

// holder: the collections whose own mtime a write to rel may move (the served
// directory and the collection that holds the resource).
func holder(rel, k string) bool {
	return k == "" || (strings.Contains(rel, "/") && k == rel[:strings.LastIndex(rel, "/")])
}

// strictDiff lists every difference incl. directory mtimes.
func strictDiff(a, b mon.Snap) []string {
	d := mon.Diff(a, b, true)
	for k, ea := range a {
		if eb, ok := b[k]; ok && ea.Dir && eb.Dir && ea.MTime != eb.MTime {
			d = append(d, fmt.Sprintf("directory mtime changed %q", k))
		}
	}
	sort.Strings(d)
	return d
}

// classify names the effect of one request on the tree.
func classify(before, after mon.Snap, putBody, rel string) (class string, diff []string) {
	underT := func(k string) bool { return under(rel, k) }
	diff = strictDiff(before, after)
	if len(diff) == 0 {
		return "unchanged", nil
	}
	// everything outside t (and the root's own mtime) must be as before
	othersSame := true
	for k, ea := range before {
		if underT(k) || holder(rel, k) {
			continue
		}
		eb, ok := after[k]
		if !ok || ea != eb {
			othersSame = false
		}
	}
	for k := range after {
		if underT(k) || holder(rel, k) {
			continue
		}
		if _, ok := before[k]; !ok {
			othersSame = false
		}
	}
	if !othersSame {
		return "collateral-change", diff
	}
	tAfter := 0
	for k := range after {
		if underT(k) {
			tAfter++
		}
	}
	_, hadT := before[rel]
	if e, ok := after[rel]; ok && !e.Dir && e.Data == putBody && tAfter == 1 {
		return "put-applied", diff
	}
	if tAfter == 0 && hadT {
		return "deleted", diff
	}
	return "other-change", diff
}

// --- execution ------------------------------------------------------------------

var caseSeq int

func freshDir(c *fw.Ctx, tag string) string {
	caseSeq++
	return filepath.Join(c.WorkDir, fmt.Sprintf("%s-%d", tag, caseSeq))
}

type outcome struct {
	skipped string // non-empty: the cell does not exist for this fixture
	status  int
	effect  string
	diff    []string
	shape   string
	panic   string
	err     string
	seen    *seenHdr
	fx      *fixture
}

// runCell builds a fresh tree and performs one request of the product.
func runCell(c *fw.Ctx, cs *prodCase) (*outcome, error) {
	dir := freshDir(c, "prod")
	defer os.RemoveAll(dir)
	fx, err := buildFixture(dir, cs.State, cs)
	if err != nil {
		return nil, err
	}
	if cs.Near != "" && fx.coarse {
		return &outcome{skipped: "the file system does not keep modification times as set: the two states may be one"}, nil
	}
	if fx.noTag {
		if cs.IM == "current" || cs.IM == "stale" || cs.INM == "current" || cs.INM == "stale" {
			return &outcome{skipped: "the resource announces no entity tag: no current or stale value to send"}, nil
		}
	} else if fx.curHdr == otherHdr || fx.staleHdr == otherHdr || (fx.curHdr == fx.staleHdr && cs.Near == "") {
		// (in the near family the earlier state's tag is sent whatever it
		// is: it belongs to a state that is not the current one)
		return nil, fmt.Errorf("tags not pairwise distinct: current %s stale %s", fx.curHdr, fx.staleHdr)
	}
	var hs []hdr
	cs.IMValue, cs.INMValue = fx.value(cs.IM), fx.value(cs.INM)
	if (cs.IM != "unset" && cs.IMValue == "") || (cs.INM != "unset" && cs.INMValue == "") {
		return &outcome{skipped: "no such near miss of the current tag"}, nil
	}
	if cs.IM != "unset" {
		hs = append(hs, hdr{"If-Match", cs.IMValue})
	}
	if cs.INM != "unset" {
		hs = append(hs, hdr{"If-None-Match", cs.INMValue})
	}
	switch cs.Extra {
	case "if-unmodified-since-old":
		hs = append(hs, hdr{"If-Unmodified-Since", "Sat, 01 Jan 2000 00:00:00 GMT"})
	case "if-modified-since-future":
		hs = append(hs, hdr{"If-Modified-Since", "Tue, 01 Jan 2030 00:00:00 GMT"})
	}
	var body []byte
	if cs.Method == "PUT" {
		body = []byte(putBody)
	}
	before, err := mon.Snapshot(fx.root)
	if err != nil {
		return nil, err
	}
	fx.h.last = nil
	fx.h.done = cs.Ctx
	defer func() { fx.h.done = "" }()
	target := map[string]string{"": "/" + fx.rel, "slash": "/t/", "dotseg": "/./t", "dblslash": "//t", "updown": "/x/../t"}[cs.Spell]
	rp := do(fx.h, cs.Method, target, hs, body)
	fx.h.done = ""
	after, err := mon.Snapshot(fx.root)
	if err != nil {
		return nil, err
	}
	o := &outcome{status: rp.Status, panic: rp.Panic, err: rp.Err, seen: fx.h.last, fx: fx, shape: after.Shape()}
	o.effect, o.diff = classify(before, after, putBody, fx.rel)
	if cs.State == "link" && o.effect != "unchanged" {
		// Whether a write goes through the link or replaces it is not the
		// statement's business: the effect is judged by what GET serves
		// afterwards.
		g := do(fx.h, "GET", "/"+fx.rel, nil, nil)
		switch {
		case g.Status == 200 && string(g.Body) == putBody:
			o.effect = "put-applied"
		case g.Status == 404:
			o.effect = "deleted"
		default:
			o.effect = fmt.Sprintf("other-change (GET afterwards: %d)", g.Status)
		}
	}
	return o, nil
}

const putBody = "NEW-CONTENT-FROM-CONDITIONAL-PUT"

// baseline of the unconditional PUT onto a collection (per worker).
var putCollBaseline = map[string]*outcome{} // by placement

func execProduct(c *fw.Ctx, cs prodCase) {
	cs.Part = "product"
	c.Journal(cs)
	defer c.JournalDone()
	o, err := runCell(c, &cs)
	if err != nil {
		c.Inconclusive(fmt.Sprintf("C04 product %s/%s/%s/%s: fixture: %v", cs.Method, cs.State, cs.IM, cs.INM, err))
		return
	}
	if o.skipped != "" {
		c.Observe("product cells without a value to send", cs.State+": "+o.skipped, 1)
		return
	}
	if o.err != "" {
		c.Inconclusive(fmt.Sprintf("C04 product %s/%s/%s/%s: exchange failed: %s", cs.Method, cs.State, cs.IM, cs.INM, o.err))
		return
	}
	c.Eval(1)
	c.Distinct("product|" + cs.Method + "|" + cs.State + "|" + cs.IM + "|" + cs.INM + "|" + cs.Extra + "|" + cs.Spell + "|" + cs.Ctx + "|" + cs.Near + "|" + cs.Place)
	cs.Status, cs.Effect, cs.Diff = o.status, o.effect, strings.Join(o.diff, "; ")

	exists := cs.State != "absent"
	v := model(cs.Method, exists, cs.IM, cs.INM)
	cs.Expected = v.want
	if c.WantSample() && cs.IM != "unset" && cs.INM != "unset" && cs.State == "file" && c.Shard%4 == 1 {
		c.Sample(cs)
	}
	keyHead := cs.Method + "|" + cs.State + "|" + fold(cs.IM) + "|" + fold(cs.INM) + "|want "
	if cs.Extra != "" {
		keyHead = cs.Method + "|" + cs.State + "|" + fold(cs.IM) + "|" + fold(cs.INM) + "|+" + cs.Extra + "|want "
	}
	if cs.Spell != "" {
		keyHead = cs.Method + "|" + cs.State + "|" + fold(cs.IM) + "|" + fold(cs.INM) + "|path spelled " + cs.Spell + "|want "
	}
	if cs.Place != "" {
		keyHead = cs.Method + "|" + cs.State + "|" + fold(cs.IM) + "|" + fold(cs.INM) + "|placement " + cs.Place + "|want "
	}
	if cs.Near != "" {
		// one key per (method, which header carries the earlier state's tag,
		// what the two states differ in)
		differs := "modification time"
		if cs.Near == "size-1" {
			differs = "size"
		}
		keyHead = cs.Method + "|existing file|If-Match " + nearFold(cs.IM) + "|If-None-Match " + nearFold(cs.INM) + "|earlier state differs in " + differs + " only|want "
	}
	if cs.Ctx != "" {
		// coarse: one defect in how a done context is handled is a few keys
		res := "existing file"
		switch cs.State {
		case "absent", "collection":
			res = cs.State
		}
		keyHead = cs.Method + "|" + res + "|request context already done|want "
	}
	if o.panic != "" {
		c.Report(keyHead+v.want+"|got panic", "handler panicked: "+o.panic, cs)
		return
	}
	// the headers must have reached the handler as sent (harness sanity)
	if o.seen == nil || o.seen.IM != cs.IMValue || o.seen.INM != cs.INMValue {
		c.Inconclusive(fmt.Sprintf("C04 product: headers did not reach the handler as sent: %+v vs %q %q", o.seen, cs.IMValue, cs.INMValue))
		return
	}
	c.Observe("product status "+cs.Method+" "+cs.State, fmt.Sprintf("%s -> %d %s", v.want, o.status, o.effect), 1)
	got := fmt.Sprintf("got %d %s", o.status, o.effect)

	putOnColl := cs.Method == "PUT" && cs.State == "collection"
	if cs.Ctx != "" {
		c.Observe("product under a done request context ("+cs.Ctx+")", fmt.Sprintf("%s -> %d %s", v.want, o.status, o.effect), 1)
		// The statement does not speak of requests nobody waits for any
		// more: a server may give up on one (5xx / 408). What stays: a
		// request whose preconditions fail changes nothing, and one that is
		// given up either changes nothing or did what the request asked.
		if o.status >= 500 || o.status == 408 {
			switch {
			case !v.carried && o.effect != "unchanged":
				c.Report(keyHead+v.want+"|"+got,
					fmt.Sprintf("%s on %s resource with If-Match=%s If-None-Match=%s under a request context that is already done (%s): the preconditions fail, yet the tree changed: %s", cs.Method, cs.State, q(cs.IMValue), q(cs.INMValue), cs.Ctx, cs.Diff), cs)
			case v.carried && o.effect != "unchanged" && !(cs.Method == "PUT" && !putOnColl && o.effect == "put-applied") && !(cs.Method == "DELETE" && exists && o.effect == "deleted"):
				c.Report(keyHead+v.want+" or given up|"+got,
					fmt.Sprintf("%s on %s resource under a request context that is already done (%s): answered %d and left neither the old nor the requested state: %s", cs.Method, cs.State, cs.Ctx, o.status, cs.Diff), cs)
			}
			return
		}
		// any other answer is judged like the same request with a live context
	}
	if putOnColl {
		if putCollBaseline[cs.Place] == nil {
			b := prodCase{Part: "product", Method: "PUT", State: "collection", IM: "unset", INM: "unset", Place: cs.Place}
			bo, err := runCell(c, &b)
			if err != nil || bo.err != "" || bo.panic != "" {
				c.Inconclusive(fmt.Sprintf("C04 product: no baseline for PUT on a collection: %v %v", err, bo))
				return
			}
			putCollBaseline[cs.Place] = bo
			c.Observe("product baseline", fmt.Sprintf("unconditional PUT on collection -> %d %s", bo.status, bo.effect), 1)
		}
		base := putCollBaseline[cs.Place]
		okStatus := o.status == 405 || o.status == base.status || v.statuses[o.status]
		switch {
		case !okStatus:
			c.Report(keyHead+v.want+" (or as unconditional)|"+got,
				fmt.Sprintf("PUT on a collection with If-Match=%s If-None-Match=%s answered %d; acceptable: 405, %d (unconditional), %s", q(cs.IMValue), q(cs.INMValue), o.status, base.status, v.want), cs)
		case !v.carried && o.effect != "unchanged":
			c.Report(keyHead+v.want+"|"+got, "refused PUT on a collection changed the tree: "+cs.Diff, cs)
		case v.carried && o.shape != base.shape:
			c.Report(keyHead+"as unconditional|"+got, "PUT on a collection whose preconditions hold left a tree different from the unconditional PUT: "+cs.Diff, cs)
		}
		return
	}

	if !v.carried {
		switch {
		case !v.statuses[o.status]:
			c.Report(keyHead+v.want+"|"+got,
				fmt.Sprintf("%s on %s resource with If-Match=%s If-None-Match=%s: want %s, got status %d (%s)", cs.Method, cs.State, q(cs.IMValue), q(cs.INMValue), v.want, o.status, o.effect), cs)
		case o.effect != "unchanged":
			c.Report(keyHead+v.want+"|"+got,
				fmt.Sprintf("%s refused with %d but the tree changed: %s", cs.Method, o.status, cs.Diff), cs)
		}
		return
	}
	// carried out: the normal outcome of the unconditional request
	var wantStatus map[int]bool
	wantEffect := ""
	switch {
	case cs.Method == "PUT":
		wantStatus, wantEffect = map[int]bool{200: true, 201: true, 204: true}, "put-applied"
	case cs.Method == "DELETE" && exists:
		wantStatus, wantEffect = map[int]bool{200: true, 204: true}, "deleted"
	default:
		wantStatus, wantEffect = map[int]bool{404: true}, "unchanged"
	}
	if !wantStatus[o.status] || o.effect != wantEffect {
		c.Report(keyHead+v.want+"|"+got,
			fmt.Sprintf("%s on %s resource with If-Match=%s If-None-Match=%s: preconditions hold, want %s; got status %d, effect %s (%s)", cs.Method, cs.State, q(cs.IMValue), q(cs.INMValue), wantEffect, o.status, o.effect, cs.Diff), cs)
	}
}

func runProduct(c *fw.Ctx) {
	idx := 0
	for _, m := range methods {
		for _, st := range states {
			for _, im := range conds {
				for _, inm := range conds {
					if c.Mine(idx) {
						execProduct(c, prodCase{Method: m, State: st, IM: im, INM: inm})
						c.Observe("universe", "product cell (exhaustive 2x4x9x9)", 1)
						// the same cell with a validator header that must be ignored
						if im != "unset" {
							execProduct(c, prodCase{Method: m, State: st, IM: im, INM: inm, Extra: "if-unmodified-since-old"})
							c.Observe("universe", "product cell repeated with If-Unmodified-Since (ignored next to If-Match)", 1)
						}
						// ... and once under another spelling of the request path
						if sp := []string{"slash", "dotseg", "dblslash", "updown"}[idx%4]; !(sp == "slash" && m == "PUT" && st == "absent") {
							execProduct(c, prodCase{Method: m, State: st, IM: im, INM: inm, Spell: sp})
							c.Observe("universe", "product cell repeated under another spelling of the path ("+sp+")", 1)
						}
						// ... one cell in four at another placement of the
						// resource or another naming of the served directory
						if idx%4 == (idx/4)%4 {
							pl := []string{"nested", "root-slash", "nested", "root-dot"}[(idx/16)%4]
							execProduct(c, prodCase{Method: m, State: st, IM: im, INM: inm, Place: pl})
							c.Observe("universe", "product cell repeated at another placement ("+pl+")", 1)
						}
						// ... and once as a request whose context is done before
						// the handler sees it (unconditional requests too: they
						// give the table its baseline)
						execProduct(c, prodCase{Method: m, State: st, IM: im, INM: inm, Ctx: []string{"cancelled", "deadline"}[(idx/4)%2]})
						c.Observe("universe", "product cell repeated under a request context that is already done", 1)
						if inm != "unset" {
							execProduct(c, prodCase{Method: m, State: st, IM: im, INM: inm, Extra: "if-modified-since-future"})
							c.Observe("universe", "product cell repeated with If-Modified-Since (ignored next to If-None-Match)", 1)
						}
					}
					idx++
				}
			}
		}
	}
	c.Note("exhaustive_part", "product: {PUT,DELETE} x {absent,file,collection,symbolic link to a file} x If-Match{unset,*,current,stale,other,bare-word,weak,list,unterminated} x If-None-Match{same} = 648 cells, each executed once per run")
}

// nearFold is the class of a header in the keys of the near family.
func nearFold(cond string) string {
	if cond == "stale" {
		return "tag of the earlier state"
	}
	return fold(cond)
}

var (
	nearClasses = []string{"mtime-1ns", "mtime-sub-us", "mtime-sub-ms", "mtime-sub-s", "size-1"}
	// the earlier state's tag is not the current one: in If-Match it fails,
	// in If-None-Match it holds
	nearCombos = [][2]string{{"stale", "unset"}, {"unset", "stale"}, {"current", "stale"}, {"stale", "other"}}
)

// runNear: the stale tag of the product is years and eight bytes away from
// the current one. Here the two states of the file are as close as the file
// system can tell apart (set with os.Chtimes, never by waiting), and the tags
// sent differ from the current tag by one character.
func runNear(c *fw.Ctx) {
	idx := 0
	reps := c.Pick(3, 40)
	for rep := 0; rep < reps; rep++ {
		for _, class := range nearClasses {
			for _, m := range methods {
				for _, st := range []string{"file", "link"} {
					for _, combo := range nearCombos {
						if c.Mine(idx) {
							r := c.Rand("c04-near", idx)
							cs := prodCase{Method: m, State: st, IM: combo[0], INM: combo[1], Near: class}
							// 2000-01-01 .. 2030-01-01, any nanosecond
							cs.NearBaseNs = 946684800e9 + r.Int63n(946771200e9)
							switch class {
							case "mtime-1ns":
								cs.NearDeltaNs = 1
							case "mtime-sub-us":
								cs.NearDeltaNs = 2 + r.Int63n(998)
							case "mtime-sub-ms":
								cs.NearDeltaNs = 1000 + r.Int63n(999000)
							case "mtime-sub-s":
								cs.NearDeltaNs = 1000000 + r.Int63n(999000000)
							}
							if r.Intn(2) == 0 {
								// the earlier state may carry the later time (a restore, a clock step)
								cs.NearDeltaNs = -cs.NearDeltaNs
							}
							execProduct(c, cs)
							c.Observe("universe", "near family: earlier state "+class+" away", 1)
						}
						idx++
					}
				}
			}
		}
	}
	for _, m := range methods {
		for _, st := range []string{"file", "link"} {
			for _, nc := range nearConds {
				for _, combo := range [][2]string{{nc, "unset"}, {"unset", nc}, {"current", nc}, {nc, "*"}} {
					if c.Mine(idx) {
						execProduct(c, prodCase{Method: m, State: st, IM: combo[0], INM: combo[1]})
						c.Observe("universe", "near family: tag one character away from the current one ("+nc+")", 1)
					}
					idx++
				}
			}
		}
	}
}

// --- announce -----------------------------------------------------------------------

type annCase struct {
	Part    string `json:"part"`
	Name    string `json:"name"`
	Size    int    `json:"size"`
	Mode    string `json:"mtime_mode"`
	MtimeNs int64  `json:"mtime_ns"`
	Branch  string `json:"branch"`
	// observed
	Tags map[string]string `json:"tags,omitempty"`
	Note string            `json:"note,omitempty"`
}

var annNames = []string{"/f", "/f.txt", "/f.ics", "/dir/f.bin", "/dir/f%20g.vcf"}
var annModes = []string{"as-written", "as-written", "epoch", "1ns", "whole-second", "random-ns", "pre-1970", "far-future"}
var annBranches = []string{"put-then-delete", "delete"}

func execAnnounce(c *fw.Ctx, cs annCase) {
	cs.Part = "announce"
	c.Journal(cs)
	defer c.JournalDone()
	dir := freshDir(c, "ann")
	defer os.RemoveAll(dir)
	root := filepath.Join(dir, "root")
	if err := os.MkdirAll(filepath.Join(root, "dir"), 0755); err != nil {
		c.Inconclusive("C04 announce: " + err.Error())
		return
	}
	h := &tap{inner: &webdav.Handler{FileSystem: webdav.LocalFileSystem(root)}}
	target := cs.Name
	srvPath := strings.ReplaceAll(target, "%20", " ")
	local := filepath.Join(root, filepath.FromSlash(srvPath))
	parent := "/"
	if strings.HasPrefix(target, "/dir/") {
		parent = "/dir/"
	}
	body := []byte(strings.Repeat("x", cs.Size))
	if cs.Size == 0 {
		body = []byte{}
	}
	bad := func(key, what string) {
		c.Report("announce|"+key, what, cs)
	}
	fail := func(what string, rp reply) bool {
		if rp.Panic != "" {
			bad(what+"|panic", what+": handler panicked: "+rp.Panic)
			return true
		}
		if rp.Err != "" {
			c.Inconclusive("C04 announce " + what + ": " + rp.Err)
			return true
		}
		return false
	}

	c.Eval(1)
	c.Distinct("announce|" + cs.Mode + "|" + cs.Branch)
	c.Observe("announce mtime mode", cs.Mode, 1)

	cs.Tags = map[string]string{}
	rp := do(h, "PUT", target, nil, body)
	if fail("PUT", rp) {
		return
	}
	if rp.Status != 201 && rp.Status != 200 && rp.Status != 204 {
		c.Inconclusive(fmt.Sprintf("C04 announce: creating PUT answered %d", rp.Status))
		return
	}
	putTag, ok := rp.etagHeader()
	if !ok || putTag == "" {
		bad("PUT|no-etag", fmt.Sprintf("PUT response carries no single ETag header: %v", rp.Header.Values("Etag")))
		return
	}
	if cs.Mode != "as-written" {
		t := time.Unix(0, cs.MtimeNs)
		if err := os.Chtimes(local, t, t); err != nil {
			c.Observe("announce", "chtimes refused: "+cs.Mode, 1)
			cs.Mode = "as-written"
		} else if st, err := os.Stat(local); err != nil || st.ModTime().UnixNano() != cs.MtimeNs {
			c.Observe("announce", "mtime not stored exactly: "+cs.Mode, 1)
		}
	}
	if cs.Mode == "as-written" {
		cs.Tags["PUT"] = putTag
	}
	rp = do(h, "GET", target, nil, nil)
	if fail("GET", rp) {
		return
	}
	if v, ok := rp.etagHeader(); ok && rp.Status == 200 {
		cs.Tags["GET"] = v
		if string(rp.Body) != string(body) {
			c.Inconclusive("C04 announce: GET body differs from what was PUT")
			return
		}
	} else {
		bad("GET|no-etag", fmt.Sprintf("GET answered %d with ETag headers %v", rp.Status, rp.Header.Values("Etag")))
		return
	}
	rp = do(h, "HEAD", target, nil, nil)
	if fail("HEAD", rp) {
		return
	}
	if v, ok := rp.etagHeader(); ok && rp.Status == 200 {
		cs.Tags["HEAD"] = v
	} else {
		bad("HEAD|no-etag", fmt.Sprintf("HEAD answered %d with ETag headers %v", rp.Status, rp.Header.Values("Etag")))
		return
	}
	for _, pf := range []struct {
		name, target, depth string
		allprop             bool
	}{
		{"PROPFIND-prop", target, "0", false},
		{"PROPFIND-allprop", target, "0", true},
		{"PROPFIND-depth1-parent", parent, "1", false},
	} {
		v, found, problem := propfindETag(h, pf.target, pf.depth, srvPath, pf.allprop)
		if problem != "" {
			if strings.HasPrefix(problem, "panic") {
				bad(pf.name+"|panic", pf.name+": "+problem)
			} else {
				bad(pf.name+"|unusable", pf.name+": "+problem)
			}
			return
		}
		if !found {
			bad(pf.name+"|no-getetag", pf.name+" does not report getetag for the file")
			return
		}
		cs.Tags[pf.name] = v
	}
	// one and the same string
	ref := cs.Tags["GET"]
	var differ []string
	for k, v := range cs.Tags {
		if v != ref {
			differ = append(differ, k)
		}
	}
	sort.Strings(differ)
	c.Observe("announce", fmt.Sprintf("sources compared: %d", len(cs.Tags)), 1)
	if len(differ) > 0 {
		bad("GET differs from "+strings.Join(differ, ","), fmt.Sprintf("tags announced for one unmodified file differ: %v", cs.Tags))
		return
	}
	if len(ref) < 2 || ref[0] != '"' || ref[len(ref)-1] != '"' {
		bad("not-a-quoted-string", "announced tag is not a quoted string: "+q(ref))
		return
	}
	if c.WantSample() && c.Shard%4 == 2 {
		c.Sample(cs)
	}

	snap := func() mon.Snap {
		s, err := mon.Snapshot(root)
		if err != nil {
			c.Inconclusive("C04 announce: snapshot: " + err.Error())
		}
		return s
	}
	newBody := []byte("replacement:" + strings.Repeat("y", cs.Size%7))
	// accepted back in If-None-Match -> 412, nothing changes
	for _, m := range []string{"PUT", "DELETE"} {
		before := snap()
		var b []byte
		if m == "PUT" {
			b = newBody
		}
		rp = do(h, m, target, []hdr{{"If-None-Match", ref}}, b)
		if fail(m+" If-None-Match", rp) {
			return
		}
		d := strictDiff(before, snap())
		c.Observe("announce accept-back", fmt.Sprintf("%s If-None-Match: announced -> %d", m, rp.Status), 1)
		if rp.Status != 412 || len(d) > 0 {
			bad(fmt.Sprintf("accept-back|%s|If-None-Match|want 412 unchanged|got %d %s", m, rp.Status, changed(d)),
				fmt.Sprintf("%s with If-None-Match: %s (the announced tag): status %d, diff %v", m, q(ref), rp.Status, d))
			return
		}
	}
	// accepted back in If-Match -> carried out
	cur := ref
	if cs.Branch == "put-then-delete" {
		rp = do(h, "PUT", target, []hdr{{"If-Match", cur}}, newBody)
		if fail("PUT If-Match", rp) {
			return
		}
		data, _ := ioutil.ReadFile(local)
		c.Observe("announce accept-back", fmt.Sprintf("PUT If-Match: announced -> %d", rp.Status), 1)
		if !(rp.Status == 200 || rp.Status == 201 || rp.Status == 204) || string(data) != string(newBody) {
			bad(fmt.Sprintf("accept-back|PUT|If-Match|want carried-out|got %d %s", rp.Status, applied(string(data) == string(newBody))),
				fmt.Sprintf("PUT with If-Match: %s (the announced tag): status %d, content replaced: %v", q(cur), rp.Status, string(data) == string(newBody)))
			return
		}
		v, ok := rp.etagHeader()
		if !ok {
			bad("PUT|no-etag", "overwriting PUT response carries no single ETag header")
			return
		}
		g := do(h, "GET", target, nil, nil)
		if fail("GET", g) {
			return
		}
		if gv, _ := g.etagHeader(); gv != v {
			bad("GET differs from PUT", fmt.Sprintf("overwriting PUT announced %s, GET of the unmodified file announces %s", q(v), q(gv)))
			return
		}
		cur = v
	}
	rp = do(h, "DELETE", target, []hdr{{"If-Match", cur}}, nil)
	if fail("DELETE If-Match", rp) {
		return
	}
	_, serr := os.Lstat(local)
	gone := os.IsNotExist(serr)
	c.Observe("announce accept-back", fmt.Sprintf("DELETE If-Match: announced -> %d", rp.Status), 1)
	if !(rp.Status == 200 || rp.Status == 204) || !gone {
		bad(fmt.Sprintf("accept-back|DELETE|If-Match|want carried-out|got %d %s", rp.Status, applied(gone)),
			fmt.Sprintf("DELETE with If-Match: %s (the announced tag): status %d, resource gone: %v", q(cur), rp.Status, gone))
	}
}

func changed(d []string) string {
	if len(d) == 0 {
		return "unchanged"
	}
	return "changed"
}

func applied(b bool) string {
	if b {
		return "applied"
	}
	return "not-applied"
}

func runAnnounce(c *fw.Ctx) {
	n := c.Pick(640, 16000)
	for i := 0; i < n; i++ {
		if !c.Mine(i) {
			continue
		}
		r := c.Rand("c04-announce", i)
		cs := annCase{
			Name:   annNames[r.Intn(len(annNames))],
			Mode:   annModes[i%len(annModes)],
			Branch: annBranches[(i/len(annModes))%2],
		}
		switch r.Intn(4) {
		case 0:
			cs.Size = r.Intn(3)
		case 1:
			cs.Size = r.Intn(300)
		default:
			cs.Size = r.Intn(70000)
		}
		switch cs.Mode {
		case "epoch":
			cs.MtimeNs = 0
		case "1ns":
			cs.MtimeNs = 1
		case "whole-second":
			cs.MtimeNs = int64(r.Intn(2000000000)) * 1e9
		case "random-ns":
			cs.MtimeNs = r.Int63n(4e18)
		case "pre-1970":
			cs.MtimeNs = -r.Int63n(2e18) - 1
		case "far-future":
			cs.MtimeNs = 9e18 + r.Int63n(2e17)
		}
		execAnnounce(c, cs)
	}
}

package c04

import (
	"context"
	"encoding/xml"
	"fmt"
	"io"
	"math/rand"
	"strings"
	"time"

	"github.com/emersion/go-webdav"
	"github.com/emersion/go-webdav/internal"
	"github.com/emersion/go-webdav/verifharness/davx"
	"github.com/emersion/go-webdav/verifharness/doubles"
	"github.com/emersion/go-webdav/verifharness/fw"
	"github.com/emersion/go-webdav/verifharness/xmltree"
)

type codecCase struct {
	Part string `json:"part"`
	// Kind: "tag" (TagHex is a resource tag, the header value is what the
	// library announces for it) or "malformed" (ValueHex is a header value
	// that is not a quoted string by construction).
	Kind     string `json:"kind"`
	Class    string `json:"class"`
	TagHex   string `json:"tag_hex,omitempty"`
	TagQ     string `json:"tag_quoted,omitempty"`
	ValueHex string `json:"value_hex,omitempty"`
	ValueQ   string `json:"value_quoted,omitempty"`
	Server   bool   `json:"server_path,omitempty"`
	LexSeed  int64  `json:"lex_seed,omitempty"`
	Note     string `json:"note,omitempty"`
}

// --- generators ---------------------------------------------------------------

var tagClasses = []string{"plain", "quotes", "backslashes", "control", "non-ascii", "invalid-utf8", "escape-lookalike", "xml-special", "mixed", "long", "star", "empty"}

const quotePool = "\"'`a\""

var unicodePool = []rune{0xe9, 0xdf, 0x3a9, 0x416, 0x5d0, 0x4e2d, 0x1f600, 0x10348, 0xfffd, 0x2028, 0x2029, 0xfeff, 0x85, 0xa0, 0x200b, 0x202e, 0xe000, 0xfffe, 0xffff, 0x10ffff, 0x301, 0x7f, 0x80, 0xff}

func genTag(r *rand.Rand, class string) string {
	n := 1 + r.Intn(12)
	var sb strings.Builder
	plain := "abcdefghijklmnopqrstuvwxyzABCDEFGHIJKLMNOPQRSTUVWXYZ0123456789-._"
	switch class {
	case "plain":
		for i := 0; i < n; i++ {
			sb.WriteByte(plain[r.Intn(len(plain))])
		}
	case "quotes":
		for i := 0; i < n; i++ {
			sb.WriteByte(quotePool[r.Intn(len(quotePool))])
		}
	case "backslashes":
		for i := 0; i < n; i++ {
			sb.WriteByte(`\\"nx0u{}a `[r.Intn(11)])
		}
	case "control":
		for i := 0; i < n; i++ {
			if r.Intn(2) == 0 {
				sb.WriteByte(byte(r.Intn(32)))
			} else {
				sb.WriteByte("\r\n\t\x00\x7f a"[r.Intn(7)])
			}
		}
	case "non-ascii":
		for i := 0; i < n; i++ {
			if r.Intn(4) == 0 {
				sb.WriteRune(rune(0x80 + r.Intn(0x2fff)))
			} else {
				sb.WriteRune(unicodePool[r.Intn(len(unicodePool))])
			}
		}
	case "invalid-utf8":
		for i := 0; i < n; i++ {
			switch r.Intn(4) {
			case 0:
				sb.WriteByte(byte(0x80 + r.Intn(0x80)))
			case 1:
				sb.WriteString("\xed\xa0\x80") // surrogate half
			case 2:
				sb.WriteString("\xc0\xaf") // overlong
			default:
				sb.WriteByte(plain[r.Intn(len(plain))])
			}
		}
	case "escape-lookalike":
		pool := []string{`\x41`, `é`, `\U0001F600`, `\"`, `\\`, `\n`, `\101`, `\'`, `%22`, `&quot;`, `&#34;`, `W/`, `*`, `","`}
		for i := 0; i < 1+n/3; i++ {
			sb.WriteString(pool[r.Intn(len(pool))])
		}
	case "xml-special":
		pool := []string{"<", ">", "&", "&amp;", "]]>", "<![CDATA[", "<!--", "'", `"`, " ", "  ", "x"}
		for i := 0; i < n; i++ {
			sb.WriteString(pool[r.Intn(len(pool))])
		}
	case "mixed":
		for i := 0; i < n; i++ {
			sb.WriteString(genTag(r, tagClasses[r.Intn(8)]))
		}
	case "long":
		k := 200 + r.Intn(3000)
		for sb.Len() < k {
			sb.WriteString(genTag(r, tagClasses[r.Intn(8)]))
		}
	case "star":
		sb.WriteString([]string{"*", "**", "* ", `"*"`, "W/*"}[r.Intn(5)])
	case "empty":
	}
	return sb.String()
}

var malformedClasses = []string{"bare-word", "weak", "list", "unterminated", "unopened", "trailing-garbage", "leading-garbage", "go-literal"}

// genMalformed builds a header value that is not a quoted string by
// construction. inner is always plain ([A-Za-z0-9._-]+).
func genMalformed(r *rand.Rand, class string) string {
	inner := genTag(r, "plain")
	switch class {
	case "bare-word":
		return inner
	case "weak":
		return `W/"` + inner + `"`
	case "list":
		sep := []string{", ", ",", " , ", " "}[r.Intn(4)]
		return `"` + inner + `"` + sep + `"` + genTag(r, "plain") + `"`
	case "unterminated":
		return `"` + inner
	case "unopened":
		return inner + `"`
	case "trailing-garbage":
		return `"` + inner + `"` + []string{"x", ";", ",", "*", "\"\""}[r.Intn(5)]
	case "leading-garbage":
		return []string{"x", "=", ",", "*", "w/"}[r.Intn(5)] + `"` + inner + `"`
	case "go-literal":
		// Go character / raw-string literals: quoted, but not with double quotes
		if r.Intn(2) == 0 {
			return "'" + inner[:1] + "'"
		}
		return "`" + inner + "`"
	}
	return inner
}

// --- helper-level checks -------------------------------------------------------------

// headerSafe: the value can be sent as an HTTP header field value.
func headerSafe(v string) bool {
	for i := 0; i < len(v); i++ {
		if (v[i] < 0x20 && v[i] != '\t') || v[i] == 0x7f {
			return false
		}
	}
	return true
}

func others(r *rand.Rand, tag, value string) []string {
	l := []string{tag + "x", "x" + tag, value, strings.ToUpper(tag), strings.ToLower(tag), tag + " ", `"` + tag + `"`, "*", "c04-other-tag"}
	if len(tag) > 0 {
		b := []byte(tag)
		i := r.Intn(len(b))
		b[i] ^= 1 << uint(r.Intn(8))
		l = append(l, string(b), tag[:len(tag)-1], tag[1:])
	}
	var out []string
	for _, o := range l {
		if o != tag && o != "" {
			out = append(out, o)
		}
	}
	return out
}

func execCodec(c *fw.Ctx, cs codecCase) {
	cs.Part = "codec"
	c.Journal(cs)
	defer c.JournalDone()
	c.Eval(1)
	kind := cs.Kind
	if cs.Server {
		kind += "+server"
	}
	c.Distinct("codec|" + cs.Class + "|" + kind)
	c.Observe("codec class", cs.Kind+": "+cs.Class, 1)
	if cs.Kind == "malformed" {
		execMalformed(c, cs)
		return
	}
	tag := unhx(cs.TagHex)
	cs.TagQ = q(tag)
	r := rand.New(rand.NewSource(cs.LexSeed))
	bad := func(key, what string) { c.Report("codec|"+key, what, cs) }

	var value string
	if p, pv, stack := fw.Guard(func() { value = internal.ETag(tag).String() }); p {
		bad("ETag.String|panic|"+fw.PanicSite(stack), fmt.Sprintf("ETag.String panicked: %v", pv))
		return
	}
	cs.ValueHex, cs.ValueQ = hx(value), q(value)
	if !headerSafe(value) {
		bad("announced value not sendable|"+cs.Class, "the header value announced for the tag contains a control byte: "+q(value))
		return
	}
	if len(value) < 2 || value[0] != '"' || value[len(value)-1] != '"' {
		bad("announced value not quoted|"+cs.Class, "the header value announced for the tag is not a quoted string: "+q(value))
		return
	}
	cm := webdav.ConditionalMatch(value)
	var (
		isSet, isWild bool
		got           string
		err           error
	)
	if p, pv, stack := fw.Guard(func() { isSet, isWild = cm.IsSet(), cm.IsWildcard(); got, err = cm.ETag() }); p {
		bad("ConditionalMatch|panic|"+fw.PanicSite(stack), fmt.Sprintf("ConditionalMatch helper panicked: %v", pv))
		return
	}
	if !isSet {
		bad("IsSet false for announced value", "IsSet() is false for "+q(value))
	}
	if isWild {
		bad("IsWildcard true for quoted value", "IsWildcard() is true for "+q(value))
	}
	if err != nil || got != tag {
		bad("ETag() round trip|"+cs.Class, fmt.Sprintf("ConditionalMatch(%s).ETag() = %s, %v; want %s", q(value), q(got), err, q(tag)))
		return
	}
	match := func(v webdav.ConditionalMatch, t string) (ok bool, err error, pan string) {
		if p, pv, stack := fw.Guard(func() { ok, err = v.MatchETag(t) }); p {
			pan = fw.PanicSite(stack) + ": " + fmt.Sprint(pv)
		}
		return
	}
	judge := func(v webdav.ConditionalMatch, vname, t, tname string, want bool) {
		ok, err, pan := match(v, t)
		c.Observe("MatchETag", fmt.Sprintf("%s vs %s -> %v", vname, tname, ok), 1)
		switch {
		case pan != "":
			bad("MatchETag|panic", "MatchETag panicked: "+pan)
		case err != nil:
			bad(fmt.Sprintf("MatchETag|%s vs %s|error for well-formed value", vname, tname), fmt.Sprintf("ConditionalMatch(%s).MatchETag(%s) returned error %v", q(string(v)), q(t), err))
		case ok != want:
			bad(fmt.Sprintf("MatchETag|%s vs %s|want %v|got %v", vname, tname, want, ok), fmt.Sprintf("ConditionalMatch(%s).MatchETag(%s) = %v, want %v", q(string(v)), q(t), ok, want))
		}
	}
	judge(cm, "announced", tag, "same tag", tag != "")
	judge(cm, "announced", "", "no resource", false)
	judge("*", "*", tag, "same tag", tag != "")
	judge("*", "*", "", "no resource", false)
	for _, o := range others(r, tag, value) {
		judge(cm, "announced", o, "different tag", false)
	}
	if w := webdav.ConditionalMatch("*"); !w.IsSet() || !w.IsWildcard() {
		bad("IsWildcard(*)", "ConditionalMatch(\"*\") is not a set wildcard")
	}
	if e := webdav.ConditionalMatch(""); e.IsSet() || e.IsWildcard() {
		bad("IsSet(empty)", "ConditionalMatch(\"\") reports set or wildcard")
	}
	// a harness-quoted plain tag is a quoted string under every definition
	if plainTag(tag) {
		hv := webdav.ConditionalMatch(`"` + tag + `"`)
		if g, err := hv.ETag(); err != nil || g != tag {
			bad("ETag() of plain quoted string", fmt.Sprintf("ConditionalMatch(%s).ETag() = %s, %v", q(string(hv)), q(g), err))
		}
		judge(hv, "plain-quoted", tag, "same tag", true)
	}

	// the XML property
	var xb []byte
	if p, pv, stack := fw.Guard(func() { xb, err = xml.Marshal(&internal.GetETag{ETag: internal.ETag(tag)}) }); p {
		bad("getetag marshal|panic|"+fw.PanicSite(stack), fmt.Sprintf("xml.Marshal(GetETag) panicked: %v", pv))
		return
	}
	if err != nil {
		bad("getetag marshal|error|"+cs.Class, fmt.Sprintf("xml.Marshal(GetETag{%s}) failed: %v", q(tag), err))
		return
	}
	root, perr := xmltree.Parse(xb)
	switch {
	case perr != nil:
		bad("getetag marshal|not well-formed|"+cs.Class, fmt.Sprintf("getetag of %s is not well-formed XML: %v: %s", q(tag), perr, q(string(xb))))
		return
	case !root.Is(davx.NS, "getetag"):
		bad("getetag marshal|wrong element", "marshalled element is "+root.Name())
		return
	case root.TextContent() != value:
		bad("getetag text differs from header value|"+cs.Class, fmt.Sprintf("getetag text %s, header value %s", q(root.TextContent()), q(value)))
		return
	}
	decode := func(doc []byte, how string) {
		var g internal.GetETag
		var err error
		if p, pv, stack := fw.Guard(func() { err = xml.Unmarshal(doc, &g) }); p {
			bad("getetag unmarshal|panic|"+fw.PanicSite(stack), fmt.Sprintf("xml.Unmarshal(GetETag) panicked: %v", pv))
			return
		}
		if err != nil || string(g.ETag) != tag {
			bad("getetag round trip|"+how+"|"+cs.Class, fmt.Sprintf("xml.Unmarshal(%s) = %s, %v; want %s", q(string(doc)), q(string(g.ETag)), err, q(tag)))
		}
	}
	decode(xb, "as marshalled")
	// the same element in another lexical form (prefixes, CDATA, references)
	alt := xmltree.Render(xmltree.El(davx.NS, "getetag", xmltree.Txt(value)), xmltree.FullLex(r))
	if rt, err := xmltree.Parse(alt); err == nil && rt.Is(davx.NS, "getetag") && rt.TextContent() == value {
		decode(alt, "lexical variant")
	} else {
		c.Observe("codec", "lexical variant not usable (harness renderer)", 1)
	}

	if cs.Server && tag != "" {
		execHostileServer(c, cs, tag)
	}
}

func execMalformed(c *fw.Ctx, cs codecCase) {
	value := unhx(cs.ValueHex)
	cs.ValueQ = q(value)
	cm := webdav.ConditionalMatch(value)
	// All symptoms of one value are folded into ONE finding key.
	var symptoms, details []string
	add := func(sym, detail string) {
		for _, s := range symptoms {
			if s == sym {
				return
			}
		}
		symptoms = append(symptoms, sym)
		details = append(details, detail)
	}
	inner := strings.Trim(value, "\"'`")
	p, pv, stack := fw.Guard(func() {
		for _, t := range []string{inner, value, "c04-other-tag"} {
			ok, err := cm.MatchETag(t)
			c.Observe("MatchETag", fmt.Sprintf("malformed vs existing -> %v, error=%v", ok, err != nil), 1)
			// the boolean is only meaningful when no error is returned
			switch {
			case err == nil && ok:
				add("MatchETag(existing)=true", fmt.Sprintf("MatchETag(%s) = true, nil", q(t)))
			case err == nil:
				add("MatchETag(existing)=false without error", fmt.Sprintf("MatchETag(%s) = false, nil", q(t)))
			}
		}
		if ok, err := cm.MatchETag(""); ok && err == nil {
			add("MatchETag(no resource)=true", "MatchETag(\"\") = true, nil")
		}
		if g, err := cm.ETag(); err == nil {
			add("ETag() without error", fmt.Sprintf("ETag() = %s, nil", q(g)))
		}
		if !cm.IsSet() {
			add("IsSet=false", "IsSet() = false")
		}
		if cm.IsWildcard() {
			add("IsWildcard=true", "IsWildcard() = true")
		}
	})
	if p {
		c.Report("codec|malformed:"+cs.Class+"|panic|"+fw.PanicSite(stack), fmt.Sprintf("ConditionalMatch helper panicked on %s: %v", q(value), pv), cs)
		return
	}
	if len(symptoms) > 0 {
		c.Report("codec|malformed:"+cs.Class+"|"+strings.Join(symptoms, ", "),
			fmt.Sprintf("ConditionalMatch(%s) is not a quoted string, yet: %s (an error, i.e. 400 against an existing resource, is required)", q(value), strings.Join(details, "; ")), cs)
	}
}

// --- hostile tags through the whole server -----------------------------------------------

// tagFS is a MemFS whose Create reports a chosen tag for the new file.
type tagFS struct {
	*doubles.MemFS
	next string
}

func (fs *tagFS) Create(ctx context.Context, name string, body io.ReadCloser, opts *webdav.CreateOptions) (*webdav.FileInfo, bool, error) {
	fi, created, err := fs.MemFS.Create(ctx, name, body, opts)
	if err != nil || fi == nil {
		return fi, created, err
	}
	fi.ETag = fs.next
	fs.MemFS.Put(*fi, []byte("stored"))
	return fi, created, nil
}

func execHostileServer(c *fw.Ctx, cs codecCase, tag string) {
	bad := func(key, what string) { c.Report("hostile-tag server|"+key, what, cs) }
	mem := doubles.NewMemFS()
	const p = "/h.bin"
	mem.Put(webdav.FileInfo{Path: p, Size: 3, ETag: tag, ModTime: time.Unix(1300000000, 0)}, []byte("abc"))
	tag2 := tag + "~2"
	fs := &tagFS{MemFS: mem, next: tag2}
	h := &tap{inner: &webdav.Handler{FileSystem: fs}}
	fail := func(what string, rp reply) bool {
		if rp.Panic != "" {
			bad(what+"|panic", what+": handler panicked: "+rp.Panic)
			return true
		}
		if rp.Err != "" {
			c.Inconclusive("C04 hostile-tag server " + what + ": " + rp.Err + " tag=" + q(tag))
			return true
		}
		return false
	}
	announced := func(want string) (string, bool) {
		tags := map[string]string{}
		for _, m := range []string{"GET", "HEAD"} {
			rp := do(h, m, p, nil, nil)
			if fail(m, rp) {
				return "", false
			}
			v, ok := rp.etagHeader()
			if !ok || rp.Status != 200 {
				bad(m+"|no-etag|"+cs.Class, fmt.Sprintf("%s answered %d with ETag headers %v for a file whose tag is %s", m, rp.Status, rp.Header.Values("Etag"), q(want)))
				return "", false
			}
			tags[m] = v
		}
		v, found, problem := propfindETag(h, p, "0", p, false)
		if problem != "" || !found {
			bad("PROPFIND|no usable getetag|"+cs.Class, fmt.Sprintf("PROPFIND getetag for a file whose tag is %s: found=%v %s", q(want), found, problem))
			return "", false
		}
		tags["PROPFIND"] = v
		if tags["GET"] != tags["HEAD"] || tags["GET"] != tags["PROPFIND"] {
			bad("announcements differ|"+cs.Class, fmt.Sprintf("GET %s HEAD %s PROPFIND %s", q(tags["GET"]), q(tags["HEAD"]), q(tags["PROPFIND"])))
			return "", false
		}
		hv := tags["GET"]
		cm := webdav.ConditionalMatch(hv)
		g, err := cm.ETag()
		ok, merr := cm.MatchETag(want)
		if err != nil || g != want || !ok || merr != nil {
			bad("announced value not accepted back by the helpers|"+cs.Class, fmt.Sprintf("announced %s for tag %s: ETag()=%s,%v MatchETag(tag)=%v,%v", q(hv), q(want), q(g), err, ok, merr))
			return "", false
		}
		return hv, true
	}
	hv, ok := announced(tag)
	if !ok {
		return
	}
	mem.Calls()
	// conditional PUT carrying the announced value
	h.last = nil
	rp := do(h, "PUT", p, []hdr{{"If-Match", hv}, {"If-None-Match", otherHdr}}, []byte("new"))
	if fail("PUT", rp) {
		return
	}
	var opts *webdav.CreateOptions
	for _, call := range mem.Calls() {
		if call.Op == "Create" && call.Path == p {
			if o, ok := call.Arg2.(webdav.CreateOptions); ok {
				opts = &o
			}
		}
	}
	c.Observe("hostile-tag server", fmt.Sprintf("PUT -> %d", rp.Status), 1)
	switch {
	case h.last == nil || h.last.IM != hv || h.last.INM != otherHdr:
		c.Inconclusive(fmt.Sprintf("C04 hostile-tag server: announced value %s did not reach the handler as sent (%+v)", q(hv), h.last))
		return
	case opts == nil:
		bad("PUT|not forwarded", fmt.Sprintf("PUT with If-Match: %s answered %d and FileSystem.Create was not called", q(hv), rp.Status))
		return
	case string(opts.IfMatch) != hv || string(opts.IfNoneMatch) != otherHdr:
		bad("PUT|options differ from headers", fmt.Sprintf("Create received IfMatch=%s IfNoneMatch=%s, headers were %s / %s", q(string(opts.IfMatch)), q(string(opts.IfNoneMatch)), q(hv), q(otherHdr)))
		return
	}
	if m, err := opts.IfMatch.MatchETag(tag); !m || err != nil {
		bad("PUT|received If-Match does not match the tag", fmt.Sprintf("options.IfMatch.MatchETag(tag) = %v, %v", m, err))
		return
	}
	if m, err := opts.IfNoneMatch.MatchETag(tag); m || err != nil {
		bad("PUT|received If-None-Match matches the tag", fmt.Sprintf("options.IfNoneMatch.MatchETag(tag) = %v, %v", m, err))
		return
	}
	putTag, okTag := rp.etagHeader()
	if !okTag || !(rp.Status == 200 || rp.Status == 201 || rp.Status == 204) {
		bad("PUT|no-etag|"+cs.Class, fmt.Sprintf("PUT answered %d with ETag headers %v", rp.Status, rp.Header.Values("Etag")))
		return
	}
	hv2, ok := announced(tag2)
	if !ok {
		return
	}
	if hv2 != putTag {
		bad("announcements differ|PUT vs GET|"+cs.Class, fmt.Sprintf("PUT announced %s, GET %s", q(putTag), q(hv2)))
		return
	}
	mem.Calls()
	h.last = nil
	rp = do(h, "DELETE", p, []hdr{{"If-Match", hv2}, {"If-None-Match", otherHdr}}, nil)
	if fail("DELETE", rp) {
		return
	}
	var ropts *webdav.RemoveAllOptions
	for _, call := range mem.Calls() {
		if call.Op == "RemoveAll" && call.Path == p {
			if o, ok := call.Arg2.(webdav.RemoveAllOptions); ok {
				ropts = &o
			}
		}
	}
	c.Observe("hostile-tag server", fmt.Sprintf("DELETE -> %d", rp.Status), 1)
	switch {
	case h.last == nil || h.last.IM != hv2 || h.last.INM != otherHdr:
		c.Inconclusive(fmt.Sprintf("C04 hostile-tag server: announced value %s did not reach the handler as sent (%+v)", q(hv2), h.last))
	case ropts == nil:
		bad("DELETE|not forwarded", fmt.Sprintf("DELETE with If-Match: %s answered %d and FileSystem.RemoveAll was not called", q(hv2), rp.Status))
	case string(ropts.IfMatch) != hv2 || string(ropts.IfNoneMatch) != otherHdr:
		bad("DELETE|options differ from headers", fmt.Sprintf("RemoveAll received IfMatch=%s IfNoneMatch=%s, headers were %s / %s", q(string(ropts.IfMatch)), q(string(ropts.IfNoneMatch)), q(hv2), q(otherHdr)))
	default:
		if m, err := ropts.IfMatch.MatchETag(tag2); !m || err != nil {
			bad("DELETE|received If-Match does not match the tag", fmt.Sprintf("options.IfMatch.MatchETag(tag) = %v, %v", m, err))
		}
	}
}

func runCodec(c *fw.Ctx) {
	n := c.Pick(5000, 200000)
	for i := 0; i < n; i++ {
		if !c.Mine(i) {
			continue
		}
		r := c.Rand("c04-codec", i)
		cs := codecCase{LexSeed: r.Int63()}
		if i%5 == 4 {
			cs.Kind = "malformed"
			cs.Class = malformedClasses[(i/5)%len(malformedClasses)]
			cs.ValueHex = hx(genMalformed(r, cs.Class))
		} else {
			cs.Kind = "tag"
			cs.Class = tagClasses[(i/5*4+i%5)%len(tagClasses)]
			cs.TagHex = hx(genTag(r, cs.Class))
			cs.Server = i%4 == 0
		}
		execCodec(c, cs)
	}
}

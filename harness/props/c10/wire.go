package c10

import (
	"bytes"
	"fmt"
	"math/rand"
	"strings"
	"unicode/utf8"

	"github.com/emersion/go-ical"
	"github.com/emersion/go-vcard"
	"github.com/emersion/go-webdav/caldav"
	"github.com/emersion/go-webdav/carddav"
	"github.com/emersion/go-webdav/verifharness/davx"
	"github.com/emersion/go-webdav/verifharness/doubles"
	"github.com/emersion/go-webdav/verifharness/fw"
	"github.com/emersion/go-webdav/verifharness/xmltree"
)

// wireCase is one conformant multi-status document written by the harness's
// independent writer (davx + xmltree.Render) in some lexical variant, served
// to the real client from a scripted HTTP client.
type wireCase struct {
	Proto   string `json:"proto"`
	Op      string `json:"op"` // find | multiget | query | sync
	ReqPath string `json:"req_path"`
	// expected results
	Colls   []nColl  `json:"colls,omitempty"`
	Objs    []nObj   `json:"objs,omitempty"` // sync: the updated members (Path, ETag, Mod)
	Deleted []string `json:"deleted,omitempty"`
	Token   string   `json:"token,omitempty"`
	// sync: the caller's arguments (nil: AllProp, a fixed token, no limit)
	SyncArgs *syncArgs `json:"sync_args,omitempty"`
	// FailCode != 0: one more response, for path FailPath, carries this status
	// instead of properties (multiget); the call may then fail as a whole.
	FailCode int    `json:"fail_code,omitempty"`
	FailPath string `json:"fail_path,omitempty"`
	Variant  string `json:"variant"`
	Body     string `json:"body"`
}

const nsExt = "urn:example:verif-ext"

func (cs *wireCase) backslashTag() bool {
	for i := range cs.Objs {
		if strings.Contains(cs.Objs[i].ETag, `\`) {
			return true
		}
	}
	return false
}

func rfc1123(o *nObj) string { return o.Mod.UTC().Format(rfc1123GMT) }

// fold applies RFC 5545 / RFC 6350 line folding at character boundaries.
func fold(r *rand.Rand, text string, everyLine bool, lf bool) string {
	lines := strings.Split(strings.TrimSuffix(text, "\r\n"), "\r\n")
	eol := "\r\n"
	if lf {
		eol = "\n"
	}
	var sb strings.Builder
	for _, ln := range lines {
		limit := 75
		if everyLine {
			limit = 1 + r.Intn(40)
		}
		n := 0
		for i := 0; i < len(ln); {
			_, sz := utf8.DecodeRuneInString(ln[i:])
			if n+sz > limit && i > 0 {
				sb.WriteString(eol)
				if r.Intn(4) == 0 {
					sb.WriteByte('\t')
				} else {
					sb.WriteByte(' ')
				}
				n = 1
				if everyLine {
					limit = 2 + r.Intn(60)
				}
			}
			sb.WriteString(ln[i : i+sz])
			n += sz
			i += sz
		}
		sb.WriteString(eol)
	}
	return sb.String()
}

// payload renders the object as text an independent server might send and
// makes sure the codec library reads it back to the same object (otherwise
// the plain codec output is used).
func payload(r *rand.Rand, o *nObj, variant *[]string) string {
	var buf bytes.Buffer
	if o.Cal != nil {
		ical.NewEncoder(&buf).Encode(o.Cal.calendar())
	} else {
		vcard.NewEncoder(&buf).Encode(o.Card.toVcard())
	}
	plain := buf.String()
	mode := r.Intn(4)
	if mode == 0 {
		return plain
	}
	lf := r.Intn(4) == 0
	text := fold(r, plain, mode == 3, lf)
	var back *nObj
	var err error
	if o.Cal != nil {
		back, err = decodeCal([]byte(text))
	} else {
		back, err = decodeCard([]byte(text))
	}
	if err != nil || back.dataCanon() != o.dataCanon() {
		*variant = append(*variant, "fold-rejected-by-codec")
		return plain
	}
	*variant = append(*variant, map[int]string{1: "folded@75", 2: "folded@75", 3: "folded-everywhere"}[mode])
	if lf {
		*variant = append(*variant, "LF-line-ends")
	}
	return text
}

var hrefSafe = "abcdefghijklmnopqrstuvwxyzABCDEFGHIJKLMNOPQRSTUVWXYZ0123456789"

// hrefFor writes the path as a URI reference in one of several equivalent forms.
func hrefFor(r *rand.Rand, path string, variant *[]string) string {
	esc := davx.EscapePath(path)
	switch r.Intn(6) {
	case 0:
		*variant = append(*variant, "absolute-href")
		return "http://dav.example" + esc
	case 1:
		// percent-encode some unreserved characters too, lower-case hex
		var sb strings.Builder
		for i := 0; i < len(esc); i++ {
			c := esc[i]
			if c == '%' && i+2 < len(esc) {
				sb.WriteString(strings.ToLower(esc[i : i+3]))
				i += 2
				continue
			}
			if strings.IndexByte(hrefSafe, c) >= 0 && r.Intn(4) == 0 {
				fmt.Fprintf(&sb, "%%%02x", c)
				continue
			}
			sb.WriteByte(c)
		}
		*variant = append(*variant, "over-escaped-href")
		return sb.String()
	case 2:
		*variant = append(*variant, "absolute-href")
		return "https://other.example:8443" + esc
	}
	return esc
}

func extraProps(r *rand.Rand) []*xmltree.Node {
	var l []*xmltree.Node
	n := 1 + r.Intn(3)
	for i := 0; i < n; i++ {
		switch r.Intn(6) {
		case 0:
			l = append(l, xmltree.El(nsExt, "color", xmltree.Txt("#ff0000")))
		case 1:
			l = append(l, xmltree.El("http://apple.com/ns/ical/", "calendar-order", xmltree.Txt("3")))
		case 2:
			l = append(l, xmltree.El(nsExt, "complex", xmltree.El(nsExt, "child", xmltree.Txt("x & y")).With("a", "1"), xmltree.El(nsDAV, "href", xmltree.Txt("/not/a/result"))))
		case 3:
			l = append(l, xmltree.El("", "no-namespace", xmltree.Txt("v")))
		case 4:
			l = append(l, xmltree.El(nsDAV, "owner", xmltree.El(nsDAV, "href", xmltree.Txt("/principals/someone/"))))
		case 5:
			l = append(l, xmltree.El(nsDAV, "supported-report-set", xmltree.El(nsDAV, "supported-report", xmltree.El(nsDAV, "report", xmltree.El(nsDAV, "sync-collection")))))
		}
	}
	return l
}

// assemble shuffles the known properties with optional extras into propstats.
type respBuilder struct {
	r       *rand.Rand
	extras  bool
	nf      bool // report missing properties in a 404 propstat
	variant *[]string
}

func (b *respBuilder) response(href string, ok, missing []*xmltree.Node) davx.Response {
	r := b.r
	if b.extras {
		ok = append(ok, extraProps(r)...)
		if r.Intn(2) == 0 {
			missing = append(missing, xmltree.El(nsExt, "unknown-missing"))
		}
	}
	r.Shuffle(len(ok), func(i, j int) { ok[i], ok[j] = ok[j], ok[i] })
	resp := davx.Response{Hrefs: []string{href}}
	okStat := davx.PropStat{Status: davx.Status{Code: 200, Phrase: "OK"}, Props: ok}
	var stats []davx.PropStat
	if len(ok) > 0 {
		stats = append(stats, okStat)
	}
	if b.nf && len(missing) > 0 {
		nf := davx.PropStat{Status: davx.Status{Code: 404, Phrase: "Not Found"}, Props: missing}
		if b.extras && r.Intn(2) == 0 {
			nf.Desc = "no such property"
		}
		if r.Intn(2) == 0 || len(stats) == 0 {
			stats = append(stats, nf)
		} else {
			stats = append([]davx.PropStat{nf}, stats...)
		}
	}
	if len(stats) == 0 {
		stats = append(stats, davx.PropStat{Status: davx.Status{Code: 200, Phrase: "OK"}})
	}
	resp.PropStats = stats
	if b.extras && r.Intn(3) == 0 {
		resp.Desc = "a response description"
	}
	return resp
}

func (b *respBuilder) objectResponse(st *stack, o *nObj, withData bool) davx.Response {
	r := b.r
	var ok, missing []*xmltree.Node
	if withData {
		d := xmltree.El(st.dataNS, st.dataLocal, xmltree.Txt(payload(r, o, b.variant)))
		if r.Intn(4) == 0 {
			if o.Cal != nil {
				d.With("content-type", "text/calendar", "version", "2.0")
			} else {
				d.With("content-type", "text/vcard", "version", "4.0")
			}
		}
		ok = append(ok, d)
	}
	if o.ETag != "" {
		ok = append(ok, xmltree.El(nsDAV, "getetag", xmltree.Txt(`"`+o.ETag+`"`)))
	} else {
		missing = append(missing, xmltree.El(nsDAV, "getetag"))
	}
	if !o.Mod.IsZero() {
		ok = append(ok, xmltree.El(nsDAV, "getlastmodified", xmltree.Txt(rfc1123(o))))
	} else {
		missing = append(missing, xmltree.El(nsDAV, "getlastmodified"))
	}
	if o.Len > 0 {
		ok = append(ok, xmltree.El(nsDAV, "getcontentlength", xmltree.Txt(fmt.Sprint(o.Len))))
	}
	if r.Intn(2) == 0 {
		ct := "text/calendar; charset=utf-8"
		if o.Card != nil {
			ct = "text/vcard"
		}
		ok = append(ok, xmltree.El(nsDAV, "getcontenttype", xmltree.Txt(ct)))
	}
	return b.response(hrefFor(r, o.Path, b.variant), ok, missing)
}

func (b *respBuilder) collResponse(st *stack, c *nColl) davx.Response {
	r := b.r
	rt := xmltree.El(nsDAV, "resourcetype", xmltree.El(nsDAV, "collection"), xmltree.El(st.dataNS, st.collLocal))
	if b.extras && r.Intn(2) == 0 {
		rt.Add(xmltree.El(nsExt, "shared"))
	}
	if r.Intn(2) == 0 {
		rt.Children[0], rt.Children[1] = rt.Children[1], rt.Children[0]
	}
	ok := []*xmltree.Node{rt}
	var missing []*xmltree.Node
	if c.Name != "" {
		ok = append(ok, xmltree.El(nsDAV, "displayname", xmltree.Txt(c.Name)))
	} else {
		missing = append(missing, xmltree.El(nsDAV, "displayname"))
	}
	if c.Desc != "" {
		d := xmltree.El(st.dataNS, st.descLocal, xmltree.Txt(c.Desc))
		if r.Intn(3) == 0 {
			d.Attrs = append(d.Attrs, xmltree.Attr{Space: "http://www.w3.org/XML/1998/namespace", Local: "lang", Value: "fr-CA"})
		}
		ok = append(ok, d)
	} else {
		missing = append(missing, xmltree.El(st.dataNS, st.descLocal))
	}
	if c.Max > 0 {
		ok = append(ok, xmltree.El(st.dataNS, "max-resource-size", xmltree.Txt(fmt.Sprint(c.Max))))
	} else {
		missing = append(missing, xmltree.El(st.dataNS, "max-resource-size"))
	}
	if st.proto == "caldav" {
		if c.HasComps {
			s := xmltree.El(nsCal, "supported-calendar-component-set")
			for _, n := range c.Comps {
				s.Add(xmltree.El(nsCal, "comp").With("name", n))
			}
			ok = append(ok, s)
		} else {
			missing = append(missing, xmltree.El(nsCal, "supported-calendar-component-set"))
		}
	} else {
		if len(c.Types) > 0 {
			s := xmltree.El(nsCard, "supported-address-data")
			for _, t := range c.Types {
				s.Add(xmltree.El(nsCard, "address-data-type").With("content-type", t[0], "version", t[1]))
			}
			ok = append(ok, s)
		} else {
			missing = append(missing, xmltree.El(nsCard, "supported-address-data"))
		}
	}
	return b.response(hrefFor(r, c.Path, b.variant), ok, missing)
}

// writerTag produces a tag an RFC 7232 opaque-tag can carry literally.
func (g *gen) writerTag() string {
	if g.chance(6) {
		return ""
	}
	atoms := []string{"a", "1", "-", "abc123", "é", "日", "'", "`", "%", "&", "<", ":", ",", "W/", "{", "}"}
	var sb strings.Builder
	n := 1 + g.r.Intn(5)
	for i := 0; i < n; i++ {
		sb.WriteString(g.pick(atoms))
	}
	if g.chance(12) {
		sb.WriteString(g.pick([]string{`\`, `\n`, `\\`, `a\b`, `\x`}))
		g.feat("etag:backslash")
	}
	return sb.String()
}

func genWireCase(c *fw.Ctx, g *gen, proto, op string) *wireCase {
	r := g.r
	cs := &wireCase{Proto: proto, Op: op}
	st := &stack{}
	if proto == "caldav" {
		calClientFace(st, nil)
	} else {
		cardClientFace(st, nil)
	}
	var variant []string
	b := &respBuilder{r: r, extras: r.Intn(2) == 0, nf: r.Intn(2) == 0, variant: &variant}
	onePer := r.Intn(3) == 0
	if b.extras {
		variant = append(variant, "unknown-extras")
	}
	if b.nf {
		variant = append(variant, "404-propstat")
	}
	if onePer {
		variant = append(variant, "one-property-per-propstat")
	}
	hostile := r.Intn(3) > 0
	home := "/u/" + map[string]string{"caldav": "cal", "carddav": "contacts"}[proto] + "/"
	used := map[string]bool{}
	ms := &davx.MultiStatus{}
	switch op {
	case "find":
		cs.ReqPath = home
		// the home set itself: a plain collection
		if r.Intn(4) > 0 {
			ms.Responses = append(ms.Responses, b.response(hrefFor(r, home, &variant),
				[]*xmltree.Node{xmltree.El(nsDAV, "resourcetype", xmltree.El(nsDAV, "collection")), xmltree.El(nsDAV, "displayname", xmltree.Txt("home"))}, nil))
		}
		n := r.Intn(4)
		for i := 0; i < n; i++ {
			col := nColl{Path: home + g.uniqueSeg(hostile, used, "") + "/", Name: g.text("name"), Desc: g.text("desc")}
			if m := g.maxSize(); m > 0 {
				col.Max = m
			}
			if proto == "caldav" {
				col.HasComps, col.Comps = g.compSet()
			} else {
				col.Types = g.addrTypes()
			}
			cs.Colls = append(cs.Colls, col)
			ms.Responses = append(ms.Responses, b.collResponse(st, &col))
			if r.Intn(4) == 0 {
				// a collection of another kind and a plain resource: not results
				other := home + g.uniqueSeg(false, used, "") + "/"
				foreign := xmltree.El(nsCard, "addressbook")
				if proto == "carddav" {
					foreign = xmltree.El(nsCal, "calendar")
				}
				ms.Responses = append(ms.Responses, b.response(hrefFor(r, other, &variant),
					[]*xmltree.Node{xmltree.El(nsDAV, "resourcetype", xmltree.El(nsDAV, "collection"), foreign), xmltree.El(nsDAV, "displayname", xmltree.Txt("other"))}, nil))
				ms.Responses = append(ms.Responses, b.response(hrefFor(r, home+g.uniqueSeg(false, used, ".txt"), &variant),
					[]*xmltree.Node{xmltree.El(nsDAV, "resourcetype")}, []*xmltree.Node{xmltree.El(nsDAV, "displayname")}))
				variant = append(variant, "non-matching-resources")
			}
		}
	case "multiget", "query":
		cs.ReqPath = home + g.uniqueSeg(hostile, used, "") + "/"
		n := r.Intn(4)
		if op == "multiget" && n == 0 {
			n = 1
		}
		usedO := map[string]bool{}
		for i := 0; i < n; i++ {
			o := genObject(c, g, proto, cs.ReqPath+g.uniqueSeg(hostile, usedO, st.ext))
			o.ETag = g.writerTag()
			g.feat("etag:" + tagClass(o.ETag))
			cs.Objs = append(cs.Objs, o)
			ms.Responses = append(ms.Responses, b.objectResponse(st, &o, true))
		}
		if op == "multiget" && r.Intn(5) == 0 {
			cs.FailCode = []int{404, 403, 500, 507}[r.Intn(4)]
			cs.FailPath = cs.ReqPath + g.uniqueSeg(hostile, usedO, st.ext)
			code := cs.FailCode
			fr := davx.Response{Hrefs: []string{hrefFor(r, cs.FailPath, &variant)}, Status: &davx.Status{Code: code, Phrase: "Failure"}}
			at := r.Intn(len(ms.Responses) + 1)
			ms.Responses = append(ms.Responses[:at], append([]davx.Response{fr}, ms.Responses[at:]...)...)
			variant = append(variant, "failing-href")
		}
	case "sync":
		cs.ReqPath = home + g.uniqueSeg(hostile, used, "") + "/"
		cs.Token = g.pick([]string{"http://example.com/ns/sync/1234", "urn:uuid:6d5f-é", "data:,a&b<c>", "opaque token with spaces", "https://x.example/sync?since=12&x=<1>"})
		usedO := map[string]bool{}
		n := r.Intn(4)
		for i := 0; i < n; i++ {
			o := nObj{Path: cs.ReqPath + g.uniqueSeg(hostile, usedO, st.ext), ETag: g.writerTag(), Mod: g.instant()}
			g.feat("etag:" + tagClass(o.ETag))
			if r.Intn(3) == 0 {
				full := genObject(c, g, proto, o.Path)
				o.Card = full.Card
			}
			cs.Objs = append(cs.Objs, o)
			ms.Responses = append(ms.Responses, b.objectResponse(st, &o, o.Card != nil))
		}
		nd := r.Intn(3)
		for i := 0; i < nd; i++ {
			p := cs.ReqPath + g.uniqueSeg(hostile, usedO, st.ext)
			cs.Deleted = append(cs.Deleted, p)
			dr := davx.Response{Hrefs: []string{hrefFor(r, p, &variant)}, Status: &davx.Status{Code: 404, Phrase: "Not Found"}}
			at := r.Intn(len(ms.Responses) + 1)
			ms.Responses = append(ms.Responses[:at], append([]davx.Response{dr}, ms.Responses[at:]...)...)
		}
		if nd > 0 {
			variant = append(variant, "deleted-members")
		}
		if r.Intn(3) == 0 {
			// the collection itself (some servers report it): never a member
			self := cs.ReqPath
			if r.Intn(2) == 0 {
				self = strings.TrimSuffix(self, "/")
			}
			sr := b.response(davx.EscapePath(self), []*xmltree.Node{xmltree.El(nsDAV, "getetag", xmltree.Txt(`"collection-tag"`)),
				xmltree.El(nsDAV, "resourcetype", xmltree.El(nsDAV, "collection"), xmltree.El(nsCard, "addressbook"))}, nil)
			ms.Responses = append([]davx.Response{sr}, ms.Responses...)
			variant = append(variant, "collection-itself-entry")
		}
		ms.SyncToken = cs.Token
		// the caller's arguments: initial / incremental, limited or not (the
		// answer stays within the limit), the three forms of a data request
		cs.SyncArgs = &syncArgs{Token: "http://example.com/ns/sync/1233", Data: []string{"allprop", "allprop", "zero", "props"}[r.Intn(4)]}
		if r.Intn(4) == 0 {
			cs.SyncArgs.Token = ""
			variant = append(variant, "initial-sync")
		}
		if total := n + nd; r.Intn(3) == 0 {
			cs.SyncArgs.Limit = total + r.Intn(3)
			if cs.SyncArgs.Limit > 0 {
				variant = append(variant, "limited")
			}
		}
		g.feat("sync:data-request-" + cs.SyncArgs.Data)
	}
	if b.extras && r.Intn(3) == 0 {
		ms.Desc = "overall description"
	}
	tree := davx.MultiStatusTree(ms, onePer)
	if b.extras {
		// extension elements directly inside response / multistatus
		for _, rn := range tree.All(nsDAV, "response") {
			if r.Intn(4) == 0 {
				rn.Add(xmltree.El(nsExt, "response-extension", xmltree.Txt("x")))
			}
		}
		if r.Intn(4) == 0 {
			tree.Add(xmltree.El(nsExt, "multistatus-extension"))
		}
	}
	var lx *xmltree.Lex
	if r.Intn(6) > 0 {
		lx = xmltree.FullLex(rand.New(rand.NewSource(r.Int63())))
		variant = append(variant, "lexical-variation")
	} else {
		variant = append(variant, "plain-rendering")
	}
	cs.Body = string(xmltree.Render(tree, lx))
	cs.Variant = strings.Join(dedup(variant), ",")
	return cs
}

func dedup(l []string) []string {
	seen := map[string]bool{}
	var out []string
	for _, s := range l {
		if !seen[s] {
			seen[s] = true
			out = append(out, s)
		}
	}
	return out
}

// runWire serves the document to the real client and compares.
func runWire(c *fw.Ctx, cs *wireCase) {
	st := &stack{}
	cap := &doubles.Capture{Status: 207, Body: []byte(cs.Body)}
	if cs.Proto == "caldav" {
		cl, err := caldav.NewClient(cap, endpoint)
		if err != nil {
			c.Inconclusive("C10: cannot build the client: " + err.Error())
			return
		}
		calClientFace(st, cl)
	} else {
		cl, err := carddav.NewClient(cap, endpoint)
		if err != nil {
			c.Inconclusive("C10: cannot build the client: " + err.Error())
			return
		}
		cardClientFace(st, cl)
	}
	k := &chk{c: c, st: st, kind: "wire", cs: cs, proto: cs.Proto}
	group := map[string]string{"find": "discovery", "multiget": "report", "query": "report", "sync": "sync"}[cs.Op]
	op := map[string]string{
		"caldav find": "FindCalendars", "carddav find": "FindAddressBooks",
		"caldav multiget": "MultiGetCalendar", "carddav multiget": "MultiGetAddressBook",
		"caldav query": "QueryCalendar", "carddav query": "QueryAddressBook",
		"carddav sync": "SyncCollection",
	}[cs.Proto+" "+cs.Op]
	if op == "" {
		return
	}

	// Self-check of the writer: the document must be read back by the strict
	// independent reader to exactly the expected values. A failure here is a
	// harness defect, never a finding.
	ms, err := davx.ReadMultiStatus([]byte(cs.Body))
	if err != nil {
		c.Inconclusive("C10 harness: the independent writer produced a document the independent reader rejects: " + err.Error())
		return
	}
	if why := k.selfCheck(cs, ms); why != "" {
		c.Inconclusive("C10 harness: writer self-check failed (" + why + ") for variant " + cs.Variant)
		return
	}
	for _, v := range strings.Split(cs.Variant, ",") {
		c.Observe("independent writer: lexical / structural variants served", v, 1)
	}
	c.Distinct(cs.Proto + "|wire|" + cs.Op + "|" + cs.Variant)

	switch cs.Op {
	case "find":
		var got []nColl
		var cerr error
		if !k.guard(group, op+" (independent writer)", func() { got, cerr = st.find(cs.ReqPath) }) {
			return
		}
		k.observeCall(op+" (independent writer)", cerr, false)
		for i := range cs.Colls {
			k.distinctColl(&cs.Colls[i])
		}
		k.compareCollLists(group, op, cs.Colls, nil, got, cerr)
	case "multiget", "query":
		var got []nObj
		var cerr error
		paths := []string{}
		for _, o := range cs.Objs {
			paths = append(paths, o.Path)
		}
		if cs.FailCode != 0 {
			paths = append(paths, cs.FailPath)
		}
		if !k.guard(group, op+" (independent writer)", func() {
			if cs.Op == "multiget" {
				got, cerr = st.multiget(cs.ReqPath, paths)
			} else {
				got, cerr = st.query(cs.ReqPath)
			}
		}) {
			return
		}
		k.observeCall(op+" (independent writer)", cerr, cs.FailCode != 0)
		var want []*nObj
		for i := range cs.Objs {
			want = append(want, &cs.Objs[i])
			k.distinctObj("wire-"+cs.Op, &cs.Objs[i])
		}
		if cs.FailCode != 0 {
			if cerr == nil {
				k.report(group, k.noWire(), "multiget result list", "failing hrefs silently dropped (no error, shorter list)", op, paths, nil, pathsOf(got))
			}
			return
		}
		// The order of the result list against a foreign server is the
		// document order; the statement only fixes it for go-webdav's own
		// multiget answer, so order is not compared here.
		k.compareObjLists(group, op, want, true, false, nil, nil, got, cerr, false)
	case "sync":
		var token string
		var up []nObj
		var del []string
		var cerr error
		args := syncArgs{Token: "http://example.com/ns/sync/1233"}
		if cs.SyncArgs != nil {
			args = *cs.SyncArgs
		}
		if !k.guard(group, op+" (independent writer)", func() { token, up, del, cerr = st.sync(cs.ReqPath, args) }) {
			return
		}
		k.observeCall(op+" (independent writer)", cerr, false)
		if cerr != nil {
			k.report(group, k.noWire(), "call", "error: "+normErr(cerr), op, nil, nil, cerr.Error())
			return
		}
		if token != cs.Token {
			k.report(group, k.noWire(), "SyncToken", classify(cs.Token, token), op, cs.Token, nil, token)
		}
		// the collection's own entry: reporting it as a member or not is left open
		self := strings.TrimSuffix(cs.ReqPath, "/")
		var members []nObj
		for _, o := range up {
			if strings.TrimSuffix(o.Path, "/") == self {
				k.c.Observe("don't-care behaviours seen", "sync: the collection's own entry returned as an updated member", 1)
				continue
			}
			members = append(members, o)
		}
		wp := pathsOf(cs.Objs)
		gm, problem, at := matchPaths(wp, pathsOf(members))
		switch problem {
		case "count":
			k.report(group, k.noWire(), "Updated list", map[bool]string{true: "shorter than the answer", false: "longer than the answer"}[len(members) < len(wp)], op, wp, nil, pathsOf(members))
		case "path":
			k.report(group, k.noWire(), "Path", classify(wp[at], members[at].Path), op, wp[at], nil, members[at].Path)
		default:
			for i := range cs.Objs {
				g := members[gm[i]]
				k.distinctObj("wire-sync", &cs.Objs[i])
				k.compareFields(group, op, objFields(&cs.Objs[i], false), nil, objFields(&g, false), &cs.Objs[i], nil, &g)
				// The call asks for address-data (SyncQuery.DataRequest); where
				// the answer carries the whole card for a member, the value
				// returned for it has to carry an equal card. A selection
				// ("props") leaves open what a server sends: not judged.
				if cs.Objs[i].Card != nil && args.Data != "props" {
					k.c.Observe("sync: updated members answered with address-data", map[bool]string{true: "card returned", false: "no card returned"}[g.Card != nil], 1)
					if g.Card == nil {
						k.report(group, k.noWire(), "Data", "address-data of an updated member dropped (no card returned)", op, clip(cs.Objs[i].dataCanon()), nil, "nil")
					} else if g.dataCanon() != cs.Objs[i].dataCanon() {
						k.report(group, k.noWire(), "Data", diffData(&cs.Objs[i], &g), op, clip(cs.Objs[i].dataCanon()), nil, clip(g.dataCanon()))
					}
				}
			}
		}
		_, problem, at = matchPaths(cs.Deleted, del)
		switch problem {
		case "count":
			k.report(group, k.noWire(), "Deleted list", map[bool]string{true: "shorter than the answer", false: "longer than the answer"}[len(del) < len(cs.Deleted)], op, cs.Deleted, nil, del)
		case "path":
			k.report(group, k.noWire(), "Deleted path", classify(cs.Deleted[at], del[at]), op, cs.Deleted[at], nil, del[at])
		}
		k.c.Distinct(fmt.Sprintf("carddav|wire|sync|up=%d|del=%d", len(cs.Objs), len(cs.Deleted)))
	}
}

// selfCheck reads the harness-written document back with the independent
// reader and compares with the expected values.
func (k *chk) selfCheck(cs *wireCase, ms *davx.MultiStatus) string {
	byPath := map[string]*davx.Response{}
	for i := range ms.Responses {
		r := &ms.Responses[i]
		if len(r.Paths) != 1 {
			return "response without exactly one href"
		}
		byPath[r.Paths[0]] = r
	}
	switch cs.Op {
	case "find":
		wire := k.wireColls(ms)
		wm, problem, _ := matchPaths(collPaths(cs.Colls), collPaths(wire))
		if problem != "" {
			return "collection list: " + problem
		}
		for i := range cs.Colls {
			w, g := collFields(k.proto, &cs.Colls[i]), collFields(k.proto, &wire[wm[i]])
			for f, v := range w {
				if !sameField(f, v, g[f]) {
					return "collection field " + f
				}
			}
		}
	case "multiget", "query", "sync":
		for i := range cs.Objs {
			o := &cs.Objs[i]
			r := byPath[o.Path]
			if r == nil {
				return "object href"
			}
			t, has := propText(r, nsDAV, "getetag")
			if wireTag(t, has) != o.ETag {
				return "getetag"
			}
			t, has = propText(r, nsDAV, "getlastmodified")
			if s, _ := wireTime(t, has); s != unixStr(o.Mod) {
				return "getlastmodified"
			}
			if cs.Op != "sync" || o.Card != nil {
				d, has := propText(r, k.st.dataNS, k.st.dataLocal)
				if !has {
					return "object data missing"
				}
				dec, err := k.st.decode([]byte(d))
				if err != nil || dec.dataCanon() != o.dataCanon() {
					return "object data"
				}
			}
		}
		for _, p := range cs.Deleted {
			r := byPath[p]
			if r == nil || r.Status == nil || r.Status.Code != 404 {
				return "deleted member"
			}
		}
		if cs.FailCode != 0 {
			r := byPath[cs.FailPath]
			if r == nil || r.Status == nil || r.Status.Code != cs.FailCode {
				return "failing href"
			}
		}
		if cs.Op == "sync" && ms.SyncToken != cs.Token {
			return "sync-token"
		}
	}
	return ""
}

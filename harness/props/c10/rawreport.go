package c10

import (
	"github.com/emersion/go-webdav/verifharness/davx"
	"github.com/emersion/go-webdav/verifharness/xmltree"
)

// The clients always ask a multiget for prop = data + getetag +
// getlastmodified. RFC 4791 section 9.10 and RFC 6352 section 10.7 give a
// multiget three request forms (allprop | propname | prop), and the servers
// build the answer to each through the same code path. The statement obliges
// the server for every multiget - each requested href exactly once, in request
// order, the object or the backend's own status, in a document an independent
// reader accepts - so one harness-written REPORT per world uses another form.
var rawForms = []string{"allprop", "propname", "prop without data"}

// checkRawMultiget sends a harness-written multiget REPORT to the handler
// (no client involved) and judges the answer on the wire. A server that
// refuses a form (anything but 207) is observed, not judged. Values are
// compared where the answer carries them: what allprop lists is left open.
func (k *chk) checkRawMultiget(w *world, paths []string, form string) {
	const group = "report"
	op := map[string]string{"caldav": "calendar-multiget", "carddav": "addressbook-multiget"}[k.proto]
	root := xmltree.El(k.st.dataNS, op)
	switch form {
	case "allprop":
		root.Add(xmltree.El(nsDAV, "allprop"))
	case "propname":
		root.Add(xmltree.El(nsDAV, "propname"))
	case "prop without data":
		root.Add(xmltree.El(nsDAV, "prop", xmltree.El(nsDAV, "getetag"), xmltree.El(nsDAV, "getlastmodified")))
	default:
		return
	}
	for _, p := range paths {
		root.Add(xmltree.El(nsDAV, "href", xmltree.Txt(davx.EscapePath(p))))
	}
	op += " REPORT written by the harness (" + form + ")"
	body := xmltree.Render(root, nil)
	k.st.exchanges()
	if !k.guard(group, op, func() { k.st.raw("REPORT", w.MGColl, body) }) {
		return
	}
	exs := k.st.exchanges()
	if len(exs) != 1 {
		return
	}
	if exs[0].Status != 207 {
		k.c.Observe("multiget REPORT forms written by the harness", k.proto+" "+form+": refused (not judged)", 1)
		return
	}
	k.c.Observe("multiget REPORT forms written by the harness", k.proto+" "+form+": answered 207", 1)
	ms := k.readMS(group, op, exs)
	if ms == nil {
		return
	}
	read := func(r *davx.Response, want *nObj) (map[string]string, *nObj) {
		if form == "propname" {
			return nil, nil
		}
		f, wo := k.wireObject(r, want)
		if _, has := propText(r, k.st.dataNS, k.st.dataLocal); !has {
			delete(f, "Data")
		}
		if form == "allprop" {
			if _, has := propText(r, nsDAV, "getetag"); !has {
				delete(f, "ETag")
			}
			if _, has := propText(r, nsDAV, "getlastmodified"); !has {
				delete(f, "ModTime")
			}
		}
		return f, wo
	}
	wireOK, fields, objs := k.wireMultiget(w, group, op, ms, paths, read)
	if !wireOK {
		return
	}
	for i, p := range paths {
		if o := w.obj(p); o != nil && o.Fail == 0 && fields[i] != nil {
			k.compareFields(group, op, objFields(o, true), fields[i], nil, o, objs[i], nil)
		}
	}
}

// Package c10 decides property C10: calendars, address books and their
// objects reach the client unchanged.
//
// Everything the check generates lives in *neutral* values (plain structs
// that marshal to JSON), so that a witness is the literal failing case and a
// replay re-executes exactly it. The neutral values are converted to the
// library's public types right before the real code is called, and what the
// real code returns (or hands to the backend double) is converted back and
// compared structurally by the harness's own comparison.
package c10

import (
	"fmt"
	"net/url"
	"regexp"
	"sort"
	"strconv"
	"strings"
	"time"

	"github.com/emersion/go-ical"
	"github.com/emersion/go-vcard"
)

// ---- neutral values --------------------------------------------------------

type nProp struct {
	Name   string              `json:"name"`
	Params map[string][]string `json:"params,omitempty"`
	Value  string              `json:"value"`
}

// nComp is an iCalendar component. Props keeps generation order; only the
// order among properties of the same name is significant.
type nComp struct {
	Name     string   `json:"name"`
	Props    []nProp  `json:"props,omitempty"`
	Children []*nComp `json:"children,omitempty"`
}

type nField struct {
	Group  string              `json:"group,omitempty"`
	Params map[string][]string `json:"params,omitempty"`
	Value  string              `json:"value"`
}

type nCard map[string][]nField

// nObj is a calendar object or an address object.
type nObj struct {
	Path string    `json:"path"`
	ETag string    `json:"etag"`          // "" = not available
	Mod  time.Time `json:"mod"`           // zero = not available
	Len  int64     `json:"len,omitempty"` // ContentLength handed to the backend double (never compared)
	// Mono: the time handed to the backend double carries a monotonic-clock
	// reading, as a backend's time.Now() would (same wall instant as Mod).
	Mono bool   `json:"mono,omitempty"`
	Cal  *nComp `json:"cal,omitempty"`
	Card nCard  `json:"card,omitempty"`
	// Fail != 0: the backend's Get for this path fails. 403/404/500... = an
	// HTTP error with that status, 1 = a plain Go error (no status of its own).
	Fail int `json:"fail,omitempty"`
}

// nColl is a calendar or an address book.
type nColl struct {
	Path string `json:"path"`
	Name string `json:"name"`       // "" = unset
	Desc string `json:"desc"`       // "" = unset
	Max  int64  `json:"max,string"` // <= 0 = unset (a string in JSON: the driver re-reads witnesses through float64)
	// HasComps false = SupportedComponentSet nil.
	HasComps bool        `json:"has_comps,omitempty"`
	Comps    []string    `json:"comps,omitempty"`
	Types    [][2]string `json:"types,omitempty"` // SupportedAddressData (content type, version)
}

// libTime is the modification time as handed to the library. time.Now is
// used only to attach a monotonic reading; the wall instant is Mod exactly.
func (o *nObj) libTime() time.Time {
	if !o.Mono || o.Mod.IsZero() {
		return o.Mod
	}
	now := time.Now()
	t := now.Add(o.Mod.Sub(now))
	if !t.Equal(o.Mod) {
		return o.Mod // too far from now for a Duration
	}
	return t
}

func copyParams(p map[string][]string) map[string][]string {
	m := make(map[string][]string, len(p))
	for k, v := range p {
		m[k] = append([]string(nil), v...)
	}
	return m
}

func (n *nComp) add(name string, params map[string][]string, value string) {
	n.Props = append(n.Props, nProp{Name: name, Params: params, Value: value})
}

func (n *nComp) toIcal() *ical.Component {
	c := &ical.Component{Name: n.Name, Props: ical.Props{}}
	for _, p := range n.Props {
		c.Props[p.Name] = append(c.Props[p.Name], ical.Prop{Name: p.Name, Params: ical.Params(copyParams(p.Params)), Value: p.Value})
	}
	for _, ch := range n.Children {
		c.Children = append(c.Children, ch.toIcal())
	}
	return c
}

func (n *nComp) calendar() *ical.Calendar { return &ical.Calendar{Component: n.toIcal()} }

func fromIcal(c *ical.Component) *nComp {
	if c == nil {
		return nil
	}
	n := &nComp{Name: c.Name}
	names := make([]string, 0, len(c.Props))
	for k := range c.Props {
		names = append(names, k)
	}
	sort.Strings(names)
	for _, k := range names {
		for _, p := range c.Props[k] {
			// The map key decides where the encoder writes the property and
			// Prop.Name what it writes; keep both visible.
			name := p.Name
			if name != k {
				name = k + "≠" + p.Name
			}
			n.Props = append(n.Props, nProp{Name: name, Params: copyParams(p.Params), Value: p.Value})
		}
	}
	for _, ch := range c.Children {
		n.Children = append(n.Children, fromIcal(ch))
	}
	return n
}

func fromCalendar(cal *ical.Calendar) *nComp {
	if cal == nil {
		return nil
	}
	return fromIcal(cal.Component)
}

func (c nCard) toVcard() vcard.Card {
	out := vcard.Card{}
	for k, fs := range c {
		for _, f := range fs {
			var p vcard.Params
			if f.Params != nil {
				p = vcard.Params(copyParams(f.Params))
			}
			out[k] = append(out[k], &vcard.Field{Value: f.Value, Params: p, Group: f.Group})
		}
	}
	return out
}

func fromVcard(c vcard.Card) nCard {
	if c == nil {
		return nil
	}
	out := nCard{}
	for k, fs := range c {
		for _, f := range fs {
			if f == nil {
				out[k] = append(out[k], nField{Value: "<nil field>"})
				continue
			}
			out[k] = append(out[k], nField{Group: f.Group, Params: copyParams(f.Params), Value: f.Value})
		}
	}
	return out
}

// ---- structural comparison -------------------------------------------------

func canonParams(p map[string][]string) string {
	keys := make([]string, 0, len(p))
	for k := range p {
		keys = append(keys, k)
	}
	sort.Strings(keys)
	var sb strings.Builder
	for _, k := range keys {
		fmt.Fprintf(&sb, "%q=%q;", k, p[k])
	}
	return sb.String()
}

func propsByName(ps []nProp) (names []string, by map[string][]nProp) {
	by = map[string][]nProp{}
	for _, p := range ps {
		if _, ok := by[p.Name]; !ok {
			names = append(names, p.Name)
		}
		by[p.Name] = append(by[p.Name], p)
	}
	sort.Strings(names)
	return
}

func (n *nComp) canon() string {
	if n == nil {
		return "<nil>"
	}
	var sb strings.Builder
	n.canonTo(&sb)
	return sb.String()
}

func (n *nComp) canonTo(sb *strings.Builder) {
	fmt.Fprintf(sb, "C(%q", n.Name)
	names, by := propsByName(n.Props)
	for _, k := range names {
		for _, p := range by[k] {
			fmt.Fprintf(sb, " P(%q %s %q)", p.Name, canonParams(p.Params), p.Value)
		}
	}
	for _, ch := range n.Children {
		sb.WriteByte(' ')
		ch.canonTo(sb)
	}
	sb.WriteByte(')')
}

func (c nCard) canon() string {
	if c == nil {
		return "<nil>"
	}
	keys := make([]string, 0, len(c))
	for k := range c {
		if len(c[k]) > 0 {
			keys = append(keys, k)
		}
	}
	sort.Strings(keys)
	var sb strings.Builder
	for _, k := range keys {
		for _, f := range c[k] {
			fmt.Fprintf(&sb, "F(%q %q %s %q) ", k, f.Group, canonParams(f.Params), f.Value)
		}
	}
	return sb.String()
}

func (o *nObj) dataCanon() string {
	if o.Cal != nil {
		return o.Cal.canon()
	}
	return o.Card.canon()
}

// diffComp names the first structural difference in abstract terms.
func diffComp(want, got *nComp) string {
	if want == nil || got == nil {
		return "object missing"
	}
	if want.Name != got.Name {
		return "component name | " + classify(want.Name, got.Name)
	}
	wn, wb := propsByName(want.Props)
	gn, gb := propsByName(got.Props)
	if strings.Join(wn, "\x00") != strings.Join(gn, "\x00") {
		return "property set differs"
	}
	for _, k := range wn {
		if len(wb[k]) != len(gb[k]) {
			return "number of instances of a property differs"
		}
		for i := range wb[k] {
			w, g := wb[k][i], gb[k][i]
			if canonParams(w.Params) != canonParams(g.Params) {
				return "parameters differ"
			}
			if w.Value != g.Value {
				return "property value | " + classify(w.Value, g.Value)
			}
		}
	}
	if len(want.Children) != len(got.Children) {
		return "number of sub-components differs"
	}
	for i := range want.Children {
		if d := diffComp(want.Children[i], got.Children[i]); d != "" {
			return d
		}
	}
	return ""
}

func diffCard(want, got nCard) string {
	if want == nil || got == nil {
		return "object missing"
	}
	keys := func(c nCard) []string {
		var l []string
		for k := range c {
			if len(c[k]) > 0 {
				l = append(l, k)
			}
		}
		sort.Strings(l)
		return l
	}
	wk, gk := keys(want), keys(got)
	if strings.Join(wk, "\x00") != strings.Join(gk, "\x00") {
		return "field set differs"
	}
	for _, k := range wk {
		if len(want[k]) != len(got[k]) {
			return "number of instances of a field differs"
		}
		for i := range want[k] {
			w, g := want[k][i], got[k][i]
			if w.Group != g.Group {
				return "group | " + classify(w.Group, g.Group)
			}
			if canonParams(w.Params) != canonParams(g.Params) {
				return "parameters differ"
			}
			if w.Value != g.Value {
				return "field value | " + classify(w.Value, g.Value)
			}
		}
	}
	return ""
}

func diffData(want, got *nObj) string {
	if want.Cal != nil {
		return diffComp(want.Cal, got.Cal)
	}
	return diffCard(want.Card, got.Card)
}

func stripSpace(s string) string {
	return strings.Map(func(r rune) rune {
		switch r {
		case ' ', '\t', '\n', '\r':
			return -1
		}
		return r
	}, s)
}

// classify names, in abstract terms, how got differs from want.
func classify(want, got string) string {
	switch {
	case want == got:
		return "equal"
	case got == "":
		return "lost"
	case want == "":
		return "invented"
	case strings.TrimSpace(want) == got, strings.TrimLeft(want, " \t\r\n") == got, strings.TrimRight(want, " \t\r\n") == got:
		return "outer white space trimmed"
	case strings.ReplaceAll(strings.ReplaceAll(want, "\r\n", "\n"), "\r", "\n") == got:
		return "line ends normalised"
	case stripSpace(want) == stripSpace(got):
		return "white space changed"
	case strings.HasPrefix(want, got):
		switch want[len(got)] {
		case '?', '#':
			return "cut at a URI delimiter"
		}
		return "truncated"
	}
	if u, err := url.PathUnescape(want); err == nil && u == got {
		return "percent-decoded once more"
	}
	if url.PathEscape(want) == got || (&url.URL{Path: want}).EscapedPath() == got {
		return "left percent-encoded"
	}
	if u, err := strconv.Unquote(`"` + want + `"`); err == nil && u == got {
		return "escape sequences interpreted"
	}
	if u, err := strconv.Unquote(want); err == nil && u == got {
		return "unquoted once more"
	}
	if strings.Trim(got, `"`) == want || strconv.Quote(want) == got {
		return "left quoted"
	}
	if strings.EqualFold(want, got) {
		return "letter case changed"
	}
	return "changed"
}

func classifyTime(want, got time.Time) string {
	switch {
	case want.IsZero() && got.IsZero():
		return "equal"
	case got.IsZero():
		return "lost"
	case want.IsZero():
		return "invented"
	}
	d := got.Unix() - want.Unix()
	if d == 0 {
		return "equal"
	}
	if d < 0 {
		d = -d
	}
	if d%900 == 0 && d <= 14*3600 {
		return "shifted by a zone offset"
	}
	if d <= 1 {
		return "off by one second"
	}
	return "changed"
}

var (
	reQuoted = regexp.MustCompile(`"(?:[^"\\]|\\.)*"`)
	rePath   = regexp.MustCompile(`/[^\s:]+`)
	reDigits = regexp.MustCompile(`[0-9]+`)
)

// normErr reduces an error text to an abstract class: quoted strings, paths
// and numbers are masked so that generated values never reach a finding key.
func normErr(err error) string {
	if err == nil {
		return ""
	}
	s := err.Error()
	s = reQuoted.ReplaceAllString(s, `"…"`)
	s = rePath.ReplaceAllString(s, "/…")
	s = reDigits.ReplaceAllString(s, "N")
	s = strings.Map(func(r rune) rune {
		if r < 0x20 || r > 0x7e {
			if r == '…' {
				return r
			}
			return '?'
		}
		return r
	}, s)
	if len(s) > 90 {
		s = s[:90]
	}
	return s
}

func unixStr(t time.Time) string {
	if t.IsZero() {
		return "none"
	}
	return strconv.FormatInt(t.Unix(), 10)
}

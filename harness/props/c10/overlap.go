package c10

import (
	"context"
	"fmt"
	"net/http"
	"runtime"
	"sort"
	"strings"
	"sync"

	"github.com/emersion/go-webdav/verifharness/davx"
	"github.com/emersion/go-webdav/verifharness/doubles"
	"github.com/emersion/go-webdav/verifharness/fw"
	"github.com/emersion/go-webdav/verifharness/xmltree"
)

// The overlap family: K goroutines issue DIFFERENT calls through ONE client.
// A gating HTTP client parks every request until all K callers have handed
// theirs over (so every request has been completely built while the others
// were still pending) and then forwards them one at a time, in a seeded
// order, to the real handler. Every caller must get exactly what its own
// request denotes: the per-call oracle is the one of the sequential cases,
// preceded by an independent reading of the request the server received.

type callerKey struct{}

type gate struct {
	ip *doubles.InProc

	mu      sync.Mutex
	cond    *sync.Cond
	k       int
	order   []int // release order (caller ids)
	arrived map[int]bool
	done    map[int]bool
	per     map[int][]doubles.Exchange
}

func newGate(k int, order []int) *gate {
	g := &gate{k: k, order: order, arrived: map[int]bool{}, done: map[int]bool{}, per: map[int][]doubles.Exchange{}}
	g.cond = sync.NewCond(&g.mu)
	return g
}

// turn returns the caller whose request is forwarded next (-1: none parked).
func (g *gate) turn() int {
	for _, id := range g.order {
		if g.arrived[id] && !g.done[id] {
			return id
		}
	}
	return -1
}

func (g *gate) Do(req *http.Request) (*http.Response, error) {
	id, _ := req.Context().Value(callerKey{}).(int)
	g.mu.Lock()
	defer g.mu.Unlock()
	if !g.done[id] {
		g.arrived[id] = true
		g.cond.Broadcast()
		for !(len(g.arrived) >= g.k && g.turn() == id) {
			g.cond.Wait()
		}
	}
	// forwarded while holding the lock: the server handles one request at a time
	resp, err := g.ip.RoundTrip(req)
	g.per[id] = append(g.per[id], g.ip.Exchanges()...)
	g.done[id] = true
	g.cond.Broadcast()
	return resp, err
}

// leave is called when a caller's goroutine ends; a caller that never sent a
// request counts as arrived, so that the others are not parked for ever.
func (g *gate) leave(id int) {
	g.mu.Lock()
	if !g.arrived[id] {
		g.arrived[id], g.done[id] = true, true
	}
	g.cond.Broadcast()
	g.mu.Unlock()
}

func (g *gate) take(id int) []doubles.Exchange {
	g.mu.Lock()
	defer g.mu.Unlock()
	l := g.per[id]
	g.per[id] = nil
	return l
}

type ovlCall struct {
	Op    string   `json:"op"` // find | query | multiget
	Paths []string `json:"paths,omitempty"`
}

type ovlCase struct {
	World *world    `json:"world"`
	Calls []ovlCall `json:"calls"`
	Order []int     `json:"order"` // order in which the parked requests are forwarded
	Procs int       `json:"procs"` // GOMAXPROCS while the calls overlap
}

func genOverlap(c *fw.Ctx, g *gen, proto string) *ovlCase {
	w := genWorld(c, g, proto)
	ext := map[string]string{"caldav": ".ics", "carddav": ".vcf"}[proto]
	k := 2 + g.r.Intn(5)
	// K more objects whose names have the same length: multigets of them have
	// request bodies of the same size
	var same []string
	for j := 0; j < k; j++ {
		o := genObject(c, g, proto, under(w.MGColl, fmt.Sprintf("ovl-%d%s", j, ext)))
		if o.ETag == "" {
			o.ETag = fmt.Sprintf("tag-of-%d", j)
		}
		w.Objs = append(w.Objs, o)
		same = append(same, o.Path)
	}
	cs := &ovlCase{World: w, Procs: []int{1, 1, 2, 4}[g.r.Intn(4)]}
	for j := 0; j < k; j++ {
		var call ovlCall
		choice := g.r.Intn(8)
		if j < 2 {
			choice = 0
		}
		switch choice {
		case 0, 1, 2:
			call = ovlCall{Op: "multiget", Paths: []string{same[j]}}
		case 3:
			a, b := same[j], same[(j+1+g.r.Intn(k-1))%k]
			call = ovlCall{Op: "multiget", Paths: []string{a, b}}
		case 4:
			if len(w.MGPaths) > 0 {
				call = ovlCall{Op: "multiget", Paths: w.MGPaths}
			} else {
				call = ovlCall{Op: "multiget", Paths: []string{same[(j+1)%k], same[j]}}
			}
		case 5:
			if len(w.MG2Paths) > 0 {
				call = ovlCall{Op: "multiget", Paths: w.MG2Paths}
			} else {
				call = ovlCall{Op: "find"}
			}
		case 6:
			call = ovlCall{Op: "find"}
		case 7:
			call = ovlCall{Op: "query"}
		}
		cs.Calls = append(cs.Calls, call)
	}
	cs.Order = g.r.Perm(k)
	g.feat(fmt.Sprintf("overlap:K=%d", k))
	g.feat(fmt.Sprintf("overlap:GOMAXPROCS=%d", cs.Procs))
	return cs
}

// requestDenotes reads the request the server received for this caller,
// independently of go-webdav, and says what (if anything) is not the caller's.
func requestDenotes(proto string, w *world, call ovlCall, exs []doubles.Exchange) string {
	if len(exs) != 1 {
		return "" // no exchange (the round trip failed): judged through the call's error
	}
	ex := exs[0]
	wantMethod, wantPath, wantRoot := "REPORT", w.MGColl, ""
	ns := map[string]string{"caldav": nsCal, "carddav": nsCard}[proto]
	switch call.Op {
	case "find":
		wantMethod, wantPath, wantRoot = "PROPFIND", w.Home, "{DAV:}propfind"
	case "query":
		wantRoot = "{" + ns + "}" + map[string]string{"caldav": "calendar-query", "carddav": "addressbook-query"}[proto]
	case "multiget":
		wantRoot = "{" + ns + "}" + map[string]string{"caldav": "calendar-multiget", "carddav": "addressbook-multiget"}[proto]
	}
	if ex.Method != wantMethod {
		return "method of another call"
	}
	if ex.Path != wantPath {
		return "target of another call"
	}
	root, err := xmltree.Parse(ex.Body)
	if err != nil {
		return "body not well-formed"
	}
	if root.Name() != wantRoot {
		return "body of another kind of call"
	}
	if call.Op == "multiget" {
		var got []string
		for _, h := range root.All(davx.NS, "href") {
			p, err := davx.HrefPath(h.TextContent())
			if err != nil {
				p = "unreadable:" + h.TextContent()
			}
			got = append(got, p)
		}
		if strings.Join(got, "\x00") != strings.Join(call.Paths, "\x00") {
			return "hrefs of another call"
		}
	}
	return ""
}

func runOverlap(c *fw.Ctx, cs *ovlCase) {
	w := cs.World
	k := len(cs.Calls)
	if k == 0 || len(cs.Order) != k {
		return
	}
	gt := newGate(k, cs.Order)
	st, face, err := buildServerStackVia(w, gt)
	if err != nil {
		c.Inconclusive("C10: cannot build the client: " + err.Error())
		return
	}
	st.setQuery() // once, before any call: the backend double is only read afterwards
	procs := cs.Procs
	if procs < 1 {
		procs = 1
	}
	old := runtime.GOMAXPROCS(procs)
	defer runtime.GOMAXPROCS(old)

	var sig []string
	for _, call := range cs.Calls {
		sig = append(sig, fmt.Sprintf("%s%d", call.Op, len(call.Paths)))
	}
	sort.Strings(sig)
	c.Distinct(fmt.Sprintf("%s|overlap|procs=%d|%s", w.Proto, procs, strings.Join(sig, ",")))
	c.Observe("overlapping calls", fmt.Sprintf("%s: K=%d concurrent callers, GOMAXPROCS=%d", w.Proto, k, procs), 1)

	var wg sync.WaitGroup
	for id := range cs.Calls {
		id, call := id, cs.Calls[id]
		f := face(context.WithValue(context.Background(), callerKey{}, id), id)
		ck := &chk{c: c, st: f, kind: "overlap", cs: cs, proto: w.Proto}
		// the first thing every per-call oracle does after the call is to
		// fetch the caller's exchanges: the request is judged right there
		take := f.exchanges
		f.exchanges = func() []doubles.Exchange {
			exs := take()
			if why := requestDenotes(w.Proto, w, call, exs); why != "" {
				c.Observe("overlapping calls", w.Proto+": request on the wire is not the caller's", 1)
				ck.report("overlap", "client→wire", "request", "the server received the "+why, call.Op, call, clip(exs[0].Method+" "+exs[0].Path+" "+string(exs[0].Body)), nil)
				ck.mute = true // everything downstream is a consequence
			} else if len(exs) == 1 {
				c.Observe("overlapping calls", w.Proto+": request on the wire is the caller's ("+call.Op+")", 1)
			}
			return exs
		}
		wg.Add(1)
		go func() {
			defer wg.Done()
			defer gt.leave(id)
			switch call.Op {
			case "find":
				ck.checkFind(w)
			case "query":
				ck.checkQuery(w)
			case "multiget":
				ck.checkMultiget(w, call.Paths)
			}
		}()
	}
	wg.Wait()
}

package c10

import (
	"bytes"
	"context"
	"errors"
	"fmt"
	"net/http"

	"github.com/emersion/go-ical"
	"github.com/emersion/go-vcard"
	"github.com/emersion/go-webdav"
	"github.com/emersion/go-webdav/caldav"
	"github.com/emersion/go-webdav/carddav"
	"github.com/emersion/go-webdav/verifharness/davx"
	"github.com/emersion/go-webdav/verifharness/doubles"
	"github.com/emersion/go-webdav/verifharness/fw"
)

const (
	nsDAV  = "DAV:"
	nsCal  = "urn:ietf:params:xml:ns:caldav"
	nsCard = "urn:ietf:params:xml:ns:carddav"
)

// stack is the real client of one protocol behind a protocol-neutral face, so
// that the oracle is written once for CalDAV and CardDAV. Every closure calls
// the public API of go-webdav and converts the result to neutral values.
type stack struct {
	ctx                 context.Context // context of every client call made through this face (nil = Background)
	proto               string
	dataNS, dataLocal   string // the REPORT property carrying the object
	collLocal           string // resourcetype child marking a collection of this protocol
	descLocal           string
	ext                 string
	find                func(home string) ([]nColl, error)
	get                 func(path string) (*nObj, error)
	multiget            func(coll string, paths []string) ([]nObj, error)
	query               func(coll string) ([]nObj, error)
	put                 func(path string, o *nObj) (*nObj, error)
	sync                func(coll string, a syncArgs) (string, []nObj, []string, error)
	decode              func(b []byte) (*nObj, error) // codec decoding of a wire body (trusted via the pre-filter)
	exchanges           func() []doubles.Exchange
	calls               func() []doubles.Call
	delivered           func(c doubles.Call) *nObj // object handed to the backend's Put
	putOp               string
	raw                 func(method, path string, body []byte) // a harness-written request straight to the handler (recorded like the client's)
	setQuery, setPutRes func()
}

// failErr builds the backend's error for a failing object. Backends commonly
// wrap their status-carrying error with context (fmt.Errorf("...: %w")); the
// status is still the backend's own, so a third of the errors are wrapped once
// and a third twice (chosen by the path, deterministically).
func failErr(code int, path string) error {
	if code == 1 {
		return errors.New("backend failure without a status")
	}
	err := webdav.NewHTTPError(code, fmt.Errorf("backend says %d", code))
	switch len(path) % 3 {
	case 1:
		return fmt.Errorf("store: lookup failed: %w", err)
	case 2:
		return fmt.Errorf("backend: %w", fmt.Errorf("store: %w", err))
	}
	return err
}

func decodeCal(b []byte) (*nObj, error) {
	var cal *ical.Calendar
	var err error
	if p, v, _ := fw.Guard(func() { cal, err = ical.NewDecoder(bytes.NewReader(b)).Decode() }); p {
		return nil, fmt.Errorf("go-ical panic: %v", v)
	}
	if err != nil {
		return nil, err
	}
	return &nObj{Cal: fromCalendar(cal)}, nil
}

func decodeCard(b []byte) (*nObj, error) {
	var card vcard.Card
	var err error
	if p, v, _ := fw.Guard(func() { card, err = vcard.NewDecoder(bytes.NewReader(b)).Decode() }); p {
		return nil, fmt.Errorf("go-vcard panic: %v", v)
	}
	if err != nil {
		return nil, err
	}
	return &nObj{Card: fromVcard(card)}, nil
}

func calObjs(l []caldav.CalendarObject) []nObj {
	out := make([]nObj, 0, len(l))
	for _, o := range l {
		out = append(out, nObj{Path: o.Path, ETag: o.ETag, Mod: o.ModTime, Len: o.ContentLength, Cal: fromCalendar(o.Data)})
	}
	return out
}

func cardObjs(l []carddav.AddressObject) []nObj {
	out := make([]nObj, 0, len(l))
	for _, o := range l {
		out = append(out, nObj{Path: o.Path, ETag: o.ETag, Mod: o.ModTime, Len: o.ContentLength, Card: fromVcard(o.Card)})
	}
	return out
}

var fullCompReq = caldav.CalendarCompRequest{Name: "VCALENDAR", AllProps: true, AllComps: true}

func calClientFace(st *stack, cl *caldav.Client) {
	ctx := st.ctx
	if ctx == nil {
		ctx = context.Background()
	}
	st.proto, st.dataNS, st.dataLocal, st.collLocal, st.descLocal, st.ext = "caldav", nsCal, "calendar-data", "calendar", "calendar-description", ".ics"
	st.decode = decodeCal
	st.putOp = "PutCalendarObject"
	st.find = func(home string) ([]nColl, error) {
		l, err := cl.FindCalendars(ctx, home)
		if err != nil {
			return nil, err
		}
		out := make([]nColl, 0, len(l))
		for _, c := range l {
			out = append(out, nColl{Path: c.Path, Name: c.Name, Desc: c.Description, Max: c.MaxResourceSize,
				HasComps: c.SupportedComponentSet != nil, Comps: c.SupportedComponentSet})
		}
		return out, nil
	}
	st.get = func(path string) (*nObj, error) {
		o, err := cl.GetCalendarObject(ctx, path)
		if err != nil || o == nil {
			return nil, err
		}
		return &nObj{Path: o.Path, ETag: o.ETag, Mod: o.ModTime, Len: o.ContentLength, Cal: fromCalendar(o.Data)}, nil
	}
	st.multiget = func(coll string, paths []string) ([]nObj, error) {
		l, err := cl.MultiGetCalendar(ctx, coll, &caldav.CalendarMultiGet{Paths: paths, CompRequest: fullCompReq})
		if err != nil {
			return nil, err
		}
		return calObjs(l), nil
	}
	st.query = func(coll string) ([]nObj, error) {
		l, err := cl.QueryCalendar(ctx, coll, &caldav.CalendarQuery{CompRequest: fullCompReq, CompFilter: caldav.CompFilter{Name: "VCALENDAR"}})
		if err != nil {
			return nil, err
		}
		return calObjs(l), nil
	}
	st.put = func(path string, o *nObj) (*nObj, error) {
		r, err := cl.PutCalendarObject(ctx, path, o.Cal.calendar())
		if err != nil || r == nil {
			return nil, err
		}
		return &nObj{Path: r.Path, ETag: r.ETag, Mod: r.ModTime, Len: r.ContentLength}, nil
	}
	st.delivered = func(c doubles.Call) *nObj {
		cal, _ := c.Arg.(*ical.Calendar)
		return &nObj{Path: c.Path, Cal: fromCalendar(cal)}
	}
}

func cardClientFace(st *stack, cl *carddav.Client) {
	ctx := st.ctx
	if ctx == nil {
		ctx = context.Background()
	}
	st.proto, st.dataNS, st.dataLocal, st.collLocal, st.descLocal, st.ext = "carddav", nsCard, "address-data", "addressbook", "addressbook-description", ".vcf"
	st.decode = decodeCard
	st.putOp = "PutAddressObject"
	st.find = func(home string) ([]nColl, error) {
		l, err := cl.FindAddressBooks(ctx, home)
		if err != nil {
			return nil, err
		}
		out := make([]nColl, 0, len(l))
		for _, c := range l {
			n := nColl{Path: c.Path, Name: c.Name, Desc: c.Description, Max: c.MaxResourceSize}
			for _, t := range c.SupportedAddressData {
				n.Types = append(n.Types, [2]string{t.ContentType, t.Version})
			}
			out = append(out, n)
		}
		return out, nil
	}
	st.get = func(path string) (*nObj, error) {
		o, err := cl.GetAddressObject(ctx, path)
		if err != nil || o == nil {
			return nil, err
		}
		return &nObj{Path: o.Path, ETag: o.ETag, Mod: o.ModTime, Len: o.ContentLength, Card: fromVcard(o.Card)}, nil
	}
	st.multiget = func(coll string, paths []string) ([]nObj, error) {
		l, err := cl.MultiGetAddressBook(ctx, coll, &carddav.AddressBookMultiGet{Paths: paths, DataRequest: carddav.AddressDataRequest{AllProp: true}})
		if err != nil {
			return nil, err
		}
		return cardObjs(l), nil
	}
	st.query = func(coll string) ([]nObj, error) {
		l, err := cl.QueryAddressBook(ctx, coll, &carddav.AddressBookQuery{DataRequest: carddav.AddressDataRequest{AllProp: true},
			PropFilters: []carddav.PropFilter{{Name: "FN"}}})
		if err != nil {
			return nil, err
		}
		return cardObjs(l), nil
	}
	st.put = func(path string, o *nObj) (*nObj, error) {
		r, err := cl.PutAddressObject(ctx, path, o.Card.toVcard())
		if err != nil || r == nil {
			return nil, err
		}
		return &nObj{Path: r.Path, ETag: r.ETag, Mod: r.ModTime, Len: r.ContentLength}, nil
	}
	st.sync = func(coll string, a syncArgs) (string, []nObj, []string, error) {
		q := &carddav.SyncQuery{SyncToken: a.Token, Limit: a.Limit}
		switch a.Data {
		case "", "allprop":
			q.DataRequest.AllProp = true
		case "props":
			q.DataRequest.Props = []string{"VERSION", "UID", "FN"}
		} // "zero": the zero DataRequest (address-data without a selection: the whole card)
		r, err := cl.SyncCollection(ctx, coll, q)
		if err != nil || r == nil {
			return "", nil, nil, err
		}
		var up []nObj
		for _, o := range r.Updated {
			up = append(up, nObj{Path: o.Path, ETag: o.ETag, Mod: o.ModTime, Card: fromVcard(o.Card)})
		}
		return r.SyncToken, up, r.Deleted, nil
	}
	st.delivered = func(c doubles.Call) *nObj {
		card, _ := c.Arg.(vcard.Card)
		return &nObj{Path: c.Path, Card: fromVcard(card)}
	}
}

// syncArgs are the caller's arguments of one SyncCollection call.
type syncArgs struct {
	Token string `json:"token"`           // "" = initial synchronisation
	Limit int    `json:"limit,omitempty"` // <= 0: unlimited
	Data  string `json:"data,omitempty"`  // "" / "allprop", "zero" (both: the whole card), "props" (a selection)
}

const endpoint = "http://dav.example/"

func rawVia(ip *doubles.InProc) func(method, path string, body []byte) {
	return func(method, path string, body []byte) {
		req, err := http.NewRequest(method, "http://dav.example"+davx.EscapePath(path), bytes.NewReader(body))
		if err != nil {
			return
		}
		req.Header.Set("Content-Type", "application/xml; charset=\"utf-8\"")
		if resp, err := ip.RoundTrip(req); err == nil {
			resp.Body.Close()
		}
	}
}

// buildServerStack wires real client <-> real handler <-> recording backend.
func buildServerStack(w *world) (*stack, error) {
	st, _, err := buildServerStackVia(w, nil)
	return st, err
}

// buildServerStackVia does the same with an optional gate between the client
// and the in-process server. face(ctx) returns one more face of the SAME
// client whose calls carry ctx (the overlap family gives every concurrent
// caller its own face so that its exchanges can be told apart).
func buildServerStackVia(w *world, gt *gate) (*stack, func(ctx context.Context, id int) *stack, error) {
	st := &stack{}
	errs := map[string]error{}
	for _, o := range w.Objs {
		if o.Fail != 0 {
			errs[o.Path] = failErr(o.Fail, o.Path)
		}
	}
	if w.Proto == "caldav" {
		be := &doubles.CalBackend{Principal: w.Principal, HomeSet: w.Home, ObjErr: errs}
		for _, c := range w.Colls {
			cal := caldav.Calendar{Path: c.Path, Name: c.Name, Description: c.Desc, MaxResourceSize: c.Max}
			if c.HasComps {
				cal.SupportedComponentSet = append([]string{}, c.Comps...)
			}
			be.Calendars = append(be.Calendars, cal)
		}
		conv := func(o *nObj) caldav.CalendarObject {
			return caldav.CalendarObject{Path: o.Path, ModTime: o.libTime(), ContentLength: o.Len, ETag: o.ETag, Data: o.Cal.calendar()}
		}
		for i := range w.Objs {
			if w.Objs[i].Fail == 0 {
				be.Objects = append(be.Objects, conv(&w.Objs[i]))
			}
		}
		st.setQuery = func() {
			be.QueryResult = []caldav.CalendarObject{}
			for _, i := range w.QResult {
				be.QueryResult = append(be.QueryResult, conv(&w.Objs[i]))
			}
		}
		st.setPutRes = func() {
			be.PutResult = &caldav.CalendarObject{Path: w.PutRes.Path, ETag: w.PutRes.ETag, ModTime: w.PutRes.libTime(), ContentLength: w.PutRes.Len}
		}
		ip := &doubles.InProc{Handler: &caldav.Handler{Backend: be, Prefix: w.Mount}, Record: true}
		var hc webdav.HTTPClient = ip
		if gt != nil {
			gt.ip = ip
			hc = gt
		}
		cl, err := caldav.NewClient(hc, w.endpointURL())
		if err != nil {
			return nil, nil, err
		}
		calClientFace(st, cl)
		st.exchanges, st.calls = ip.Exchanges, be.Calls
		st.raw = rawVia(ip)
		face := func(ctx context.Context, id int) *stack {
			f := &stack{ctx: ctx}
			calClientFace(f, cl)
			f.exchanges = func() []doubles.Exchange { return gt.take(id) }
			f.calls = func() []doubles.Call { return nil }
			f.setQuery, f.setPutRes = func() {}, func() {}
			return f
		}
		return st, face, nil
	}
	be := &doubles.CardBackend{Principal: w.Principal, HomeSet: w.Home, ObjErr: errs}
	for _, c := range w.Colls {
		ab := carddav.AddressBook{Path: c.Path, Name: c.Name, Description: c.Desc, MaxResourceSize: c.Max}
		for _, t := range c.Types {
			ab.SupportedAddressData = append(ab.SupportedAddressData, carddav.AddressDataType{ContentType: t[0], Version: t[1]})
		}
		be.Books = append(be.Books, ab)
	}
	conv := func(o *nObj) carddav.AddressObject {
		return carddav.AddressObject{Path: o.Path, ModTime: o.libTime(), ContentLength: o.Len, ETag: o.ETag, Card: o.Card.toVcard()}
	}
	for i := range w.Objs {
		if w.Objs[i].Fail == 0 {
			be.Objects = append(be.Objects, conv(&w.Objs[i]))
		}
	}
	st.setQuery = func() {
		be.QueryResult = []carddav.AddressObject{}
		for _, i := range w.QResult {
			be.QueryResult = append(be.QueryResult, conv(&w.Objs[i]))
		}
	}
	st.setPutRes = func() {
		be.PutResult = &carddav.AddressObject{Path: w.PutRes.Path, ETag: w.PutRes.ETag, ModTime: w.PutRes.libTime(), ContentLength: w.PutRes.Len}
	}
	ip := &doubles.InProc{Handler: &carddav.Handler{Backend: be, Prefix: w.Mount}, Record: true}
	var hc webdav.HTTPClient = ip
	if gt != nil {
		gt.ip = ip
		hc = gt
	}
	cl, err := carddav.NewClient(hc, w.endpointURL())
	if err != nil {
		return nil, nil, err
	}
	cardClientFace(st, cl)
	st.exchanges, st.calls = ip.Exchanges, be.Calls
	st.raw = rawVia(ip)
	face := func(ctx context.Context, id int) *stack {
		f := &stack{ctx: ctx}
		cardClientFace(f, cl)
		f.exchanges = func() []doubles.Exchange { return gt.take(id) }
		f.calls = func() []doubles.Call { return nil }
		f.setQuery, f.setPutRes = func() {}, func() {}
		return f
	}
	return st, face, nil
}

// stable reports whether the codec library itself round-trips the object
// (Encode -> Decode gives a structurally equal value). Objects that fail are
// outside C10: the property is about go-webdav's transport, not the codecs.
func stable(o *nObj) (bool, string) {
	var buf bytes.Buffer
	var err error
	if o.Cal != nil {
		if p, _, _ := fw.Guard(func() { err = ical.NewEncoder(&buf).Encode(o.Cal.calendar()) }); p {
			return false, "go-ical encoder panics"
		}
	} else {
		if p, _, _ := fw.Guard(func() { err = vcard.NewEncoder(&buf).Encode(o.Card.toVcard()) }); p {
			return false, "go-vcard encoder panics"
		}
	}
	if err != nil {
		return false, "codec refuses to encode"
	}
	var back *nObj
	if o.Cal != nil {
		back, err = decodeCal(buf.Bytes())
	} else {
		back, err = decodeCard(buf.Bytes())
	}
	if err != nil {
		return false, "codec cannot decode its own output"
	}
	if back.dataCanon() != o.dataCanon() {
		return false, "codec round trip changes the object"
	}
	return true, ""
}

package c10

import (
	"fmt"
	"sort"
	"strconv"
	"strings"
	"time"

	"github.com/emersion/go-webdav/verifharness/davx"
	"github.com/emersion/go-webdav/verifharness/doubles"
	"github.com/emersion/go-webdav/verifharness/fw"
	"github.com/emersion/go-webdav/verifharness/xmltree"
)

// world is one generated backend content plus the client calls made on it
// (real client <-> real handler <-> recording backend double).
type world struct {
	Proto string `json:"proto"`
	// Mount is Handler.Prefix as configured ("" = none; may be spelled with a
	// trailing slash); every backend path lies below it. Base is the path of
	// the client's endpoint ("" = "/").
	Mount     string  `json:"mount,omitempty"`
	Base      string  `json:"base,omitempty"`
	Principal string  `json:"principal"`
	Home      string  `json:"home"`
	Colls     []nColl `json:"colls"`
	Objs      []nObj  `json:"objs"`
	GetIdx    []int   `json:"get,omitempty"`
	GetRel    bool    `json:"get_rel,omitempty"` // Get...Object names the object relative to the endpoint
	// multiget whose hrefs all succeed / whose hrefs mix success and failure
	MGColl   string   `json:"mg_coll"`
	MGPaths  []string `json:"mg_paths,omitempty"`
	MG2Paths []string `json:"mg2_paths,omitempty"`
	// query: the backend's QueryCalendarObjects/QueryAddressObjects returns Objs[QResult...]
	QResult []int `json:"q_result"`
	// PUT
	PutPath string `json:"put_path"`
	PutRel  bool   `json:"put_rel,omitempty"` // the client call spells PutPath relative to the endpoint
	PutObj  nObj   `json:"put_obj"`
	PutRes  nObj   `json:"put_res"`
	// one multiget REPORT written by the harness in this request form (rawreport.go)
	RawForm string `json:"raw_form,omitempty"`
}

func (w *world) obj(path string) *nObj {
	for i := range w.Objs {
		if w.Objs[i].Path == path {
			return &w.Objs[i]
		}
	}
	return nil
}

func genObject(c *fw.Ctx, g *gen, proto, path string) nObj {
	o := nObj{Path: path, ETag: g.etag(), Mod: g.instant()}
	if y := o.Mod.Year(); y > 1800 && y < 2200 && g.chance(8) {
		o.Mono = true
		g.feat("mtime:monotonic-reading")
	}
	if g.chance(3) {
		o.Len = 1 + g.r.Int63n(100000)
	}
	for try := 0; ; try++ {
		sub := newGen(g.r)
		if proto == "caldav" {
			o.Cal, o.Card = sub.calendar(), nil
		} else {
			o.Cal, o.Card = nil, sub.card()
		}
		ok, why := stable(&o)
		if ok {
			for f := range sub.feats {
				g.feat(f)
			}
			c.Observe("codec pre-filter", proto+": kept", 1)
			return o
		}
		c.Observe("codec pre-filter", proto+": excluded, "+why, 1)
		if try > 20 {
			// cannot happen with the generators above; keep going with a minimal object
			if proto == "caldav" {
				o.Cal = &nComp{Name: "VCALENDAR", Props: []nProp{{Name: "PRODID", Value: "x"}, {Name: "VERSION", Value: "2.0"}},
					Children: []*nComp{{Name: "VEVENT", Props: []nProp{{Name: "DTSTAMP", Value: "20240102T030405Z"}, {Name: "UID", Value: "u"}}}}}
			} else {
				o.Card = nCard{"VERSION": {{Value: "4.0"}}, "FN": {{Value: "x"}}}
			}
			return o
		}
	}
}

// under names a member of a collection, however the collection is spelled.
func under(coll, seg string) string {
	if strings.HasSuffix(coll, "/") {
		return coll + seg
	}
	return coll + "/" + seg
}

func genWorld(c *fw.Ctx, g *gen, proto string) *world {
	w := &world{Proto: proto}
	ext := ".ics"
	homeSeg := "cal"
	if proto == "carddav" {
		ext, homeSeg = ".vcf", "contacts"
	}
	// A third of the worlds are mounted below a Handler.Prefix (mount.go); in
	// half of these the names below the prefix are related to its spelling.
	mount, related := "", false
	if g.chance(3) {
		mount = g.mount(proto)
		w.Mount = mount
		g.feat("layout:mounted")
		if g.chance(3) {
			w.Mount += "/"
			g.feat("mount:prefix-spelled-with-trailing-slash")
		}
		if g.chance(2) {
			w.Base = mount + "/"
			g.feat("layout:endpoint-at-mount")
		}
		related = g.chance(2)
	}
	// nameSeg: in related worlds every other name comes from the mount's spelling
	nameSeg := func(hostile bool, used map[string]bool, suffix string, oneIn int) string {
		if related && g.chance(oneIn) {
			return g.mountSeg(mount, used, suffix)
		}
		return g.uniqueSeg(hostile, used, suffix)
	}
	hostileLayout := g.chance(5)
	switch {
	case related:
		w.Principal = mount + "/" + nameSeg(false, map[string]bool{}, "", 1) + "/"
		if g.chance(2) {
			w.Home = w.Principal + nameSeg(false, map[string]bool{}, "", 1) + "/"
		} else {
			w.Home = w.Principal + homeSeg + "/"
		}
		g.feat("layout:names-related-to-mount")
	case hostileLayout:
		used := map[string]bool{}
		w.Principal = mount + "/" + g.uniqueSeg(true, used, "") + "/"
		w.Home = w.Principal + g.uniqueSeg(true, used, "") + "/"
		g.feat("layout:hostile-home")
	default:
		w.Principal = mount + "/u/"
		w.Home = mount + "/u/" + homeSeg + "/"
	}
	hostile := g.r.Intn(3) > 0
	used := map[string]bool{}
	// "Any path": a quarter of the worlds hold paths of other shapes than
	// home/collection/ and collection/object.
	shapes := g.chance(4)
	usedX := map[string]bool{}
	ncoll := g.r.Intn(4)
	if ncoll == 0 && !g.chance(4) {
		ncoll = 1
	}
	var okIdx, failIdx []int
	for i := 0; i < ncoll; i++ {
		col := nColl{Path: w.Home + nameSeg(hostile, used, "", 3) + "/", Name: g.text("name"), Desc: g.text("desc"), Max: g.maxSize()}
		if shapes {
			switch g.r.Intn(4) {
			case 0: // the backend spells the collection without a trailing slash
				col.Path = strings.TrimSuffix(col.Path, "/")
				g.feat("shape:collection-without-trailing-slash")
			case 1: // a collection the backend lists from outside the home set
				col.Path = mount + "/shared/" + strings.TrimPrefix(col.Path, w.Home)
				g.feat("shape:collection-outside-the-home-set")
			}
		}
		if proto == "caldav" {
			col.HasComps, col.Comps = g.compSet()
		} else {
			col.Types = g.addrTypes()
		}
		w.Colls = append(w.Colls, col)
		usedO := map[string]bool{}
		nobj := g.r.Intn(4)
		for j := 0; j < nobj; j++ {
			op := under(col.Path, nameSeg(hostile, usedO, ext, 4))
			if shapes && g.chance(3) {
				switch g.r.Intn(2) {
				case 0: // deeper than a direct member
					op = under(col.Path, "sub/"+g.uniqueSeg(hostile, usedO, ext))
					g.feat("shape:object-below-a-sub-path")
				case 1: // held somewhere else altogether
					op = mount + "/shared/objects/" + g.uniqueSeg(hostile, usedX, ext)
					g.feat("shape:object-outside-the-collection")
				}
			}
			o := genObject(c, g, proto, op)
			okIdx = append(okIdx, len(w.Objs))
			w.Objs = append(w.Objs, o)
		}
		if g.chance(2) {
			nf := 1 + g.r.Intn(2)
			for j := 0; j < nf; j++ {
				code := []int{403, 404, 500, 1, 423, 404, 499, 599, 420}[g.r.Intn(9)]
				failIdx = append(failIdx, len(w.Objs))
				w.Objs = append(w.Objs, nObj{Path: under(col.Path, g.uniqueSeg(hostile, usedO, ext)), Fail: code})
			}
		}
	}
	collPath := w.Home + "none/"
	if len(w.Colls) > 0 {
		collPath = w.Colls[g.r.Intn(len(w.Colls))].Path
	}
	w.MGColl = collPath
	perm := g.r.Perm(len(okIdx))
	for k, pi := range perm {
		if k < 3 {
			w.GetIdx = append(w.GetIdx, okIdx[pi])
		}
	}
	// A quarter of the worlds name the object of a Get relative to the client's
	// endpoint; the value handed back must still carry the backend's path.
	if len(w.GetIdx) > 0 && g.chance(4) {
		w.GetRel = true
		g.feat("get:relative-name")
	}
	if len(okIdx) > 0 {
		n := 1 + g.r.Intn(len(okIdx))
		for _, pi := range g.r.Perm(len(okIdx))[:n] {
			w.MGPaths = append(w.MGPaths, w.Objs[okIdx[pi]].Path)
		}
		if g.chance(8) {
			w.MGPaths = append(w.MGPaths, w.MGPaths[0])
			g.feat("multiget:duplicate-href")
		}
		if g.chance(20) {
			// a long request (the objects named over and over): sizes around
			// the round numbers at which an implementation might batch
			n := []int{99, 100, 101, 128, 150, 199, 200, 201, 257, 1000}[g.r.Intn(10)]
			base := append([]string(nil), w.MGPaths...)
			for len(w.MGPaths) < n {
				w.MGPaths = append(w.MGPaths, base[len(w.MGPaths)%len(base)])
			}
			g.feat("multiget:long-href-list")
		}
	}
	if len(failIdx) > 0 {
		var l []int
		l = append(l, failIdx...)
		for _, pi := range g.r.Perm(len(okIdx)) {
			if len(l) < 6 {
				l = append(l, okIdx[pi])
			}
		}
		g.r.Shuffle(len(l), func(i, j int) { l[i], l[j] = l[j], l[i] })
		for _, i := range l {
			w.MG2Paths = append(w.MG2Paths, w.Objs[i].Path)
		}
	}
	w.QResult = []int{}
	if len(okIdx) > 0 && !g.chance(6) {
		n := 1 + g.r.Intn(len(okIdx))
		for _, pi := range g.r.Perm(len(okIdx))[:n] {
			w.QResult = append(w.QResult, okIdx[pi])
		}
	}
	w.PutPath = under(collPath, g.uniqueSeg(hostile, map[string]bool{}, ext))
	w.PutObj = genObject(c, g, proto, w.PutPath)
	w.PutObj.ETag, w.PutObj.Mod, w.PutObj.Len = "", time.Time{}, 0
	w.PutRes = nObj{ETag: g.etag(), Mod: g.instant()}
	if y := w.PutRes.Mod.Year(); y > 1800 && y < 2200 && g.chance(8) {
		w.PutRes.Mono = true
		g.feat("mtime:monotonic-reading")
	}
	switch g.r.Intn(4) {
	case 0:
		g.feat("put:backend-returns-no-path")
	case 1:
		w.PutRes.Path = under(collPath, g.uniqueSeg(true, map[string]bool{}, ext))
		g.feat("put:backend-renames")
	default:
		w.PutRes.Path = w.PutPath
	}
	// A third of the PUTs name the object relative to the client's endpoint
	// ("u/cal/c/o.ics" against http://dav.example/): the client must still hand
	// back the backend's (absolute) path. Only when the backend names a path.
	// In mounted worlds whose client endpoint is the mount point the name is
	// relative to that.
	if w.PutRes.Path != "" && w.relOK(w.PutPath) && g.r.Intn(3) == 0 {
		w.PutRel = true
		g.feat("put:relative-name")
	}
	if len(w.MGPaths)+len(w.MG2Paths) > 0 {
		w.RawForm = g.pick(rawForms)
	}
	return w
}

// ---- oracle ----------------------------------------------------------------

type chk struct {
	c     *fw.Ctx
	st    *stack
	kind  string      // "srv", "wire" or "overlap"
	mute  bool        // overlap: the request on the wire was already shown not to be the caller's
	cs    interface{} // the literal case (world or wire case) for witnesses
	proto string
}

// noWire names the direction of a finding for which no independent wire view
// exists: the whole path in the server cases, the harness writer's document
// in the writer cases.
func (k *chk) noWire() string {
	if k.kind == "wire" {
		return "independent writer→client"
	}
	return "server→client"
}

func clip(s string) string {
	if len(s) > 400 {
		return s[:400] + fmt.Sprintf("…(%d bytes)", len(s))
	}
	return s
}

func (k *chk) report(group, dir, field, trans, op string, want, wire, got interface{}) {
	if k.mute {
		return
	}
	key := fmt.Sprintf("%s %s | %s | %s | %s", k.proto, group, dir, field, trans)
	what := fmt.Sprintf("%s %s: %s: %s %s", k.proto, op, dir, field, trans)
	if k.kind == "overlap" {
		key = "overlapping calls on one client: " + key
		what = "while other calls on the same client were pending: " + what
	}
	if cs, ok := k.cs.(*wireCase); ok && cs.backslashTag() {
		// One decoder (internal.ETag.UnmarshalText) serves every protocol and
		// call: whatever it does to a backslash is one defect, one key.
		ws, _ := want.(string)
		if (field == "ETag" && strings.Contains(ws, `\`)) || (field == "call" && strings.Contains(trans, "unquote ETag")) {
			key = "any REPORT | independent writer→client | ETag | backslash (a plain RFC 7232 etagc) treated as an escape character"
			what = fmt.Sprintf("%s %s: an entity tag containing a backslash, written literally by a foreign server, is %s", k.proto, op, trans)
		}
	}
	det := map[string]interface{}{"op": op, "field": field}
	for n, v := range map[string]interface{}{"want": want, "wire": wire, "got": got} {
		switch x := v.(type) {
		case nil:
		case string:
			det[n] = clip(x)
		case *string:
			if x != nil {
				det[n] = clip(*x)
			}
		default:
			det[n] = x
		}
	}
	k.c.Report(key, what, map[string]interface{}{"kind": k.kind, "case": k.cs, "detail": det})
}

func sameField(field, want, got string) bool {
	switch field {
	case "MaxResourceSize":
		w, _ := strconv.ParseInt(want, 10, 64)
		g, err := strconv.ParseInt(got, 10, 64)
		if err != nil {
			return false
		}
		if w <= 0 {
			return g <= 0 // unset: any "no limit" value
		}
		return w == g
	case "SupportedComponentSet":
		if want == "nil" {
			return got == "nil" || got == "[]" || got == `["VEVENT"]`
		}
	case "SupportedAddressData":
		if want == "[]" {
			return true // unset: the server advertises its own list
		}
	}
	return want == got
}

func collFields(proto string, c *nColl) map[string]string {
	m := map[string]string{"Path": c.Path, "Name": c.Name, "Description": c.Desc, "MaxResourceSize": strconv.FormatInt(c.Max, 10)}
	if proto == "caldav" {
		if !c.HasComps && len(c.Comps) == 0 {
			m["SupportedComponentSet"] = "nil"
		} else {
			m["SupportedComponentSet"] = fmt.Sprintf("%q", append([]string{}, c.Comps...))
		}
	} else {
		l := []string{}
		for _, t := range c.Types {
			l = append(l, t[0]+";version="+t[1])
		}
		m["SupportedAddressData"] = fmt.Sprintf("%q", l)
	}
	return m
}

func objFields(o *nObj, withData bool) map[string]string {
	m := map[string]string{"Path": o.Path, "ETag": o.ETag, "ModTime": unixStr(o.Mod)}
	if withData {
		m["Data"] = o.dataCanon()
	}
	return m
}

// matchPaths aligns two path lists. problem: "" (same order), "reordered"
// (same multiset), "count", or "path" (first index whose paths differ).
func matchPaths(want, got []string) (m []int, problem string, at int) {
	if len(want) != len(got) {
		return nil, "count", 0
	}
	m = make([]int, len(want))
	same := true
	for i := range want {
		m[i] = i
		if want[i] != got[i] {
			same = false
		}
	}
	if same {
		return m, "", 0
	}
	ws, gs := append([]string(nil), want...), append([]string(nil), got...)
	sort.Strings(ws)
	sort.Strings(gs)
	if strings.Join(ws, "\x00") == strings.Join(gs, "\x00") {
		taken := make([]bool, len(got))
		for i := range want {
			for j := range got {
				if !taken[j] && got[j] == want[i] {
					taken[j] = true
					m[i] = j
					break
				}
			}
		}
		return m, "reordered", 0
	}
	for i := range want {
		if want[i] != got[i] {
			return nil, "path", i
		}
	}
	return nil, "path", 0
}

func pathsOf(l []nObj) []string {
	p := make([]string, len(l))
	for i := range l {
		p[i] = l[i].Path
	}
	return p
}

// compareFields applies the three-way comparison want / wire / client. wire
// or got may be nil (no such view). Returns true when nothing was reported.
func (k *chk) compareFields(group, op string, want, wire, got map[string]string, wantObj, wireObj, gotObj *nObj) bool {
	ok := true
	names := make([]string, 0, len(want))
	for f := range want {
		names = append(names, f)
	}
	sort.Strings(names)
	for _, f := range names {
		wv := want[f]
		var wirep, gotp *string
		if wire != nil {
			if v, has := wire[f]; has {
				wirep = &v
			}
		}
		if got != nil {
			if v, has := got[f]; has {
				gotp = &v
			}
		}
		trans := func(other string, otherObj *nObj) string {
			switch f {
			case "Data":
				if otherObj != nil && wantObj != nil {
					return diffData(wantObj, otherObj)
				}
				return "changed"
			case "ModTime":
				if otherObj != nil && wantObj != nil {
					return classifyTime(wantObj.Mod, otherObj.Mod)
				}
			case "SupportedAddressData":
				if other == "[]" {
					return "lost"
				}
				if other == `["text/vcard;version=3.0" "text/vcard;version=4.0"]` {
					return "backend's list replaced by a fixed list"
				}
				return "changed"
			case "MaxResourceSize", "SupportedComponentSet":
				if other == "" || other == "[]" || other == "0" {
					return "lost"
				}
				return "changed"
			}
			return classify(wv, other)
		}
		if wirep != nil && !sameField(f, wv, *wirep) {
			ok = false
			t := ""
			if strings.HasPrefix(*wirep, "unreadable") {
				t = "not readable by an independent reader"
			} else if strings.HasPrefix(*wirep, "raw-path:") {
				t = "raw path, not a percent-encoded URI reference"
			} else {
				t = trans(*wirep, wireObj)
			}
			from := "server→wire"
			if k.kind == "wire" {
				from = "harness writer (check the harness)"
			}
			k.report(group, from, f, t, op, wv, wirep, gotp)
			continue
		}
		if gotp != nil && !sameField(f, wv, *gotp) {
			ok = false
			dir := k.noWire()
			if wirep != nil {
				dir = "wire→client"
			}
			k.report(group, dir, f, trans(*gotp, gotObj), op, wv, wirep, gotp)
		}
	}
	return ok
}

func (k *chk) observeCall(op string, err error, accepted bool) {
	k.c.Eval(1)
	switch {
	case err == nil:
		k.c.Observe("client calls", k.proto+" "+op+": returned values", 1)
	case accepted:
		k.c.Observe("client calls", k.proto+" "+op+": error (a requested href fails at the backend)", 1)
	default:
		k.c.Observe("client calls", k.proto+" "+op+": unexpected error", 1)
	}
}

// readMS runs the strict independent reader over every multi-status the
// server emitted in these exchanges and returns the last one.
func (k *chk) readMS(group, op string, exs []doubles.Exchange) *davx.MultiStatus {
	var last *davx.MultiStatus
	for _, ex := range exs {
		if ex.Status != 207 {
			continue
		}
		ms, err := davx.ReadMultiStatus(ex.RespBody)
		if err != nil {
			k.report(group, "server→wire", "multi-status document", "rejected by the independent RFC 4918 reader: "+normErr(err), op, nil, clip(string(ex.RespBody)), nil)
			k.c.Observe("multi-status bodies emitted by the servers", k.proto+" "+op+": rejected by davx", 1)
			continue
		}
		k.c.Observe("multi-status bodies emitted by the servers", k.proto+" "+op+": accepted by davx", 1)
		last = ms
	}
	return last
}

// requestHrefs reads the DAV:href children of a REPORT request body.
func requestHrefs(body []byte) ([]string, bool) {
	root, err := xmltree.Parse(body)
	if err != nil || root == nil {
		return nil, false
	}
	var out []string
	for _, ch := range root.Elems() {
		if ch.Space == "DAV:" && ch.Local == "href" {
			p, err := davx.HrefPath(ch.TextContent())
			if err != nil {
				return nil, false
			}
			out = append(out, p)
		}
	}
	return out, true
}

// multigetAnswers reads the answer(s) to one multiget call. The statement
// obliges the server per request and the client per call, so a client may
// spread the caller's list over several REPORT requests: each answer is then
// judged against the hrefs of its own request, and the answers are taken
// together in the order of the requests when these add up to the caller's
// list; when they do not, ms is nil and only the client's result is judged.
// faulty reports that an answer was found wanting against its own request.
func (k *chk) multigetAnswers(group, op string, exs []doubles.Exchange, paths []string) (ms *davx.MultiStatus, faulty bool) {
	var answered []doubles.Exchange
	for _, ex := range exs {
		if ex.Status == 207 {
			answered = append(answered, ex)
		}
	}
	if len(answered) <= 1 {
		return k.readMS(group, op, exs), false
	}
	k.c.Observe("multiget: requests per call", fmt.Sprintf("%s: %d answered requests for one call", k.proto, len(answered)), 1)
	merged := &davx.MultiStatus{}
	var asked []string
	whole := true
	for _, ex := range answered {
		one := k.readMS(group, op, []doubles.Exchange{ex})
		hrefs, ok := requestHrefs(ex.Body)
		if one == nil || !ok {
			whole = false
			continue
		}
		var rp []string
		for i := range one.Responses {
			p := ""
			if len(one.Responses[i].Paths) == 1 {
				p = one.Responses[i].Paths[0]
			}
			rp = append(rp, p)
		}
		switch _, problem, at := matchPaths(hrefs, rp); problem {
		case "count":
			whole, faulty = false, true
			k.report(group, "server→wire", "multiget responses", map[bool]string{true: "fewer responses than requested hrefs", false: "more responses than requested hrefs"}[len(rp) < len(hrefs)], op, hrefs, rp, nil)
		case "reordered":
			whole, faulty = false, true
			k.report(group, "server→wire", "multiget responses", "not in request order", op, hrefs, rp, nil)
		case "path":
			whole, faulty = false, true
			k.report(group, "server→wire", "Path", classify(hrefs[at], rp[at]), op, hrefs[at], rp[at], nil)
		}
		asked = append(asked, hrefs...)
		merged.Responses = append(merged.Responses, one.Responses...)
	}
	if !whole || strings.Join(asked, "\x00") != strings.Join(paths, "\x00") {
		return nil, faulty
	}
	return merged, faulty
}

func propText(r *davx.Response, space, local string) (string, bool) {
	p, code := r.Prop(space, local)
	if p == nil || code != 200 {
		return "", false
	}
	return p.TextContent(), true
}

// wireTag reads a getetag / ETag value as an RFC 7232 entity-tag. Only used
// when the backend's tag is plain (needs no escaping convention).
func wireTag(text string, present bool) string {
	if !present {
		return ""
	}
	if len(text) >= 2 && text[0] == '"' && text[len(text)-1] == '"' {
		return text[1 : len(text)-1]
	}
	return "unreadable entity-tag: " + text
}

const rfc1123GMT = "Mon, 02 Jan 2006 15:04:05 GMT"

func wireTime(text string, present bool) (string, time.Time) {
	if !present {
		return "none", time.Time{}
	}
	t, err := time.Parse(rfc1123GMT, text)
	if err != nil {
		return "unreadable date: " + text, time.Time{}
	}
	return unixStr(t), t
}

// wireObject reads one object out of a REPORT response, independently of the
// client (davx + the codec library for the payload).
func (k *chk) wireObject(r *davx.Response, want *nObj) (map[string]string, *nObj) {
	m := map[string]string{}
	o := &nObj{}
	if len(r.Paths) > 0 {
		m["Path"], o.Path = r.Paths[0], r.Paths[0]
	}
	if plainTag(want.ETag) {
		t, has := propText(r, nsDAV, "getetag")
		m["ETag"] = wireTag(t, has)
		o.ETag = m["ETag"]
	}
	t, has := propText(r, nsDAV, "getlastmodified")
	m["ModTime"], o.Mod = wireTime(t, has)
	if d, has := propText(r, k.st.dataNS, k.st.dataLocal); has {
		dec, err := k.st.decode([]byte(d))
		if err != nil {
			m["Data"] = "unreadable: " + normErr(err)
		} else {
			m["Data"] = dec.dataCanon()
			o.Cal, o.Card = dec.Cal, dec.Card
		}
	} else {
		m["Data"] = "unreadable: no " + k.st.dataLocal + " property with status 200"
	}
	return m, o
}

func (k *chk) distinctObj(op string, o *nObj) {
	zone := "unset"
	if !o.Mod.IsZero() {
		_, off := o.Mod.Zone()
		zone = map[bool]string{true: "utc", false: "zoned"}[off == 0]
		if o.Mod.Nanosecond() != 0 {
			zone += "+subsec"
		}
	}
	seg := o.Path[strings.LastIndex(o.Path, "/")+1:]
	k.c.Distinct(k.proto + "|" + op + "|" + segClass(seg) + "|" + tagClass(o.ETag) + "|" + zone)
	if o.Cal != nil || o.Card != nil {
		k.c.Distinct(k.proto + "|" + op + "|payload|" + dataClass(o))
	}
	k.c.Observe("object path classes", segClass(seg), 1)
	k.c.Observe("entity tag classes", tagClass(o.ETag), 1)
	k.c.Observe("modification time classes", zone, 1)
}

func dataClass(o *nObj) string {
	var f []string
	add := func(c bool, s string) {
		if c {
			f = append(f, s)
		}
	}
	canon := o.dataCanon()
	add(strings.Contains(canon, `\\\\`), "bs")
	add(strings.Contains(canon, `\\n`) || strings.Contains(canon, `\n`), "nl")
	add(strings.Contains(canon, `\\,`) || strings.Contains(canon, `\\;`), "esc")
	add(len(canon) > 3000, "big")
	add(strings.ContainsAny(canon, "éü日😀"), "uni")
	add(strings.ContainsAny(canon, "<&"), "xml")
	if o.Cal != nil {
		add(len(o.Cal.Children) > 1, "multi")
	} else {
		add(len(o.Card["TEL"]) > 1, "multi")
		add(len(o.Card["X-ABLABEL"]) > 0, "group")
	}
	return strings.Join(f, "+")
}

func textClass(s string) string {
	if s == "" {
		return "unset"
	}
	var f []string
	t := strings.TrimLeft(s, " \t\r\n")
	if t != s {
		f = append(f, "lead")
	}
	if strings.TrimRight(s, " \t\r\n") != s {
		f = append(f, "trail")
	}
	if strings.ContainsAny(strings.TrimSpace(s), "\r\n\t") {
		f = append(f, "inner-nl")
	}
	if strings.ContainsAny(s, "<>&\"'") {
		f = append(f, "meta")
	}
	for _, r := range s {
		if r > 0x7e {
			f = append(f, "uni")
			break
		}
	}
	if len(s) > 1000 {
		f = append(f, "long")
	}
	if len(f) == 0 {
		return "plain"
	}
	return strings.Join(f, "+")
}

func (k *chk) distinctColl(c *nColl) {
	seg := strings.TrimSuffix(c.Path, "/")
	seg = seg[strings.LastIndex(seg, "/")+1:]
	extra := ""
	if k.proto == "caldav" {
		extra = collFields(k.proto, c)["SupportedComponentSet"]
		if len(c.Comps) > 1 {
			extra = "list"
		}
	} else {
		extra = fmt.Sprint(len(c.Types))
	}
	mc := "pos"
	if c.Max <= 0 {
		mc = "unset"
	}
	k.c.Distinct(k.proto + "|find|" + segClass(seg) + "|name:" + textClass(c.Name) + "|" + mc + "|" + extra)
	k.c.Distinct(k.proto + "|find|desc:" + textClass(c.Desc))
	k.c.Observe("collection path classes", segClass(seg), 1)
	k.c.Observe("display name classes", textClass(c.Name), 1)
	k.c.Observe("description classes", textClass(c.Desc), 1)
}

// guard runs one client call, turning a panic anywhere below (client, handler,
// codec) into a finding.
func (k *chk) guard(group, op string, f func()) bool {
	k.c.Journal(map[string]interface{}{"kind": k.kind, "op": op, "case": k.cs})
	panicked, val, stack := fw.Guard(f)
	k.c.JournalDone()
	if panicked {
		k.c.Report(fmt.Sprintf("%s %s | panic | %s", k.proto, group, fw.PanicSite(stack)), fmt.Sprintf("%s %s panicked: %v", k.proto, op, val),
			map[string]interface{}{"kind": k.kind, "case": k.cs, "detail": map[string]interface{}{"op": op, "panic": fmt.Sprint(val), "stack": clip(stack)}})
	}
	return !panicked
}

func runWorld(c *fw.Ctx, w *world) {
	st, err := buildServerStack(w)
	if err != nil {
		c.Inconclusive("C10: cannot build the client: " + err.Error())
		return
	}
	k := &chk{c: c, st: st, kind: "srv", cs: w, proto: w.Proto}
	c.Observe("handler configuration of the server worlds", w.Proto+": "+w.mountClass(), 1)
	if w.Mount != "" {
		c.Observe("handler configuration of the server worlds", fmt.Sprintf("%s: Prefix spelled with a trailing slash: %v; client endpoint at the mount point: %v", w.Proto, strings.HasSuffix(w.Mount, "/"), w.Base != ""), 1)
	}
	k.checkFind(w)
	for _, i := range w.GetIdx {
		k.checkGet(w, &w.Objs[i])
	}
	if len(w.MGPaths) > 0 {
		k.checkMultiget(w, w.MGPaths)
	}
	if len(w.MG2Paths) > 0 {
		k.checkMultiget(w, w.MG2Paths)
	}
	// ... addressed to a requested object instead of the collection
	for i := range w.Objs {
		if o := &w.Objs[i]; o.Fail == 0 && strings.HasPrefix(o.Path, w.MGColl) {
			k.checkMultigetAt(w, o.Path, []string{o.Path})
			k.checkMultigetAt(w, o.Path, nil)
			break
		}
	}
	if w.RawForm != "" {
		paths := w.MG2Paths
		if len(paths) == 0 {
			paths = w.MGPaths
		}
		if len(paths) > 8 {
			paths = paths[:8]
		}
		k.checkRawMultiget(w, paths, w.RawForm)
	}
	k.checkQuery(w)
	k.checkPut(w)
}

// --- discovery ---

func (k *chk) wireColls(ms *davx.MultiStatus) []nColl {
	var l []nColl
	for i := range ms.Responses {
		r := &ms.Responses[i]
		rt, code := r.Prop(nsDAV, "resourcetype")
		if rt == nil || code != 200 || rt.First(k.st.dataNS, k.st.collLocal) == nil {
			continue
		}
		c := nColl{}
		if len(r.Paths) > 0 {
			c.Path = r.Paths[0]
		}
		c.Name, _ = propText(r, nsDAV, "displayname")
		c.Desc, _ = propText(r, k.st.dataNS, k.st.descLocal)
		if t, has := propText(r, k.st.dataNS, "max-resource-size"); has {
			v, err := strconv.ParseInt(strings.TrimSpace(t), 10, 64)
			if err != nil {
				v = -999
			}
			c.Max = v
		}
		if k.proto == "caldav" {
			if p, code := r.Prop(nsCal, "supported-calendar-component-set"); p != nil && code == 200 {
				c.HasComps, c.Comps = true, []string{}
				for _, e := range p.All(nsCal, "comp") {
					n, _ := e.Attr("name")
					c.Comps = append(c.Comps, n)
				}
			}
		} else {
			if p, code := r.Prop(nsCard, "supported-address-data"); p != nil && code == 200 {
				for _, e := range p.All(nsCard, "address-data-type") {
					ct, _ := e.Attr("content-type")
					v, _ := e.Attr("version")
					c.Types = append(c.Types, [2]string{ct, v})
				}
			}
		}
		l = append(l, c)
	}
	return l
}

func collPaths(l []nColl) []string {
	p := make([]string, len(l))
	for i := range l {
		p[i] = l[i].Path
	}
	return p
}

func (k *chk) checkFind(w *world) {
	const group = "discovery"
	op := map[string]string{"caldav": "FindCalendars", "carddav": "FindAddressBooks"}[k.proto]
	var got []nColl
	var err error
	if !k.guard(group, op, func() { got, err = k.st.find(w.Home) }) {
		return
	}
	k.observeCall(op, err, false)
	for i := range w.Colls {
		k.distinctColl(&w.Colls[i])
	}
	ms := k.readMS(group, op, k.st.exchanges())
	k.compareCollLists(group, op, w.Colls, ms, got, err)
}

// compareCollLists: discovery order is not part of the statement, so a
// reordered list is accepted (and observed); count and content are not.
func (k *chk) compareCollLists(group, op string, want []nColl, ms *davx.MultiStatus, got []nColl, err error) {
	wireOK := true
	var wire []nColl
	var wm []int
	if ms != nil {
		wire = k.wireColls(ms)
		var problem string
		var at int
		wm, problem, at = matchPaths(collPaths(want), collPaths(wire))
		switch problem {
		case "count":
			wireOK = false
			k.report(group, "server→wire", "collection list", map[bool]string{true: "fewer collections than the backend holds", false: "more collections than the backend holds"}[len(wire) < len(want)], op, collPaths(want), collPaths(wire), nil)
		case "path":
			wireOK = false
			k.report(group, "server→wire", "Path", classify(want[at].Path, wire[at].Path), op, want[at].Path, wire[at].Path, nil)
		case "reordered":
			k.c.Observe("don't-care behaviours seen", "discovery: collections listed in another order on the wire", 1)
		}
	}
	if err != nil {
		if wireOK {
			dir := "wire→client"
			if ms == nil {
				dir = k.noWire()
			}
			k.report(group, dir, "call", "error: "+normErr(err), op, nil, nil, err.Error())
		}
		return
	}
	gm, problem, at := matchPaths(collPaths(want), collPaths(got))
	if !wireOK {
		return
	}
	switch problem {
	case "count":
		k.report(group, "wire→client", "collection list", map[bool]string{true: "fewer collections than the backend holds", false: "more collections than the backend holds"}[len(got) < len(want)], op, collPaths(want), nil, collPaths(got))
		return
	case "path":
		k.report(group, "wire→client", "Path", classify(want[at].Path, got[at].Path), op, want[at].Path, nil, got[at].Path)
		return
	case "reordered":
		k.c.Observe("don't-care behaviours seen", "discovery: collections returned in another order", 1)
	}
	for i := range want {
		var wf map[string]string
		if wm != nil {
			wf = collFields(k.proto, &wire[wm[i]])
		}
		k.compareFields(group, op, collFields(k.proto, &want[i]), wf, collFields(k.proto, &got[gm[i]]), nil, nil, nil)
		if !want[i].HasComps && k.proto == "caldav" {
			k.c.Observe("don't-care behaviours seen", "nil SupportedComponentSet came back as "+collFields(k.proto, &got[gm[i]])["SupportedComponentSet"], 1)
		}
		if k.proto == "carddav" && len(want[i].Types) == 0 {
			k.c.Observe("don't-care behaviours seen", "empty SupportedAddressData came back as "+collFields(k.proto, &got[gm[i]])["SupportedAddressData"], 1)
		}
		if want[i].Max < 0 {
			k.c.Observe("don't-care behaviours seen", "negative MaxResourceSize came back as "+strconv.FormatInt(got[gm[i]].Max, 10), 1)
		}
	}
}

// --- GET ---

func (k *chk) checkGet(w *world, o *nObj) {
	const group = "get"
	op := map[string]string{"caldav": "GetCalendarObject", "carddav": "GetAddressObject"}[k.proto]
	var got *nObj
	var err error
	callPath := o.Path
	if w.GetRel && w.relOK(o.Path) {
		callPath = w.rel(o.Path)
		k.c.Observe("object named relative to the endpoint", k.proto+" "+op, 1)
	}
	if !k.guard(group, op, func() { got, err = k.st.get(callPath) }) {
		return
	}
	k.observeCall(op, err, false)
	k.distinctObj("get", o)
	exs := k.st.exchanges()
	var wire map[string]string
	var wireObj *nObj
	if len(exs) == 1 && exs[0].Status/100 == 2 {
		ex := exs[0]
		wire = map[string]string{}
		wireObj = &nObj{}
		if plainTag(o.ETag) {
			_, has := ex.RespHdr["Etag"]
			wire["ETag"] = wireTag(ex.RespHdr.Get("ETag"), has)
		}
		_, has := ex.RespHdr["Last-Modified"]
		wire["ModTime"], wireObj.Mod = wireTime(ex.RespHdr.Get("Last-Modified"), has)
		if dec, derr := k.st.decode(ex.RespBody); derr != nil {
			wire["Data"] = "unreadable: " + normErr(derr)
		} else {
			wire["Data"] = dec.dataCanon()
			wireObj.Cal, wireObj.Card = dec.Cal, dec.Card
		}
	}
	if err != nil || got == nil {
		if wire == nil || k.compareFields(group, op, objFields(o, true), wire, nil, o, wireObj, nil) {
			k.report(group, map[bool]string{true: k.noWire(), false: "wire→client"}[wire == nil], "call", "error: "+normErr(err), op, nil, nil, fw.ErrString(err))
		}
		return
	}
	k.compareFields(group, op, objFields(o, true), wire, objFields(got, true), o, wireObj, got)
}

// --- REPORT: multiget and query ---

func (k *chk) checkMultiget(w *world, paths []string) { k.checkMultigetAt(w, w.MGColl, paths) }

// wireMultiget judges one multiget answer against the hrefs of its request:
// one response per requested href, in request order, the object (read by
// read) or the backend's own status.
func (k *chk) wireMultiget(w *world, group, op string, ms *davx.MultiStatus, paths []string, read func(*davx.Response, *nObj) (map[string]string, *nObj)) (wireOK bool, wireFields []map[string]string, wireObjs []*nObj) {
	wireOK = true
	var rp []string
	for i := range ms.Responses {
		p := ""
		if len(ms.Responses[i].Paths) == 1 {
			p = ms.Responses[i].Paths[0]
		}
		rp = append(rp, p)
	}
	_, problem, at := matchPaths(paths, rp)
	switch problem {
	case "count":
		wireOK = false
		k.report(group, "server→wire", "multiget responses", map[bool]string{true: "fewer responses than requested hrefs", false: "more responses than requested hrefs"}[len(rp) < len(paths)], op, paths, rp, nil)
	case "reordered":
		wireOK = false
		k.report(group, "server→wire", "multiget responses", "not in request order", op, paths, rp, nil)
	case "path":
		wireOK = false
		k.report(group, "server→wire", "Path", classify(paths[at], rp[at]), op, paths[at], rp[at], nil)
	}
	if wireOK {
		for i, p := range paths {
			r := &ms.Responses[i]
			o := w.obj(p)
			if o == nil || o.Fail != 0 {
				wantCode := 404
				if o != nil {
					wantCode = o.Fail
				}
				gotCode := 0
				if r.Status != nil {
					gotCode = r.Status.Code
				}
				k.c.Observe("multiget: per-href status on the wire", fmt.Sprintf("%s: backend %s -> wire %d", k.proto, map[bool]string{true: "plain error", false: strconv.Itoa(wantCode)}[wantCode == 1], gotCode), 1)
				bad := len(r.PropStats) > 0 || r.Status == nil
				if wantCode == 1 {
					bad = bad || gotCode/100 == 2 // no status of its own: any failure status is accepted
				} else {
					bad = bad || gotCode != wantCode
				}
				if bad {
					wireOK = false
					t := "another status than the backend's"
					if len(r.PropStats) > 0 {
						t = "answered as a success"
					}
					k.report(group, "server→wire", "multiget per-href status", t, op, wantCode, gotCode, nil)
				}
				wireFields, wireObjs = append(wireFields, nil), append(wireObjs, nil)
				continue
			}
			k.c.Observe("multiget: per-href status on the wire", k.proto+": object -> propstat", 1)
			if r.Status != nil {
				wireOK = false
				k.report(group, "server→wire", "multiget per-href status", "object answered with a status instead of properties", op, "propstat", r.Status.Code, nil)
				wireFields, wireObjs = append(wireFields, nil), append(wireObjs, nil)
				continue
			}
			f, wo := read(r, o)
			wireFields, wireObjs = append(wireFields, f), append(wireObjs, wo)
		}
	}
	return wireOK, wireFields, wireObjs
}

// checkMultigetAt sends the multiget to the request path at: the collection,
// or - RFC 4791 section 7.9 / RFC 6352 section 8.7 allow any Request-URI - a
// requested object itself. An empty list stands for the request path (the
// clients document that).
func (k *chk) checkMultigetAt(w *world, at string, argPaths []string) {
	const group = "report"
	op := map[string]string{"caldav": "MultiGetCalendar", "carddav": "MultiGetAddressBook"}[k.proto]
	paths := argPaths
	if len(paths) == 0 {
		paths = []string{at}
	}
	if at != w.MGColl {
		k.c.Observe("multiget: request path", k.proto+": sent to a requested object itself", 1)
	}
	anyFail := false
	for _, p := range paths {
		if o := w.obj(p); o == nil || o.Fail != 0 {
			anyFail = true
		}
	}
	var got []nObj
	var err error
	if !k.guard(group, op, func() { got, err = k.st.multiget(at, argPaths) }) {
		return
	}
	k.observeCall(op, err, anyFail)
	ms, faulty := k.multigetAnswers(group, op, k.st.exchanges(), paths)

	// wire level: one response per requested href, in request order, the
	// object or the backend's own status
	wireOK := !faulty
	var wireFields []map[string]string
	var wireObjs []*nObj
	if ms != nil {
		var ok bool
		ok, wireFields, wireObjs = k.wireMultiget(w, group, op, ms, paths, k.wireObject)
		wireOK = wireOK && ok
	}
	for _, p := range paths {
		if o := w.obj(p); o != nil && o.Fail == 0 {
			k.distinctObj("multiget", o)
		}
	}
	if anyFail {
		k.c.Distinct(fmt.Sprintf("%s|multiget-mixed|n=%d", k.proto, len(paths)))
		if err == nil && wireOK {
			k.report(group, "wire→client", "multiget result list", "failing hrefs silently dropped (no error, shorter list)", op, paths, nil, pathsOf(got))
		}
		// Even with an error the wire-level content of the successful hrefs is checked.
		if wireOK && ms != nil {
			for i, p := range paths {
				if o := w.obj(p); o != nil && o.Fail == 0 && wireFields[i] != nil {
					k.compareFields(group, op, objFields(o, true), wireFields[i], nil, o, wireObjs[i], nil)
				}
			}
		}
		return
	}
	var want []*nObj
	for _, p := range paths {
		want = append(want, w.obj(p))
	}
	k.compareObjLists(group, op, want, wireOK, ms != nil, wireFields, wireObjs, got, err, true)
}

func (k *chk) compareObjLists(group, op string, want []*nObj, wireOK, haveWire bool, wireFields []map[string]string, wireObjs []*nObj, got []nObj, err error, ordered bool) {
	if err != nil {
		clean := wireOK
		if wireOK && haveWire {
			for i, o := range want {
				if i < len(wireFields) && wireFields[i] != nil && !k.compareFields(group, op, objFields(o, true), wireFields[i], nil, o, wireObjs[i], nil) {
					clean = false
				}
			}
		}
		if clean {
			k.report(group, map[bool]string{true: "wire→client", false: k.noWire()}[haveWire], "call", "error: "+normErr(err), op, nil, nil, err.Error())
		}
		return
	}
	if !wireOK {
		return
	}
	wp := make([]string, len(want))
	for i, o := range want {
		wp[i] = o.Path
	}
	gm, problem, at := matchPaths(wp, pathsOf(got))
	switch problem {
	case "count":
		k.report(group, "wire→client", "result list", map[bool]string{true: "shorter than the answer", false: "longer than the answer"}[len(got) < len(want)], op, wp, nil, pathsOf(got))
		return
	case "path":
		k.report(group, "wire→client", "Path", classify(wp[at], got[at].Path), op, wp[at], nil, got[at].Path)
		return
	case "reordered":
		if ordered {
			k.report(group, "wire→client", "result list", "not in request order", op, wp, nil, pathsOf(got))
			return
		}
		k.c.Observe("don't-care behaviours seen", "query: objects returned in another order", 1)
	}
	for i, o := range want {
		var wf map[string]string
		var wo *nObj
		if haveWire && i < len(wireFields) {
			wf, wo = wireFields[i], wireObjs[i]
		}
		g := got[gm[i]]
		k.compareFields(group, op, objFields(o, true), wf, objFields(&g, true), o, wo, &g)
	}
}

func (k *chk) checkQuery(w *world) {
	const group = "report"
	op := map[string]string{"caldav": "QueryCalendar", "carddav": "QueryAddressBook"}[k.proto]
	k.st.setQuery()
	var got []nObj
	var err error
	if !k.guard(group, op, func() { got, err = k.st.query(w.MGColl) }) {
		return
	}
	k.observeCall(op, err, false)
	ms := k.readMS(group, op, k.st.exchanges())
	var want []*nObj
	for _, i := range w.QResult {
		want = append(want, &w.Objs[i])
		k.distinctObj("query", &w.Objs[i])
	}
	k.c.Distinct(fmt.Sprintf("%s|query|n=%d", k.proto, len(want)))
	wireOK := true
	var wireFields []map[string]string
	var wireObjs []*nObj
	if ms != nil {
		var rp, wp []string
		for i := range ms.Responses {
			p := ""
			if len(ms.Responses[i].Paths) == 1 {
				p = ms.Responses[i].Paths[0]
			}
			rp = append(rp, p)
		}
		for _, o := range want {
			wp = append(wp, o.Path)
		}
		wm, problem, at := matchPaths(wp, rp)
		switch problem {
		case "count":
			wireOK = false
			k.report(group, "server→wire", "query responses", map[bool]string{true: "fewer responses than the backend returned objects", false: "more responses than the backend returned objects"}[len(rp) < len(wp)], op, wp, rp, nil)
		case "path":
			wireOK = false
			k.report(group, "server→wire", "Path", classify(wp[at], rp[at]), op, wp[at], rp[at], nil)
		case "reordered":
			k.c.Observe("don't-care behaviours seen", "query: responses in another order on the wire", 1)
		}
		if wireOK {
			for i, o := range want {
				f, wo := k.wireObject(&ms.Responses[wm[i]], o)
				wireFields, wireObjs = append(wireFields, f), append(wireObjs, wo)
			}
		}
	}
	k.compareObjLists(group, op, want, wireOK, ms != nil, wireFields, wireObjs, got, err, false)
}

// --- PUT ---

func (k *chk) checkPut(w *world) {
	const group = "put"
	op := k.st.putOp
	k.st.setPutRes()
	k.st.calls()
	var got *nObj
	var err error
	callPath := w.PutPath
	if w.PutRel {
		callPath = w.rel(w.PutPath)
	}
	if !k.guard(group, op, func() { got, err = k.st.put(callPath, &w.PutObj) }) {
		return
	}
	k.observeCall(op, err, false)
	k.distinctObj("put-body", &nObj{Path: w.PutPath, Cal: w.PutObj.Cal, Card: w.PutObj.Card})
	exs := k.st.exchanges()
	var ex *doubles.Exchange
	if len(exs) == 1 {
		ex = &exs[0]
	}

	// request direction: what reached the backend
	var call *doubles.Call
	for _, cl := range k.st.calls() {
		if cl.Op == op {
			cl := cl
			call = &cl
		}
	}
	want := map[string]string{"Path": w.PutPath, "Data": w.PutObj.dataCanon()}
	var wire map[string]string
	var wireObj *nObj
	if ex != nil {
		wire = map[string]string{"Path": ex.Path}
		if dec, derr := k.st.decode(ex.Body); derr != nil {
			wire["Data"] = "unreadable: " + normErr(derr)
		} else {
			wire["Data"] = dec.dataCanon()
			wireObj = dec
		}
	}
	reqOK := true
	{
		if wire != nil {
			for _, f := range []string{"Data", "Path"} {
				if wire[f] != want[f] {
					reqOK = false
					t := classify(want[f], wire[f])
					if f == "Data" {
						t = "changed"
						if strings.HasPrefix(wire[f], "unreadable") {
							t = "not readable by the codec"
						} else if wireObj != nil {
							t = diffData(&w.PutObj, wireObj)
						}
					}
					k.report(group, "client→wire", f, t, op, want[f], wire[f], nil)
				}
			}
		}
		if call == nil {
			if reqOK && err == nil {
				k.report(group, "wire→backend", "call", "the backend's Put was never called", op, nil, nil, nil)
			}
		} else if reqOK {
			d := k.st.delivered(*call)
			dir := "wire→backend"
			if wire == nil {
				dir = "client→backend"
			}
			if d.Path != w.PutPath {
				k.report(group, dir, "Path", classify(w.PutPath, d.Path), op, w.PutPath, nil, d.Path)
			}
			if d.dataCanon() != w.PutObj.dataCanon() {
				k.report(group, dir, "Data", diffData(&w.PutObj, d), op, clip(w.PutObj.dataCanon()), nil, clip(d.dataCanon()))
			}
		}
	}

	// response direction: the backend's path, tag and time
	wantRes := nObj{Path: w.PutRes.Path, ETag: w.PutRes.ETag, Mod: w.PutRes.Mod}
	if wantRes.Path == "" {
		wantRes.Path = w.PutPath // the backend names no path of its own
	}
	k.distinctObj("put-result", &nObj{Path: wantRes.Path, ETag: wantRes.ETag, Mod: wantRes.Mod, Cal: w.PutObj.Cal, Card: w.PutObj.Card})
	var rwire map[string]string
	var rwireObj *nObj
	if ex != nil && ex.Status/100 == 2 {
		rwire = map[string]string{}
		rwireObj = &nObj{}
		loc := ex.RespHdr.Get("Location")
		switch {
		case loc == "":
			rwire["Path"] = w.PutPath
		default:
			p, perr := davx.HrefPath(loc)
			switch {
			case perr == nil && p == wantRes.Path:
				rwire["Path"] = p
			case loc == wantRes.Path:
				rwire["Path"] = "raw-path:" + loc
			case perr != nil:
				rwire["Path"] = "unreadable: " + loc
			default:
				rwire["Path"] = p
			}
		}
		if plainTag(wantRes.ETag) {
			_, has := ex.RespHdr["Etag"]
			rwire["ETag"] = wireTag(ex.RespHdr.Get("ETag"), has)
		}
		_, has := ex.RespHdr["Last-Modified"]
		rwire["ModTime"], rwireObj.Mod = wireTime(ex.RespHdr.Get("Last-Modified"), has)
	}
	if err != nil || got == nil {
		if !reqOK {
			return
		}
		if rwire == nil || k.compareFields(group, op, objFields(&wantRes, false), rwire, nil, &wantRes, rwireObj, nil) {
			k.report(group, map[bool]string{true: k.noWire(), false: "wire→client"}[rwire == nil], "call", "error: "+normErr(err), op, nil, nil, fw.ErrString(err))
		}
		return
	}
	k.compareFields(group, op, objFields(&wantRes, false), rwire, objFields(got, false), &wantRes, rwireObj, got)
}

package c10

import (
	"net/url"
	"strings"
)

// Mounted worlds: the Handler is configured with a Prefix (a documented public
// field of caldav.Handler / carddav.Handler) and every path the backend holds
// - principal, home set, collections, objects - lies below that prefix, the
// way a server mounted at /dav is deployed. The statement speaks of "any
// path" a backend returns, so the names below the prefix are drawn from
// families that are RELATED to the prefix's own spelling as well as from the
// ordinary ones: names spelled with the prefix's letters only, the prefix's
// own segment again, the prefix's segment with a foreign head or tail.
// Whatever the server does with the prefix (cut it off, count segments behind
// it) has to work for all of them.

// mounts are mount points of the shapes deployments use; the last ones need
// escaping in a URI.
func (g *gen) mount(proto string) string {
	l := []string{"/dav", "/dav", "/" + proto, "/a", "/dav/v1", "/srv.d-1", "/dav", "/" + proto, "/d av", "/é"}
	m := l[g.r.Intn(len(l))]
	if segClass(strings.ReplaceAll(m, "/", "")) != "plain" {
		g.feat("mount:needs-escaping")
	}
	if strings.Count(m, "/") > 1 {
		g.feat("mount:two-segments")
	}
	return m
}

func mountLetters(mount string) []rune {
	var l []rune
	seen := map[rune]bool{}
	for _, r := range mount {
		if r != '/' && !seen[r] {
			seen[r] = true
			l = append(l, r)
		}
	}
	return l
}

// withinMount reports whether seg is spelled with the mount's letters only.
func withinMount(mount, seg string) bool {
	if mount == "" || seg == "" {
		return false
	}
	for _, r := range seg {
		if r == '/' || !strings.ContainsRune(mount, r) {
			return false
		}
	}
	return true
}

// mountSeg produces a segment related to the spelling of the mount point.
func (g *gen) mountSeg(mount string, used map[string]bool, suffix string) string {
	letters := mountLetters(mount)
	last := mount[strings.LastIndex(mount, "/")+1:]
	for try := 0; try < 12; try++ {
		var s string
		switch g.r.Intn(6) {
		case 0, 1, 2: // a word made of the mount's letters
			n := 1 + g.r.Intn(4)
			for i := 0; i < n; i++ {
				s += string(letters[g.r.Intn(len(letters))])
			}
		case 3: // the mount's own last segment again
			s = last
		case 4: // ... with a foreign tail
			s = last + g.pick([]string{"e", "2", "-x", "s", ".1"})
		case 5: // ... with a foreign head
			s = g.pick([]string{"x", "my", "0", "_"}) + last
		}
		if s == "." || s == ".." || s == "" {
			continue
		}
		s += suffix
		if !used[s] {
			used[s] = true
			g.feat("path:related-to-mount")
			g.feat("path:" + segClass(s))
			return s
		}
	}
	return g.uniqueSeg(false, used, suffix)
}

// prefix is the mount point without the trailing slash Handler.Prefix may be
// spelled with.
func (w *world) prefix() string { return strings.TrimSuffix(w.Mount, "/") }

// endpointURL is the URL the client is created with: the server's root, or -
// mounted worlds - the mount point itself.
func (w *world) endpointURL() string {
	if w.Base == "" {
		return endpoint
	}
	return (&url.URL{Scheme: "http", Host: "dav.example", Path: w.Base}).String()
}

// rel spells an absolute path relative to the client's endpoint.
func (w *world) rel(p string) string {
	base := w.Base
	if base == "" {
		base = "/"
	}
	return strings.TrimPrefix(p, base)
}

// relOK: p can be named relative to the endpoint and resolves back to itself
// (path.Join cleans the joined path).
func (w *world) relOK(p string) bool {
	base := w.Base
	if base == "" {
		base = "/"
	}
	return strings.HasPrefix(p, base) && len(p) > len(base) && !strings.HasSuffix(p, "/") &&
		!strings.Contains(p, "/../") && !strings.Contains(p, "/./") && !strings.Contains(p, "//")
}

// mountClass names the configuration of a world for the evidence tables.
func (w *world) mountClass() string {
	if w.Mount == "" {
		return "no Prefix"
	}
	rest := strings.Split(strings.Trim(strings.TrimPrefix(w.Principal, w.prefix()), "/"), "/")
	home := strings.Split(strings.Trim(strings.TrimPrefix(w.Home, w.Principal), "/"), "/")
	cl := "Prefix set"
	switch {
	case len(rest) == 1 && withinMount(w.prefix(), rest[0]) && len(home) == 1 && withinMount(w.prefix(), home[0]):
		cl += ", principal and home set named with the prefix's letters"
	case len(rest) == 1 && withinMount(w.prefix(), rest[0]):
		cl += ", principal named with the prefix's letters"
	case len(home) == 1 && withinMount(w.prefix(), home[0]):
		cl += ", home set named with the prefix's letters"
	case len(rest) == 1 && strings.Contains(rest[0], w.prefix()[strings.LastIndex(w.prefix(), "/")+1:]):
		cl += ", principal name contains the prefix's segment"
	default:
		cl += ", unrelated names"
	}
	return cl
}

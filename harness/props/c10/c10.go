package c10

import (
	"encoding/json"

	"github.com/emersion/go-webdav/verifharness/fw"
)

// kinds of cases, dealt round-robin over the case index.
var kinds = []struct{ kind, proto, op string }{
	{"srv", "caldav", ""},
	{"srv", "carddav", ""},
	{"wire", "caldav", "find"},
	{"wire", "carddav", "find"},
	{"srv", "caldav", ""},
	{"srv", "carddav", ""},
	{"wire", "caldav", "multiget"},
	{"wire", "carddav", "multiget"},
	{"wire", "caldav", "query"},
	{"wire", "carddav", "query"},
	{"wire", "carddav", "sync"},
	{"wire", "carddav", "sync"},
	{"overlap", "caldav", ""},
	{"overlap", "carddav", ""},
}

func run(c *fw.Ctx) {
	n := c.Pick(8000, 160000)
	for i := 0; i < n; i++ {
		if !c.Mine(i) {
			continue
		}
		kd := kinds[i%len(kinds)]
		g := newGen(c.Rand("c10/"+kd.kind+"/"+kd.proto+"/"+kd.op, i))
		if kd.kind == "overlap" {
			cs := genOverlap(c, g, kd.proto)
			runOverlap(c, cs)
		} else if kd.kind == "srv" {
			w := genWorld(c, g, kd.proto)
			runWorld(c, w)
			if c.WantSample() && len(w.Objs) > 0 && len(w.Objs) <= 2 && i%7 == 0 {
				if b, _ := json.Marshal(w); len(b) < 2500 {
					c.Sample(map[string]interface{}{"kind": "srv", "case": w})
				}
			}
		} else {
			cs := genWireCase(c, g, kd.proto, kd.op)
			runWire(c, cs)
			if c.WantSample() && len(cs.Body) < 1500 && i%11 == 0 {
				if b, _ := json.Marshal(cs); len(b) < 4000 {
					c.Sample(map[string]interface{}{"kind": "wire", "case": cs})
				}
			}
		}
		for f := range g.feats {
			c.Observe("generated features", f, 1)
		}
	}
}

func replay(c *fw.Ctx, raw json.RawMessage) {
	var head struct {
		Kind string          `json:"kind"`
		Case json.RawMessage `json:"case"`
	}
	if json.Unmarshal(raw, &head) != nil {
		return
	}
	switch head.Kind {
	case "srv":
		var w world
		if json.Unmarshal(head.Case, &w) == nil {
			runWorld(c, &w)
		}
	case "overlap":
		var cs ovlCase
		if json.Unmarshal(head.Case, &cs) == nil && cs.World != nil {
			runOverlap(c, &cs)
		}
	case "wire":
		var cs wireCase
		if json.Unmarshal(head.Case, &cs) == nil {
			runWire(c, &cs)
		}
	}
}

func init() {
	fw.Register(&fw.Property{
		ID:     "C10",
		Run:    run,
		Replay: replay,
		Rule: "Case i of the list is of kind kinds[i mod 14] and generated from PRNG(seed, kind, i). " +
			"Server cases: a generated backend content (0-3 calendars / address books with hostile display names, descriptions, paths, size limits, component sets; " +
			"0-3 objects each with generated iCalendar / vCard data, entity tags, instants in various zones; objects whose backend Get fails with 403/404/423/500 or a plain error) " +
			"held by the recording backend double behind the real caldav/carddav Handler, exercised through the real Client over an in-process HTTP client that records every exchange: " +
			"Find..., Get...Object (<=3), MultiGet... (all hrefs succeed; hrefs mixing success and failure), Query..., Put...Object. " +
			"A third of these worlds are mounted: Handler.Prefix is set (/dav, /caldav, /a, /dav/v1, a prefix that needs escaping; with or without a trailing slash), every backend path lies below it, and in half of them the principal, home-set, collection and object names are related to the prefix's spelling " +
			"(words made of its letters, its own segment again, its segment with a foreign head or tail); half of the mounted worlds create the client with the mount point as endpoint. " +
			"A quarter of the worlds hold paths of other shapes (a collection spelled without a trailing slash or lying outside the home set, an object below a sub-path or outside the collection); a quarter name the object of a Get, a third that of a PUT, relative to the endpoint. " +
			"One multiget REPORT per world is written by the harness itself in another request form (allprop | propname | prop without data) and its answer judged on the wire (readable, one response per href in request order, the backend's status for failing hrefs, equal values where given). " +
			"Every value returned by the client, every argument received by the backend's Put and an independent reading of every recorded response (davx strict multi-status reader, HTTP headers, payload) are compared with what the backend holds. " +
			"Writer cases: a conformant multi-status written by the harness's independent writer (davx.MultiStatusTree + xmltree.Render) in a lexical/structural variant " +
			"(prefixes, default namespaces, white space, comments, CDATA, character references, one property per propstat, 404 propstat before/after, unknown extra properties and elements, absolute / over-escaped hrefs, folded payload lines) " +
			"served by a scripted HTTP client to FindCalendars, FindAddressBooks, MultiGet..., Query... and carddav SyncCollection (initial or incremental, with or without a limit, data requested as allprop / the zero request / a selection; where the answer carries a member's whole card the returned value must carry an equal card); the writer's document is first read back by the independent reader (self-check). " +
			"Overlap cases: K=2..6 goroutines issue different MultiGet (several with request bodies of equal size) / Query / Find calls through ONE client; a gating HTTP client parks each request until all K have been handed over and forwards them one by one in a seeded order to the real handler (GOMAXPROCS 1, 2 or 4); " +
			"the request each caller's exchange carried is read independently (method, target, root element, hrefs) and the sequential per-call oracle is applied to every caller. " +
			"evaluations = client calls made. distinct_nontrivial = distinct abstract classes: per collection (protocol, path class, display-name class, description class, size-limit class, component-set class), " +
			"per object and operation (protocol, operation, path class, tag class, time class) and (protocol, operation, payload feature class), per writer case (protocol, operation, variant set).",
		Assumptions: []string{
			"generated strings are valid UTF-8 made of characters XML 1.0 can carry (TAB, LF, CR, U+0020 and above); paths have no empty, '.' or '..' segment and no control character",
			"iCalendar / vCard objects that go-ical / go-vcard themselves do not round-trip (direct Encode -> Decode pre-filter, counted in 'codec pre-filter') are excluded: C10 is about go-webdav's transport",
			"payload read off the wire is decoded with the same codec libraries (trusted through the pre-filter) and compared structurally by the harness (component tree, property / field names, groups, parameters with ordered values, raw values)",
			"ContentLength is not compared; MaxResourceSize <= 0, empty Name / Description / ETag and zero ModTime mean 'unset'; a nil SupportedComponentSet may come back empty or as [VEVENT]; an empty SupportedAddressData may come back as anything",
			"the order of collections in discovery results and of objects in query results is not part of the statement (observed, not judged); multiget order is",
			"a backend error without an HTTP status of its own may be answered with any non-2xx status",
			"response headers travel through httptest.ResponseRecorder, i.e. without net/http's header sanitising: the check sees at least every deviation a real connection would show for the generated values (no control characters in paths)",
			"a mounted handler is only sent requests below its Prefix, and its backend only holds paths below it; collection arguments are always the backend's own (absolute) spelling: what a client call makes of a relative or differently slashed collection name is not part of the statement",
			"a server that answers a harness-written multiget form with anything but 207 is observed, not judged; under allprop only the values the answer carries are compared",
			"SyncCollection with a selection of vCard properties (DataRequest.Props): what the answering server sends is open, the returned card is not judged",
			"independent writer: entity tags are written as DQUOTE tag DQUOTE with tags made of RFC 7232 etagc characters (a small class contains a backslash, which etagc allows); weak tags are not generated (no public representation)",
		},
		MinEvals:    func(t string) int64 { return map[string]int64{"quick": 12000, "thorough": 150000}[t] },
		MinDistinct: func(t string) int64 { return 1000 },
	})
}

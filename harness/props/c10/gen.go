package c10

import (
	"encoding/base64"
	"fmt"
	"math"
	"math/rand"
	"sort"
	"strings"
	"time"
)

// All generated strings are valid UTF-8 made of characters XML 1.0 can carry
// (no C0 controls except TAB, LF, CR): anything else cannot be transported by
// any WebDAV implementation and is outside the statement's domain.

type gen struct {
	r     *rand.Rand
	feats map[string]bool // abstract features of what was generated (for Distinct/Observe)
}

func newGen(r *rand.Rand) *gen { return &gen{r: r, feats: map[string]bool{}} }

func (g *gen) feat(f string)     { g.feats[f] = true }
func (g *gen) chance(n int) bool { return g.r.Intn(n) == 0 }
func (g *gen) pick(l []string) string {
	return l[g.r.Intn(len(l))]
}

func (g *gen) features() string {
	l := make([]string, 0, len(g.feats))
	for f := range g.feats {
		l = append(l, f)
	}
	sort.Strings(l)
	return strings.Join(l, ",")
}

var plainAtoms = []string{"a", "b", "Cal", "x1", "Z", "work", "7", "-", "_"}
var blankAtoms = []string{" ", "  ", "\t", "\n", "\r\n", "\r", " \n "}
var metaAtoms = []string{"&", "<", ">", "\"", "'", "&amp;", "&#65;", "<![CDATA[", "]]>", "<!--", "<b>x</b>", "?>"}
var uniAtoms = []string{"é", "ü", "ß", "日本", "😀", " ", " ", "Ω", "�", "é"}
var punctAtoms = []string{"%", "%20", "\\", "/", ";", ",", ":", "=", "#", "?", "+", "\\n", "\\,"}

// text produces a display name / description.
func (g *gen) text(kind string) string {
	if g.chance(6) {
		g.feat(kind + ":unset")
		return ""
	}
	var sb strings.Builder
	n := 1 + g.r.Intn(6)
	lead, trail, inner := g.chance(4), g.chance(4), g.chance(3)
	if lead {
		sb.WriteString(g.pick(blankAtoms))
		g.feat(kind + ":leading-blank")
	}
	for i := 0; i < n; i++ {
		switch g.r.Intn(8) {
		case 0, 1, 2:
			sb.WriteString(g.pick(plainAtoms))
		case 3:
			sb.WriteString(g.pick(metaAtoms))
			g.feat(kind + ":xml-meta")
		case 4:
			sb.WriteString(g.pick(uniAtoms))
			g.feat(kind + ":non-ascii")
		case 5:
			sb.WriteString(g.pick(punctAtoms))
		case 6:
			if inner {
				sb.WriteString(g.pick(blankAtoms))
				g.feat(kind + ":inner-blank")
			} else {
				sb.WriteString(" ")
			}
		case 7:
			sb.WriteString(g.pick(plainAtoms))
		}
	}
	if trail {
		sb.WriteString(g.pick(blankAtoms))
		g.feat(kind + ":trailing-blank")
	}
	if g.chance(40) {
		sb.WriteString(strings.Repeat("long text é ", 200+g.r.Intn(400)))
		g.feat(kind + ":long")
	}
	s := sb.String()
	if strings.TrimSpace(s) == "" {
		g.feat(kind + ":only-blank")
	}
	return s
}

var segPlain = []string{"a", "b", "cal", "x1", "Z", "work", "-", "_", ".", "~", "7"}
var segHostile = []string{" ", "%", "%41", "%2F", "%zz", "%25", "#", "?", "&", "<", ">", "\"", "'", "+", ";", "=", "@", ":", ",",
	"[", "]", "{", "}", "|", "\\", "^", "`", "é", "日本", "😀", "!", "$", "(", ")", "*", "é"}

func segClass(s string) string {
	switch {
	case strings.ContainsAny(s, "?#"):
		return "uri-delim"
	case strings.Contains(s, "%"):
		return "percent"
	case strings.ContainsAny(s, " "):
		return "space"
	case strings.ContainsAny(s, "<>&\"'"):
		return "xml-meta"
	}
	for _, r := range s {
		if r > 0x7e {
			return "non-ascii"
		}
	}
	for _, r := range s {
		if !(r >= 'a' && r <= 'z' || r >= 'A' && r <= 'Z' || r >= '0' && r <= '9' || strings.ContainsRune("-_.~", r)) {
			return "other-punct"
		}
	}
	return "plain"
}

// seg produces one path segment (never empty, ".", ".." or containing "/").
func (g *gen) seg(hostile bool) string {
	var sb strings.Builder
	n := 1 + g.r.Intn(3)
	for i := 0; i < n; i++ {
		if hostile && g.r.Intn(2) == 0 {
			sb.WriteString(g.pick(segHostile))
		} else {
			sb.WriteString(g.pick(segPlain))
		}
	}
	s := sb.String()
	if s == "." || s == ".." {
		s = "d" + s
	}
	return s
}

func (g *gen) uniqueSeg(hostile bool, used map[string]bool, suffix string) string {
	for i := 0; ; i++ {
		s := g.seg(hostile)
		if i > 5 {
			s += fmt.Sprintf("%d", i)
		}
		s += suffix
		if !used[s] {
			used[s] = true
			g.feat("path:" + segClass(s))
			return s
		}
	}
}

var tagAtoms = []string{"a", "1", "-", "abc123", "W/", "\"", "\\", "\\n", "\\\"", "é", "日", " ", "'", "`", "%", "&", "<", ":", ",", " ", "\t", "\n"}

func tagClass(s string) string {
	switch {
	case s == "":
		return "unset"
	case strings.ContainsAny(s, "\"\\"):
		return "quote-or-backslash"
	}
	for _, r := range s {
		if r > 0x7e {
			return "non-ascii"
		}
		if r < 0x20 {
			return "control"
		}
	}
	if strings.ContainsAny(s, " ") {
		return "space"
	}
	return "plain"
}

func (g *gen) etag() string {
	if g.chance(6) {
		g.feat("etag:unset")
		return ""
	}
	var sb strings.Builder
	n := 1 + g.r.Intn(5)
	hostile := g.chance(2)
	for i := 0; i < n; i++ {
		if hostile {
			sb.WriteString(g.pick(tagAtoms))
		} else {
			sb.WriteString(g.pick(tagAtoms[:4]))
		}
	}
	s := sb.String()
	if g.chance(12) {
		s = g.pick([]string{`W/"abc"`, `W/abc`, "  lead", "trail  ", " ", "a  b", "\t", "*"})
		g.feat("etag:boundary-form")
	}
	if g.chance(10) {
		// a tag that is itself a quoted string: quoting or unquoting once too
		// often (or too seldom) shows
		s = g.pick([]string{`"` + s + `"`, `"abc"`, `"\"x\""`, `\"a\"`})
		g.feat("etag:quoted-string-inside")
	}
	g.feat("etag:" + tagClass(s))
	return s
}

// plainTag reports whether the tag is made of characters an RFC 7232
// opaque-tag can carry without any escaping convention (plus SP).
func plainTag(s string) bool {
	for _, r := range s {
		if r < 0x20 || r > 0x7e || r == '"' || r == '\\' {
			return false
		}
	}
	return true
}

func (g *gen) instant() time.Time {
	if g.chance(6) {
		g.feat("mtime:unset")
		return time.Time{}
	}
	if g.chance(6) {
		return g.boundaryInstant()
	}
	var sec int64
	switch g.r.Intn(8) {
	case 0:
		sec = time.Date(1000, 1, 2, 0, 0, 0, 0, time.UTC).Unix() + g.r.Int63n(86400*365)
		g.feat("mtime:year-1000")
	case 1:
		sec = time.Date(9990, 1, 1, 0, 0, 0, 0, time.UTC).Unix() - g.r.Int63n(86400*365)
		g.feat("mtime:year-9989")
	case 2:
		sec = -g.r.Int63n(2000000000)
		g.feat("mtime:before-1970")
	default:
		sec = g.r.Int63n(4000000000)
	}
	var nsec int64
	if g.chance(2) {
		nsec = g.r.Int63n(1000000000)
		g.feat("mtime:sub-second")
	}
	var loc *time.Location
	switch g.r.Intn(4) {
	case 0:
		loc = time.UTC
		g.feat("mtime:utc")
	case 1:
		loc = time.FixedZone("", (g.r.Intn(14*4+1))*900)
		g.feat("mtime:zone-east")
	case 2:
		loc = time.FixedZone("", -(g.r.Intn(12*4+1))*900)
		g.feat("mtime:zone-west")
	default:
		loc = time.FixedZone("CEST", 7200)
		g.feat("mtime:zone-east")
	}
	return time.Unix(sec, nsec).In(loc)
}

// boundaryInstant: the values at which "no time" and "a time" are easily
// confused, and the ends of what an HTTP-date can carry.
func (g *gen) boundaryInstant() time.Time {
	zone := func(t time.Time) time.Time {
		switch g.r.Intn(4) {
		case 0:
			g.feat("mtime:zone-east")
			return t.In(time.FixedZone("", (1+g.r.Intn(14*4))*900))
		case 1:
			g.feat("mtime:zone-west")
			return t.In(time.FixedZone("", -(1+g.r.Intn(12*4))*900))
		}
		g.feat("mtime:utc")
		return t.UTC()
	}
	switch g.r.Intn(10) {
	case 0, 1, 2:
		g.feat("mtime:unix-epoch-exactly")
		return zone(time.Unix(0, 0))
	case 3:
		g.feat("mtime:epoch+1s")
		return zone(time.Unix(1, 0))
	case 4:
		g.feat("mtime:epoch-1s")
		return zone(time.Unix(-1, 0))
	case 5:
		g.feat("mtime:epoch+fraction")
		g.feat("mtime:sub-second")
		return zone(time.Unix(0, 1+g.r.Int63n(999999999)))
	case 6:
		g.feat("mtime:epoch-fraction")
		g.feat("mtime:sub-second")
		return zone(time.Unix(-1, 1+g.r.Int63n(999999999)))
	case 7:
		// the first instants after Go's zero time (UTC: an earlier zone would
		// leave the four-digit years an HTTP-date has)
		g.feat("mtime:year-1")
		return time.Date(1, 1, 1, 0, 0, 0, 0, time.UTC).Add(time.Duration(1+g.r.Int63n(3)) * time.Second)
	case 8:
		g.feat("mtime:year-9999")
		return time.Date(9999, 12, 31, 23, 59, 59-g.r.Intn(3), 0, time.UTC)
	}
	g.feat("mtime:far-future")
	return zone(time.Date(2300+g.r.Intn(3000), 6, 15, 12, 0, 0, 0, time.UTC)) // beyond what int64 nanoseconds since 1970 can hold
}

func (g *gen) maxSize() int64 {
	switch g.r.Intn(9) {
	case 0:
		g.feat("max:zero")
		return 0
	case 1:
		g.feat("max:negative")
		return -1 - g.r.Int63n(1000)
	case 2:
		g.feat("max:one")
		return 1
	case 3:
		g.feat("max:int64-max")
		return math.MaxInt64
	case 4:
		g.feat("max:above-2^32")
		return 1<<32 + g.r.Int63n(1<<40)
	}
	g.feat("max:ordinary")
	return 1 + g.r.Int63n(100000000)
}

var compNames = []string{"VEVENT", "VTODO", "VJOURNAL", "VFREEBUSY", "X-CUSTOM", "vevent", "X-É", " VEVENT ", "A&B", "V\"Q\""}

func (g *gen) compSet() (bool, []string) {
	switch g.r.Intn(6) {
	case 0:
		g.feat("comps:nil")
		return false, nil
	case 1:
		g.feat("comps:empty")
		return true, []string{}
	}
	n := 1 + g.r.Intn(4)
	var l []string
	for i := 0; i < n; i++ {
		if g.chance(4) {
			l = append(l, g.pick(compNames))
			g.feat("comps:unusual-name")
		} else {
			l = append(l, g.pick(compNames[:4]))
		}
	}
	if len(l) == 1 && l[0] == "VEVENT" {
		g.feat("comps:only-VEVENT")
	} else {
		g.feat("comps:list")
	}
	return true, l
}

func (g *gen) addrTypes() [][2]string {
	switch g.r.Intn(5) {
	case 0:
		g.feat("types:nil")
		return nil
	case 1:
		g.feat("types:v4-only")
		return [][2]string{{"text/vcard", "4.0"}}
	case 2:
		g.feat("types:v3-only")
		return [][2]string{{"text/vcard", "3.0"}}
	case 3:
		g.feat("types:v3+v4")
		return [][2]string{{"text/vcard", "3.0"}, {"text/vcard", "4.0"}}
	}
	g.feat("types:other")
	return [][2]string{{"text/vcard", "4.0"}, {"application/vcard+json", "4.0"}, {"text/x-vcard", "2.1"}}
}

// ---- iCalendar -------------------------------------------------------------

func icalEscape(s string) string {
	var sb strings.Builder
	for _, r := range s {
		switch r {
		case '\\', ';', ',':
			sb.WriteByte('\\')
			sb.WriteRune(r)
		case '\n':
			sb.WriteString("\\n")
		case '\r':
			// dropped: a TEXT value has no CR of its own
		default:
			sb.WriteRune(r)
		}
	}
	return sb.String()
}

var icalTextAtoms = []string{"Meeting", "a", " ", "  ", ",", ";", "\\", "\n", "\n\n", ":", "\"", "é", "日本語", "😀", "&", "<", ">", "]]>", "\t", "x=y", " ", "%", "BEGIN:VEVENT", "END:VCALENDAR"}

func (g *gen) icalText(kind string) string {
	var sb strings.Builder
	n := 1 + g.r.Intn(8)
	for i := 0; i < n; i++ {
		a := g.pick(icalTextAtoms)
		switch {
		case strings.ContainsAny(a, ",;\\\n"):
			g.feat("ical:escaped-text")
		case a[0] > 0x7e:
			g.feat("ical:non-ascii")
		case strings.ContainsAny(a, "&<>"):
			g.feat("ical:xml-meta")
		}
		sb.WriteString(a)
	}
	if kind == "long" || g.chance(8) {
		k := 80 + g.r.Intn(400)
		if g.chance(6) {
			k = 4000 + g.r.Intn(3000) // beyond bufio's default buffer
			g.feat("ical:line>4096")
		}
		sb.WriteString(strings.Repeat("xyzé ", k/5))
		g.feat("ical:long-line")
	}
	if g.chance(6) {
		sb.WriteString(" ")
		g.feat("ical:trailing-blank-value")
	}
	return icalEscape(sb.String())
}

var icalParamValAtoms = []string{"Jane", "Doe", " ", ";", ":", ",", "é", "日本", "=", "'", "&", "<", "mailto:a@example.org", "\\", "^n",
	"\r", "a\rb", "\t", "]]>", "<![CDATA[", "&amp;", "&#xD;", "\u0085", "\u2028", "\ufffd", "𝒳", " lead", "trail ", ">"}

func (g *gen) icalParamValue() string {
	var sb strings.Builder
	n := 1 + g.r.Intn(4)
	for i := 0; i < n; i++ {
		a := g.pick(icalParamValAtoms)
		if strings.ContainsAny(a, ";:,") {
			g.feat("ical:quoted-param")
		}
		if strings.Contains(a, "\r") {
			g.feat("ical:lone-CR-in-param")
		}
		if strings.ContainsAny(a, "<>&]\t\u0085\u2028\ufffd𝒳") {
			g.feat("ical:xml-special-in-param")
		}
		sb.WriteString(a)
	}
	return sb.String()
}

func (g *gen) icalDateTime() (map[string][]string, string) {
	t := time.Unix(g.r.Int63n(2000000000), 0).UTC()
	switch g.r.Intn(4) {
	case 0:
		return nil, t.Format("20060102T150405Z")
	case 1:
		g.feat("ical:tzid-param")
		return map[string][]string{"TZID": {g.pick([]string{"Europe/Paris", "America/New_York", "/example.org/Custom Zone", "Zone;Odd"})}}, t.Format("20060102T150405")
	case 2:
		g.feat("ical:value-date")
		return map[string][]string{"VALUE": {"DATE"}}, t.Format("20060102")
	}
	return nil, t.Format("20060102T150405")
}

func (g *gen) icalComponent(kind, uid string, idx int) *nComp {
	c := &nComp{Name: kind}
	c.add("UID", nil, uid)
	c.add("DTSTAMP", nil, "20240102T030405Z")
	if idx > 0 {
		p, v := g.icalDateTime()
		c.add("RECURRENCE-ID", p, v)
	}
	if kind != "VFREEBUSY" || g.chance(2) {
		p, v := g.icalDateTime()
		c.add("DTSTART", p, v)
	}
	if kind != "VFREEBUSY" {
		if g.chance(2) {
			c.add("SUMMARY", nil, g.icalText("summary"))
		}
		if g.chance(3) {
			var params map[string][]string
			if g.chance(2) {
				params = map[string][]string{"LANGUAGE": {"fr-CA"}, "ALTREP": {"cid:part1.0001@example.org"}}
				g.feat("ical:quoted-param")
			}
			c.add("DESCRIPTION", params, g.icalText("long"))
		}
	}
	if kind == "VEVENT" || kind == "VTODO" {
		if g.chance(3) {
			c.add("LOCATION", nil, g.icalText("loc"))
		}
		if g.chance(3) {
			// multi-valued TEXT
			n := 2 + g.r.Intn(4)
			var l []string
			for i := 0; i < n; i++ {
				l = append(l, icalEscape(g.pick([]string{"WORK", "a,b", "x;y", "é", "back\\slash", "two words", ""})))
			}
			c.add("CATEGORIES", nil, strings.Join(l, ","))
			g.feat("ical:multi-valued")
		}
		if g.chance(3) {
			c.add("GEO", nil, "37.386013;-122.082932")
		}
		if g.chance(4) {
			c.add("RRULE", nil, "FREQ=WEEKLY;BYDAY=MO,WE;COUNT=10")
		}
		if g.chance(4) {
			c.add("EXDATE", map[string][]string{"TZID": {"Europe/Paris"}}, "20240102T090000,20240109T090000,20240116T090000")
			g.feat("ical:multi-valued")
		}
	}
	if kind != "VFREEBUSY" || g.chance(2) {
		// repeated, parameterised property
		n := g.r.Intn(4)
		for i := 0; i < n; i++ {
			params := map[string][]string{}
			if g.chance(2) {
				params["CN"] = []string{g.icalParamValue()}
			}
			if g.chance(3) {
				params["ROLE"] = []string{g.pick([]string{"CHAIR", "REQ-PARTICIPANT"})}
			}
			if g.chance(3) {
				params["MEMBER"] = []string{"mailto:l1@example.org", "mailto:l2@example.org", g.icalParamValue()}
				g.feat("ical:multi-valued-param")
				g.feat("ical:quoted-param")
			}
			if g.chance(5) {
				params["X-P"] = []string{""}
				g.feat("ical:empty-param")
			}
			c.add("ATTENDEE", params, fmt.Sprintf("mailto:user%d@example.org", i))
			if i > 0 {
				g.feat("ical:repeated-property")
			}
		}
	}
	if g.chance(4) {
		b := make([]byte, 100+g.r.Intn(600))
		g.r.Read(b)
		c.add("ATTACH", map[string][]string{"ENCODING": {"BASE64"}, "VALUE": {"BINARY"}, "FMTTYPE": {"image/png"}}, base64.StdEncoding.EncodeToString(b))
		g.feat("ical:long-line")
	}
	if g.chance(4) {
		c.add("X-"+g.pick([]string{"FOO", "APPLE-STRUCTURED-LOCATION", "MOZ-GENERATION"}), map[string][]string{"X-PARAM": {g.icalParamValue()}}, g.icalText("x"))
	}
	if (kind == "VEVENT" || kind == "VTODO") && g.chance(3) {
		a := &nComp{Name: "VALARM"}
		a.add("ACTION", nil, "DISPLAY")
		a.add("TRIGGER", map[string][]string{"RELATED": {"START"}}, "-PT15M")
		a.add("DESCRIPTION", nil, g.icalText("alarm"))
		c.Children = append(c.Children, a)
		g.feat("ical:nested-component")
	}
	return c
}

func (g *gen) calendar() *nComp {
	cal := &nComp{Name: "VCALENDAR"}
	cal.add("VERSION", nil, "2.0")
	cal.add("PRODID", nil, "-//verif//"+icalEscape(g.pick([]string{"c10", "é", "a b", "x,y"}))+"//EN")
	if g.chance(3) {
		cal.add("CALSCALE", nil, "GREGORIAN")
	}
	if g.chance(4) {
		cal.add("X-WR-CALNAME", nil, g.icalText("name"))
	}
	if g.chance(4) {
		tz := &nComp{Name: "VTIMEZONE"}
		tz.add("TZID", nil, "Europe/Paris")
		for _, k := range []string{"STANDARD", "DAYLIGHT"} {
			s := &nComp{Name: k}
			s.add("DTSTART", nil, "19701025T030000")
			s.add("TZOFFSETFROM", nil, "+0200")
			s.add("TZOFFSETTO", nil, "+0100")
			if g.chance(2) {
				s.add("RRULE", nil, "FREQ=YEARLY;BYMONTH=10;BYDAY=-1SU")
			}
			tz.Children = append(tz.Children, s)
		}
		cal.Children = append(cal.Children, tz)
		g.feat("ical:vtimezone")
	}
	kind := g.pick([]string{"VEVENT", "VEVENT", "VEVENT", "VTODO", "VJOURNAL", "VFREEBUSY"})
	g.feat("ical:" + kind)
	uid := icalEscape(g.pick([]string{"uid-1", "6f2b-é", "a@b.example", "with,comma", "x y"})) + fmt.Sprintf("-%d", g.r.Intn(1000))
	n := 1
	if g.chance(3) {
		n = 2 + g.r.Intn(2)
		g.feat("ical:several-components")
	}
	for i := 0; i < n; i++ {
		cal.Children = append(cal.Children, g.icalComponent(kind, uid, i))
	}
	if g.chance(10) {
		x := &nComp{Name: "X-VERIF-EXT"}
		x.add("X-A", nil, "1")
		cal.Children = append(cal.Children, x)
		g.feat("ical:x-component")
	}
	if g.chance(25) {
		// something the codec is known to change (lower-case names): must be
		// excluded by the pre-filter, never reach the oracle
		cal.Children[len(cal.Children)-1].add("x-lower", nil, "v")
		g.feat("ical:codec-unstable")
	}
	return cal
}

// ---- vCard -----------------------------------------------------------------

var vcardTextAtoms = []string{"John", "Doe", " ", ",", ";", "\\", "\n", ":", "\"", "é", "日本語", "😀", "&", "<", ">", "]]>", "\t", "\\n", "\\,", "%", ".",
	"\r", "a\rb", "x\r\ry", "<![CDATA[", "&amp;", "&#13;", "&#xD;", "\u0085", "\u2028", "\ufffd", "𝒳", "\U0001F600", "\n\n", " \n ", "<!-- x -->", "?>"}

func (g *gen) vcardText() string {
	var sb strings.Builder
	n := 1 + g.r.Intn(7)
	for i := 0; i < n; i++ {
		a := g.pick(vcardTextAtoms)
		if strings.Contains(a, "\r") {
			g.feat("vcard:lone-CR")
		}
		switch {
		case strings.ContainsAny(a, ",\\\n"):
			g.feat("vcard:escaped-text")
		case a[0] > 0x7e:
			g.feat("vcard:non-ascii")
		case strings.ContainsAny(a, "&<>"):
			g.feat("vcard:xml-meta")
		}
		sb.WriteString(a)
	}
	if g.chance(8) {
		k := 80 + g.r.Intn(400)
		if g.chance(6) {
			k = 4000 + g.r.Intn(3000)
			g.feat("vcard:line>4096")
		}
		sb.WriteString(strings.Repeat("xyzé ", k/5))
		g.feat("vcard:long-line")
	}
	return sb.String()
}

func (g *gen) card() nCard {
	c := nCard{}
	v := g.pick([]string{"3.0", "4.0"})
	g.feat("vcard:v" + v)
	c["VERSION"] = []nField{{Value: v}}
	c["FN"] = []nField{{Value: g.vcardText()}}
	if g.chance(2) {
		c["N"] = []nField{{Value: g.pick([]string{"Doe;John;;;", "Dœ;Jöhn;Q.,R.;Dr.;Jr.,M.D.", ";;;;", "A\\B;C\nD;;;"})}}
		if strings.Contains(c["N"][0].Value, ",") {
			g.feat("vcard:multi-valued")
		}
	}
	if g.chance(2) {
		c["UID"] = []nField{{Value: g.pick([]string{"urn:uuid:4fbe8971-0bc3-424c-9c26-36c3e1eff6b1", "uid, with comma", "é-1"})}}
	}
	n := g.r.Intn(4)
	for i := 0; i < n; i++ {
		f := nField{Value: fmt.Sprintf("+1 555 01%02d", g.r.Intn(100))}
		switch g.r.Intn(4) {
		case 0:
			f.Params = map[string][]string{"TYPE": {"home", "voice"}}
			g.feat("vcard:multi-valued-param")
		case 1:
			f.Params = map[string][]string{"TYPE": {"work"}, "PREF": {"1"}}
		case 2:
			f.Params = map[string][]string{"VALUE": {"uri"}, "TYPE": {"cell"}}
			f.Value = "tel:+33-01-23-45-67"
		}
		c["TEL"] = append(c["TEL"], f)
		if i > 0 {
			g.feat("vcard:repeated-field")
		}
	}
	if g.chance(2) {
		grp := g.pick([]string{"item1", "ITEM2", "g-3"})
		c["EMAIL"] = append(c["EMAIL"], nField{Group: grp, Value: "jöhn.doe@example.org", Params: map[string][]string{"TYPE": {"INTERNET"}}})
		c["X-ABLABEL"] = append(c["X-ABLABEL"], nField{Group: grp, Value: g.vcardText()})
		g.feat("vcard:grouped")
		if g.chance(2) {
			c["EMAIL"] = append(c["EMAIL"], nField{Value: "second@example.org"})
			g.feat("vcard:repeated-field")
		}
	}
	if g.chance(3) {
		c["ADR"] = []nField{{Value: ";;123 Main St, Apt. 4;Any Town;CA;91921-1234;U.S.A.", Params: map[string][]string{"TYPE": {"home"}, "LABEL": {g.pick([]string{"Mr John\nMain St", "plain label", "é"})}}}}
		g.feat("vcard:multi-valued")
	}
	if g.chance(3) {
		c["NOTE"] = []nField{{Value: g.vcardText() + "\n" + g.vcardText()}}
		g.feat("vcard:escaped-text")
	}
	if g.chance(4) {
		c["CATEGORIES"] = []nField{{Value: "WORK,FRIENDS,é"}}
		g.feat("vcard:multi-valued")
	}
	if g.chance(4) {
		b := make([]byte, 100+g.r.Intn(600))
		g.r.Read(b)
		c["PHOTO"] = []nField{{Value: base64.StdEncoding.EncodeToString(b), Params: map[string][]string{"ENCODING": {"b"}, "TYPE": {"JPEG"}}}}
		g.feat("vcard:long-line")
	}
	if g.chance(5) {
		c["X-"+g.pick([]string{"FOO", "SOCIALPROFILE"})] = []nField{{Value: g.vcardText(), Params: map[string][]string{"X-P": {g.pick([]string{"v", "é", "a b", "x=y", "a\rb", "\t", "]]>", "<![CDATA[x", "&amp;", "<", "\u0085", "\u2028", "\ufffd", "𝒳", " lead", "trail "})}}}}
	}
	if g.chance(25) {
		// something the codec is known to change: must be excluded by the
		// pre-filter, never reach the oracle
		c["X-UNSTABLE"] = []nField{{Value: "v", Params: map[string][]string{"X-P": {"a:b;c"}}}}
		g.feat("vcard:codec-unstable")
	}
	return c
}

package c18

import (
	"bytes"
	"fmt"
	"io/ioutil"
	"math/rand"
	"net/http"
	"net/http/httptest"
	"runtime"
	"strings"
	"sync"

	"github.com/emersion/go-webdav"
	"github.com/emersion/go-webdav/caldav"
	"github.com/emersion/go-webdav/carddav"
	"github.com/emersion/go-webdav/verifharness/davx"
	"github.com/emersion/go-webdav/verifharness/doubles"
	"github.com/emersion/go-webdav/verifharness/fw"
	"github.com/emersion/go-webdav/verifharness/xmltree"
)

// Principal schedules. webdav.ServePrincipal is the fourth request handler of
// the library (next to the webdav, caldav and carddav Handler types): a server
// answers the requests for its principal URLs with it and, as servers do, keeps
// ONE options value for all of them. N users ask for N different principal
// URLs (disjoint resources) at once; every answer must equal the answer the
// same request gets from an identical server that has served nothing else -
// neither before nor next to it. The options value is a workload dimension
// (every field empty or set); all of its shapes are legal.

type principalOpts struct {
	Name string `json:"name"`
	CUP  string `json:"current_user_principal_path"`
	Home bool   `json:"home_sets"`
	Caps bool   `json:"capabilities"`
}

func principalOptVariants() []principalOpts {
	return []principalOpts{
		{Name: "all-empty"},
		{Name: "cup-set", CUP: "/principals/me/"},
		{Name: "home-sets-and-capabilities", Home: true, Caps: true},
		{Name: "all-set", CUP: "/principals/me/", Home: true, Caps: true},
	}
}

// newPrincipalHandler builds a server with an options value of its own.
func newPrincipalHandler(v principalOpts) http.Handler {
	o := &webdav.ServePrincipalOptions{CurrentUserPrincipalPath: v.CUP}
	if v.Home {
		o.HomeSets = []webdav.BackendSuppliedHomeSet{caldav.NewCalendarHomeSet("/home/cal/"), carddav.NewAddressBookHomeSet("/home/contacts/")}
	}
	if v.Caps {
		o.Capabilities = []webdav.Capability{caldav.CapabilityCalendar, carddav.CapabilityAddressBook}
	}
	return http.HandlerFunc(func(w http.ResponseWriter, r *http.Request) { webdav.ServePrincipal(w, r, o) })
}

func principalCatalogue(u int) []rawReq {
	const xct = "application/xml; charset=utf-8"
	p := fmt.Sprintf("/principals/u%d/", u)
	names := [][2]string{{nsD, "resourcetype"}, {nsD, "current-user-principal"}, {nsD, "displayname"}, {nsD, "principal-URL"},
		{nsCal, "calendar-home-set"}, {nsCard, "addressbook-home-set"}, {"urn:x", "unknown"}}
	bodies := []struct{ form, body string }{
		{"allprop", string(xmltree.Render(davx.PropFindTree("allprop", nil), nil))},
		{"propname", string(xmltree.Render(davx.PropFindTree("propname", nil), nil))},
		{"prop", string(xmltree.Render(davx.PropFindTree("prop", names), nil))},
		{"cup-only", string(xmltree.Render(davx.PropFindTree("prop", [][2]string{{nsD, "current-user-principal"}}), nil))},
		{"nobody", ""},
	}
	var l []rawReq
	for _, b := range bodies {
		for _, d := range []string{"0", "1", ""} {
			ct := xct
			if b.body == "" {
				ct = ""
			}
			l = append(l, rawReq{Name: "PROPFIND " + b.form + " principal depth " + d, Method: "PROPFIND", Path: p, Depth: d, CT: ct, Body: b.body})
		}
	}
	l = append(l, rawReq{Name: "OPTIONS principal", Method: "OPTIONS", Path: p},
		rawReq{Name: "GET principal", Method: "GET", Path: p},
		rawReq{Name: "HEAD principal", Method: "HEAD", Path: p},
		rawReq{Name: "PROPFIND malformed principal", Method: "PROPFIND", Path: p, Depth: "0", CT: xct, Body: "<D:propfind xmlns:D=\"DAV:\"><D:prop>"},
		rawReq{Name: "PROPFIND bad-depth principal", Method: "PROPFIND", Path: p, Depth: "2", CT: xct, Body: bodies[0].body})
	return l
}

func sendRaw(hc interface {
	Do(*http.Request) (*http.Response, error)
}, base string, u int, q rawReq) (string, error) {
	var req *http.Request
	var err error
	if q.Body != "" {
		req, err = http.NewRequest(q.Method, base+q.Path, bytes.NewReader([]byte(q.Body)))
	} else {
		req, err = http.NewRequest(q.Method, base+q.Path, nil)
	}
	if err != nil {
		return "", err
	}
	req.Header.Set(doubles.UserHeader, fmt.Sprint(u))
	if q.CT != "" {
		req.Header.Set("Content-Type", q.CT)
	}
	if q.Depth != "" {
		req.Header.Set("Depth", q.Depth)
	}
	resp, err := hc.Do(req)
	if err != nil {
		return "", err
	}
	b, err := ioutil.ReadAll(resp.Body)
	resp.Body.Close()
	if err != nil {
		return "", err
	}
	return rawSig(resp.StatusCode, resp.Header, b), nil
}

func runPrincipalSchedule(c *fw.Ctx, cfg schedCfg, idx int) {
	old := runtime.GOMAXPROCS(cfg.GOMAXPROCS)
	defer runtime.GOMAXPROCS(old)
	variants := principalOptVariants()
	v := variants[(idx+cfg.Rep)%len(variants)]
	c.Observe("schedules", "principal schedules with options "+v.Name, 1)
	type doer interface {
		Do(*http.Request) (*http.Response, error)
	}
	mkClient := func(h http.Handler) (doer, string, func()) {
		if cfg.Transport != "tcp" {
			return &doubles.InProc{Handler: h}, "http://dav.test", func() {}
		}
		srv := httptest.NewServer(h)
		tr := &http.Transport{MaxIdleConnsPerHost: 64}
		return &http.Client{Transport: tr, CheckRedirect: func(*http.Request, []*http.Request) error { return http.ErrUseLastResponse }}, srv.URL,
			func() { tr.CloseIdleConnections(); srv.Close() }
	}
	// solo answers, one request in flight at a time, through the same kind of
	// transport: every request meets a server (an options value) that has
	// served nothing else
	shc, sbase, closeSolo := mkClient(http.HandlerFunc(func(w http.ResponseWriter, r *http.Request) { newPrincipalHandler(v).ServeHTTP(w, r) }))
	cats := make([][]rawReq, cfg.N)
	solo := make([][]string, cfg.N)
	for u := 0; u < cfg.N; u++ {
		cats[u] = principalCatalogue(u)
		for _, q := range cats[u] {
			s, err := sendRaw(shc, sbase, u, q)
			if err != nil {
				closeSolo()
				c.Inconclusive(fmt.Sprintf("C18 principal schedule: solo request failed: %v", err))
				return
			}
			solo[u] = append(solo[u], s)
			if u == 0 {
				c.Observe("raw_solo_status_principal", q.Method+" "+strings.SplitN(s, "|", 2)[0], 1)
			}
		}
	}
	closeSolo()
	// ONE server for the concurrent phase; its first requests are concurrent
	hc, base, closeConc := mkClient(newPrincipalHandler(v))
	defer closeConc()
	ov := newOverlap()
	var mu sync.Mutex
	type rawBad struct {
		mismatch
		Req rawReq `json:"request"`
	}
	var bad []rawBad
	var ioErrs []string
	var wg sync.WaitGroup
	start := make(chan struct{})
	for u := 0; u < cfg.N; u++ {
		wg.Add(1)
		go func(u int, r *rand.Rand) {
			defer wg.Done()
			<-start
			for s := 0; s < cfg.Steps; s++ {
				qi := r.Intn(len(cats[u]))
				q := cats[u][qi]
				kind := q.Method + " " + strings.Fields(q.Name)[1]
				switch r.Intn(4) {
				case 0:
					runtime.Gosched()
				}
				ov.enter(kind, u)
				got, err := sendRaw(hc, base, u, q)
				ov.leave(kind, u)
				mu.Lock()
				if err != nil {
					ioErrs = append(ioErrs, err.Error())
				} else if got != solo[u][qi] {
					bad = append(bad, rawBad{mismatch{u, s, q.Name, solo[u][qi], got}, q})
				}
				mu.Unlock()
			}
		}(u, c.Rand(fmt.Sprintf("principal-%d-%d", idx, cfg.Rep), u))
	}
	c.Journal(cfg)
	close(start)
	wg.Wait()
	c.JournalDone()
	c.Eval(cfg.N * cfg.Steps)
	recordOverlap(c, cfg, ov)
	if len(ioErrs) > 0 {
		c.Inconclusive(fmt.Sprintf("C18 principal schedule: %d exchanges failed as I/O, first: %s", len(ioErrs), ioErrs[0]))
	}
	for _, m := range bad {
		c.Report(fmt.Sprintf("principal|options %s|raw %s|result-differs-from-solo", v.Name, strings.Fields(m.Op)[0]),
			fmt.Sprintf("user %d, %s: the answer of a server shared with other principals differs from the answer the same request gets from an identical server alone", m.Worker, m.Op),
			map[string]interface{}{"cfg": cfg, "options": v, "request": m.Req, "user": m.Worker, "step": m.Step, "alone": m.Want, "concurrent": m.Got})
	}
}

package c18

import (
	"bufio"
	"context"
	"errors"
	"fmt"
	"io"
	"net"
	"net/http"
	"runtime"
	"strings"
	"sync"
	"syscall"
	"time"

	"github.com/emersion/go-webdav"
	"github.com/emersion/go-webdav/internal"
	"github.com/emersion/go-webdav/verifharness/fw"
)

// uploadCase is one cell of the fault matrix.
type uploadCase struct {
	Script string `json:"script"` // what the scripted server does
	Status int    `json:"status"` // status it answers with (0 = never answers)
	ReadK  int    `json:"read_k"` // body bytes it reads before acting (-1 = all)
	After  string `json:"after"`  // after answering: "close" | "drain" | "hold"
	Size   int    `json:"size"`
	Chunk  int    `json:"chunk"`  // caller's write size (0 = single write)
	Caller string `json:"caller"` // "stop-on-error" | "ignore-errors"
	// CancelAfter: the caller cancels the request context once it has written
	// this many bytes (-1 = never; Size = after the last Write, before Close).
	CancelAfter int  `json:"cancel_after"`
	cancelSet   bool // matrix construction only
	// AnswerBody: "" = a short complete body; "cl-short" = Content-Length
	// announces 100000 bytes, 15 are sent; "chunked-open" = one chunk and no
	// last-chunk. Only with 2xx answers and After "hold": the answer (status
	// line and headers) is there, its body never completes.
	AnswerBody string `json:"answer_body,omitempty"`
	// Interim: an interim response the server sends before the final answer
	// ("100" = an unsolicited 100 Continue, "103" = Early Hints). The answer
	// the statement speaks of is the final one.
	Interim string `json:"interim,omitempty"`
}

type event struct {
	Seq  int64
	Who  string
	What string
	Info string
}

type recorder struct {
	mu     sync.Mutex
	seq    int64
	events []event
}

func (r *recorder) add(who, what, info string) int64 {
	r.mu.Lock()
	defer r.mu.Unlock()
	r.seq++
	r.events = append(r.events, event{r.seq, who, what, info})
	return r.seq
}

func (r *recorder) find(who, what string) (event, bool) {
	r.mu.Lock()
	defer r.mu.Unlock()
	for _, e := range r.events {
		if e.Who == who && e.What == what {
			return e, true
		}
	}
	return event{}, false
}

func (r *recorder) dump() []string {
	r.mu.Lock()
	defer r.mu.Unlock()
	var l []string
	for _, e := range r.events {
		l = append(l, fmt.Sprintf("%d %s %s %s", e.Seq, e.Who, e.What, e.Info))
	}
	if len(l) > 40 {
		l = append(l[:20], l[len(l)-20:]...)
	}
	return l
}

// recClient is the recording wrapper at the inner HTTPClient boundary.
type recClient struct {
	inner  *http.Client
	rec    *recorder
	mu     sync.Mutex
	status int
	err    error
	done   bool
}

func (c *recClient) Do(req *http.Request) (*http.Response, error) {
	c.rec.add("inner", "do-call", req.Method)
	resp, err := c.inner.Do(req)
	c.mu.Lock()
	c.done = true
	c.err = err
	if resp != nil {
		c.status = resp.StatusCode
	}
	info := ""
	if err != nil {
		info = "err " + err.Error()
	} else {
		info = fmt.Sprint(resp.StatusCode)
	}
	c.mu.Unlock()
	c.rec.add("inner", "do-return", info)
	return resp, err
}

// scriptedServer plays one script on the first connection it accepts.
type scriptedServer struct {
	ln        net.Listener
	cs        uploadCase
	rec       *recorder
	headersIn chan struct{} // closed when the request head has been read
	finished  chan struct{} // closed when the script has ended
	release   chan struct{} // closed by the test to let "hold" scripts end
}

func newScriptedServer(cs uploadCase, rec *recorder) (*scriptedServer, error) {
	ln, err := net.Listen("tcp", "127.0.0.1:0")
	if err != nil {
		return nil, err
	}
	s := &scriptedServer{ln: ln, cs: cs, rec: rec, headersIn: make(chan struct{}), finished: make(chan struct{}), release: make(chan struct{})}
	go s.serve()
	return s, nil
}

func (s *scriptedServer) serve() {
	defer close(s.finished)
	conn, err := s.ln.Accept()
	if err != nil {
		close(s.headersIn)
		return
	}
	defer conn.Close()
	br := bufio.NewReaderSize(conn, 64*1024)
	// request head
	chunked := false
	clen := int64(-1)
	for {
		line, err := br.ReadString('\n')
		if err != nil {
			close(s.headersIn)
			return
		}
		l := strings.ToLower(strings.TrimSpace(line))
		if strings.HasPrefix(l, "transfer-encoding:") && strings.Contains(l, "chunked") {
			chunked = true
		}
		if strings.HasPrefix(l, "content-length:") {
			fmt.Sscanf(strings.TrimSpace(l[len("content-length:"):]), "%d", &clen)
		}
		if l == "" {
			break
		}
	}
	close(s.headersIn)
	s.rec.add("server", "head-read", fmt.Sprintf("chunked=%v len=%d", chunked, clen))
	answer := func() {
		if s.cs.Status == 0 {
			return
		}
		body := "scripted answer"
		switch s.cs.Interim {
		case "100":
			fmt.Fprintf(conn, "HTTP/1.1 100 Continue\r\n\r\n")
		case "103":
			fmt.Fprintf(conn, "HTTP/1.1 103 Early Hints\r\nLink: </style.css>; rel=preload\r\n\r\n")
		}
		extra := ""
		if s.cs.After == "close" {
			extra += "Connection: close\r\n"
		}
		if s.cs.Status/100 == 3 {
			extra += "Location: /moved-elsewhere\r\n"
		}
		switch s.cs.AnswerBody {
		case "cl-short":
			fmt.Fprintf(conn, "HTTP/1.1 %d %s\r\nContent-Type: text/plain\r\nContent-Length: 100000\r\n\r\n%s", s.cs.Status, http.StatusText(s.cs.Status), body)
		case "chunked-open":
			fmt.Fprintf(conn, "HTTP/1.1 %d %s\r\nContent-Type: text/plain\r\nTransfer-Encoding: chunked\r\n\r\n%x\r\n%s\r\n", s.cs.Status, http.StatusText(s.cs.Status), len(body), body)
		default:
			fmt.Fprintf(conn, "HTTP/1.1 %d %s\r\nContent-Type: text/plain\r\nContent-Length: %d\r\n%s\r\n%s",
				s.cs.Status, http.StatusText(s.cs.Status), len(body), extra, body)
		}
		s.rec.add("server", "answered", fmt.Sprint(s.cs.Status))
	}
	readRaw := func(n int) int {
		got := 0
		buf := make([]byte, 32*1024)
		for got < n {
			m := len(buf)
			if n-got < m {
				m = n - got
			}
			k, err := br.Read(buf[:m])
			got += k
			if err != nil {
				break
			}
		}
		return got
	}
	readAll := func() int {
		total := 0
		if chunked {
			for {
				line, err := br.ReadString('\n')
				if err != nil {
					return total
				}
				var sz int
				fmt.Sscanf(strings.TrimSpace(line), "%x", &sz)
				if sz == 0 {
					br.ReadString('\n')
					return total
				}
				k, err := io.CopyN(io.Discard, br, int64(sz)+2)
				total += int(k)
				if err != nil {
					return total
				}
			}
		}
		if clen > 0 {
			k, _ := io.CopyN(io.Discard, br, clen)
			return int(k)
		}
		return 0
	}
	after := func() {
		switch s.cs.After {
		case "drain":
			io.Copy(io.Discard, br)
		case "hold":
			<-s.release
		}
	}
	switch s.cs.Script {
	case "answer-before-reading":
		answer()
		after()
	case "read-k-then-answer":
		n := readRaw(s.cs.ReadK)
		s.rec.add("server", "read", fmt.Sprint(n))
		answer()
		after()
	case "read-k-then-drop":
		n := readRaw(s.cs.ReadK)
		s.rec.add("server", "read", fmt.Sprint(n))
		if tc, ok := conn.(*net.TCPConn); ok && s.cs.After == "reset" {
			tc.SetLinger(0)
		}
		// deferred Close drops the connection without an answer
	case "stall":
		// read nothing, answer nothing, until released (the caller cancels)
		<-s.release
	case "read-all-then-answer":
		n := readAll()
		s.rec.add("server", "read-all", fmt.Sprint(n))
		answer()
		after()
	}
}

func (s *scriptedServer) close() {
	select {
	case <-s.release:
	default:
		close(s.release)
	}
	s.ln.Close()
}

// libraryGoroutines returns the stacks of goroutines that have a go-webdav
// frame (harness frames do not count as library frames).
func libraryGoroutines() []string {
	buf := make([]byte, 1<<20)
	for {
		n := runtime.Stack(buf, true)
		if n < len(buf) {
			buf = buf[:n]
			break
		}
		buf = make([]byte, 2*len(buf))
	}
	var l []string
	for _, blk := range strings.Split(string(buf), "\n\n") {
		lib := false
		for _, ln := range strings.Split(blk, "\n") {
			if strings.HasPrefix(ln, "github.com/emersion/go-webdav") && !strings.Contains(ln, "verifharness") {
				lib = true
			}
			if strings.HasPrefix(ln, "created by github.com/emersion/go-webdav") && !strings.Contains(ln, "verifharness") {
				lib = true
			}
		}
		if lib {
			l = append(l, blk)
		}
	}
	return l
}

// blockedSignature summarises the library goroutines' states; two equal
// signatures in a row many times over = stable blocked state.
func blockedSignature() string {
	// Quiescence guard: a hang is only counted while NO goroutine of the
	// process (other than this monitor, which is the one "running") is
	// running, runnable or in a system call. On a loaded machine a transport
	// goroutine that is merely waiting for a CPU would otherwise look like a
	// stable state; with this guard only "everybody is blocked and nobody can
	// wake anybody" accumulates observations.
	buf := make([]byte, 1<<20)
	for {
		n := runtime.Stack(buf, true)
		if n < len(buf) {
			buf = buf[:n]
			break
		}
		buf = make([]byte, 2*len(buf))
	}
	running := 0
	for _, blk := range strings.Split(string(buf), "\n\n") {
		hdr := blk
		if i := strings.IndexByte(hdr, '\n'); i >= 0 {
			hdr = hdr[:i]
		}
		i := strings.IndexByte(hdr, '[')
		if i < 0 {
			continue
		}
		st := hdr[i+1:]
		if strings.HasPrefix(st, "running") || strings.HasPrefix(st, "runnable") || strings.HasPrefix(st, "syscall") {
			running++
		}
	}
	if running > 1 {
		return ""
	}
	var sb strings.Builder
	for _, g := range libraryGoroutines() {
		lines := strings.Split(g, "\n")
		if len(lines) > 0 {
			// "goroutine 12 [chan receive]:" -> state; plus the top frames
			sb.WriteString(lines[0])
			for i := 1; i < len(lines) && i < 5; i += 2 {
				sb.WriteString("|" + lines[i])
			}
			sb.WriteString("\n")
		}
	}
	return sb.String()
}

type callerResult struct {
	createErr error
	writeErrs int
	firstWErr string
	written   int
	closeErr  error
	closed    bool
}

// deadlocksSeen counts the deadlock verdicts of this worker process.
var deadlocksSeen int

func execUpload(c *fw.Ctx, cs uploadCase) {
	rec := &recorder{}
	srv, err := newScriptedServer(cs, rec)
	if err != nil {
		c.Inconclusive("listen: " + err.Error())
		return
	}
	defer srv.close()
	tr := &http.Transport{DisableKeepAlives: true}
	if cs.Script == "no-listener" {
		// nobody listens: the inner client's Do fails at once (the dial is
		// refused), without a connection and without reading the body. The
		// refusal is produced in the dialer, so that a port somebody else has
		// taken meanwhile is never contacted.
		srv.ln.Close()
		<-srv.finished
		tr.DialContext = func(ctx context.Context, network, addr string) (net.Conn, error) {
			return nil, &net.OpError{Op: "dial", Net: network, Err: syscall.ECONNREFUSED}
		}
	}
	defer tr.CloseIdleConnections()
	rc := &recClient{inner: &http.Client{Transport: tr}, rec: rec}
	cl, err := webdav.NewClient(rc, "http://"+srv.ln.Addr().String()+"/")
	if err != nil {
		c.Inconclusive(err.Error())
		return
	}
	ctx, cancel := context.WithCancel(context.Background())
	defer cancel()
	if cs.Script == "stall" {
		// cancel once the server holds the request head: gated, not timed
		go func() {
			<-srv.headersIn
			rec.add("test", "cancel", "")
			cancel()
		}()
	}
	var res callerResult
	doneCh := make(chan struct{})
	c.Journal(cs)
	go func() {
		defer close(doneCh)
		rec.add("caller", "create-call", "")
		w, err := cl.Create(ctx, "/upload-target")
		rec.add("caller", "create-return", fw.ErrString(err))
		if err != nil {
			res.createErr = err
			return
		}
		chunk := cs.Chunk
		if chunk <= 0 || chunk > cs.Size {
			chunk = cs.Size
		}
		data := make([]byte, chunk)
		for i := range data {
			data[i] = byte('a' + i%26)
		}
		cancelled := false
		for res.written < cs.Size {
			if cs.CancelAfter >= 0 && res.written >= cs.CancelAfter && !cancelled {
				cancelled = true
				rec.add("caller", "cancel", fmt.Sprint(res.written))
				cancel()
			}
			n := chunk
			if cs.Size-res.written < n {
				n = cs.Size - res.written
			}
			k, err := w.Write(data[:n])
			res.written += k
			if err != nil {
				res.writeErrs++
				if res.firstWErr == "" {
					res.firstWErr = err.Error()
					rec.add("caller", "write-error", err.Error())
				}
				if cs.Caller == "stop-on-error" || res.writeErrs > 3 {
					break
				}
			}
		}
		if cs.CancelAfter >= 0 && !cancelled {
			rec.add("caller", "cancel", fmt.Sprint(res.written))
			cancel()
		}
		rec.add("caller", "close-call", "")
		res.closeErr = w.Close()
		res.closed = true
		rec.add("caller", "close-return", fw.ErrString(res.closeErr))
	}()

	// Wait for the caller. A hang is decided by a stable blocked state of the
	// library goroutines after the server script has ended, not by a
	// deadline; the generous watchdog only yields "inconclusive".
	stable, last := 0, ""
	watchdog := time.After(120 * time.Second)
	tick := time.NewTicker(25 * time.Millisecond)
	defer tick.Stop()
	hung := false
wait:
	for {
		select {
		case <-doneCh:
			break wait
		case <-watchdog:
			c.Inconclusive(fmt.Sprintf("upload watchdog fired for %+v; events %v", cs, rec.dump()))
			srv.close()
			cancel()
			tr.CloseIdleConnections()
			select {
			case <-doneCh:
			case <-time.After(10 * time.Second):
				// the caller stays blocked; it is left behind so that the
				// worker can report instead of hanging with it
			}
			c.JournalDone()
			return
		case <-tick.C:
			scriptOver := false
			select {
			case <-srv.finished:
				scriptOver = true
			default:
			}
			if cs.After == "hold" {
				// the server keeps the connection open on purpose; its script is
				// over, as far as the caller is concerned, once it has answered
				if _, ok := rec.find("server", "answered"); ok {
					scriptOver = true
				}
			}
			if cs.Script == "stall" {
				// the server never finishes by itself; the cancel has been issued once the head was read
				if _, ok := rec.find("test", "cancel"); ok {
					scriptOver = true
				}
			}
			if _, ok := rec.find("caller", "cancel"); ok {
				// Once the caller has cancelled the context the request is
				// over whatever the server does (a request cancelled before
				// it was sent never even reaches the server, whose script
				// then never starts): nothing is left that could wake a
				// blocked Write or Close.
				scriptOver = true
			}
			if !scriptOver {
				stable = 0
				continue
			}
			sig := blockedSignature()
			if sig == last && sig != "" {
				stable++
			} else {
				stable, last = 0, sig
			}
			if stable >= 200 { // 200 consecutive identical observations (~5 s) with nobody left to wake the caller
				hung = true
				break wait
			}
		}
	}
	c.JournalDone()
	c.Eval(1)
	c.Distinct(fmt.Sprintf("%s|%d|k=%s|%s|size=%d|chunk=%d|%s|cancel=%d|%s|%s", cs.Script, cs.Status, kClass(cs), cs.After, cs.Size, cs.Chunk, cs.Caller, cs.CancelAfter, cs.AnswerBody, cs.Interim))
	cellKey := fmt.Sprintf("upload|%s|status=%d|%s", cs.Script, cs.Status, cs.After)
	if cs.AnswerBody != "" {
		cellKey += "|answer-body-" + cs.AnswerBody
	}
	if cs.Interim != "" {
		cellKey += "|after-interim-" + cs.Interim
	}
	wit := func() interface{} {
		return map[string]interface{}{"case": cs, "events": rec.dump(), "written": res.written, "write_errors": res.writeErrs, "first_write_error": res.firstWErr, "close_error": fw.ErrString(res.closeErr)}
	}
	if hung {
		deadlocksSeen++
		c.Report(cellKey+"|deadlock", "Write/Close never returned although the server script has ended: stable blocked state "+last, wit())
		// unblock everything so the worker can go on
		srv.close()
		cancel()
		tr.CloseIdleConnections()
		select {
		case <-doneCh:
		case <-time.After(10 * time.Second):
		}
		return
	}
	if res.createErr != nil {
		c.Observe("upload_outcomes", "create-error", 1)
		return
	}
	// (c) ordering and value of Close
	rc.mu.Lock()
	innerDone, innerStatus, innerErr := rc.done, rc.status, rc.err
	rc.mu.Unlock()
	doRet, ok1 := rec.find("inner", "do-return")
	clRet, ok2 := rec.find("caller", "close-return")
	if !innerDone || !ok1 || !ok2 || clRet.Seq < doRet.Seq {
		c.Report(cellKey+"|close-returned-before-the-request-ended", "Close returned before the inner HTTP client's Do returned", wit())
	} else {
		ok2xx := innerErr == nil && innerStatus/100 == 2
		switch {
		case ok2xx && res.closeErr != nil:
			c.Report(cellKey+"|close-error-although-2xx", fmt.Sprintf("the request was answered %d but Close returned %v", innerStatus, res.closeErr), wit())
		case !ok2xx && res.closeErr == nil:
			c.Report(cellKey+"|close-nil-although-failed", fmt.Sprintf("the request failed (status %d, err %v) but Close returned nil", innerStatus, innerErr), wit())
		case !ok2xx && innerErr == nil:
			var he *internal.HTTPError
			if !errors.As(res.closeErr, &he) || he.Code != innerStatus {
				c.Report(cellKey+"|close-error-lost-the-status", fmt.Sprintf("the request was answered %d but Close returned %v", innerStatus, res.closeErr), wit())
			}
		case !ok2xx && innerErr != nil:
			if !errors.Is(res.closeErr, innerErr) && res.closeErr.Error() != innerErr.Error() {
				c.Report(cellKey+"|close-error-is-not-the-transport-error", fmt.Sprintf("Do failed with %v but Close returned %v", innerErr, res.closeErr), wit())
			}
		}
		outcome := "failed"
		if ok2xx {
			outcome = "2xx"
		}
		c.Observe("upload_outcomes", fmt.Sprintf("%s/%d -> inner %s, close %s", cs.Script, cs.Status, outcome, map[bool]string{true: "nil", false: "error"}[res.closeErr == nil]), 1)
	}
	if res.writeErrs > 0 {
		c.Observe("upload_outcomes", "write-returned-error", 1)
	}
	// no library goroutine outlives Close
	leak := ""
	for i := 0; i < 400; i++ {
		gs := libraryGoroutines()
		if len(gs) == 0 {
			leak = ""
			break
		}
		leak = strings.Join(gs, "\n\n")
		time.Sleep(5 * time.Millisecond)
	}
	c.Observe("goroutine_dumps", "taken-after-close", 1)
	if leak != "" {
		c.Report(cellKey+"|goroutine-outlives-close", "a library goroutine is still alive after Close returned: "+firstLines(leak, 6), wit())
	}
	if c.WantSample() && cs.Size > 0 {
		c.Sample(map[string]interface{}{"case": cs, "events": rec.dump()})
	}
}

func firstLines(s string, n int) string {
	l := strings.Split(s, "\n")
	if len(l) > n {
		l = l[:n]
	}
	return strings.Join(l, " / ")
}

func kClass(cs uploadCase) string {
	switch {
	case cs.ReadK < 0:
		return "all"
	case cs.ReadK == 0:
		return "0"
	case cs.ReadK >= cs.Size:
		return ">=size"
	}
	return "partial"
}

// uploadMatrix enumerates the fault matrix completely.
func uploadMatrix(thorough bool) []uploadCase {
	sizes := []int{0, 10, 1 << 20, 8 << 20}
	var l []uploadCase
	for _, size := range sizes {
		chunks := []int{0, 4096, 65536}
		if size <= 10 {
			chunks = []int{0, 1}
		}
		if !thorough && size >= 1<<20 {
			chunks = []int{0, 65536}
			if size == 1<<20 {
				chunks = []int{4096, 0}
			}
		}
		for _, chunk := range chunks {
			for _, caller := range []string{"stop-on-error", "ignore-errors"} {
				add := func(cs uploadCase) {
					cs.Size, cs.Chunk, cs.Caller = size, chunk, caller
					if cs.CancelAfter == 0 && !cs.cancelSet {
						cs.CancelAfter = -1
					}
					l = append(l, cs)
				}
				// the caller cancels the context at a chosen point of an otherwise healthy upload
				for _, ca := range []int{0, size / 2, size} {
					for _, st := range []int{201, 403} {
						add(uploadCase{Script: "read-all-then-answer", Status: st, ReadK: -1, After: "close", CancelAfter: ca, cancelSet: true})
					}
					add(uploadCase{Script: "answer-before-reading", Status: 201, After: "drain", CancelAfter: ca, cancelSet: true})
					add(uploadCase{Script: "read-k-then-answer", Status: 201, ReadK: size / 2, After: "hold", CancelAfter: ca, cancelSet: true})
				}
				for _, st := range []int{201, 204, 403, 507} {
					for _, after := range []string{"close", "drain", "hold"} {
						add(uploadCase{Script: "answer-before-reading", Status: st, After: after})
					}
					add(uploadCase{Script: "read-all-then-answer", Status: st, ReadK: -1, After: "close"})
				}
				add(uploadCase{Script: "read-all-then-answer", Status: 500, ReadK: -1, After: "drain"})
				// a 2xx answer whose body never completes, the connection staying open
				for _, ab := range []string{"cl-short", "chunked-open"} {
					add(uploadCase{Script: "read-all-then-answer", Status: 201, ReadK: -1, After: "hold", AnswerBody: ab})
					add(uploadCase{Script: "answer-before-reading", Status: 200, After: "hold", AnswerBody: ab})
				}
				// interim responses before the final answer; a redirect the
				// client cannot follow (the body is a stream); nobody listens
				for _, in := range []string{"100", "103"} {
					add(uploadCase{Script: "read-all-then-answer", Status: 201, ReadK: -1, After: "close", Interim: in})
					add(uploadCase{Script: "answer-before-reading", Status: 403, After: "drain", Interim: in})
				}
				add(uploadCase{Script: "read-all-then-answer", Status: 307, ReadK: -1, After: "close"})
				add(uploadCase{Script: "answer-before-reading", Status: 307, After: "drain"})
				add(uploadCase{Script: "no-listener"})
				ks := []int{0}
				if size > 10 {
					ks = []int{0, 1000, size / 2}
				} else if size > 0 {
					ks = []int{0, size / 2}
				}
				for _, k := range ks {
					for _, st := range []int{201, 412} {
						add(uploadCase{Script: "read-k-then-answer", Status: st, ReadK: k, After: "close"})
						if size > 10 {
							add(uploadCase{Script: "read-k-then-answer", Status: st, ReadK: k, After: "hold"})
						}
					}
					add(uploadCase{Script: "read-k-then-drop", ReadK: k, After: "close"})
					add(uploadCase{Script: "read-k-then-drop", ReadK: k, After: "reset"})
				}
				add(uploadCase{Script: "stall"})
			}
		}
	}
	return l
}

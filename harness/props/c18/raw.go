package c18

import (
	"bytes"
	"fmt"
	"io/ioutil"
	"math/rand"
	"net/http"
	"net/http/httptest"
	"runtime"
	"sort"
	"strings"
	"sync"
	"sync/atomic"
	"time"

	"github.com/emersion/go-ical"
	"github.com/emersion/go-vcard"
	"github.com/emersion/go-webdav/caldav"
	"github.com/emersion/go-webdav/carddav"
	"github.com/emersion/go-webdav/verifharness/davx"
	"github.com/emersion/go-webdav/verifharness/doubles"
	"github.com/emersion/go-webdav/verifharness/fw"
	"github.com/emersion/go-webdav/verifharness/xmltree"
)

// Raw multi-user schedules. The client-driven schedules only send what the
// library's own clients send. Here ONE caldav/carddav handler whose backend
// takes the user from the request context serves N users at once with
// hand-written requests of every kind the handlers know: PROPFIND allprop /
// propname / prop (every property name any level knows, plus unknown ones)
// with Depth 0 and 1 at root, principal, home set, collection and object,
// REPORT query and multiget with allprop and prop selections, OPTIONS, GET,
// HEAD. Every user touches only their own resources (disjoint by
// construction), so every answer must equal the answer the same request gets
// when it is the only one in flight (computed first, sequentially). The
// backend double yields / sleeps a few microseconds at the start of every
// operation: a slow backend is legal and widens the interleavings inside the
// handler.

type rawReq struct {
	Name   string `json:"name"`
	Method string `json:"method"`
	Path   string `json:"path"`
	Depth  string `json:"depth,omitempty"`
	CT     string `json:"ct,omitempty"`
	Body   string `json:"body,omitempty"`
}

const (
	nsD    = "DAV:"
	nsCal  = "urn:ietf:params:xml:ns:caldav"
	nsCard = "urn:ietf:params:xml:ns:carddav"
)

func allNames(server string) [][2]string {
	l := [][2]string{{nsD, "resourcetype"}, {nsD, "displayname"}, {nsD, "getetag"}, {nsD, "getlastmodified"}, {nsD, "getcontentlength"}, {nsD, "getcontenttype"},
		{nsD, "current-user-principal"}, {nsD, "owner"}, {nsD, "principal-URL"}, {"urn:x", "unknown"}}
	if server == "caldav" {
		l = append(l, [2]string{nsCal, "calendar-home-set"}, [2]string{nsCal, "calendar-description"}, [2]string{nsCal, "supported-calendar-component-set"},
			[2]string{nsCal, "max-resource-size"}, [2]string{nsCal, "calendar-data"})
	} else {
		l = append(l, [2]string{nsCard, "addressbook-home-set"}, [2]string{nsCard, "addressbook-description"}, [2]string{nsCard, "supported-address-data"},
			[2]string{nsCard, "max-resource-size"}, [2]string{nsCard, "address-data"})
	}
	return l
}

// rawCatalogue lists the requests of user u (all addressed to u's resources).
func rawCatalogue(server string, u int) []rawReq {
	const xct = "application/xml; charset=utf-8"
	home, ext := "cal", "ics"
	if server == "carddav" {
		home, ext = "contacts", "vcf"
	}
	princ := fmt.Sprintf("/u%d/", u)
	hs := fmt.Sprintf("/u%d/%s/", u, home)
	coll := hs + "c0/"
	coll1 := hs + "c1/"
	obj := coll + "o0." + ext
	obj1 := coll + "o1." + ext
	var l []rawReq
	levels := []struct{ name, path string }{{"root", "/"}, {"principal", princ}, {"home-set", hs}, {"collection", coll}, {"collection1", coll1}, {"object", obj}}
	bodies := []struct{ form, body string }{
		{"allprop", string(xmltree.Render(davx.PropFindTree("allprop", nil), nil))},
		{"propname", string(xmltree.Render(davx.PropFindTree("propname", nil), nil))},
		{"prop", string(xmltree.Render(davx.PropFindTree("prop", allNames(server)), nil))},
		{"cup-only", string(xmltree.Render(davx.PropFindTree("prop", [][2]string{{nsD, "current-user-principal"}}), nil))},
		{"nobody", ""},
	}
	for _, lv := range levels {
		for _, b := range bodies {
			for _, d := range []string{"0", "1"} {
				ct := xct
				if b.body == "" {
					ct = ""
				}
				l = append(l, rawReq{Name: "PROPFIND " + b.form + " " + lv.name + " depth " + d, Method: "PROPFIND", Path: lv.path, Depth: d, CT: ct, Body: b.body})
			}
		}
	}
	sel := func(form string) string {
		switch form {
		case "allprop":
			return `<D:allprop/>`
		case "propname":
			return `<D:propname/>`
		}
		data := `<C:calendar-data/>`
		if server == "carddav" {
			data = `<C:address-data/>`
		}
		return `<D:prop><D:getetag/><D:current-user-principal/><D:resourcetype/><D:getlastmodified/>` + data + `</D:prop>`
	}
	for _, form := range []string{"allprop", "propname", "prop"} {
		if server == "caldav" {
			l = append(l,
				rawReq{Name: "REPORT query " + form, Method: "REPORT", Path: coll, Depth: "1", CT: xct,
					Body: `<C:calendar-query xmlns:D="DAV:" xmlns:C="` + nsCal + `">` + sel(form) + `<C:filter><C:comp-filter name="VCALENDAR"/></C:filter></C:calendar-query>`},
				rawReq{Name: "REPORT multiget " + form, Method: "REPORT", Path: coll, Depth: "1", CT: xct,
					Body: `<C:calendar-multiget xmlns:D="DAV:" xmlns:C="` + nsCal + `">` + sel(form) + `<D:href>` + obj + `</D:href><D:href>` + obj1 + `</D:href><D:href>` + coll + `missing.ics</D:href></C:calendar-multiget>`})
		} else {
			l = append(l,
				rawReq{Name: "REPORT query " + form, Method: "REPORT", Path: coll, Depth: "1", CT: xct,
					Body: `<C:addressbook-query xmlns:D="DAV:" xmlns:C="` + nsCard + `">` + sel(form) + `<C:filter/></C:addressbook-query>`},
				rawReq{Name: "REPORT multiget " + form, Method: "REPORT", Path: coll, Depth: "1", CT: xct,
					Body: `<C:addressbook-multiget xmlns:D="DAV:" xmlns:C="` + nsCard + `">` + sel(form) + `<D:href>` + obj + `</D:href><D:href>` + obj1 + `</D:href><D:href>` + coll + `missing.vcf</D:href></C:addressbook-multiget>`})
		}
	}
	for _, p := range []struct{ name, path string }{{"object", obj}, {"collection", coll}, {"missing", coll + "missing." + ext}, {"root", "/"}} {
		l = append(l, rawReq{Name: "OPTIONS " + p.name, Method: "OPTIONS", Path: p.path},
			rawReq{Name: "GET " + p.name, Method: "GET", Path: p.path}, rawReq{Name: "HEAD " + p.name, Method: "HEAD", Path: p.path})
	}
	// mutating requests on the user's own resources (the backend double
	// records them and keeps its layout, so the answers stay comparable); the
	// recorded calls are the effect, see rawEffects
	putBody, putCT := fmt.Sprintf("BEGIN:VCALENDAR\r\nVERSION:2.0\r\nPRODID:-//verif//EN\r\nBEGIN:VEVENT\r\nUID:put-u%d\r\nDTSTAMP:20200913T122640Z\r\nDTSTART:20200913T132640Z\r\nSUMMARY:put of user %d\r\nEND:VEVENT\r\nEND:VCALENDAR\r\n", u, u), "text/calendar; charset=utf-8"
	if server == "carddav" {
		putBody, putCT = fmt.Sprintf("BEGIN:VCARD\r\nVERSION:3.0\r\nUID:put-u%d\r\nFN:put of user %d\r\nEND:VCARD\r\n", u, u), "text/vcard; charset=utf-8"
	}
	l = append(l,
		rawReq{Name: "PUT new object", Method: "PUT", Path: coll + "put." + ext, CT: putCT, Body: putBody},
		rawReq{Name: "PUT other-collection object", Method: "PUT", Path: coll1 + "put." + ext, CT: putCT, Body: putBody},
		rawReq{Name: "DELETE object", Method: "DELETE", Path: obj1},
		rawReq{Name: "PROPPATCH collection", Method: "PROPPATCH", Path: coll, CT: xct,
			Body: `<D:propertyupdate xmlns:D="DAV:"><D:set><D:prop><D:displayname>renamed</D:displayname></D:prop></D:set></D:propertyupdate>`})
	// requests that are refused: the error paths of the handler run next to
	// the good requests of the other users (and must not disturb them), and
	// are themselves answered as they are alone
	report := `<C:calendar-query xmlns:D="DAV:" xmlns:C="` + nsCal + `"><D:prop><D:getetag/></D:prop><C:filter>`
	if server == "carddav" {
		report = `<C:addressbook-query xmlns:D="DAV:" xmlns:C="` + nsCard + `"><D:prop><D:getetag/>`
	}
	l = append(l,
		rawReq{Name: "PROPFIND cut-off collection", Method: "PROPFIND", Path: coll, Depth: "1", CT: xct, Body: `<D:propfind xmlns:D="DAV:"><D:prop><D:getetag/>`},
		rawReq{Name: "PROPFIND not-xml object", Method: "PROPFIND", Path: obj, Depth: "0", CT: "text/plain", Body: "no XML at all"},
		rawReq{Name: "PROPFIND bad-depth home-set", Method: "PROPFIND", Path: hs, Depth: "2", CT: xct, Body: bodies[0].body},
		rawReq{Name: "PROPFIND allprop missing", Method: "PROPFIND", Path: coll + "missing." + ext, Depth: "0", CT: xct, Body: bodies[0].body},
		rawReq{Name: "REPORT cut-off collection", Method: "REPORT", Path: coll, Depth: "1", CT: xct, Body: report},
		rawReq{Name: "REPORT unknown collection", Method: "REPORT", Path: coll, Depth: "1", CT: xct, Body: `<D:version-tree xmlns:D="DAV:"/>`},
		rawReq{Name: "LOCK object", Method: "LOCK", Path: obj},
		rawReq{Name: "DELETE missing", Method: "DELETE", Path: coll + "missing." + ext})
	return l
}

// rawBackends returns the handler and a function that reads the backends'
// call logs: every user's requests address that user's resources only, so a
// call that reaches user u's backend with a path outside /u<u>/, or an upload
// that carries another user's object, is an effect no request has alone.
func rawBackends(server string, n int, delay func()) (http.Handler, func() []string) {
	foreign := func(u int, op, p, uid string) string {
		if p != "" && p != "/" && !strings.HasPrefix(p, fmt.Sprintf("/u%d/", u)) {
			return fmt.Sprintf("the backend of user %d was asked for %s %s", u, op, p)
		}
		if uid != "" && uid != fmt.Sprintf("put-u%d", u) {
			return fmt.Sprintf("the backend of user %d was given the object %s in %s %s", u, uid, op, p)
		}
		return ""
	}
	if server == "caldav" {
		m := &doubles.MultiCal{Users: map[string]*doubles.CalBackend{}, Delay: delay}
		for u := 0; u < n; u++ {
			b := &doubles.CalBackend{Principal: fmt.Sprintf("/u%d/", u), HomeSet: fmt.Sprintf("/u%d/cal/", u)}
			for ci := 0; ci < 2; ci++ {
				cp := fmt.Sprintf("/u%d/cal/c%d/", u, ci)
				b.Calendars = append(b.Calendars, caldav.Calendar{Path: cp, Name: fmt.Sprintf("calendar %d of user %d", ci, u), Description: fmt.Sprintf("d%d-%d", u, ci),
					MaxResourceSize: int64(1000 + u), SupportedComponentSet: []string{"VEVENT", "VTODO"}})
				for k := 0; k < 3; k++ {
					b.Objects = append(b.Objects, caldav.CalendarObject{Path: fmt.Sprintf("%so%d.ics", cp, k), ETag: fmt.Sprintf("e%d-%d-%d", u, ci, k),
						ModTime: time.Unix(1600000000+int64(u*100+ci*10+k), 0).UTC(), Data: calObject(fmt.Sprintf("uid-%d-%d-%d", u, ci, k))})
				}
			}
			m.Users[fmt.Sprint(u)] = b
		}
		return doubles.WithUser(&caldav.Handler{Backend: m}), func() []string {
			var odd []string
			for u := 0; u < n; u++ {
				for _, call := range m.Users[fmt.Sprint(u)].Calls() {
					uid := ""
					if cal, ok := call.Arg.(*ical.Calendar); ok && call.Op == "PutCalendarObject" && cal != nil && len(cal.Children) > 0 {
						uid, _ = cal.Children[0].Props.Text(ical.PropUID)
					}
					if s := foreign(u, call.Op, call.Path, uid); s != "" {
						odd = append(odd, s)
					}
				}
			}
			return odd
		}
	}
	m := &doubles.MultiCard{Users: map[string]*doubles.CardBackend{}, Delay: delay}
	for u := 0; u < n; u++ {
		b := &doubles.CardBackend{Principal: fmt.Sprintf("/u%d/", u), HomeSet: fmt.Sprintf("/u%d/contacts/", u)}
		for ci := 0; ci < 2; ci++ {
			cp := fmt.Sprintf("/u%d/contacts/c%d/", u, ci)
			b.Books = append(b.Books, carddav.AddressBook{Path: cp, Name: fmt.Sprintf("book %d of user %d", ci, u), Description: fmt.Sprintf("d%d-%d", u, ci), MaxResourceSize: int64(1000 + u)})
			for k := 0; k < 3; k++ {
				b.Objects = append(b.Objects, carddav.AddressObject{Path: fmt.Sprintf("%so%d.vcf", cp, k), ETag: fmt.Sprintf("e%d-%d-%d", u, ci, k),
					ModTime: time.Unix(1600000000+int64(u*100+ci*10+k), 0).UTC(), Card: card(fmt.Sprintf("uid-%d-%d-%d", u, ci, k))})
			}
		}
		m.Users[fmt.Sprint(u)] = b
	}
	return doubles.WithUser(&carddav.Handler{Backend: m}), func() []string {
		var odd []string
		for u := 0; u < n; u++ {
			for _, call := range m.Users[fmt.Sprint(u)].Calls() {
				uid := ""
				if cd, ok := call.Arg.(vcard.Card); ok && call.Op == "PutAddressObject" {
					uid = cd.Value(vcard.FieldUID)
				}
				if s := foreign(u, call.Op, call.Path, uid); s != "" {
					odd = append(odd, s)
				}
			}
		}
		return odd
	}
}

// rawSig canonicalises an answer: status, the headers that describe the
// resource, and the body — a multi-status independent of the order of
// responses, propstats and properties (the servers iterate maps).
func rawSig(status int, hdr http.Header, body []byte) string {
	h := fmt.Sprintf("%d|etag=%s|lm=%s|allow=%s|dav=%s|ct=%s", status, hdr.Get("ETag"), hdr.Get("Last-Modified"), sortedList(hdr.Get("Allow")), sortedList(hdr.Get("DAV")), hdr.Get("Content-Type"))
	if status != 207 {
		return h + "|" + string(body)
	}
	ms, err := davx.ReadMultiStatus(body)
	if err != nil {
		return h + "|unreadable multistatus: " + string(body)
	}
	var rs []string
	for _, r := range ms.Responses {
		var ps []string
		for _, st := range r.PropStats {
			for _, p := range st.Props {
				ps = append(ps, fmt.Sprintf("%d %s", st.Status.Code, p.Canon(xmltree.CmpOpts{})))
			}
		}
		sort.Strings(ps)
		code := 0
		if r.Status != nil {
			code = r.Status.Code
		}
		rs = append(rs, fmt.Sprintf("%q %d [%s]", r.Paths, code, strings.Join(ps, "; ")))
	}
	sort.Strings(rs)
	return h + "|" + strings.Join(rs, "\n")
}

func sortedList(v string) string {
	l := strings.Split(v, ",")
	for i := range l {
		l[i] = strings.TrimSpace(l[i])
	}
	sort.Strings(l)
	return strings.Join(l, ",")
}

func runRawSchedule(c *fw.Ctx, cfg schedCfg, idx int) {
	old := runtime.GOMAXPROCS(cfg.GOMAXPROCS)
	defer runtime.GOMAXPROCS(old)
	server := strings.TrimPrefix(cfg.Server, "raw-")
	// a slow backend: yield always, sleep now and then (monitor state under its own lock)
	var dmu sync.Mutex
	dr := c.Rand(fmt.Sprintf("raw-delay-%d-%d", idx, cfg.Rep), 0)
	var delaying atomic.Bool
	delay := func() {
		if !delaying.Load() {
			return
		}
		dmu.Lock()
		k, d := dr.Intn(8), dr.Intn(6)
		dmu.Unlock()
		runtime.Gosched()
		if k == 0 {
			time.Sleep(time.Duration(20+d*40) * time.Microsecond)
		}
	}
	// Two identical handlers: the solo answers come from the first; the
	// second meets its very first requests concurrently (lazily built state).
	type doer interface {
		Do(*http.Request) (*http.Response, error)
	}
	mkClient := func() (doer, string, func(), func() []string) {
		h, effects := rawBackends(server, cfg.N, delay)
		if cfg.Transport != "tcp" {
			return &doubles.InProc{Handler: h}, "http://dav.test", func() {}, effects
		}
		srv := httptest.NewServer(h)
		tr := &http.Transport{MaxIdleConnsPerHost: 64}
		return &http.Client{Transport: tr, CheckRedirect: func(*http.Request, []*http.Request) error { return http.ErrUseLastResponse }}, srv.URL,
			func() { tr.CloseIdleConnections(); srv.Close() }, effects
	}
	hc, base, closeSolo, effects := mkClient()
	defer closeSolo()
	send := func(u int, q rawReq) (string, error) {
		var body *bytes.Reader
		req, err := http.NewRequest(q.Method, base+q.Path, nil)
		if q.Body != "" {
			body = bytes.NewReader([]byte(q.Body))
			req, err = http.NewRequest(q.Method, base+q.Path, body)
		}
		if err != nil {
			return "", err
		}
		req.Header.Set(doubles.UserHeader, fmt.Sprint(u))
		if q.CT != "" {
			req.Header.Set("Content-Type", q.CT)
		}
		if q.Depth != "" {
			req.Header.Set("Depth", q.Depth)
		}
		resp, err := hc.Do(req)
		if err != nil {
			return "", err
		}
		b, err := ioutil.ReadAll(resp.Body)
		resp.Body.Close()
		if err != nil {
			return "", err
		}
		return rawSig(resp.StatusCode, resp.Header, b), nil
	}
	// solo answers, one request in flight at a time
	cats := make([][]rawReq, cfg.N)
	solo := make([][]string, cfg.N)
	for u := 0; u < cfg.N; u++ {
		cats[u] = rawCatalogue(server, u)
		for _, q := range cats[u] {
			s, err := send(u, q)
			if err != nil {
				c.Inconclusive(fmt.Sprintf("C18 raw schedule: solo request failed: %v", err))
				return
			}
			solo[u] = append(solo[u], s)
			c.Observe("raw_solo_status_"+server, q.Method+" "+strings.SplitN(s, "|", 2)[0], 1)
		}
	}
	if odd := effects(); len(odd) > 0 {
		// the same invariant holds for the sequential phase; there it is not
		// a matter of concurrency
		c.Inconclusive(fmt.Sprintf("C18 raw schedule: foreign backend calls while requests ran one at a time: %v", odd[0]))
		return
	}
	delaying.Store(true)
	if (cfg.Rep+cfg.N+cfg.GOMAXPROCS)%2 == 1 {
		var closeConc func()
		hc, base, closeConc, effects = mkClient() // send uses these from now on
		defer closeConc()
	}
	ov := newOverlap()
	var mu sync.Mutex
	type rawBad struct {
		mismatch
		Req rawReq `json:"request"`
	}
	var bad []rawBad
	var ioErrs []string
	var wg sync.WaitGroup
	start := make(chan struct{})
	for u := 0; u < cfg.N; u++ {
		wg.Add(1)
		go func(u int, r *rand.Rand) {
			defer wg.Done()
			<-start
			for s := 0; s < cfg.Steps; s++ {
				qi := r.Intn(len(cats[u]))
				q := cats[u][qi]
				kind := q.Method + " " + strings.Fields(q.Name)[1]
				ov.enter(kind, u)
				got, err := send(u, q)
				ov.leave(kind, u)
				mu.Lock()
				if err != nil {
					ioErrs = append(ioErrs, err.Error())
				} else if got != solo[u][qi] {
					bad = append(bad, rawBad{mismatch{u, s, q.Name, solo[u][qi], got}, q})
				}
				mu.Unlock()
			}
		}(u, c.Rand(fmt.Sprintf("raw-%s-%d-%d", server, idx, cfg.Rep), u))
	}
	c.Journal(cfg)
	close(start)
	wg.Wait()
	c.JournalDone()
	c.Eval(cfg.N * cfg.Steps)
	recordOverlap(c, cfg, ov)
	if len(ioErrs) > 0 {
		c.Inconclusive(fmt.Sprintf("C18 raw schedule: %d exchanges failed as I/O, first: %s", len(ioErrs), ioErrs[0]))
	}
	c.Observe("raw_effects", server+": call logs of all users read after the concurrent phase", 1)
	if odd := effects(); len(odd) > 0 {
		sort.Strings(odd)
		if len(odd) > 8 {
			odd = odd[:8]
		}
		c.Report(fmt.Sprintf("%s|%s|raw|backend-call-for-another-users-resource", server, cfg.Transport),
			fmt.Sprintf("requests that address their own user's resources only reached a backend with foreign paths or objects: %v", odd),
			map[string]interface{}{"cfg": cfg, "odd": odd})
	}
	for _, m := range bad {
		c.Report(fmt.Sprintf("%s|%s|raw %s|result-differs-from-solo", server, cfg.Transport, strings.Join(strings.Fields(m.Op)[:2], " ")),
			fmt.Sprintf("user %d, %s: the answer differs from the answer the same request gets alone", m.Worker, m.Op),
			map[string]interface{}{"cfg": cfg, "request": m.Req, "user": m.Worker, "step": m.Step, "alone": m.Want, "concurrent": m.Got})
	}
}

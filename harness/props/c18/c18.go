package c18

import (
	"encoding/json"
	"fmt"
	"io/ioutil"
	"path/filepath"
	"regexp"
	"runtime/debug"
	"sort"
	"strings"
	"syscall"

	"github.com/emersion/go-webdav/verifharness/fw"
)

func raceEnabled() bool {
	bi, ok := debug.ReadBuildInfo()
	if !ok {
		return false
	}
	for _, s := range bi.Settings {
		if s.Key == "-race" && s.Value == "true" {
			return true
		}
	}
	return false
}

var lineNo = regexp.MustCompile(`:\d+( \+0x[0-9a-f]+)?$`)

// readRaceLogs parses the race detector's log files of this worker.
func readRaceLogs(c *fw.Ctx) {
	files, _ := filepath.Glob(filepath.Join(c.WorkDir, "race.*"))
	blocks := 0
	for _, f := range files {
		b, err := ioutil.ReadFile(f)
		if err != nil {
			continue
		}
		for _, blk := range strings.Split(string(b), "==================") {
			if !strings.Contains(blk, "WARNING: DATA RACE") {
				continue
			}
			blocks++
			var funcs []string
			lib := false
			for _, ln := range strings.Split(blk, "\n") {
				t := strings.TrimSpace(ln)
				if !strings.HasSuffix(t, ")") || !strings.Contains(t, "(") || strings.HasPrefix(t, "/") {
					continue
				}
				fn := t[:strings.LastIndex(t, "(")]
				if strings.Contains(fn, "github.com/emersion/") && !strings.Contains(fn, "verifharness") {
					lib = true
					funcs = append(funcs, fn)
				}
			}
			if !lib {
				c.Inconclusive("race report with harness-only stacks (harness bug): " + firstLines(strings.TrimSpace(blk), 12))
				continue
			}
			// de-duplicate by the set of library functions on the stacks
			sort.Strings(funcs)
			uniq := funcs[:0]
			for i, f := range funcs {
				if i == 0 || f != funcs[i-1] {
					uniq = append(uniq, f)
				}
			}
			if len(uniq) > 4 {
				uniq = uniq[:4]
			}
			c.Report("race|"+strings.Join(uniq, "|"), "the race detector reported a data race involving library code",
				map[string]interface{}{"report": strings.TrimSpace(blk)})
		}
	}
	c.Observe("race_detector", "report-blocks", blocks)
	c.Observe("race_detector", "log-files", len(files))
}

func run(c *fw.Ctx) {
	if !raceEnabled() {
		c.Inconclusive("the worker binary was not built with -race (VHARNESS_RACE_BIN not set?)")
	} else {
		c.Observe("race_detector", "active-workers", 1)
	}
	// A mask of 0 would hide a request that meddles with the process umask.
	if readUmask() == 0 {
		syscall.Umask(022)
	}
	c.Observe("process_umask", fmt.Sprintf("%04o", readUmask()), 1)
	// schedules
	reps := c.Pick(2, 12)
	var cfgs []schedCfg
	for rep := 0; rep < reps; rep++ {
		for _, server := range []string{"webdav", "caldav", "carddav", "raw-caldav", "raw-carddav", "principal"} {
			for _, n := range []int{2, 4, 16, 64} {
				for _, p := range []int{1, 2, 4, 16} {
					if !c.Thorough() && (n == 64 && p != 4) {
						continue
					}
					if server == "principal" && rep >= c.Pick(1, 3) {
						continue // one round of principal schedules in the quick tier, three in the thorough one
					}
					steps := 20
					if n <= 4 && c.Thorough() {
						steps = 200
					} else if n <= 4 {
						steps = 60
					}
					tr := "inproc"
					if (n+p+rep)%2 == 1 {
						tr = "tcp"
					}
					cfgs = append(cfgs, schedCfg{Server: server, Transport: tr, N: n, Steps: steps, GOMAXPROCS: p, Rep: rep})
				}
			}
		}
	}
	for i, cfg := range cfgs {
		if !c.Mine(i) {
			continue
		}
		switch cfg.Server {
		case "webdav":
			runDavSchedule(c, cfg, i)
		case "caldav":
			runCalSchedule(c, cfg, i)
		case "carddav":
			runCardSchedule(c, cfg, i)
		case "raw-caldav", "raw-carddav":
			runRawSchedule(c, cfg, i)
		case "principal":
			runPrincipalSchedule(c, cfg, i)
		}
	}
	// calls while an upload is open
	runCompanions(c)
	// many uploads open at once, finished in an order of the caller's own
	runManyOpen(c)
	// a refused request, then requests to unrelated resources on the same client
	runSequels(c)
	// upload fault matrix (exhaustive)
	for i, cs := range uploadMatrix(c.Thorough()) {
		if !c.Mine(i) {
			continue
		}
		if deadlocksSeen >= 4 {
			// every deadlock costs ~15 s (5 s of stable observations, 10 s
			// waiting for the abandoned caller); the verdict is in
			c.Observe("fault_matrix", "cells-skipped-after-4-deadlocks-in-this-worker", 1)
			continue
		}
		execUpload(c, cs)
		c.Observe("fault_matrix", "cells-executed", 1)
	}
	c.Note("fault_matrix_exhaustive", fmt.Sprintf("true: %d cells (script x status x after-behaviour x size x chunking x caller behaviour)", len(uploadMatrix(c.Thorough()))))
	readRaceLogs(c)
}

func init() {
	fw.Register(&fw.Property{
		ID:    "C18",
		Level: "fault_enumeration",
		Run:   run,
		Race:  true,
		Replay: func(c *fw.Ctx, w json.RawMessage) {
			var wit struct {
				Case *uploadCase `json:"case"`
			}
			var cw struct {
				Case *companionCase `json:"case"`
			}
			var mw struct {
				Case *manyOpenCase `json:"case"`
			}
			var sw struct {
				Case *sequelCase `json:"case"`
			}
			if json.Unmarshal(w, &cw) == nil && cw.Case != nil && cw.Case.Companion != "" {
				execCompanion(c, *cw.Case, 0)
			} else if json.Unmarshal(w, &mw) == nil && mw.Case != nil && mw.Case.K > 0 {
				execManyOpen(c, *mw.Case, 0)
			} else if json.Unmarshal(w, &sw) == nil && sw.Case != nil && sw.Case.Failing != "" {
				execSequel(c, *sw.Case, 0)
			} else if json.Unmarshal(w, &wit) == nil && wit.Case != nil {
				execUpload(c, *wit.Case)
			} else {
				fmt.Println("schedule witnesses are not replayable deterministically; witness:", string(w))
			}
		},
		Rule: "schedules: N in {2,4,16,64} goroutines x mixed operations on private subtrees through ONE handler and ONE client (webdav on disk, caldav and carddav on recording backends; in-process and over TCP), GOMAXPROCS in {1,2,4,16}, driver-side jitter, repeated; the webdav workers build two-level trees and copy / move / delete populated collections (also Depth 0); raw schedules send hand-written requests of every kind, refused and mutating ones included (the backends' call logs must only show each user's own paths and objects); every result is compared with the private solo model of that worker and the final directory with the union of the workers' trees; the worker binary is built with -race and the race log is read back. " +
			"fault matrix (exhaustive): scripted raw-TCP server {answers before reading, reads k bytes then answers / drops / resets, stalls until the caller cancels, reads all then answers, nobody listens (the dial is refused)} x status (2xx, 307, 4xx, 5xx; optionally after an interim 100 / 103) x {close, drain, hold} x size {0, 10 B, 1 MiB, 8 MiB} x write chunking x caller behaviour x caller-side cancellation point {never, at 0, half-way, after the last Write}; call/return events at the caller and at the inner HTTP client boundary stamped from one counter. " +
			"calls while an upload is open (exhaustive): client built on {*http.Client, a wrapping type, HTTPClientWithBasicAuth, in-process double} x {Stat, ReadDir, Open, Mkdir, a second complete upload} x {right after Create, between two Writes} x {from the goroutine holding the writer, from another one} against the real handler on a directory; every call must return with its solo result, both uploads stored byte for byte. " +
			"principal schedules: N users ask one server built on ServePrincipal with ONE options value (fields empty / set) for N different principal URLs at once, every answer compared with the answer of an identical server that has served nothing else. " +
			"uploads open at once (exhaustive): K in {3, 20, 100} (thorough {2, 8, 20, 65, 200}) streamed uploads to K different files held open by one caller and finished last-opened-first / first-opened-first / shuffled, by one goroutine or one each, optionally with every seventh upload refused (409), over TCP (with and without waiting for the handler to have started on each) and in process, against the real handler on a directory: every Close returns nil, every file is stored byte for byte. " +
			"sequels (exhaustive in quick but for the status): one call of a client {upload read / not read by the server, Mkdir, Stat, ReadDir, Open, RemoveAll, Copy, Move} is refused by a front end with 403 / 507, 10 Content-Types x {no, short, 4 KiB, DAV:error} body, then the same client uploads to, stats and reads an unrelated resource; the inner *http.Client bounds its connections per host (1; 1 behind HTTPClientWithBasicAuth; thorough also 2 after two refusals). " +
			"distinct_nontrivial = distinct interleaving signatures (global call/return order per run) + distinct fault-matrix cells.",
		Assumptions: []string{
			"the reference for Close is what the inner HTTPClient returned, not what the server sent (net/http may legitimately report a write error or the early response)",
			"a deadlock is a stable blocked state of the library goroutines after the server script has ended (200 identical consecutive observations); the 120 s watchdog only ever yields inconclusive",
			"transport keep-alive goroutines are not library goroutines; double Close is outside the statement",
			"between Create and Close the client may be used for other calls, also by the goroutine that holds the writer: with a live handler behind it, a stable state in which no goroutine runs (200 identical consecutive observations) is a deadlock",
			"a 2xx status line with its header block is 'the server has answered': the library has no use for the body of a 2xx answer to a PUT, so a body that never completes (short of its Content-Length, no last-chunk) on a connection the server keeps open must not keep Close from returning nil; for non-2xx answers, whose body the client reads for the error condition, no such cell exists",
			"once the caller has cancelled the context the request is over whatever the server does: a Write or Close that stays blocked after that is a deadlock",
			"the raw multi-user schedules compare every answer with the answer of an identical but separate handler instance serving one request at a time; the backend double may yield or sleep a few microseconds at the start of an operation (a slow backend)",
			"ServePrincipal with one options value kept for all requests is a 'single server handler'; every shape of the options value (any field empty) is legal",
			"uploads to different files held open at the same time by one caller are 'concurrent requests that touch disjoint resources': each terminates with its solo result when it is closed, in whatever order the caller closes them",
			"http.Transport.MaxConnsPerHost is a legal configuration of the inner HTTP client; a non-2xx answer of any media type, with or without a body, is a legal answer. What a refused call other than an upload returns is not judged here (C14)",
			"race reports whose stacks hold only harness frames are harness bugs: inconclusive, never a violation",
		},
		Shards:      func(t string) int { return 8 },
		MinEvals:    func(t string) int64 { return 2000 },
		MinDistinct: func(t string) int64 { return 100 },
		TimeoutS: func(t string) int {
			if t == "thorough" {
				return 3 * 3600
			}
			return 1500
		},
	})
}

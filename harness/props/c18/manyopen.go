package c18

import (
	"bytes"
	"context"
	"fmt"
	"io"
	"io/ioutil"
	"net/http"
	"net/http/httptest"
	"os"
	"path/filepath"
	"sort"
	"strings"
	"sync"
	"time"

	"github.com/emersion/go-webdav"
	"github.com/emersion/go-webdav/verifharness/doubles"
	"github.com/emersion/go-webdav/verifharness/fw"
)

// awaitOrDeadlock waits until done is closed. Meanwhile it looks at the
// goroutines every 25 ms: 200 identical consecutive observations of a state in
// which no goroutine runs and the library goroutines are blocked in the same
// places are a deadlock (the peers here are live handlers that answer whatever
// arrives, so nobody is left who could wake anybody). The 120 s watchdog only
// ever yields "inconclusive".
func awaitOrDeadlock(done <-chan struct{}) (hung bool, state string, watchdog bool) {
	stable, last := 0, ""
	wd := time.After(120 * time.Second)
	tick := time.NewTicker(25 * time.Millisecond)
	defer tick.Stop()
	for {
		select {
		case <-done:
			return false, "", false
		case <-wd:
			return false, last, true
		case <-tick.C:
			sig := blockedSignature()
			if sig == last && sig != "" {
				stable++
			} else {
				stable, last = 0, sig
			}
			if stable >= 200 {
				return true, last, false
			}
		}
	}
}

// Many uploads open at once. One caller keeps K streamed uploads to K
// different files open at the same time (a tool that spreads a stream over
// several files) and finishes them in an order of its own: the one opened last
// first, the one opened first first, or shuffled. The uploads touch disjoint
// resources, so each of them terminates with its solo result as soon as it is
// closed, whatever the others are doing: nothing in the statement lets one
// upload wait for another. The server is the real handler over a real
// directory.

type manyOpenCase struct {
	K       int    `json:"k"`
	Order   string `json:"order"`   // "lifo" | "fifo" | "shuffled"
	Client  string `json:"client"`  // "tcp-gated" | "tcp" | "inproc"
	First   int    `json:"first"`   // bytes written to each upload before the next one is opened
	Closers string `json:"closers"` // "one-goroutine" | "one-goroutine-each"
	// Refused: every seventh upload addresses a collection that does not
	// exist; the handler refuses it (409) without reading its body. The others
	// terminate as they do alone.
	Refused bool `json:"some_refused,omitempty"`
}

func manyOpenCases(thorough bool) []manyOpenCase {
	ks := []int{3, 20, 100}
	if thorough {
		ks = []int{2, 8, 20, 65, 200}
	}
	var l []manyOpenCase
	for _, k := range ks {
		for _, order := range []string{"lifo", "fifo", "shuffled"} {
			for _, cl := range []string{"tcp-gated", "tcp", "inproc"} {
				for _, first := range []int{1, 20000} {
					for _, closers := range []string{"one-goroutine", "one-goroutine-each"} {
						if !thorough && first == 20000 && closers == "one-goroutine-each" {
							continue
						}
						l = append(l, manyOpenCase{K: k, Order: order, Client: cl, First: first, Closers: closers})
						if first == 1 && (thorough || closers == "one-goroutine") {
							l = append(l, manyOpenCase{K: k, Order: order, Client: cl, First: first, Closers: closers, Refused: true})
						}
					}
				}
			}
		}
	}
	return l
}

// enterFS tells the harness when the handler has started on an upload.
type enterFS struct {
	webdav.FileSystem
	entered chan string
}

func (f *enterFS) Create(ctx context.Context, name string, body io.ReadCloser, opts *webdav.CreateOptions) (*webdav.FileInfo, bool, error) {
	select {
	case f.entered <- name:
	default:
	}
	return f.FileSystem.Create(ctx, name, body, opts)
}

func execManyOpen(c *fw.Ctx, cs manyOpenCase, idx int) {
	root := filepath.Join(c.WorkDir, fmt.Sprintf("manyopen-%d", idx))
	os.RemoveAll(root)
	for d := 0; d < 4; d++ {
		if err := os.MkdirAll(filepath.Join(root, fmt.Sprintf("d%d", d)), 0755); err != nil {
			c.Inconclusive(err.Error())
			return
		}
	}
	defer os.RemoveAll(root)
	fsys := &enterFS{FileSystem: webdav.LocalFileSystem(root), entered: make(chan string, 4*cs.K)}
	h := &webdav.Handler{FileSystem: fsys}
	var hc webdav.HTTPClient
	endpoint := "http://dav.test/"
	unblock := func() {}
	if cs.Client == "inproc" {
		hc = &doubles.InProc{Handler: h}
	} else {
		srv := httptest.NewServer(h)
		defer srv.Close()
		tr := &http.Transport{MaxIdleConnsPerHost: 8}
		defer tr.CloseIdleConnections()
		hc = &http.Client{Transport: tr}
		endpoint = srv.URL + "/"
		unblock = func() { srv.CloseClientConnections(); tr.CloseIdleConnections() }
	}
	cl, err := webdav.NewClient(hc, endpoint)
	if err != nil {
		c.Inconclusive(err.Error())
		return
	}
	ctx, cancel := context.WithCancel(context.Background())
	defer cancel()
	refused := func(i int) bool { return cs.Refused && i%7 == 3 }
	name := func(i int) string {
		if refused(i) {
			return fmt.Sprintf("/no-such-collection/part-%03d.bin", i)
		}
		return fmt.Sprintf("/d%d/part-%03d.bin", i%4, i)
	}
	content := func(i int) []byte {
		return append(bytes.Repeat([]byte{byte('A' + i%26)}, cs.First), []byte(fmt.Sprintf("tail-%d", i))...)
	}
	order := make([]int, cs.K)
	for i := range order {
		switch cs.Order {
		case "lifo":
			order[i] = cs.K - 1 - i
		default:
			order[i] = i
		}
	}
	if cs.Order == "shuffled" {
		r := c.Rand("manyopen-order", idx)
		r.Shuffle(len(order), func(a, b int) { order[a], order[b] = order[b], order[a] })
	}
	var mu sync.Mutex
	var problems []string
	closed := 0
	bad := func(format string, a ...interface{}) {
		mu.Lock()
		problems = append(problems, fmt.Sprintf(format, a...))
		mu.Unlock()
	}
	done := make(chan struct{})
	c.Journal(cs)
	go func() {
		defer close(done)
		writers := make([]io.WriteCloser, cs.K)
		gated := true
		for i := range writers {
			w, err := cl.Create(ctx, name(i))
			if err != nil {
				bad("Create of upload %d: %v", i, err)
				return
			}
			writers[i] = w
			if _, err := w.Write(content(i)[:cs.First]); err != nil && !refused(i) {
				bad("first Write of upload %d: %v", i, err)
			}
			if cs.Client == "tcp-gated" && gated {
				// the handler has started on this upload before the next one
				// is opened. Workload shaping only: a handler that takes its
				// time before it turns to the file system is legal, so the
				// gate gives up (for the rest of the case) after two seconds.
				select {
				case <-fsys.entered:
				case <-time.After(2 * time.Second):
					gated = false
					c.Observe("uploads_open_at_once", "gate given up (the handler did not reach the file system while the upload was open)", 1)
				}
			}
		}
		finish := func(i int) {
			if _, err := writers[i].Write(content(i)[cs.First:]); err != nil && !refused(i) {
				bad("last Write of upload %d: %v", i, err)
			}
			if err := writers[i].Close(); err != nil && !refused(i) {
				bad("Close of upload %d: %v", i, err)
			} else if err == nil && refused(i) {
				bad("Close of upload %d, whose collection does not exist, returned nil", i)
			}
			mu.Lock()
			closed++
			mu.Unlock()
		}
		if cs.Closers == "one-goroutine-each" {
			var wg sync.WaitGroup
			for _, i := range order {
				wg.Add(1)
				go func(i int) { defer wg.Done(); finish(i) }(i)
			}
			wg.Wait()
			return
		}
		for _, i := range order {
			finish(i)
		}
	}()
	hung, state, wd := awaitOrDeadlock(done)
	mu.Lock()
	terminated := closed // before anything is unblocked
	mu.Unlock()
	c.JournalDone()
	if wd {
		c.Inconclusive(fmt.Sprintf("many-open-uploads watchdog fired for %+v", cs))
	}
	if hung || wd {
		cancel()
		unblock()
		select {
		case <-done:
		case <-time.After(10 * time.Second):
		}
	}
	if wd {
		return
	}
	c.Eval(cs.K)
	c.Distinct(fmt.Sprintf("many-open|%d|%s|%s|%d|%s|%v", cs.K, cs.Order, cs.Client, cs.First, cs.Closers, cs.Refused))
	key := fmt.Sprintf("uploads-open-at-once|%s|closed %s by %s", strings.TrimSuffix(cs.Client, "-gated"), cs.Order, cs.Closers)
	if hung {
		deadlocksSeen++
		n := terminated
		c.Observe("uploads_open_at_once", "deadlock", 1)
		c.Report(key+"|deadlock", fmt.Sprintf("%d uploads to different files were open at once; only %d of them terminated, Write/Close of the next one never returns: stable blocked state %s", cs.K, n, firstLines(state, 8)),
			map[string]interface{}{"case": cs, "terminated": n})
		return
	}
	c.Observe("uploads_open_at_once", fmt.Sprintf("K=%d %s %s %s: all terminated", cs.K, cs.Client, cs.Order, cs.Closers), 1)
	if cs.Refused {
		c.Observe("uploads_open_at_once", "cases in which every seventh upload is refused", 1)
	}
	for i := 0; i < cs.K; i++ {
		if refused(i) {
			continue
		}
		b, err := ioutil.ReadFile(filepath.Join(root, filepath.FromSlash(name(i))))
		if err != nil || !bytes.Equal(b, content(i)) {
			bad("upload %d is not stored byte for byte (%v, %d bytes, expected %d)", i, err, len(b), len(content(i)))
		}
	}
	if len(problems) > 0 {
		sort.Strings(problems)
		if len(problems) > 8 {
			problems = problems[:8]
		}
		c.Report(key+"|wrong-result", strings.Join(problems, "; "), map[string]interface{}{"case": cs, "problems": problems})
	}
}

func runManyOpen(c *fw.Ctx) {
	for i, cs := range manyOpenCases(c.Thorough()) {
		if !c.Mine(i) {
			continue
		}
		if deadlocksSeen >= 4 {
			c.Observe("uploads_open_at_once", "cases skipped after 4 deadlocks in this worker", 1)
			continue
		}
		execManyOpen(c, cs, i)
	}
}

// Package c18: handlers and clients are safe for concurrent use; uploads
// always terminate. Run under the race detector (the check builds the worker
// with -race); see upload.go for the fault matrix and race.go for the race
// log reader.
package c18

import (
	"bytes"
	"context"
	"errors"
	"fmt"
	"io/ioutil"
	"math/rand"
	"net/http"
	"net/http/httptest"
	"os"
	"path"
	"path/filepath"
	"runtime"
	"sort"
	"strings"
	"sync"
	"syscall"
	"time"

	"github.com/emersion/go-ical"
	"github.com/emersion/go-vcard"
	"github.com/emersion/go-webdav"
	"github.com/emersion/go-webdav/caldav"
	"github.com/emersion/go-webdav/carddav"
	"github.com/emersion/go-webdav/internal"
	"github.com/emersion/go-webdav/verifharness/doubles"
	"github.com/emersion/go-webdav/verifharness/fw"
	"github.com/emersion/go-webdav/verifharness/mon"
)

// overlap tracks which operation kinds were in flight at the same time. It
// is monitor state: guarded by its own mutex.
type overlap struct {
	mu       sync.Mutex
	inflight map[string]int
	pairs    map[string]int
	maxIn    int
	order    []string // global call/return order (for the interleaving signature)
	ops      map[string]int
}

// count notes that an operation of a certain shape was issued.
func (o *overlap) count(key string) {
	o.mu.Lock()
	if o.ops == nil {
		o.ops = map[string]int{}
	}
	o.ops[key]++
	o.mu.Unlock()
}

func newOverlap() *overlap {
	return &overlap{inflight: map[string]int{}, pairs: map[string]int{}}
}

func (o *overlap) enter(kind string, worker int) {
	o.mu.Lock()
	n := 0
	for k, c := range o.inflight {
		if c > 0 {
			a, b := kind, k
			if a > b {
				a, b = b, a
			}
			o.pairs[a+"&"+b] += c
			n += c
		}
	}
	o.inflight[kind]++
	if n+1 > o.maxIn {
		o.maxIn = n + 1
	}
	if len(o.order) < 4096 {
		o.order = append(o.order, fmt.Sprintf("c%d%s", worker, kind[:2]))
	}
	o.mu.Unlock()
}

func (o *overlap) leave(kind string, worker int) {
	o.mu.Lock()
	o.inflight[kind]--
	if len(o.order) < 4096 {
		o.order = append(o.order, fmt.Sprintf("r%d%s", worker, kind[:2]))
	}
	o.mu.Unlock()
}

func httpCode(err error) int {
	var he *internal.HTTPError
	if errors.As(err, &he) {
		return he.Code
	}
	if err != nil {
		return -1
	}
	return 0
}

type mismatch struct {
	Worker int    `json:"worker"`
	Step   int    `json:"step"`
	Op     string `json:"op"`
	Want   string `json:"want"`
	Got    string `json:"got"`
}

// davWorker runs a deterministic script on its own subtree /w<i>/ and
// compares every result with what the same script yields alone (a private
// model of that subtree).
//
// shared: all workers live in ONE collection, /shared, each with names of its
// own (w<i>-n<k>): disjoint resources with a common parent, so that whatever
// the server creates next to a target (temporary and set-aside names) is
// created in the same directory by everybody at once.
func davWorker(cl *webdav.Client, i, steps int, r *rand.Rand, ov *overlap, jitter, shared bool) (model map[string]string, bad []mismatch) {
	ctx := context.Background()
	base, prefix := fmt.Sprintf("/w%d", i), "n"
	if shared {
		base, prefix = "/shared", fmt.Sprintf("w%d-n", i)
	}
	mine := func(p string) bool { return strings.HasPrefix(p, base+"/"+prefix) }
	model = map[string]string{} // path -> content; dirs have content "\x00dir"
	const dir = "\x00dir"
	do := func(step int, kind string, f func() (string, string)) {
		if jitter {
			switch r.Intn(4) {
			case 0:
				runtime.Gosched()
			case 1:
				time.Sleep(time.Duration(r.Intn(200)) * time.Microsecond)
			}
		}
		ov.enter(kind, i)
		want, got := f()
		ov.leave(kind, i)
		if want != got {
			bad = append(bad, mismatch{i, step, kind, want, got})
		}
	}
	if !shared {
		do(0, "Mkdir", func() (string, string) {
			err := cl.Mkdir(ctx, base)
			model[base] = dir
			return "0", fmt.Sprint(httpCode(err))
		})
	}
	// sources of COPY / MOVE: the worker's files and collections, populated
	// ones included (the recursive walks of the file system layer)
	sources := func() []string {
		var l []string
		for p := range model {
			if p != base {
				l = append(l, p)
			}
		}
		sort.Strings(l)
		return l
	}
	// the worker's first-level collections: names below them form a second level
	colls := func() []string {
		var l []string
		for p, c := range model {
			if c == dir && p != base && path.Dir(p) == base {
				l = append(l, p)
			}
		}
		sort.Strings(l)
		return l
	}
	related := func(a, b string) bool { // one lies below the other
		return strings.HasPrefix(a, b+"/") || strings.HasPrefix(b, a+"/")
	}
	populated := func(p string) bool {
		for q := range model {
			if strings.HasPrefix(q, p+"/") {
				return true
			}
		}
		return false
	}
	copyTree := func(src, dst string, deep bool) {
		sub := map[string]string{dst: model[src]}
		if deep {
			for p, v := range model {
				if strings.HasPrefix(p, src+"/") {
					sub[dst+p[len(src):]] = v
				}
			}
		}
		for p := range model {
			if strings.HasPrefix(p, dst+"/") {
				delete(model, p)
			}
		}
		for p, v := range sub {
			model[p] = v
		}
	}
	for s := 1; s <= steps; s++ {
		name := fmt.Sprintf("%s/%s%d", base, prefix, r.Intn(6))
		if r.Intn(3) == 0 {
			if cs := colls(); len(cs) > 0 {
				name = fmt.Sprintf("%s/m%d", cs[r.Intn(len(cs))], r.Intn(3))
				ov.count("operations on a second-level name")
			}
		}
		switch op := r.Intn(10); {
		case op <= 2: // Create
			content := fmt.Sprintf("w%d-s%d-%s", i, s, strings.Repeat("x", r.Intn(3000)))
			do(s, "Create", func() (string, string) {
				if model[name] == dir {
					// PUT on a collection: refused
					w, err := cl.Create(ctx, name)
					if err != nil {
						return "405", fmt.Sprint(httpCode(err))
					}
					w.Write([]byte(content))
					return "405", fmt.Sprint(httpCode(w.Close()))
				}
				w, err := cl.Create(ctx, name)
				if err != nil {
					return "0", "create: " + err.Error()
				}
				if _, err := w.Write([]byte(content)); err != nil {
					w.Close()
					return "0", "write: " + err.Error()
				}
				err = w.Close()
				model[name] = content
				return "0", fmt.Sprint(httpCode(err))
			})
		case op == 3: // Stat
			do(s, "Stat", func() (string, string) {
				fi, err := cl.Stat(ctx, name)
				c, ok := model[name]
				switch {
				case !ok:
					return "404", fmt.Sprint(httpCode(err))
				case c == dir:
					if err != nil {
						return "dir", "err " + err.Error()
					}
					return "dir", map[bool]string{true: "dir", false: "file"}[fi.IsDir]
				}
				if err != nil {
					return fmt.Sprintf("size %d", len(c)), "err " + err.Error()
				}
				return fmt.Sprintf("size %d", len(c)), fmt.Sprintf("size %d", fi.Size)
			})
		case op == 4: // Open
			do(s, "Open", func() (string, string) {
				rc, err := cl.Open(ctx, name)
				c, ok := model[name]
				switch {
				case !ok:
					return "404", fmt.Sprint(httpCode(err))
				case c == dir:
					return "405", fmt.Sprint(httpCode(err))
				}
				if err != nil {
					return "content", "err " + err.Error()
				}
				b, _ := ioutil.ReadAll(rc)
				rc.Close()
				if string(b) == c {
					return "content", "content"
				}
				return "content", fmt.Sprintf("other content (%d bytes, want %d)", len(b), len(c))
			})
		case op == 5: // ReadDir
			if shared {
				// listing the common collection touches everybody's members:
				// not an operation on disjoint resources
				continue
			}
			rec := r.Intn(2) == 0
			do(s, "ReadDir", func() (string, string) {
				l, err := cl.ReadDir(ctx, base, rec)
				if err != nil {
					return "listing", "err " + err.Error()
				}
				var got []string
				for _, fi := range l {
					p := strings.TrimSuffix(fi.Path, "/")
					if p == base || !mine(p) {
						continue // the collection itself; in shared mode also the others' members
					}
					got = append(got, p)
				}
				var want []string
				for p := range model {
					if p == base {
						continue
					}
					if !rec && filepath.Dir(p) != base {
						continue
					}
					want = append(want, p)
				}
				sort.Strings(got)
				sort.Strings(want)
				return strings.Join(want, ","), strings.Join(got, ",")
			})
		case op == 6: // Mkdir
			do(s, "Mkdir", func() (string, string) {
				err := cl.Mkdir(ctx, name)
				if _, ok := model[name]; ok {
					return "405", fmt.Sprint(httpCode(err))
				}
				model[name] = dir
				return "0", fmt.Sprint(httpCode(err))
			})
		case op == 7: // Copy
			fl := sources()
			if len(fl) == 0 {
				continue
			}
			src := fl[r.Intn(len(fl))]
			if related(src, name) {
				continue // into itself / onto an own ancestor: not a plain copy
			}
			noOver := r.Intn(2) == 0
			shallow := model[src] == dir && r.Intn(3) == 0
			switch {
			case shallow:
				ov.count("Depth 0 COPY of a collection")
			case populated(src):
				ov.count("COPY of a populated collection")
			}
			if populated(name) {
				ov.count("COPY / MOVE onto a populated collection")
			}
			do(s, "Copy", func() (string, string) {
				err := cl.Copy(ctx, src, name, &webdav.CopyOptions{NoOverwrite: noOver, NoRecursive: shallow})
				_, exists := model[name]
				switch {
				case src == name:
					return "403", fmt.Sprint(httpCode(err))
				case exists && noOver:
					return "412", fmt.Sprint(httpCode(err))
				}
				copyTree(src, name, !shallow)
				return "0", fmt.Sprint(httpCode(err))
			})
		case op == 8: // Move
			fl := sources()
			if len(fl) == 0 {
				continue
			}
			src := fl[r.Intn(len(fl))]
			if related(src, name) {
				continue
			}
			if populated(src) {
				ov.count("MOVE of a populated collection")
			}
			if populated(name) {
				ov.count("COPY / MOVE onto a populated collection")
			}
			do(s, "Move", func() (string, string) {
				err := cl.Move(ctx, src, name, nil)
				if src == name {
					return "403", fmt.Sprint(httpCode(err))
				}
				copyTree(src, name, true)
				for p := range model {
					if p == src || strings.HasPrefix(p, src+"/") {
						delete(model, p)
					}
				}
				return "0", fmt.Sprint(httpCode(err))
			})
		default: // RemoveAll
			if populated(name) {
				ov.count("DELETE of a populated collection")
			}
			do(s, "RemoveAll", func() (string, string) {
				err := cl.RemoveAll(ctx, name)
				if _, ok := model[name]; !ok {
					return "404", fmt.Sprint(httpCode(err))
				}
				for p := range model {
					if p == name || strings.HasPrefix(p, name+"/") {
						delete(model, p)
					}
				}
				return "0", fmt.Sprint(httpCode(err))
			})
		}
	}
	return model, bad
}

// brokenBody delivers n bytes and then fails.
type brokenBody struct{ n, pos int }

func (b *brokenBody) Read(p []byte) (int, error) {
	if b.pos >= b.n {
		return 0, errors.New("verif: upload broke off")
	}
	k := len(p)
	if b.n-b.pos < k {
		k = b.n - b.pos
	}
	for i := 0; i < k; i++ {
		p[i] = 'P'
	}
	b.pos += k
	return k, nil
}

type schedCfg struct {
	Server     string `json:"server"` // webdav | caldav | carddav
	Transport  string `json:"transport"`
	N          int    `json:"n"`
	Steps      int    `json:"steps"`
	GOMAXPROCS int    `json:"gomaxprocs"`
	Rep        int    `json:"rep"`
}

func runDavSchedule(c *fw.Ctx, cfg schedCfg, idx int) {
	old := runtime.GOMAXPROCS(cfg.GOMAXPROCS)
	defer runtime.GOMAXPROCS(old)
	root := filepath.Join(c.WorkDir, fmt.Sprintf("sched-%d", idx))
	os.MkdirAll(root, 0755)
	defer os.RemoveAll(root)
	var fsys webdav.FileSystem = webdav.LocalFileSystem(root)
	if (cfg.Rep+cfg.GOMAXPROCS)%2 == 1 {
		// a slow file system: yields around every operation, sleeps now and
		// then (monitor state under its own lock)
		var dmu sync.Mutex
		dr := c.Rand(fmt.Sprintf("dav-delay-%d-%d", idx, cfg.Rep), 0)
		fsys = &doubles.SlowFS{FS: fsys, Delay: func() {
			dmu.Lock()
			k, d := dr.Intn(8), dr.Intn(6)
			dmu.Unlock()
			runtime.Gosched()
			if k == 0 {
				time.Sleep(time.Duration(20+d*40) * time.Microsecond)
			}
		}}
		c.Observe("schedules", "webdav schedules over a slow file system", 1)
	}
	h := &webdav.Handler{FileSystem: fsys}
	var hc webdav.HTTPClient
	endpoint := "http://dav.test/"
	if cfg.Transport == "tcp" {
		srv := httptest.NewServer(h)
		defer srv.Close()
		tr := &http.Transport{MaxIdleConnsPerHost: 64}
		defer tr.CloseIdleConnections()
		hc = &http.Client{Transport: tr}
		endpoint = srv.URL + "/"
	} else {
		hc = &doubles.InProc{Handler: h}
	}
	cl, err := webdav.NewClient(hc, endpoint)
	if err != nil {
		c.Inconclusive(err.Error())
		return
	}
	// Prelude: a few uploads that break off, BEFORE the concurrent phase.
	// State a failure path leaves behind in the handler or the file system
	// layer (a buffer returned twice, a stale cache) only shows up in the
	// requests that follow.
	// Every other configuration skips it, so that the very first requests a
	// brand-new handler sees are concurrent ones (lazily built state).
	for k := 0; k < 3 && (cfg.Rep+cfg.N+cfg.GOMAXPROCS)%2 == 0; k++ {
		req := httptest.NewRequest("PUT", fmt.Sprintf("http://dav.test/prelude-%d", k), &brokenBody{n: 100 + 5000*k})
		req.ContentLength = 1 << 20
		h.ServeHTTP(httptest.NewRecorder(), req)
	}
	shared := idx%3 == 0
	if shared {
		if err := os.Mkdir(filepath.Join(root, "shared"), 0755); err != nil {
			c.Inconclusive(err.Error())
			return
		}
		c.Observe("schedules", "webdav schedules with all workers in one collection", 1)
	}
	// Solo reference for what the requests leave on disk besides names and
	// contents: the permission bits of an uploaded file, a created collection
	// and their copies, made by an identical handler alone, and the process
	// file mode creation mask (process-wide state a request might touch).
	soloModes, umaskBefore := soloDiskModes(c, idx), readUmask()
	ov := newOverlap()
	models := make([]map[string]string, cfg.N)
	bads := make([][]mismatch, cfg.N)
	var wg sync.WaitGroup
	start := make(chan struct{})
	for i := 0; i < cfg.N; i++ {
		wg.Add(1)
		go func(i int) {
			defer wg.Done()
			r := c.Rand(fmt.Sprintf("dav-%d-%d", idx, cfg.Rep), i)
			<-start
			models[i], bads[i] = davWorker(cl, i, cfg.Steps, r, ov, true, shared)
		}(i)
	}
	c.Journal(cfg)
	close(start)
	wg.Wait()
	c.JournalDone()
	recordOverlap(c, cfg, ov)
	for i := range bads {
		for _, b := range bads[i] {
			c.Report(fmt.Sprintf("webdav|%s|%s|result-differs-from-solo", cfg.Transport, b.Op),
				fmt.Sprintf("concurrent %s on a private subtree gave %q, alone it gives %q", b.Op, b.Got, b.Want),
				map[string]interface{}{"config": cfg, "mismatch": b})
		}
		c.Eval(cfg.Steps + 1)
	}
	if u := readUmask(); u != umaskBefore {
		c.Report(fmt.Sprintf("webdav|%s|process-umask-changed", cfg.Transport),
			fmt.Sprintf("the process file mode creation mask was %04o before the concurrent requests and is %04o after them", umaskBefore, u),
			map[string]interface{}{"config": cfg})
		syscall.Umask(umaskBefore)
	}
	if soloModes != nil {
		var odd []string
		filepath.Walk(root, func(p string, fi os.FileInfo, err error) error {
			if err != nil || p == root || strings.HasPrefix(filepath.Base(p), "prelude-") {
				return nil
			}
			kind := "file"
			if fi.IsDir() {
				kind = "dir"
			}
			if rel, _ := filepath.Rel(root, p); shared && rel == "shared" {
				return nil // made by the harness
			}
			if fi.Mode().IsRegular() || fi.IsDir() {
				if !soloModes[kind][fi.Mode().Perm()] {
					rel, _ := filepath.Rel(root, p)
					odd = append(odd, fmt.Sprintf("%s %s has mode %04o", kind, rel, fi.Mode().Perm()))
				}
			}
			return nil
		})
		c.Observe("disk_modes", "trees compared with the solo permission bits", 1)
		if len(odd) > 0 {
			sort.Strings(odd)
			if len(odd) > 8 {
				odd = odd[:8]
			}
			c.Report(fmt.Sprintf("webdav|%s|permission-bits-differ-from-solo", cfg.Transport),
				fmt.Sprintf("resources created by concurrent requests carry other permission bits than the same requests leave alone (solo: %v): %v", soloModes, odd),
				map[string]interface{}{"config": cfg, "odd": odd})
		}
	}
	// final tree = union of the per-worker trees
	snap, _ := mon.Snapshot(root)
	want := map[string]string{}
	for _, m := range models {
		for p, v := range m {
			want[strings.TrimPrefix(p, "/")] = v
		}
	}
	if shared {
		want["shared"] = "\x00dir"
	}
	var diffs []string
	for p, v := range want {
		e, ok := snap[p]
		switch {
		case !ok:
			diffs = append(diffs, "missing "+p)
		case v == "\x00dir" && !e.Dir:
			diffs = append(diffs, "not a dir "+p)
		case v != "\x00dir" && e.Data != v:
			diffs = append(diffs, "content "+p)
		}
	}
	for p := range snap {
		if p == "" {
			continue
		}
		if strings.HasPrefix(p, "prelude-") {
			diffs = append(diffs, "a broken prelude upload left "+p)
			continue
		}
		if _, ok := want[p]; !ok {
			diffs = append(diffs, "extra "+p)
		}
	}
	if len(diffs) > 0 {
		sort.Strings(diffs)
		if len(diffs) > 10 {
			diffs = diffs[:10]
		}
		c.Report(fmt.Sprintf("webdav|%s|final-tree-is-not-the-union-of-the-workers-trees", cfg.Transport),
			fmt.Sprintf("after %d concurrent workers the directory differs from the union of their solo results: %v", cfg.N, diffs),
			map[string]interface{}{"config": cfg, "diffs": diffs})
	}
}

// readUmask reads the process file mode creation mask. Only called while no
// request is in flight (the read is a set-and-restore).
func readUmask() int {
	u := syscall.Umask(0)
	syscall.Umask(u)
	return u
}

// soloDiskModes: the permission bits an identical handler, alone, leaves on an
// uploaded file, a created collection, and on copies of both.
func soloDiskModes(c *fw.Ctx, idx int) map[string]map[os.FileMode]bool {
	root := filepath.Join(c.WorkDir, fmt.Sprintf("sched-solo-%d", idx))
	os.RemoveAll(root)
	if err := os.MkdirAll(root, 0755); err != nil {
		return nil
	}
	defer os.RemoveAll(root)
	h := &webdav.Handler{FileSystem: webdav.LocalFileSystem(root)}
	do := func(method, target, dest string, body string) {
		req := httptest.NewRequest(method, "http://dav.test"+target, strings.NewReader(body))
		if dest != "" {
			req.Header.Set("Destination", dest)
		}
		h.ServeHTTP(httptest.NewRecorder(), req)
	}
	do("MKCOL", "/d", "", "")
	do("PUT", "/d/f", "", "x")
	do("PUT", "/d/f", "", "replaced")
	do("PUT", "/g", "", "y")
	do("COPY", "/g", "/g2", "")
	do("COPY", "/d", "/d2", "")
	do("MOVE", "/g2", "/g3", "")
	modes := map[string]map[os.FileMode]bool{"file": {}, "dir": {}}
	filepath.Walk(root, func(p string, fi os.FileInfo, err error) error {
		if err == nil && p != root {
			if fi.IsDir() {
				modes["dir"][fi.Mode().Perm()] = true
			} else {
				modes["file"][fi.Mode().Perm()] = true
			}
		}
		return nil
	})
	if len(modes["file"]) == 0 || len(modes["dir"]) == 0 {
		return nil
	}
	return modes
}

func recordOverlap(c *fw.Ctx, cfg schedCfg, ov *overlap) {
	ov.mu.Lock()
	defer ov.mu.Unlock()
	for k, v := range ov.pairs {
		c.Observe("overlap_matrix_"+cfg.Server, k, v)
	}
	for k, v := range ov.ops {
		c.Observe("tree_operations_"+cfg.Server, k, v)
	}
	c.Observe("max_in_flight", fmt.Sprintf("%s N=%d P=%d", cfg.Server, cfg.N, cfg.GOMAXPROCS), ov.maxIn)
	sig := strings.Join(ov.order, "")
	c.Distinct("interleaving|" + cfg.Server + "|" + sig)
	c.Observe("schedules", fmt.Sprintf("%s/%s N=%d GOMAXPROCS=%d", cfg.Server, cfg.Transport, cfg.N, cfg.GOMAXPROCS), 1)
	distinctPairs := 0
	for _, v := range ov.pairs {
		if v > 0 {
			distinctPairs++
		}
	}
	if cfg.N >= 4 && cfg.GOMAXPROCS >= 2 && distinctPairs < 3 {
		c.Observe("schedules", "low-overlap-runs", 1)
	}
}

// --- CalDAV / CardDAV ---------------------------------------------------------

func calObject(uid string) *ical.Calendar {
	cal := ical.NewCalendar()
	cal.Props.SetText(ical.PropVersion, "2.0")
	cal.Props.SetText(ical.PropProductID, "-//verif//EN")
	ev := ical.NewEvent()
	ev.Props.SetText(ical.PropUID, uid)
	ev.Props.SetDateTime(ical.PropDateTimeStamp, time.Unix(1600000000, 0).UTC())
	ev.Props.SetDateTime(ical.PropDateTimeStart, time.Unix(1600003600, 0).UTC())
	ev.Props.SetText(ical.PropSummary, "event of "+uid)
	cal.Children = append(cal.Children, ev.Component)
	return cal
}

func runCalSchedule(c *fw.Ctx, cfg schedCfg, idx int) {
	old := runtime.GOMAXPROCS(cfg.GOMAXPROCS)
	defer runtime.GOMAXPROCS(old)
	b := &doubles.CalBackend{Principal: "/u/", HomeSet: "/u/cal/"}
	for i := 0; i < cfg.N; i++ {
		b.Calendars = append(b.Calendars, caldav.Calendar{Path: fmt.Sprintf("/u/cal/c%d/", i), Name: fmt.Sprintf("cal %d", i)})
		for k := 0; k < 3; k++ {
			b.Objects = append(b.Objects, caldav.CalendarObject{Path: fmt.Sprintf("/u/cal/c%d/o%d.ics", i, k), ETag: fmt.Sprintf("e%d-%d", i, k), Data: calObject(fmt.Sprintf("uid-%d-%d", i, k))})
		}
	}
	h := &caldav.Handler{Backend: b}
	var hc webdav.HTTPClient = &doubles.InProc{Handler: h}
	endpoint := "http://dav.test/"
	if cfg.Transport == "tcp" {
		srv := httptest.NewServer(h)
		defer srv.Close()
		tr := &http.Transport{MaxIdleConnsPerHost: 64}
		defer tr.CloseIdleConnections()
		hc = &http.Client{Transport: tr}
		endpoint = srv.URL + "/"
	}
	cl, err := caldav.NewClient(hc, endpoint)
	if err != nil {
		c.Inconclusive(err.Error())
		return
	}
	ov := newOverlap()
	var mu sync.Mutex
	var bad []mismatch
	var wg sync.WaitGroup
	start := make(chan struct{})
	ctx := context.Background()
	for i := 0; i < cfg.N; i++ {
		wg.Add(1)
		go func(i int) {
			defer wg.Done()
			r := c.Rand(fmt.Sprintf("cal-%d-%d", idx, cfg.Rep), i)
			coll := fmt.Sprintf("/u/cal/c%d/", i)
			<-start
			for s := 0; s < cfg.Steps; s++ {
				k := r.Intn(3)
				p := fmt.Sprintf("%so%d.ics", coll, k)
				uid := fmt.Sprintf("uid-%d-%d", i, k)
				var kind, want, got string
				switch r.Intn(6) {
				case 0:
					kind, want = "GetCalendarObject", uid
					ov.enter(kind, i)
					co, err := cl.GetCalendarObject(ctx, p)
					ov.leave(kind, i)
					got = uidOf(co, err)
				case 1:
					kind, want = "MultiGetCalendar", uid
					ov.enter(kind, i)
					l, err := cl.MultiGetCalendar(ctx, coll, &caldav.CalendarMultiGet{Paths: []string{p}, CompRequest: caldav.CalendarCompRequest{Name: "VCALENDAR", AllProps: true, AllComps: true}})
					ov.leave(kind, i)
					if err != nil || len(l) != 1 {
						got = fmt.Sprintf("err %v n=%d", err, len(l))
					} else {
						got = uidOf(&l[0], nil)
					}
				case 2:
					kind, want = "QueryCalendar", fmt.Sprintf("3 objects of c%d", i)
					ov.enter(kind, i)
					l, err := cl.QueryCalendar(ctx, coll, &caldav.CalendarQuery{CompRequest: caldav.CalendarCompRequest{Name: "VCALENDAR", AllProps: true, AllComps: true}, CompFilter: caldav.CompFilter{Name: "VCALENDAR"}})
					ov.leave(kind, i)
					ok := err == nil && len(l) == 3
					for _, o := range l {
						if !strings.HasPrefix(o.Path, coll) {
							ok = false
						}
					}
					got = want
					if !ok {
						got = fmt.Sprintf("err %v n=%d", err, len(l))
					}
				case 3:
					kind, want = "PutCalendarObject", p
					ov.enter(kind, i)
					co, err := cl.PutCalendarObject(ctx, p, calObject(uid))
					ov.leave(kind, i)
					if err != nil {
						got = "err " + err.Error()
					} else {
						got = co.Path
					}
				case 4:
					kind, want = "FindCalendars", fmt.Sprint(cfg.N)
					ov.enter(kind, i)
					l, err := cl.FindCalendars(ctx, "/u/cal/")
					ov.leave(kind, i)
					got = fmt.Sprint(len(l))
					if err != nil {
						got = "err " + err.Error()
					}
				default:
					kind, want = "FindCalendarHomeSet", "/u/cal/"
					ov.enter(kind, i)
					hs, err := cl.FindCalendarHomeSet(ctx, "/u/")
					ov.leave(kind, i)
					got = hs
					if err != nil {
						got = "err " + err.Error()
					}
				}
				if want != got {
					mu.Lock()
					bad = append(bad, mismatch{i, s, kind, want, got})
					mu.Unlock()
				}
			}
		}(i)
	}
	c.Journal(cfg)
	close(start)
	wg.Wait()
	c.JournalDone()
	c.Eval(cfg.N * cfg.Steps)
	recordOverlap(c, cfg, ov)
	for _, m := range bad {
		c.Report(fmt.Sprintf("caldav|%s|%s|result-differs-from-solo", cfg.Transport, m.Op),
			fmt.Sprintf("concurrent %s gave %q, alone it gives %q", m.Op, m.Got, m.Want), map[string]interface{}{"config": cfg, "mismatch": m})
	}
}

func uidOf(co *caldav.CalendarObject, err error) string {
	if err != nil {
		return "err " + err.Error()
	}
	if co == nil || co.Data == nil || len(co.Data.Children) == 0 {
		return "no data"
	}
	u, _ := co.Data.Children[0].Props.Text(ical.PropUID)
	return u
}

func card(uid string) vcard.Card {
	c := make(vcard.Card)
	c.SetValue(vcard.FieldVersion, "3.0")
	c.SetValue(vcard.FieldUID, uid)
	c.SetValue(vcard.FieldFormattedName, "name of "+uid)
	return c
}

func runCardSchedule(c *fw.Ctx, cfg schedCfg, idx int) {
	old := runtime.GOMAXPROCS(cfg.GOMAXPROCS)
	defer runtime.GOMAXPROCS(old)
	b := &doubles.CardBackend{Principal: "/u/", HomeSet: "/u/contacts/"}
	for i := 0; i < cfg.N; i++ {
		b.Books = append(b.Books, carddav.AddressBook{Path: fmt.Sprintf("/u/contacts/b%d/", i), Name: fmt.Sprintf("book %d", i)})
		for k := 0; k < 3; k++ {
			b.Objects = append(b.Objects, carddav.AddressObject{Path: fmt.Sprintf("/u/contacts/b%d/o%d.vcf", i, k), ETag: fmt.Sprintf("e%d-%d", i, k), Card: card(fmt.Sprintf("uid-%d-%d", i, k))})
		}
	}
	h := &carddav.Handler{Backend: b}
	var hc webdav.HTTPClient = &doubles.InProc{Handler: h}
	endpoint := "http://dav.test/"
	if cfg.Transport == "tcp" {
		srv := httptest.NewServer(h)
		defer srv.Close()
		tr := &http.Transport{MaxIdleConnsPerHost: 64}
		defer tr.CloseIdleConnections()
		hc = &http.Client{Transport: tr}
		endpoint = srv.URL + "/"
	}
	cl, err := carddav.NewClient(hc, endpoint)
	if err != nil {
		c.Inconclusive(err.Error())
		return
	}
	ov := newOverlap()
	var mu sync.Mutex
	var bad []mismatch
	var wg sync.WaitGroup
	start := make(chan struct{})
	ctx := context.Background()
	for i := 0; i < cfg.N; i++ {
		wg.Add(1)
		go func(i int) {
			defer wg.Done()
			r := c.Rand(fmt.Sprintf("card-%d-%d", idx, cfg.Rep), i)
			coll := fmt.Sprintf("/u/contacts/b%d/", i)
			<-start
			for s := 0; s < cfg.Steps; s++ {
				k := r.Intn(3)
				p := fmt.Sprintf("%so%d.vcf", coll, k)
				uid := fmt.Sprintf("uid-%d-%d", i, k)
				var kind, want, got string
				cuid := func(ao *carddav.AddressObject, err error) string {
					if err != nil {
						return "err " + err.Error()
					}
					if ao == nil {
						return "nil"
					}
					return ao.Card.Value(vcard.FieldUID)
				}
				switch r.Intn(6) {
				case 0:
					kind, want = "GetAddressObject", uid
					ov.enter(kind, i)
					ao, err := cl.GetAddressObject(ctx, p)
					ov.leave(kind, i)
					got = cuid(ao, err)
				case 1:
					kind, want = "MultiGetAddressBook", uid
					ov.enter(kind, i)
					l, err := cl.MultiGetAddressBook(ctx, coll, &carddav.AddressBookMultiGet{Paths: []string{p}, DataRequest: carddav.AddressDataRequest{AllProp: true}})
					ov.leave(kind, i)
					if err != nil || len(l) != 1 {
						got = fmt.Sprintf("err %v n=%d", err, len(l))
					} else {
						got = cuid(&l[0], nil)
					}
				case 2:
					kind, want = "QueryAddressBook", "3"
					ov.enter(kind, i)
					l, err := cl.QueryAddressBook(ctx, coll, &carddav.AddressBookQuery{DataRequest: carddav.AddressDataRequest{AllProp: true}, PropFilters: []carddav.PropFilter{{Name: "FN"}}})
					ov.leave(kind, i)
					got = fmt.Sprint(len(l))
					if err != nil {
						got = "err " + err.Error()
					}
				case 3:
					kind, want = "PutAddressObject", p
					ov.enter(kind, i)
					ao, err := cl.PutAddressObject(ctx, p, card(uid))
					ov.leave(kind, i)
					if err != nil {
						got = "err " + err.Error()
					} else {
						got = ao.Path
					}
				case 4:
					kind, want = "FindAddressBooks", fmt.Sprint(cfg.N)
					ov.enter(kind, i)
					l, err := cl.FindAddressBooks(ctx, "/u/contacts/")
					ov.leave(kind, i)
					got = fmt.Sprint(len(l))
					if err != nil {
						got = "err " + err.Error()
					}
				default:
					kind, want = "FindAddressBookHomeSet", "/u/contacts/"
					ov.enter(kind, i)
					hs, err := cl.FindAddressBookHomeSet(ctx, "/u/")
					ov.leave(kind, i)
					got = hs
					if err != nil {
						got = "err " + err.Error()
					}
				}
				if want != got {
					mu.Lock()
					bad = append(bad, mismatch{i, s, kind, want, got})
					mu.Unlock()
				}
			}
		}(i)
	}
	c.Journal(cfg)
	close(start)
	wg.Wait()
	c.JournalDone()
	c.Eval(cfg.N * cfg.Steps)
	recordOverlap(c, cfg, ov)
	for _, m := range bad {
		c.Report(fmt.Sprintf("carddav|%s|%s|result-differs-from-solo", cfg.Transport, m.Op),
			fmt.Sprintf("concurrent %s gave %q, alone it gives %q", m.Op, m.Got, m.Want), map[string]interface{}{"config": cfg, "mismatch": m})
	}
}

var _ = bytes.NewReader

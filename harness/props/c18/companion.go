package c18

import (
	"bytes"
	"context"
	"fmt"
	"io/ioutil"
	"net/http"
	"net/http/httptest"
	"os"
	"path/filepath"
	"strings"
	"time"

	"github.com/emersion/go-webdav"
	"github.com/emersion/go-webdav/verifharness/doubles"
	"github.com/emersion/go-webdav/verifharness/fw"
)

// Calls while an upload is open. Between Create and Close a streamed upload
// is a request in flight; the statement lets the same client be used for
// anything else meanwhile - from the goroutine that holds the writer as well as
// from another one. A client that serialises its requests (one lock around
// the inner HTTP client's Do, say) answers every self-contained call correctly
// and dead-locks here: the open upload holds the lock, the second call waits
// for it, and the uploader never gets to Close.
//
// The server is the real handler over a real directory; the client is built
// on each kind of inner HTTP client a user can pass: *http.Client, a type that
// wraps one, the library's own basic-auth wrapper, and an in-process double.

type companionCase struct {
	Client    string `json:"client"`    // "http.Client" | "wrapper" | "basic-auth" | "inproc"
	Companion string `json:"companion"` // what is called while the upload is open
	When      string `json:"when"`      // "after-create" | "between-writes"
	Other     bool   `json:"other_goroutine"`
}

type plainWrapper struct{ inner *http.Client }

func (w plainWrapper) Do(req *http.Request) (*http.Response, error) { return w.inner.Do(req) }

func companionCases() []companionCase {
	var l []companionCase
	for _, cl := range []string{"http.Client", "wrapper", "basic-auth", "inproc"} {
		for _, comp := range []string{"stat", "readdir", "open", "mkdir", "second-upload"} {
			for _, when := range []string{"after-create", "between-writes"} {
				for _, other := range []bool{false, true} {
					l = append(l, companionCase{Client: cl, Companion: comp, When: when, Other: other})
				}
			}
		}
	}
	return l
}

func execCompanion(c *fw.Ctx, cs companionCase, idx int) {
	root := filepath.Join(c.WorkDir, fmt.Sprintf("companion-%d", idx))
	os.RemoveAll(root)
	for _, d := range []string{"up", "other"} {
		if err := os.MkdirAll(filepath.Join(root, d), 0755); err != nil {
			c.Inconclusive(err.Error())
			return
		}
	}
	defer os.RemoveAll(root)
	if err := ioutil.WriteFile(filepath.Join(root, "other", "there.txt"), []byte("content of there.txt"), 0644); err != nil {
		c.Inconclusive(err.Error())
		return
	}
	h := &webdav.Handler{FileSystem: webdav.LocalFileSystem(root)}
	var hc webdav.HTTPClient
	endpoint := "http://dav.test/"
	unblock := func() {}
	if cs.Client == "inproc" {
		hc = &doubles.InProc{Handler: h}
	} else {
		srv := httptest.NewServer(h)
		defer srv.Close()
		tr := &http.Transport{MaxIdleConnsPerHost: 8}
		defer tr.CloseIdleConnections()
		inner := &http.Client{Transport: tr}
		endpoint = srv.URL + "/"
		unblock = func() { srv.CloseClientConnections(); tr.CloseIdleConnections() }
		switch cs.Client {
		case "http.Client":
			hc = inner
		case "wrapper":
			hc = plainWrapper{inner}
		case "basic-auth":
			hc = webdav.HTTPClientWithBasicAuth(inner, "user", "secret")
		}
	}
	cl, err := webdav.NewClient(hc, endpoint)
	if err != nil {
		c.Inconclusive(err.Error())
		return
	}
	ctx, cancel := context.WithCancel(context.Background())
	defer cancel()
	data := bytes.Repeat([]byte("0123456789abcdef"), 4096) // 64 KiB
	second := []byte("the second upload")
	var problems []string
	bad := func(format string, a ...interface{}) { problems = append(problems, fmt.Sprintf(format, a...)) }
	companion := func() {
		switch cs.Companion {
		case "stat":
			fi, err := cl.Stat(ctx, "/other/there.txt")
			if err != nil || fi.Size != 20 {
				bad("Stat of another resource while the upload is open: %v %+v", err, fi)
			}
		case "readdir":
			fis, err := cl.ReadDir(ctx, "/other/", false)
			if err != nil || len(fis) != 2 {
				bad("ReadDir of another collection while the upload is open: %v, %d entries", err, len(fis))
			}
		case "open":
			rc, err := cl.Open(ctx, "/other/there.txt")
			if err != nil {
				bad("Open of another resource while the upload is open: %v", err)
				return
			}
			b, _ := ioutil.ReadAll(rc)
			rc.Close()
			if string(b) != "content of there.txt" {
				bad("Open of another resource while the upload is open read %q", b)
			}
		case "mkdir":
			if err := cl.Mkdir(ctx, "/other/made"); err != nil {
				bad("Mkdir elsewhere while the upload is open: %v", err)
			}
		case "second-upload":
			w, err := cl.Create(ctx, "/up/two.bin")
			if err != nil {
				bad("second Create while the first upload is open: %v", err)
				return
			}
			if _, err := w.Write(second); err != nil {
				bad("Write of the second upload: %v", err)
			}
			if err := w.Close(); err != nil {
				bad("Close of the second upload: %v", err)
			}
		}
	}
	done := make(chan struct{})
	c.Journal(cs)
	go func() {
		defer close(done)
		w, err := cl.Create(ctx, "/up/one.bin")
		if err != nil {
			bad("Create: %v", err)
			return
		}
		rest := data
		if cs.When == "between-writes" {
			if _, err := w.Write(data[:20000]); err != nil {
				bad("first Write: %v", err)
			}
			rest = data[20000:]
		}
		if cs.Other {
			cd := make(chan struct{})
			go func() { defer close(cd); companion() }()
			<-cd
		} else {
			companion()
		}
		if _, err := w.Write(rest); err != nil {
			bad("Write after the other call: %v", err)
		}
		if err := w.Close(); err != nil {
			bad("Close: %v", err)
		}
	}()
	stable, last, hung := 0, "", false
	watchdog := time.After(120 * time.Second)
	tick := time.NewTicker(25 * time.Millisecond)
	defer tick.Stop()
wait:
	for {
		select {
		case <-done:
			break wait
		case <-watchdog:
			c.JournalDone()
			c.Inconclusive(fmt.Sprintf("companion watchdog fired for %+v", cs))
			cancel()
			unblock()
			select {
			case <-done:
			case <-time.After(10 * time.Second):
			}
			return
		case <-tick.C:
			// the server is a live handler that answers whatever arrives: a
			// stable state in which nobody runs and nobody can be woken is a
			// deadlock of the client's own making
			sig := blockedSignature()
			if sig == last && sig != "" {
				stable++
			} else {
				stable, last = 0, sig
			}
			if stable >= 200 {
				hung = true
				break wait
			}
		}
	}
	c.JournalDone()
	c.Eval(1)
	who := "same goroutine"
	if cs.Other {
		who = "another goroutine"
	}
	c.Distinct(fmt.Sprintf("companion|%s|%s|%s|%v", cs.Client, cs.Companion, cs.When, cs.Other))
	key := fmt.Sprintf("upload-open|client on %s|%s from %s", cs.Client, cs.Companion, who)
	if hung {
		deadlocksSeen++
		c.Observe("calls_while_an_upload_is_open", cs.Client+": deadlock", 1)
		c.Report(key+"|deadlock", "a call made while a streamed upload is open never returns (nor does the upload): stable blocked state "+last,
			map[string]interface{}{"case": cs})
		cancel()
		unblock()
		select {
		case <-done:
		case <-time.After(10 * time.Second):
		}
		return
	}
	c.Observe("calls_while_an_upload_is_open", cs.Client+": "+cs.Companion+" from "+who+" completed", 1)
	if b, err := ioutil.ReadFile(filepath.Join(root, "up", "one.bin")); err != nil || !bytes.Equal(b, data) {
		bad("the upload that was open meanwhile is not stored byte for byte (%v, %d bytes)", err, len(b))
	}
	if cs.Companion == "second-upload" {
		if b, err := ioutil.ReadFile(filepath.Join(root, "up", "two.bin")); err != nil || !bytes.Equal(b, second) {
			bad("the second upload is not stored byte for byte (%v, %d bytes)", err, len(b))
		}
	}
	if len(problems) > 0 {
		c.Report(key+"|wrong-result", strings.Join(problems, "; "), map[string]interface{}{"case": cs, "problems": problems})
	}
}

func runCompanions(c *fw.Ctx) {
	for i, cs := range companionCases() {
		if !c.Mine(i) {
			continue
		}
		if deadlocksSeen >= 4 {
			c.Observe("calls_while_an_upload_is_open", "cases skipped after 4 deadlocks in this worker", 1)
			continue
		}
		execCompanion(c, cs, i)
	}
}

package c18

import (
	"bytes"
	"context"
	"errors"
	"fmt"
	"io"
	"io/ioutil"
	"net/http"
	"net/http/httptest"
	"os"
	"path/filepath"
	"strings"
	"sync/atomic"
	"time"

	"github.com/emersion/go-webdav"
	"github.com/emersion/go-webdav/internal"
	"github.com/emersion/go-webdav/verifharness/fw"
)

// Sequels. A client is one value used for many requests; what one request
// leaves behind in it (or in the inner HTTP client it was given) must not
// change what a later request to an unrelated resource does. Here one request
// of the client is refused by a front end in front of the real handler - the
// way proxies, quota daemons and load balancers refuse: some non-2xx status,
// with or without a body, in whatever media type - and then the same client
// uploads to, stats and reads an unrelated resource the handler accepts. The
// inner HTTP client is an *http.Client whose transport bounds its connections
// per host (http.Transport.MaxConnsPerHost, a common setting): a client that
// keeps what the refused request used can then never send another request, and
// the later upload never terminates. The refusal's shape and the refused call
// are enumerated; all of it is legal HTTP.

type sequelCase struct {
	Failing string `json:"failing"` // the refused call
	Status  int    `json:"status"`
	CT      string `json:"content_type"` // of the refusal ("" = none)
	Body    string `json:"body"`         // "empty" | "short" | "long" | "dav-error"
	Pool    string `json:"pool"`         // connection policy of the inner client
}

var sequelCalls = []string{"upload-drained", "upload-early", "mkdir", "stat", "readdir", "open", "removeall", "copy", "move"}

var sequelCTs = []string{"", "text/plain; charset=utf-8", "text/html", "text/xml; charset=utf-8", "application/xml",
	"application/json", "application/problem+json", "application/octet-stream", "application/x-broken; =", "image/png"}

func sequelCases(thorough bool) []sequelCase {
	var l []sequelCase
	i := 0
	pools := []string{"max-conns-1", "basic-auth-max-conns-1"}
	if thorough {
		pools = []string{"max-conns-1", "max-conns-2", "basic-auth-max-conns-1"}
	}
	for _, pool := range pools {
		for _, f := range sequelCalls {
			for _, ct := range sequelCTs {
				for _, body := range []string{"empty", "short", "long", "dav-error"} {
					sts := []int{403, 507}
					if !thorough {
						// the quick tier alternates the status instead of crossing it
						sts = sts[i%2 : i%2+1]
					}
					i++
					for _, st := range sts {
						l = append(l, sequelCase{Failing: f, Status: st, CT: ct, Body: body, Pool: pool})
					}
				}
			}
		}
	}
	return l
}

func sequelBody(kind string) string {
	switch kind {
	case "short":
		return `{"title":"quota exceeded","detail":"the collection /refused/ is full"}`
	case "long":
		return `{"title":"quota exceeded","detail":"` + strings.Repeat("the collection is full; ", 200) + `"}`
	case "dav-error":
		return `<?xml version="1.0" encoding="utf-8"?><D:error xmlns:D="DAV:"><D:quota-not-exceeded/></D:error>`
	}
	return ""
}

func execSequel(c *fw.Ctx, cs sequelCase, idx int) {
	root := filepath.Join(c.WorkDir, fmt.Sprintf("sequel-%d", idx))
	os.RemoveAll(root)
	if err := os.MkdirAll(filepath.Join(root, "ok"), 0755); err != nil {
		c.Inconclusive(err.Error())
		return
	}
	defer os.RemoveAll(root)
	dav := &webdav.Handler{FileSystem: webdav.LocalFileSystem(root)}
	srv := httptest.NewServer(http.HandlerFunc(func(w http.ResponseWriter, r *http.Request) {
		if !strings.HasPrefix(r.URL.Path, "/refused/") {
			dav.ServeHTTP(w, r)
			return
		}
		if !strings.HasSuffix(r.URL.Path, "/early.bin") {
			io.Copy(ioutil.Discard, r.Body)
		}
		if cs.CT != "" {
			w.Header().Set("Content-Type", cs.CT)
		} else {
			w.Header()["Content-Type"] = nil // no sniffing
		}
		w.WriteHeader(cs.Status)
		io.WriteString(w, sequelBody(cs.Body))
	}))
	defer srv.Close()
	tr := &http.Transport{MaxConnsPerHost: 1}
	refusals := 1
	if strings.HasSuffix(cs.Pool, "max-conns-2") {
		tr.MaxConnsPerHost, refusals = 2, 2
	}
	defer tr.CloseIdleConnections()
	var hc webdav.HTTPClient = &http.Client{Transport: tr}
	if strings.HasPrefix(cs.Pool, "basic-auth") {
		hc = webdav.HTTPClientWithBasicAuth(&http.Client{Transport: tr}, "user", "secret")
	}
	cl, err := webdav.NewClient(hc, srv.URL+"/")
	if err != nil {
		c.Inconclusive(err.Error())
		return
	}
	ctx, cancel := context.WithCancel(context.Background())
	defer cancel()
	var problems []string
	bad := func(format string, a ...interface{}) { problems = append(problems, fmt.Sprintf(format, a...)) }
	upload := func(name string, data []byte) error {
		w, err := cl.Create(ctx, name)
		if err != nil {
			return fmt.Errorf("Create: %w", err)
		}
		for off := 0; off < len(data); off += 4096 {
			end := off + 4096
			if end > len(data) {
				end = len(data)
			}
			if _, err := w.Write(data[off:end]); err != nil {
				break // the failure is Close's to report
			}
		}
		return w.Close()
	}
	refused := func(k int) error {
		switch cs.Failing {
		case "upload-drained":
			return upload(fmt.Sprintf("/refused/a%d.bin", k), []byte("0123456789"))
		case "upload-early":
			return upload(fmt.Sprintf("/refused/%d/early.bin", k), bytes.Repeat([]byte("e"), 64*1024))
		case "mkdir":
			return cl.Mkdir(ctx, fmt.Sprintf("/refused/dir%d", k))
		case "stat":
			_, err := cl.Stat(ctx, "/refused/file")
			return err
		case "readdir":
			_, err := cl.ReadDir(ctx, "/refused/", k%2 == 1)
			return err
		case "open":
			rc, err := cl.Open(ctx, "/refused/file")
			if err == nil {
				rc.Close()
			}
			return err
		case "removeall":
			return cl.RemoveAll(ctx, "/refused/file")
		case "copy":
			return cl.Copy(ctx, "/refused/file", "/refused/copy", nil)
		case "move":
			return cl.Move(ctx, "/refused/file", "/refused/moved", nil)
		}
		return errors.New("verif: unknown call")
	}
	after := bytes.Repeat([]byte("sequel "), 3000) // 21000 bytes
	var stage atomic.Value                         // monitor state, read while the caller may be blocked
	stage.Store("the refused call")
	done := make(chan struct{})
	c.Journal(cs)
	go func() {
		defer close(done)
		for k := 0; k < refusals; k++ {
			err := refused(k)
			var he *internal.HTTPError
			switch {
			case err == nil && strings.HasPrefix(cs.Failing, "upload"):
				// (what the other calls make of a refusal is C14's business)
				bad("the upload was answered %d and Close returned nil", cs.Status)
			case cs.Failing == "upload-drained" && (!errors.As(err, &he) || he.Code != cs.Status):
				// the front end read the whole body and then answered: the
				// inner client returns that answer, and Close owes its status
				bad("the upload was answered %d after its body had been read, Close returned %v", cs.Status, err)
			}
		}
		stage.Store("the upload that follows it")
		if err := upload("/ok/after.bin", after); err != nil {
			bad("upload to an unrelated resource after the refusal: Close returned %v", err)
		}
		stage.Store("the Stat that follows it")
		if fi, err := cl.Stat(ctx, "/ok/after.bin"); err != nil || fi.Size != int64(len(after)) {
			bad("Stat after the refusal: %+v, %v", fi, err)
		}
		stage.Store("the Open that follows it")
		if rc, err := cl.Open(ctx, "/ok/after.bin"); err != nil {
			bad("Open after the refusal: %v", err)
		} else {
			b, _ := ioutil.ReadAll(rc)
			rc.Close()
			if !bytes.Equal(b, after) {
				bad("Open after the refusal read %d bytes, expected %d", len(b), len(after))
			}
		}
	}()
	hung, state, wd := awaitOrDeadlock(done)
	stuckAt := stage.Load() // before anything is unblocked
	c.JournalDone()
	if wd {
		c.Inconclusive(fmt.Sprintf("sequel watchdog fired for %+v", cs))
	}
	if hung || wd {
		cancel()
		srv.CloseClientConnections()
		tr.CloseIdleConnections()
		select {
		case <-done:
		case <-time.After(10 * time.Second):
		}
	}
	if wd {
		return
	}
	c.Eval(1)
	c.Distinct(fmt.Sprintf("sequel|%s|%d|%s|%s|%s", cs.Failing, cs.Status, cs.CT, cs.Body, cs.Pool))
	ctClass := "no content type"
	if cs.CT != "" {
		ctClass = strings.SplitN(cs.CT, ";", 2)[0]
	}
	c.Observe("sequels_refusal_shapes", fmt.Sprintf("%s, %s body", ctClass, cs.Body), 1)
	key := fmt.Sprintf("sequel|after a refused %s|inner client %s", strings.SplitN(cs.Failing, "-", 2)[0], cs.Pool)
	if hung {
		deadlocksSeen++
		c.Observe("sequels", "deadlock", 1)
		c.Report(key+"|deadlock", fmt.Sprintf("after a request of the same client had been answered %d (%s, %s body), %s never returns: stable blocked state %s", cs.Status, ctClass, cs.Body, stuckAt, firstLines(state, 8)),
			map[string]interface{}{"case": cs, "stage": stuckAt})
		return
	}
	c.Observe("sequels", cs.Failing+" refused, then upload / Stat / Open: completed", 1)
	if b, err := ioutil.ReadFile(filepath.Join(root, "ok", "after.bin")); err != nil || !bytes.Equal(b, after) {
		bad("the upload after the refusal is not stored byte for byte (%v, %d bytes)", err, len(b))
	}
	if len(problems) > 0 {
		c.Report(key+"|wrong-result", strings.Join(problems, "; "), map[string]interface{}{"case": cs, "problems": problems})
	}
}

func runSequels(c *fw.Ctx) {
	for i, cs := range sequelCases(c.Thorough()) {
		if !c.Mine(i) {
			continue
		}
		if deadlocksSeen >= 4 {
			c.Observe("sequels", "cases skipped after 4 deadlocks in this worker", 1)
			continue
		}
		execSequel(c, cs, i)
	}
}

package c16

import (
	"math/rand"
	"strings"
	"unicode/utf8"
)

// atoms the byte-string generator draws from, by class.
var (
	atomPlain   = []string{"a", "b", "Z", "0", "9", "-", "_", ".", "~", "abc", "1f3a9c", "W", "/"}
	atomQuote   = []string{`"`, `"`, `""`, `'`, "`", `"a"`, `W/"`, `", "`}
	atomSlash   = []string{`\`, `\\`, `\"`, `\n`, `\x41`, `\u00e9`, `\U0001F600`, `\101`, "\\'", `\a`, `\z`, `\x`, `\u12`}
	atomCtl     = []string{"\x00", "\x01", "\t", "\n", "\r", "\x1b", "\x1f", "\x7f", "\r\n"}
	atomSpace   = []string{" ", "  ", " a", "a "}
	atomUnicode = []string{"\u00e9", "\u00df", "\u20ac", "\u65e5\u672c", "\U0001F600", "\u2028", "\u2029", "\ufeff", "\ufffd", "\u0085", "\u00a0", "\ue000", "\U0010ffff", "\u0301", "\u200b", "\u00ad", "\U000e0001"}
	atomInvalid = []string{"\x80", "\xff", "\xc0", "\xc0\xaf", "\xe2\x82", "\xed\xa0\x80", "\xf4\x90\x80\x80", "\xfe", "\xc3"}
	atomXML     = []string{"<", ">", "&", "]]>", "&amp;", "&#34;", "<!--", "<a/>", "%", "%22", "%q", "%s"}
)

var atomClasses = [][]string{atomPlain, atomQuote, atomSlash, atomCtl, atomSpace, atomUnicode, atomInvalid, atomXML}

// genBytes returns an arbitrary byte string: a few classes are switched on
// per string so that every combination of features turns up.
func genBytes(r *rand.Rand) string {
	switch r.Intn(40) {
	case 0:
		return ""
	case 1:
		// raw random bytes
		n := 1 + r.Intn(24)
		b := make([]byte, n)
		for i := range b {
			b[i] = byte(r.Intn(256))
		}
		return string(b)
	case 2:
		// random runes over the whole code space (valid UTF-8)
		n := 1 + r.Intn(12)
		var sb strings.Builder
		for i := 0; i < n; i++ {
			sb.WriteRune(genRune(r))
		}
		return sb.String()
	}
	mask := r.Intn(1 << uint(len(atomClasses)))
	if mask == 0 {
		mask = 1
	}
	var on [][]string
	for i, cl := range atomClasses {
		if mask&(1<<uint(i)) != 0 {
			on = append(on, cl)
		}
	}
	n := 1 + r.Intn(10)
	if r.Intn(50) == 0 {
		n = 50 + r.Intn(300)
	}
	var sb strings.Builder
	for i := 0; i < n; i++ {
		cl := on[r.Intn(len(on))]
		sb.WriteString(cl[r.Intn(len(cl))])
	}
	return sb.String()
}

func genRune(r *rand.Rand) rune {
	for {
		var x rune
		switch r.Intn(5) {
		case 0:
			x = rune(r.Intn(0x80))
		case 1:
			x = rune(0x80 + r.Intn(0x800-0x80))
		case 2:
			x = rune(0x800 + r.Intn(0x10000-0x800))
		case 3:
			x = rune(0x10000 + r.Intn(0x110000-0x10000))
		default:
			// around interesting edges
			edges := []rune{0x7f, 0x80, 0x9f, 0xa0, 0x7ff, 0x800, 0xd7ff, 0xe000, 0xfffd, 0xfffe, 0xffff, 0x10000, 0x10ffff}
			x = edges[r.Intn(len(edges))]
		}
		if utf8.ValidRune(x) {
			return x
		}
	}
}

// features abstracts a byte string into the set of character classes it
// contains (used for distinct-case keys and observation tables).
func features(s string) string {
	if s == "" {
		return "empty"
	}
	var f [9]bool
	names := [9]string{"plain", "dquote", "backslash", "quote-other", "ctl", "space", "non-ascii", "invalid-utf8", "xml-special"}
	for i := 0; i < len(s); {
		r, size := utf8.DecodeRuneInString(s[i:])
		switch {
		case r == utf8.RuneError && size == 1:
			f[7] = true
		case r == '"':
			f[1] = true
		case r == '\\':
			f[2] = true
		case r == '\'' || r == '`':
			f[3] = true
		case r < 0x20 || r == 0x7f:
			f[4] = true
		case r == ' ':
			f[5] = true
		case r >= 0x80:
			f[6] = true
		case r == '<' || r == '>' || r == '&':
			f[8] = true
		default:
			f[0] = true
		}
		i += size
	}
	var l []string
	for i, on := range f {
		if on {
			l = append(l, names[i])
		}
	}
	return strings.Join(l, "+")
}

// mutate applies one small edit to s.
func mutate(r *rand.Rand, s string, alphabet string) string {
	b := []byte(s)
	pick := func() byte { return alphabet[r.Intn(len(alphabet))] }
	switch op := r.Intn(7); {
	case op == 0 && len(b) > 0: // delete
		i := r.Intn(len(b))
		return string(append(b[:i:i], b[i+1:]...))
	case op == 1: // insert
		i := r.Intn(len(b) + 1)
		out := append([]byte{}, b[:i]...)
		out = append(out, pick())
		return string(append(out, b[i:]...))
	case op == 2 && len(b) > 0: // replace
		b[r.Intn(len(b))] = pick()
		return string(b)
	case op == 3 && len(b) > 1: // swap neighbours
		i := r.Intn(len(b) - 1)
		b[i], b[i+1] = b[i+1], b[i]
		return string(b)
	case op == 4 && len(b) > 0: // truncate
		return string(b[:r.Intn(len(b))])
	case op == 5 && len(b) > 0: // change case of one letter
		i := r.Intn(len(b))
		switch {
		case b[i] >= 'a' && b[i] <= 'z':
			b[i] -= 32
		case b[i] >= 'A' && b[i] <= 'Z':
			b[i] += 32
		default:
			b[i] = pick()
		}
		return string(b)
	default: // duplicate a slice
		if len(b) == 0 {
			return string(pick())
		}
		i := r.Intn(len(b))
		j := i + 1 + r.Intn(len(b)-i)
		out := append([]byte{}, b[:j]...)
		out = append(out, b[i:j]...)
		return string(append(out, b[j:]...))
	}
}

func trimASCIISpace(s string) string {
	return strings.Trim(s, " \t\r\n\f\v")
}

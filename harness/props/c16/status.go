package c16

import (
	"encoding/xml"
	"fmt"
	"math/rand"
	"net/http"
	"strings"

	"github.com/emersion/go-webdav/internal"
	"github.com/emersion/go-webdav/verifharness/fw"
)

// Status lines: internal.Status (MarshalText / UnmarshalText) and the
// DAV:status element inside propstat and response.

type statusCase struct {
	Mode string `json:"mode"` // roundtrip | decode
	// roundtrip
	Code       int    `json:"code,omitempty"`
	Phrase     B      `json:"phrase,omitempty"`
	PhraseKind string `json:"phrase_kind,omitempty"` // empty | standard | custom
	// decode
	Text  B      `json:"text,omitempty"`
	Class string `json:"class,omitempty"`
}

// stdPhrase is the harness's own table of registered reason phrases (IANA
// HTTP status code registry); used to build cases and for the "empty phrase
// may come back as the standard phrase" allowance.
var stdPhrase = map[int]string{
	100: "Continue", 101: "Switching Protocols", 102: "Processing", 103: "Early Hints",
	200: "OK", 201: "Created", 202: "Accepted", 203: "Non-Authoritative Information", 204: "No Content", 205: "Reset Content",
	206: "Partial Content", 207: "Multi-Status", 208: "Already Reported", 226: "IM Used",
	300: "Multiple Choices", 301: "Moved Permanently", 302: "Found", 303: "See Other", 304: "Not Modified", 305: "Use Proxy",
	307: "Temporary Redirect", 308: "Permanent Redirect",
	400: "Bad Request", 401: "Unauthorized", 402: "Payment Required", 403: "Forbidden", 404: "Not Found", 405: "Method Not Allowed",
	406: "Not Acceptable", 407: "Proxy Authentication Required", 408: "Request Timeout", 409: "Conflict", 410: "Gone",
	411: "Length Required", 412: "Precondition Failed", 413: "Request Entity Too Large", 414: "Request URI Too Long",
	415: "Unsupported Media Type", 416: "Requested Range Not Satisfiable", 417: "Expectation Failed", 418: "I'm a teapot",
	421: "Misdirected Request", 422: "Unprocessable Entity", 423: "Locked", 424: "Failed Dependency", 425: "Too Early",
	426: "Upgrade Required", 428: "Precondition Required", 429: "Too Many Requests", 431: "Request Header Fields Too Large",
	451: "Unavailable For Legal Reasons",
	500: "Internal Server Error", 501: "Not Implemented", 502: "Bad Gateway", 503: "Service Unavailable", 504: "Gateway Timeout",
	505: "HTTP Version Not Supported", 506: "Variant Also Negotiates", 507: "Insufficient Storage", 508: "Loop Detected",
	510: "Not Extended", 511: "Network Authentication Required",
}

// isStdPhrase: S - an empty reason phrase may come back as the standard
// phrase. Either the harness's table or net/http's (the Go release decides
// the wording of a few codes) is taken.
func isStdPhrase(code int, text string) bool {
	return text != "" && (text == stdPhrase[code] || text == http.StatusText(code))
}

// custom reason phrases: reason-phrase = *( HTAB / SP / VCHAR / obs-text ).
var customPhrases = []string{
	"Custom Phrase", "x", "OK", "Not Found", " leading space", "trailing space ", "two  spaces", "tab\there",
	"HTTP/1.1 404 Not Found", "200", "ünïcödé ✓", "<b>&amp;</b> \"quoted\" 'single'",
}

// statusClass is the harness's reading of RFC 4918's status grammar
// ("HTTP/1.1" SP 3DIGIT SP reason-phrase). class "" = the text is in the
// grammar or in a don't-care zone; then (code, phrase, checkValue) say what an
// accepting decoder must have produced.
func statusClass(text string) (class string, code int, phrase string, checkValue bool) {
	if text == "" {
		return "empty", 0, "", false
	}
	f := strings.SplitN(text, " ", 3)
	if len(f) == 1 {
		return "missing-field", 0, "", false
	}
	codeField := f[1]
	shape := codeShape(codeField)
	if shape != "" {
		return shape, 0, "", false
	}
	if !strings.HasPrefix(strings.ToUpper(f[0]), "HTTP/") {
		return "non-HTTP-version", 0, "", false
	}
	code = int(codeField[0]-'0')*100 + int(codeField[1]-'0')*10 + int(codeField[2]-'0')
	if len(f) == 2 {
		// "HTTP/1.1 200": no SP before the (empty) phrase. Lenient readers
		// take it; don't-care, but the code must be right when accepted.
		return "", code, "", true
	}
	return "", code, f[2], true
}

func codeShape(s string) string {
	if s == "" {
		return "missing-field"
	}
	digits := true
	for i := 0; i < len(s); i++ {
		if s[i] < '0' || s[i] > '9' {
			digits = false
		}
	}
	switch {
	case digits && len(s) == 3:
		return ""
	case digits:
		return "non-3-digit-code"
	case (s[0] == '+' || s[0] == '-') && len(s) > 1 && strings.Trim(s[1:], "0123456789") == "":
		return "signed-code"
	}
	return "non-numeric-code"
}

func execStatus(c *fw.Ctx, cs statusCase) {
	c.Eval(1)
	if cs.Mode == "roundtrip" {
		execStatusRoundTrip(c, cs)
	} else {
		execStatusDecode(c, cs)
	}
}

func execStatusRoundTrip(c *fw.Ctx, cs statusCase) {
	phrase := string(cs.Phrase)
	c.Distinct(fmt.Sprintf("status|roundtrip|%dxx|%s|%s", cs.Code/100, cs.PhraseKind, features(phrase)))
	c.Observe("status_roundtrip", fmt.Sprintf("%dxx|phrase=%s", cs.Code/100, cs.PhraseKind), 1)
	type path struct {
		name string
		f    func() (wire string, back internal.Status, err error)
	}
	paths := []path{
		{"MarshalText->UnmarshalText", func() (string, internal.Status, error) {
			st := internal.Status{Code: cs.Code, Text: phrase}
			b, err := st.MarshalText()
			if err != nil {
				return string(b), internal.Status{}, fmt.Errorf("MarshalText: %v", err)
			}
			back := internal.Status{Code: -12345, Text: "\x00sentinel"}
			err = back.UnmarshalText(b)
			return string(b), back, err
		}},
	}
	if xmlChardataOK(phrase) {
		paths = append(paths,
			path{"xml propstat/status", func() (string, internal.Status, error) {
				ps := &internal.PropStat{Status: internal.Status{Code: cs.Code, Text: phrase}}
				b, err := xml.Marshal(ps)
				if err != nil {
					return string(b), internal.Status{}, fmt.Errorf("xml.Marshal: %v", err)
				}
				var back internal.PropStat
				back.Status = internal.Status{Code: -12345, Text: "\x00sentinel"}
				err = xml.Unmarshal(b, &back)
				return string(b), back.Status, err
			}},
			path{"xml response/status", func() (string, internal.Status, error) {
				resp := &internal.Response{Hrefs: []internal.Href{{Path: "/x"}}, Status: &internal.Status{Code: cs.Code, Text: phrase}}
				b, err := xml.Marshal(resp)
				if err != nil {
					return string(b), internal.Status{}, fmt.Errorf("xml.Marshal: %v", err)
				}
				var back internal.Response
				if err := xml.Unmarshal(b, &back); err != nil {
					return string(b), internal.Status{}, err
				}
				if back.Status == nil {
					return string(b), internal.Status{}, fmt.Errorf("status element lost")
				}
				return string(b), *back.Status, nil
			}})
	}
	for _, p := range paths {
		var wire string
		var back internal.Status
		var err error
		panicked, pv, stack := fw.Guard(func() { wire, back, err = p.f() })
		c.Observe("status_roundtrip_paths", p.name, 1)
		if cs.Code == 404 && cs.PhraseKind == "custom" && p.name == "xml propstat/status" && wantSample(c, "status") {
			c.Sample(map[string]interface{}{"prim": "status", "code": cs.Code, "phrase": phrase, "wire": wire, "decoded_code": back.Code, "decoded_text": back.Text})
		}
		got := map[string]interface{}{"path": p.name, "wire": B(wire), "decoded_code": back.Code, "decoded_text": B(back.Text), "err": fw.ErrString(err)}
		okText := back.Text == phrase || (phrase == "" && isStdPhrase(cs.Code, back.Text))
		switch {
		case panicked:
			reportPanic(c, "status", p.name, pv, stack, cs)
		case err != nil:
			c.Report("roundtrip|status|decode-error", fmt.Sprintf("status {%d %q} written as %q is refused on the way back (%s): %v", cs.Code, phrase, clip(wire), p.name, err), witness{"status", cs, got})
		case back.Code != cs.Code:
			c.Report("roundtrip|status|code-changed", fmt.Sprintf("status {%d %q} written as %q comes back with code %d (%s)", cs.Code, phrase, clip(wire), back.Code, p.name), witness{"status", cs, got})
		case !okText:
			c.Report("roundtrip|status|phrase-changed", fmt.Sprintf("status {%d %q} written as %q comes back with phrase %q (%s)", cs.Code, phrase, clip(wire), back.Text, p.name), witness{"status", cs, got})
		}
	}
}

func execStatusDecode(c *fw.Ctx, cs statusCase) {
	text := string(cs.Text)
	cls, wantCode, wantPhrase, check := statusClass(text)
	if cs.Class != "" && cs.Class != "ok" && cs.Class != cls || cs.Class == "ok" && cls != "" {
		c.Inconclusive(fmt.Sprintf("C16 harness: status near-miss %q labelled %q but classified %q", text, cs.Class, cls))
		return
	}
	label := cls
	if label == "" {
		label = "in-grammar-or-dont-care"
	}
	c.Distinct("status|decode|" + label + "|" + features(text))
	type dec struct {
		name string
		f    func() (internal.Status, error)
	}
	const sentinelCode = -12345
	decs := []dec{{"UnmarshalText", func() (internal.Status, error) {
		st := internal.Status{Code: sentinelCode, Text: "\x00sentinel"}
		err := st.UnmarshalText([]byte(text))
		return st, err
	}}}
	if xmlChardataOK(text) {
		decs = append(decs, dec{"xml propstat/status", func() (internal.Status, error) {
			var sb strings.Builder
			sb.WriteString(`<propstat xmlns="DAV:"><prop/><status>`)
			xml.EscapeText(&sb, []byte(text))
			sb.WriteString(`</status></propstat>`)
			var ps internal.PropStat
			ps.Status = internal.Status{Code: sentinelCode, Text: "\x00sentinel"}
			err := xml.Unmarshal([]byte(sb.String()), &ps)
			return ps.Status, err
		}})
	}
	for _, d := range decs {
		var st internal.Status
		var err error
		panicked, pv, stack := fw.Guard(func() { st, err = d.f() })
		c.Observe("status_decode", label+"|"+verdict(err, panicked), 1)
		got := map[string]interface{}{"decoder": d.name, "decoded_code": st.Code, "decoded_text": B(st.Text), "err": fw.ErrString(err)}
		if st.Code == sentinelCode {
			got["decoded_code"] = "(target left untouched)"
		}
		switch {
		case panicked:
			reportPanic(c, "status", d.name, pv, stack, cs)
		case cls != "":
			if err == nil {
				c.Report("decode|status|accepts-"+cls, fmt.Sprintf("%s accepts %q (%s, outside the status grammar) without an error; result code=%v text=%q", d.name, text, cls, got["decoded_code"], st.Text), witness{"status", cs, got})
			}
		case err == nil && check:
			okText := st.Text == wantPhrase || (wantPhrase == "" && isStdPhrase(wantCode, st.Text))
			if strings.ContainsAny(wantPhrase, "\r\n\x00") {
				okText = true // outside reason-phrase: no expectation on the text
			}
			if st.Code != wantCode {
				c.Report("decode|status|code-changed", fmt.Sprintf("%s reads %q as code %d", d.name, text, st.Code), witness{"status", cs, got})
			} else if !okText {
				c.Report("decode|status|phrase-changed", fmt.Sprintf("%s reads %q as phrase %q", d.name, text, st.Text), witness{"status", cs, got})
			}
		}
	}
}

func statusNearMisses() []labelled {
	return []labelled{
		{"", "empty"},
		{"HTTP/1.1 -5 x", "signed-code"}, {"HTTP/1.1 +200 OK", "signed-code"}, {"HTTP/1.1 -200 OK", "signed-code"}, {"HTTP/1.1 +20 OK", "signed-code"}, {"HTTP/1.1 -0 OK", "signed-code"},
		{"HTTP/1.1 2000 OK", "non-3-digit-code"}, {"HTTP/1.1 20 OK", "non-3-digit-code"}, {"HTTP/1.1 2 OK", "non-3-digit-code"}, {"HTTP/1.1 0200 OK", "non-3-digit-code"},
		{"HTTP/1.1 00200 OK", "non-3-digit-code"}, {"HTTP/1.1 99999999999999999999 OK", "non-3-digit-code"}, {"HTTP/1.1 0 OK", "non-3-digit-code"},
		{"HTTP/1.1 2x0 OK", "non-numeric-code"}, {"HTTP/1.1 0x1F OK", "non-numeric-code"}, {"HTTP/1.1 2_0 OK", "non-numeric-code"}, {"HTTP/1.1 2.0 OK", "non-numeric-code"},
		{"HTTP/1.1 200.0 OK", "non-numeric-code"}, {"HTTP/1.1 ２００ OK", "non-numeric-code"}, {"HTTP/1.1 OK 200", "non-numeric-code"}, {"HTTP/1.1 1e2 OK", "non-numeric-code"},
		{"HTTP/1.1 +-200 OK", "non-numeric-code"}, {"HTTP/1.1 200\tOK", "non-numeric-code"}, {"200 OK", "non-numeric-code"}, {"HTTP/1.1 OK", "non-numeric-code"},
		{" HTTP/1.1 200 OK", "non-numeric-code"}, {"HTTP/1.1 + OK", "non-numeric-code"},
		{"HTTP/1.1", "missing-field"}, {"200", "missing-field"}, {"OK", "missing-field"}, {"HTTP/1.1\t200\tOK", "missing-field"}, {"HTTP/1.1  200 OK", "missing-field"},
		{"HTTP/1.1 ", "missing-field"}, {"HTTP/1.1  OK", "missing-field"}, {" ", "missing-field"}, {"  ", "missing-field"},
		{"FOO 200 OK", "non-HTTP-version"}, {"200 200 OK", "non-HTTP-version"}, {"ICY 200 OK", "non-HTTP-version"}, {"HTTP 200 OK", "non-HTTP-version"}, {"1.1 200 OK", "non-HTTP-version"},
		// in the grammar / don't-care, value-checked when accepted
		{"HTTP/1.1 200 OK", "ok"}, {"HTTP/1.1 200 ", "ok"}, {"HTTP/1.1 200", "ok"}, {"HTTP/1.1 299 ", "ok"}, {"HTTP/1.0 404 Not Found", "ok"}, {"HTTP/2 207 Multi-Status", "ok"},
		{"http/1.1 200 OK", "ok"}, {"HTTP/1.1 099 x", "ok"}, {"HTTP/1.1 000 ", "ok"}, {"HTTP/1.1 999 x y  z", "ok"},
	}
}

func runStatus(c *fw.Ctx) {
	// Exhaustive: codes 100-999 x {empty, standard, each custom phrase}.
	idx := 0
	for code := 100; code <= 999; code++ {
		if c.Mine(idx) {
			execStatus(c, statusCase{Mode: "roundtrip", Code: code, PhraseKind: "empty"})
			if p, ok := stdPhrase[code]; ok {
				execStatus(c, statusCase{Mode: "roundtrip", Code: code, Phrase: B(p), PhraseKind: "standard"})
			}
			for _, p := range customPhrases {
				execStatus(c, statusCase{Mode: "roundtrip", Code: code, Phrase: B(p), PhraseKind: "custom"})
			}
		}
		idx++
	}
	if c.Shard == 0 {
		c.Observe("exhaustive", fmt.Sprintf("status codes 100-999 x {empty, standard (%d registered), %d custom phrases}", len(stdPhrase), len(customPhrases)), 1)
		for _, nm := range statusNearMisses() {
			execStatus(c, statusCase{Mode: "decode", Text: B(nm.text), Class: nm.class})
		}
	}
	// Generated reason phrases (any bytes of the reason-phrase alphabet).
	n := c.Pick(30000, 300000)
	for i := 0; i < n; i++ {
		if !c.Mine(i) {
			continue
		}
		r := c.Rand("status-phrase", i)
		code := 100 + r.Intn(900)
		execStatus(c, statusCase{Mode: "roundtrip", Code: code, Phrase: B(genPhrase(r)), PhraseKind: "generated"})
	}
	// Generated wire texts.
	n = c.Pick(60000, 600000)
	const alphabet = "HTP/1.0 29+-x\t\nOK"
	seeds := []string{"HTTP/1.1 200 OK", "HTTP/1.1 404 Not Found", "HTTP/1.1 207 Multi-Status", "HTTP/1.1 299 ", "HTTP/1.0 500 x"}
	for i := 0; i < n; i++ {
		if !c.Mine(i) {
			continue
		}
		r := c.Rand("status-text", i)
		var text string
		switch r.Intn(6) {
		case 0:
			text = genBytes(r)
		case 1:
			// a code field of arbitrary shape
			fields := []string{"", "2", "20", "200", "2000", "+200", "-200", "-5", "0200", "2 0", "2x", "٢٠٠", "+", "-", "20000000000000000000", "0", "00", "000", "999", "1000"}
			text = "HTTP/1.1 " + fields[r.Intn(len(fields))] + " " + genPhrase(r)
		case 2:
			versions := []string{"HTTP/1.1", "HTTP/1.0", "HTTP/2", "HTTP", "FOO", "", "200", "http/1.1", "HTTPS/1.1", "X"}
			text = versions[r.Intn(len(versions))] + fmt.Sprintf(" %03d ", r.Intn(1000)) + genPhrase(r)
		default:
			text = seeds[r.Intn(len(seeds))]
			for k := 1 + r.Intn(2); k > 0; k-- {
				text = mutate(r, text, alphabet)
			}
		}
		execStatus(c, statusCase{Mode: "decode", Text: B(text)})
	}
}

// genPhrase draws from reason-phrase = *( HTAB / SP / VCHAR / obs-text ).
func genPhrase(r *rand.Rand) string {
	n := r.Intn(12)
	b := make([]byte, 0, n)
	for i := 0; i < n; i++ {
		switch r.Intn(8) {
		case 0:
			b = append(b, ' ')
		case 1:
			b = append(b, '\t')
		case 2:
			b = append(b, byte(0x80+r.Intn(0x80))) // obs-text (usually not valid UTF-8: text path only)
		case 3:
			b = append(b, []byte(atomUnicode[r.Intn(len(atomUnicode))])...)
		default:
			b = append(b, byte(0x21+r.Intn(0x7e-0x21+1)))
		}
	}
	return string(b)
}

// Package c16 decides property C16: every wire primitive of go-webdav
// survives encode-then-decode unchanged on its whole domain, and every
// decoder refuses (error, no panic, no silently different value) the texts
// outside its grammar.
//
// The monitors call the real exported codec methods of
// github.com/emersion/go-webdav/internal (and webdav.ConditionalMatch), the
// same codecs through encoding/xml and the library's element structs, and the
// unexported CalDAV UTC date-time end-to-end through caldav.Client and
// caldav.Handler, and the header side of entity tags and HTTP dates through
// the CalDAV / CardDAV servers and clients. Oracles are written here from the grammars; nothing of the
// library is used to compute an expectation.
package c16

import (
	"encoding/hex"
	"encoding/json"
	"fmt"
	"strconv"
	"strings"

	"github.com/emersion/go-webdav/verifharness/fw"
)

// B is a byte string that survives JSON (witness files) even when it is not
// valid UTF-8: it is written as {"q": Go-quoted form, "hex": bytes}.
type B string

func (b B) MarshalJSON() ([]byte, error) {
	return json.Marshal(map[string]string{"q": strconv.Quote(string(b)), "hex": hex.EncodeToString([]byte(b))})
}

func (b *B) UnmarshalJSON(data []byte) error {
	var m map[string]string
	if err := json.Unmarshal(data, &m); err != nil {
		return err
	}
	raw, err := hex.DecodeString(m["hex"])
	if err != nil {
		return err
	}
	*b = B(raw)
	return nil
}

// witness is what is written to a replay file: the primitive and the literal
// case. Observed values are added under "got" for the reader; Replay ignores
// them.
type witness struct {
	Prim string      `json:"prim"`
	Case interface{} `json:"case"`
	Got  interface{} `json:"got,omitempty"`
}

type rawWitness struct {
	Prim string          `json:"prim"`
	Case json.RawMessage `json:"case"`
}

// verdict strings used in observation tables.
func verdict(err error, panicked bool) string {
	switch {
	case panicked:
		return "panic"
	case err != nil:
		return "rejected"
	}
	return "accepted"
}

func reportPanic(c *fw.Ctx, prim, op string, pv interface{}, stack string, cs interface{}) {
	if site := fw.PanicSite(stack); strings.Contains(site, "verifharness") || site == "?" {
		// the innermost frame is harness code: a harness bug, never a finding
		c.Inconclusive(fmt.Sprintf("C16 harness panic in %s %s: %v\n%s", prim, op, pv, stack))
		return
	}
	c.Report("panic|"+prim+"|"+fw.PanicSite(stack), fmt.Sprintf("%s %s panicked: %v", prim, op, pv),
		witness{Prim: prim, Case: cs, Got: map[string]string{"panic": fmt.Sprint(pv)}})
}

func run(c *fw.Ctx) {
	runDepthOverwrite(c)
	runTags(c)
	runStatus(c)
	runHTTPDate(c)
	runHref(c)
	runCalDT(c)
	runRetained(c)
}

func replay(c *fw.Ctx, w json.RawMessage) {
	var rw rawWitness
	if err := json.Unmarshal(w, &rw); err != nil {
		fmt.Println("C16 replay: cannot read witness:", err)
		return
	}
	switch rw.Prim {
	case "depth", "overwrite":
		var cs tokenCase
		if json.Unmarshal(rw.Case, &cs) == nil {
			execToken(c, cs)
		}
	case "etag":
		var cs tagCase
		if json.Unmarshal(rw.Case, &cs) == nil {
			execTag(c, cs)
		}
	case "status":
		var cs statusCase
		if json.Unmarshal(rw.Case, &cs) == nil {
			execStatus(c, cs)
		}
	case "http-date":
		var cs dateCase
		if json.Unmarshal(rw.Case, &cs) == nil {
			execDate(c, cs)
		}
	case "href":
		var cs hrefCase
		if json.Unmarshal(rw.Case, &cs) == nil {
			execHref(c, cs)
		}
	case "retained":
		var cs retCase
		if json.Unmarshal(rw.Case, &cs) == nil {
			execRet(c, cs)
		}
	case "caldav-datetime":
		var probe struct {
			Side string `json:"side"`
		}
		json.Unmarshal(rw.Case, &probe)
		if probe.Side == "client" {
			var cs calClientCase
			if json.Unmarshal(rw.Case, &cs) == nil {
				execCalClient(c, cs)
			}
		} else {
			var cs calServerCase
			if json.Unmarshal(rw.Case, &cs) == nil {
				execCalServer(c, cs)
			}
		}
	default:
		fmt.Println("C16 replay: unknown primitive", rw.Prim)
	}
}

func init() {
	fw.Register(&fw.Property{
		ID:     "C16",
		Run:    run,
		Replay: replay,
		Rule: "round trip decode(encode(x)) == x through the exported codec methods, through encoding/xml on the library's element structs " +
			"(getetag, getlastmodified, propstat/status, response/href+status) and, for the unexported CalDAV UTC date-time, end-to-end " +
			"(caldav.Client.QueryCalendar -> captured request read by the harness; harness-written calendar-query -> caldav.Handler -> recording backend). " +
			"EXHAUSTIVE sub-universes: Depth {0,1,infinity}, Overwrite {T,F}, status codes 100-999 x {empty, standard, 12 custom phrases} x {text, propstat XML, response XML}, " +
			"entity tags of every 1- and 2-byte string. Generated: entity tags (quotes, backslashes, control bytes, non-ASCII, invalid UTF-8, escape look-alikes), " +
			"instants of years 0001-9999 (boundaries, DST edges, uniform) x zones (UTC, fixed offsets within +-14h incl. odd seconds, named zones from the embedded tz database), " +
			"hrefs = absolute paths with non-empty first segment over all 256 byte values. Rejection side: enumerated near-misses per grammar plus mutated/random texts; " +
			"a text is in the must-reject set only when it is outside every reading of the grammar (see assumptions), everything else is don't-care on accept/reject but value-checked when accepted. " +
			"Retained-output family (every encoder that hands out a []byte or string: Status/ETag/Time/Href MarshalText, ETag/Href/Depth String, FormatOverwrite, xml.Marshal of propstat/getetag/getlastmodified/response): " +
			"encode A and keep the result plus a copy, encode 2-5 more values whose encodings are shorter/equal/longer, then every kept output must equal its copy and decode to its value; " +
			"concurrent variant with 2-8 goroutines each decoding its own kept output after yielding, under GOMAXPROCS 1 and 4; decoder mirror: decode from one reused buffer that is scribbled over after each call, decoded values must not change. " +
			"Header side (headers.go): one case in four of the generated tags / instants / wire texts, all 1-byte tags, all boundary instants and all enumerated near-misses also travel as the ETag / Last-Modified field of the answer to GET and PUT of a calendar object and an address object: " +
			"round trip backend object -> caldav.Handler / carddav.Handler -> in-process HTTP -> caldav.Client / carddav.Client Get*Object / Put*Object -> object (same oracles; the Last-Modified field on the wire must be an IMF-fixdate of the instant); decode = the same four client calls on a canned answer carrying the text (keys decode|etag-header|..., decode|http-date-header|...). " +
			"CalDAV date-time positions: three time-ranges plus calendar-data/expand, in calendar-query and calendar-multiget, client side (QueryCalendar, MultiGetCalendar) and server side (observed at the CalendarCompRequest the backend receives). " +
			"distinct_nontrivial counts distinct abstract case classes (primitive, path, feature set of the value / near-miss class, zone kind and year bucket, status class and phrase kind).",
		Assumptions: []string{
			"entity tag: must-reject = texts that (after trimming ASCII white space) are not of the form DQUOTE ... DQUOTE, or contain an interior DQUOTE not preceded by a backslash; white-space-wrapped quoted tags are don't-care; a quoted text without backslash must, if accepted, decode to exactly its interior bytes",
			"status: must-reject = empty text, fewer than two SP-separated fields, a code field that is not exactly three ASCII digits, a first field that does not start with HTTP/ (any case); 'HTTP/1.1 200' without the SP before an empty phrase is don't-care; codes 000-099 are don't-care; an empty reason phrase may come back as the standard phrase",
			"HTTP date: must-reject = texts that neither contain the literal GMT nor have the asctime shape, plus enumerated corruptions (field out of range, trailing garbage, 2-/5-digit year, missing field); case-folded month/day names, wrong day names, fractional seconds, 1-digit days, zero-padded asctime days, runs of spaces and the zone tokens UTC / UT / Z in place of GMT are don't-care (value-preserving leniency); instants are compared to the second (a sub-second part may be truncated or rounded up)",
			"CalDAV UTC date-time: wire grammar YYYYMMDD'T'HHMMSS'Z' read by an independent strict parser (proleptic Gregorian, seconds 00-59); fractional seconds and white-space-wrapped texts are don't-care on the server side; an unset (zero time.Time) range bound must not be written as an attribute",
			"href: domain = absolute paths whose first segment is non-empty; must-reject = invalid percent escapes, raw control bytes, missing scheme before ':', unterminated IP literal; everything else (raw spaces, non-ASCII) is don't-care",
			"Depth / Overwrite: the grammars are exactly {0,1,infinity} and {T,F}, case- and space-sensitive (RFC 4918 sections 10.2, 10.6)",
			"retained-output family: Parse* take Go strings (immutable), so they have no input-buffer mirror; the concurrent variant's schedule is not deterministic, but on code without shared encoder state every schedule passes",
			"header side: only texts that can be a received field value are put to the header readers (no control byte but HTAB, no surrounding white space, not empty - an empty field cannot be told from an absent one); a zero time.Time may be sent without a Last-Modified field; calendar-data/expand with one attribute missing is not decided (RFC 4791 wants both)",
			"named zones come from Go's embedded time/tzdata, so the case list does not depend on the host's zoneinfo",
		},
		MinEvals: func(t string) int64 {
			if t == "thorough" {
				return 5000000
			}
			return 600000
		},
		MinDistinct: func(t string) int64 { return 3000 },
	})
}

// wantSample spreads the few evidence samples over the primitives: the driver
// keeps the first six samples in shard order, so shard 0 samples four
// primitives once each and shard 1 the two CalDAV directions.
var sampled = map[string]bool{}

func wantSample(c *fw.Ctx, prim string) bool {
	want := map[string]int{"etag": 0, "status": 0, "http-date": 0, "href": 0, "caldav-client": 1, "caldav-server": 1}
	sh, ok := want[prim]
	if !ok || (c.NShards > 1 && c.Shard != sh) || sampled[prim] || !c.WantSample() {
		return false
	}
	sampled[prim] = true
	return true
}

package c16

import (
	"encoding/xml"
	"fmt"
	"strings"
	"time"
	"unicode/utf8"

	"github.com/emersion/go-webdav"
	"github.com/emersion/go-webdav/internal"
	"github.com/emersion/go-webdav/verifharness/fw"
)

// Entity tags: internal.ETag (String / MarshalText / UnmarshalText), the
// getetag element, and webdav.ConditionalMatch.ETag (the header side).

type tagCase struct {
	Mode string `json:"mode"` // roundtrip | decode
	// roundtrip: Value is the opaque tag (any byte string).
	Value B `json:"value,omitempty"`
	// decode: Text is what arrives on the wire.
	Text B `json:"text,omitempty"`
	// Class, when set on an enumerated near-miss, must agree with tagClass.
	Class string `json:"class,omitempty"`
	// Via, when set, also takes the value / text through the header side of
	// the library's servers and clients (headers.go): one of hdrVias, or "*"
	// for all of them.
	Via string `json:"via,omitempty"`
}

func viasOf(via string) []string {
	switch via {
	case "":
		return nil
	case "*":
		return hdrVias
	}
	return []string{via}
}

// tagClass puts a wire text into its near-miss class. "" means the text is a
// DQUOTE-delimited string without a bare interior DQUOTE, i.e. inside at least
// one reading of the entity-tag grammar (RFC 7232 opaque-tag, or the
// backslash-escaped form this library writes): accept/reject is then
// don't-care. dontCare is also set for white-space-wrapped quoted tags.
func tagClass(text string) (class string, dontCare bool) {
	if text == "" {
		return "empty", false
	}
	t := trimASCIISpace(text)
	cls := tagClassTrimmed(t)
	if cls == "" {
		return "", t != text
	}
	return cls, false
}

func tagClassTrimmed(t string) string {
	if t == "" {
		return "blank"
	}
	n := len(t)
	switch {
	case n >= 2 && t[0] == '"' && t[n-1] == '"':
		in := t[1 : n-1]
		for i := 0; i < len(in); i++ {
			switch in[i] {
			case '\\':
				// The next byte is escaped in the backslash reading. (A final
				// backslash escapes the closing quote there, but RFC 7232 has
				// no escapes and allows "\" as etagc: still one valid reading.)
				i++
			case '"':
				if strings.Contains(in, `",`) || strings.Contains(in, `" "`) {
					return "list"
				}
				return "interior-quote"
			case '\n':
				// a raw line feed is no etagc (RFC 7232 section 2.3) and no
				// character of a quoted string in the backslash reading either
				return "raw-line-feed"
			}
		}
		return ""
	case n >= 2 && t[0] == '\'' && t[n-1] == '\'':
		return "single-quoted"
	case n >= 2 && t[0] == '`' && t[n-1] == '`':
		return "back-quoted"
	case n >= 4 && (strings.HasPrefix(t, `W/"`) || strings.HasPrefix(t, `w/"`)) && t[n-1] == '"':
		return "weak"
	case t == "*":
		return "wildcard"
	case t[0] == '"' || t[n-1] == '"':
		return "unbalanced-quote"
	}
	return "unquoted"
}

type tagDecoder struct {
	name string
	dec  func(text string) (string, error)
}

var tagDecoders = []tagDecoder{
	{"ETag.UnmarshalText", func(text string) (string, error) {
		var e internal.ETag
		err := e.UnmarshalText([]byte(text))
		return string(e), err
	}},
	{"ConditionalMatch.ETag", func(text string) (string, error) {
		return webdav.ConditionalMatch(text).ETag()
	}},
}

// xmlChardataOK reports whether a text can be carried as XML 1.0 character
// data at all (valid UTF-8, only Char code points) and is not changed by
// end-of-line normalisation.
func xmlChardataOK(s string) bool {
	if !utf8.ValidString(s) {
		return false
	}
	for _, r := range s {
		switch {
		case r == '\t' || r == '\n':
		case r == '\r':
			return false // normalised to \n by every XML processor unless written as a reference
		case r < 0x20, r == 0xfffe, r == 0xffff:
			return false
		}
	}
	return true
}

func execTag(c *fw.Ctx, cs tagCase) {
	c.Eval(1)
	if cs.Mode == "roundtrip" {
		execTagRoundTrip(c, cs)
	} else {
		execTagDecode(c, cs)
	}
}

func execTagRoundTrip(c *fw.Ctx, cs tagCase) {
	v := string(cs.Value)
	feat := features(v)
	c.Distinct("etag|roundtrip|" + feat)
	for _, f := range strings.Split(feat, "+") {
		c.Observe("etag_roundtrip_value_features", f, 1)
	}
	if strings.Contains(feat, "backslash") && strings.Contains(feat, "invalid-utf8") && len(v) < 40 && wantSample(c, "etag") {
		c.Sample(map[string]interface{}{"prim": "etag", "value": cs.Value, "wire": internal.ETag(v).String()})
	}
	type path struct {
		name string
		f    func() (wire string, back string, err error)
	}
	paths := []path{
		{"String->UnmarshalText", func() (string, string, error) {
			w := internal.ETag(v).String()
			var e internal.ETag
			err := e.UnmarshalText([]byte(w))
			return w, string(e), err
		}},
		{"MarshalText->UnmarshalText", func() (string, string, error) {
			w, err := internal.ETag(v).MarshalText()
			if err != nil {
				return string(w), "", fmt.Errorf("MarshalText: %v", err)
			}
			var e internal.ETag
			err = e.UnmarshalText(w)
			return string(w), string(e), err
		}},
		{"String->ConditionalMatch.ETag", func() (string, string, error) {
			w := internal.ETag(v).String()
			s, err := webdav.ConditionalMatch(w).ETag()
			return w, s, err
		}},
		{"String->ConditionalMatch.MatchETag", func() (string, string, error) {
			// the header side as the servers use it: the tag written into a
			// conditional header must match itself and nothing else
			w := internal.ETag(v).String()
			if v == "" {
				return w, v, nil // the empty tag stands for "no resource": outside
			}
			ok, err := webdav.ConditionalMatch(w).MatchETag(v)
			if err != nil {
				return w, "", err
			}
			if !ok {
				return w, "<does not match itself>", nil
			}
			if other, err := webdav.ConditionalMatch(w).MatchETag(v + "'"); err == nil && other {
				return w, "<also matches another tag>", nil
			}
			return w, v, nil
		}},
		{"xml getetag", func() (string, string, error) {
			b, err := xml.Marshal(&internal.GetETag{ETag: internal.ETag(v)})
			if err != nil {
				return string(b), "", fmt.Errorf("xml.Marshal: %v", err)
			}
			var g internal.GetETag
			err = xml.Unmarshal(b, &g)
			return string(b), string(g.ETag), err
		}},
		{"xml prop via EncodeProp/DecodeProp", func() (string, string, error) {
			resp := internal.Response{Hrefs: []internal.Href{{Path: "/x"}}}
			if err := resp.EncodeProp(200, &internal.GetETag{ETag: internal.ETag(v)}); err != nil {
				return "", "", fmt.Errorf("EncodeProp: %v", err)
			}
			b, err := xml.Marshal(internal.NewMultiStatus(resp))
			if err != nil {
				return string(b), "", fmt.Errorf("xml.Marshal: %v", err)
			}
			var ms internal.MultiStatus
			if err := xml.Unmarshal(b, &ms); err != nil {
				return string(b), "", err
			}
			if len(ms.Responses) != 1 {
				return string(b), "", fmt.Errorf("%d responses decoded", len(ms.Responses))
			}
			var g internal.GetETag
			err = ms.Responses[0].DecodeProp(&g)
			return string(b), string(g.ETag), err
		}},
	}
	for _, via := range viasOf(cs.Via) {
		via := via
		paths = append(paths, path{"server ETag header -> " + via + " client", func() (string, string, error) {
			g, err := hdrRoundTrip(via, v, time.Time{})
			return g.wireETag, g.etag, err
		}})
	}
	for _, p := range paths {
		var wire, back string
		var err error
		panicked, pv, stack := fw.Guard(func() { wire, back, err = p.f() })
		c.Observe("etag_roundtrip_paths", p.name, 1)
		got := map[string]interface{}{"path": p.name, "wire": B(wire), "decoded": B(back), "err": fw.ErrString(err)}
		switch {
		case panicked:
			reportPanic(c, "etag", p.name, pv, stack, cs)
		case err != nil && strings.HasPrefix(err.Error(), "harness:"):
			c.Inconclusive("C16 " + p.name + ": " + err.Error())
		case err != nil:
			c.Report("roundtrip|etag|decode-error", fmt.Sprintf("tag %q written as %q is refused on the way back (%s): %v", v, clip(wire), p.name, err), witness{"etag", cs, got})
		case back != v:
			c.Report("roundtrip|etag|value-changed", fmt.Sprintf("tag %q written as %q comes back as %q (%s)", v, clip(wire), back, p.name), witness{"etag", cs, got})
		}
	}
}

func clip(s string) string {
	if len(s) > 200 {
		return s[:200] + "..."
	}
	return s
}

func execTagDecode(c *fw.Ctx, cs tagCase) {
	text := string(cs.Text)
	cls, dontCare := tagClass(text)
	if cs.Class != "" && cs.Class != cls {
		c.Inconclusive(fmt.Sprintf("C16 harness: near-miss %q labelled %q but classified %q", text, cs.Class, cls))
		return
	}
	label := cls
	switch {
	case cls == "" && dontCare:
		label = "quoted+ws-wrapped(dont-care)"
	case cls == "":
		label = "quoted"
	}
	c.Distinct("etag|decode|" + label + "|" + features(text))

	type dec struct {
		name string
		f    func(string) (string, error)
		prim string // key element: "etag", or "etag-header" for the clients' own header readers
	}
	decs := []dec{}
	for _, d := range tagDecoders {
		decs = append(decs, dec{d.name, d.dec, "etag"})
	}
	if headerValueOK(text) {
		for _, via := range viasOf(cs.Via) {
			via := via
			decs = append(decs, dec{"ETag header -> " + via + " client", func(t string) (string, error) {
				g, err := hdrDecode(via, map[string]string{"ETag": t})
				return g.etag, err
			}, "etag-header"})
		}
	}
	if xmlChardataOK(text) {
		decs = append(decs, dec{"xml getetag", func(t string) (string, error) {
			var sb strings.Builder
			sb.WriteString(`<getetag xmlns="DAV:">`)
			xml.EscapeText(&sb, []byte(t))
			sb.WriteString(`</getetag>`)
			var g internal.GetETag
			err := xml.Unmarshal([]byte(sb.String()), &g)
			return string(g.ETag), err
		}, "etag"})
	}
	for _, d := range decs {
		var val string
		var err error
		panicked, pv, stack := fw.Guard(func() { val, err = d.f(text) })
		c.Observe("etag_decode", label+"|"+verdict(err, panicked), 1)
		if d.prim != "etag" {
			c.Observe("etag_decode_header_side", d.name+"|"+label+"|"+verdict(err, panicked), 1)
		}
		if err != nil && strings.HasPrefix(err.Error(), "harness:") {
			c.Inconclusive("C16 " + d.name + ": " + err.Error())
			continue
		}
		got := map[string]interface{}{"decoder": d.name, "decoded": B(val), "err": fw.ErrString(err)}
		switch {
		case panicked:
			reportPanic(c, "etag", d.name, pv, stack, cs)
		case cls != "":
			if err == nil {
				c.Report("decode|"+d.prim+"|accepts-"+cls, fmt.Sprintf("%s accepts %q (%s, outside the entity-tag grammar) as %q", d.name, text, cls, val), witness{"etag", cs, got})
			}
		case err == nil && !dontCare:
			// A quoted text without any backslash has one reading only.
			in := text[1 : len(text)-1]
			if !strings.Contains(in, `\`) && val != in {
				key := "decode|" + d.prim + "|value-changed"
				if !utf8.ValidString(in) {
					key = "decode|" + d.prim + "|invalid-utf8-replaced"
				}
				c.Report(key, fmt.Sprintf("%s reads %q as %q without an error (interior bytes differ)", d.name, text, val), witness{"etag", cs, got})
			}
		}
	}
}

type labelled struct{ text, class string }

// simpleQuote is the harness's own seed writer for wire texts (the case list
// must not depend on the library): DQUOTE, backslash-escaped DQUOTE and
// backslash, DQUOTE.
func simpleQuote(v string) string {
	return `"` + strings.NewReplacer(`\`, `\\`, `"`, `\"`).Replace(v) + `"`
}

func tagNearMisses() []labelled {
	return []labelled{
		{`'a'`, "single-quoted"}, {`'\n'`, "single-quoted"}, {`'"'`, "single-quoted"}, {`'abc'`, "single-quoted"}, {`''`, "single-quoted"}, {`'\x41'`, "single-quoted"}, {"'é'", "single-quoted"},
		{"`a`", "back-quoted"}, {"``", "back-quoted"}, {"`abc-123`", "back-quoted"}, {"`a\\n\"b`", "back-quoted"},
		{`abc`, "unquoted"}, {`1f3a9c`, "unquoted"}, {`a"b`, "unquoted"}, {`\"abc\"`, "unbalanced-quote"}, {`&quot;abc&quot;`, "unquoted"}, {`0`, "unquoted"}, {`-`, "unquoted"},
		{`W/"abc"`, "weak"}, {`w/"abc"`, "weak"}, {`W/""`, "weak"},
		{`"a", "b"`, "list"}, {`"a","b"`, "list"}, {`"a" "b"`, "list"}, {`"a", W/"b"`, "list"},
		{`"a"b"`, "interior-quote"}, {`"""`, "interior-quote"}, {`"a""b"`, "interior-quote"},
		{`"abc`, "unbalanced-quote"}, {`abc"`, "unbalanced-quote"}, {`"`, "unbalanced-quote"}, {`W/"abc`, "unquoted"},
		{`*`, "wildcard"},
		{"\"a\nb\"", "raw-line-feed"}, {"\"\n\"", "raw-line-feed"}, {"\"a\r\nb\"", "raw-line-feed"}, {"\"abc\n\"", "raw-line-feed"}, {"\"\nabc\"", "raw-line-feed"},
		{``, "empty"}, {` `, "blank"}, {"\t\n", "blank"},
		// in the grammar / don't-care, value-checked when accepted
		{`"abc"`, ""}, {`""`, ""}, {`"a b"`, ""}, {`"a'b"`, ""}, {"\"a`b\"", ""}, {"\"\xff\"", ""}, {"\"a\x80b\"", ""}, {"\"\xc3\"", ""}, {"\"\xed\xa0\x80\"", ""},
		{"\"é\"", ""}, {"\"a\x01b\"", ""}, {"\"a\tb\"", ""}, {"\"a\nb\"", ""}, {`"a\\b"`, ""}, {`"\x41"`, ""}, {`"\z"`, ""}, {`"abc\"`, ""}, {`"\"`, ""}, {` "abc"`, ""}, {`"abc" `, ""}, {"\"abc\"\r\n", ""},
	}
}

func runTags(c *fw.Ctx) {
	// Exhaustive: every 1-byte and every 2-byte string as a tag value.
	idx := 0
	for a := 0; a < 256; a++ {
		if c.Mine(idx) {
			execTag(c, tagCase{Mode: "roundtrip", Value: B([]byte{byte(a)})})
		}
		idx++
	}
	for a := 0; a < 256; a++ {
		for b := 0; b < 256; b++ {
			if c.Mine(idx) {
				execTag(c, tagCase{Mode: "roundtrip", Value: B([]byte{byte(a), byte(b)}), Via: hdrViaFor(a + b)})
			}
			idx++
		}
	}
	if c.Shard == 0 {
		execTag(c, tagCase{Mode: "roundtrip", Value: ""})
		c.Observe("exhaustive", "etag values: all strings of 0, 1 and 2 bytes", 1)
		for _, nm := range tagNearMisses() {
			execTag(c, tagCase{Mode: "decode", Text: B(nm.text), Class: nm.class, Via: "*"})
		}
	}
	// Generated values.
	n := c.Pick(200000, 2000000)
	for i := 0; i < n; i++ {
		if !c.Mine(i) {
			continue
		}
		r := c.Rand("etag-value", i)
		execTag(c, tagCase{Mode: "roundtrip", Value: B(genBytes(r)), Via: hdrViaFor(i / 16)})
	}
	// Generated wire texts: mutations of well-formed texts, re-quotings, and
	// arbitrary strings.
	n = c.Pick(100000, 1000000)
	const alphabet = "\"'`\\W/, ab\x00\xff\n*"
	for i := 0; i < n; i++ {
		if !c.Mine(i) {
			continue
		}
		r := c.Rand("etag-text", i)
		var text string
		v := genBytes(r)
		switch r.Intn(8) {
		case 0:
			text = v
		case 1:
			text = "'" + v + "'"
		case 2:
			text = "`" + v + "`"
		case 3:
			text = `W/` + simpleQuote(v)
		case 4:
			text = `"` + v + `"`
		case 5:
			text = simpleQuote(v) + []string{", ", ",", " "}[r.Intn(3)] + simpleQuote(genBytes(r))
		default:
			text = simpleQuote(v)
			for k := 1 + r.Intn(2); k > 0; k-- {
				text = mutate(r, text, alphabet)
			}
		}
		execTag(c, tagCase{Mode: "decode", Text: B(text), Via: hdrViaFor(i / 16)})
	}
}

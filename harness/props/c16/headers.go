package c16

import (
	"bytes"
	"context"
	"fmt"
	"io"
	"io/ioutil"
	"net/http"
	"strings"
	"time"

	"github.com/emersion/go-ical"
	"github.com/emersion/go-vcard"
	"github.com/emersion/go-webdav/caldav"
	"github.com/emersion/go-webdav/carddav"
	"github.com/emersion/go-webdav/verifharness/doubles"
)

// The header side of entity tags and HTTP dates as the library's own clients
// and servers use it: the ETag and Last-Modified fields of the answer to GET
// and PUT of a calendar object / address object.
//
//   round trip   object {ETag, ModTime} held by a recording backend ->
//                caldav.Handler / carddav.Handler writes the two header fields
//                -> (in-process HTTP) -> caldav.Client / carddav.Client
//                Get*Object / Put*Object -> object {ETag, ModTime}
//   decode       a canned answer carrying the wire text in the header field ->
//                the same four client calls
//
// One case takes one of the four ways ("via", part of the case, dealt by the
// case index). The oracles are those of the direct codecs; a text is only put
// to the header decoders when it can be a field value at all (headerValueOK).

var hdrVias = []string{"caldav GET", "caldav PUT", "carddav GET", "carddav PUT"}

const (
	hdrCalObj  = "/p/cal/c1/o.ics"
	hdrCardObj = "/p/card/b1/o.vcf"
)

// headerValueOK: a non-empty field value as a recipient sees it (RFC 7230
// section 3.2: VCHAR / obs-text with interior SP / HTAB, surrounding white
// space already removed). An empty field cannot be told from an absent one
// through http.Header.Get: not decided here.
func headerValueOK(s string) bool {
	if s == "" || s[0] == ' ' || s[0] == '\t' || s[len(s)-1] == ' ' || s[len(s)-1] == '\t' {
		return false
	}
	for i := 0; i < len(s); i++ {
		if b := s[i]; (b < 0x20 && b != '\t') || b == 0x7f {
			return false
		}
	}
	return true
}

func hdrCalendar() *ical.Calendar {
	cal := ical.NewCalendar()
	cal.Props.SetText(ical.PropVersion, "2.0")
	cal.Props.SetText(ical.PropProductID, "-//verif//c16//EN")
	ev := ical.NewEvent()
	ev.Props.SetText(ical.PropUID, "c16-headers")
	ev.Props.SetDateTime(ical.PropDateTimeStamp, time.Date(2020, 1, 2, 3, 4, 5, 0, time.UTC))
	ev.Props.SetDateTime(ical.PropDateTimeStart, time.Date(2020, 1, 2, 3, 4, 5, 0, time.UTC))
	cal.Children = append(cal.Children, ev.Component)
	return cal
}

func hdrCard() vcard.Card {
	card := vcard.Card{}
	card.SetValue(vcard.FieldFormattedName, "C Sixteen")
	card.SetValue(vcard.FieldUID, "c16-headers")
	vcard.ToV4(card)
	return card
}

const (
	hdrCalBody  = "BEGIN:VCALENDAR\r\nVERSION:2.0\r\nPRODID:-//verif//c16//EN\r\nBEGIN:VEVENT\r\nUID:c16-headers\r\nDTSTAMP:20200102T030405Z\r\nDTSTART:20200102T030405Z\r\nEND:VEVENT\r\nEND:VCALENDAR\r\n"
	hdrCardBody = "BEGIN:VCARD\r\nVERSION:4.0\r\nFN:C Sixteen\r\nUID:c16-headers\r\nEND:VCARD\r\n"
)

// hdrGot is what a client call hands back.
type hdrGot struct {
	etag string
	mod  time.Time
	// wire header fields as the server wrote them (round trip only)
	wireETag, wireLM     string
	hasWireETag, hasWire bool
}

// hdrSpy keeps the header of the last answer that passed.
type hdrSpy struct {
	inner interface {
		Do(*http.Request) (*http.Response, error)
	}
	last http.Header
}

func (s *hdrSpy) Do(req *http.Request) (*http.Response, error) {
	resp, err := s.inner.Do(req)
	if resp != nil {
		s.last = resp.Header.Clone()
	}
	return resp, err
}

// hdrCanned answers every GET with a 200 carrying the object and every other
// request with a 201, both with the given header fields.
type hdrCanned struct {
	fields map[string]string
	ctype  string
	body   string
}

func (f *hdrCanned) Do(req *http.Request) (*http.Response, error) {
	if req.Body != nil {
		io.Copy(ioutil.Discard, req.Body)
		req.Body.Close()
	}
	h := http.Header{}
	for k, v := range f.fields {
		h[http.CanonicalHeaderKey(k)] = []string{v}
	}
	resp := &http.Response{Proto: "HTTP/1.1", ProtoMajor: 1, ProtoMinor: 1, Header: h, Request: req}
	if req.Method == http.MethodGet {
		resp.StatusCode, resp.Status = 200, "200 OK"
		h.Set("Content-Type", f.ctype)
		resp.Body = ioutil.NopCloser(strings.NewReader(f.body))
		resp.ContentLength = int64(len(f.body))
	} else {
		resp.StatusCode, resp.Status = 201, "201 Created"
		resp.Body = ioutil.NopCloser(bytes.NewReader(nil))
	}
	return resp, nil
}

type hdrDoer interface {
	Do(*http.Request) (*http.Response, error)
}

// hdrCall runs the client call of one way over the given transport.
func hdrCall(via string, hc hdrDoer) (hdrGot, error) {
	ctx := context.Background()
	var g hdrGot
	switch via {
	case "caldav GET", "caldav PUT":
		cl, err := caldav.NewClient(hc, "http://dav.test/")
		if err != nil {
			return g, fmt.Errorf("harness: %v", err)
		}
		var co *caldav.CalendarObject
		if via == "caldav GET" {
			co, err = cl.GetCalendarObject(ctx, hdrCalObj)
		} else {
			co, err = cl.PutCalendarObject(ctx, hdrCalObj, hdrCalendar())
		}
		if err != nil {
			return g, err
		}
		if co == nil {
			return g, fmt.Errorf("nil object without an error")
		}
		g.etag, g.mod = co.ETag, co.ModTime
	case "carddav GET", "carddav PUT":
		cl, err := carddav.NewClient(hc, "http://dav.test/")
		if err != nil {
			return g, fmt.Errorf("harness: %v", err)
		}
		var ao *carddav.AddressObject
		if via == "carddav GET" {
			ao, err = cl.GetAddressObject(ctx, hdrCardObj)
		} else {
			ao, err = cl.PutAddressObject(ctx, hdrCardObj, hdrCard())
		}
		if err != nil {
			return g, err
		}
		if ao == nil {
			return g, fmt.Errorf("nil object without an error")
		}
		g.etag, g.mod = ao.ETag, ao.ModTime
	default:
		return g, fmt.Errorf("harness: unknown way %q", via)
	}
	return g, nil
}

// hdrDecode: the client call of one way on a canned answer with the given
// header fields.
func hdrDecode(via string, fields map[string]string) (hdrGot, error) {
	f := &hdrCanned{fields: fields, ctype: "text/calendar; charset=utf-8", body: hdrCalBody}
	if strings.HasPrefix(via, "carddav") {
		f.ctype, f.body = "text/vcard; charset=utf-8", hdrCardBody
	}
	return hdrCall(via, f)
}

// hdrRoundTrip: the library's server writes the header fields for an object
// with the given tag and modification time, the library's client reads them.
func hdrRoundTrip(via string, etag string, mod time.Time) (hdrGot, error) {
	var h http.Handler
	switch via {
	case "caldav GET", "caldav PUT":
		be := &doubles.CalBackend{Principal: "/p/", HomeSet: "/p/cal/",
			Calendars: []caldav.Calendar{{Path: "/p/cal/c1/", Name: "c1"}}}
		obj := caldav.CalendarObject{Path: hdrCalObj, ETag: etag, ModTime: mod, Data: hdrCalendar()}
		if via == "caldav GET" {
			be.Objects = []caldav.CalendarObject{obj}
		} else {
			be.PutResult = &obj
		}
		h = &caldav.Handler{Backend: be}
	case "carddav GET", "carddav PUT":
		be := &doubles.CardBackend{Principal: "/p/", HomeSet: "/p/card/",
			Books: []carddav.AddressBook{{Path: "/p/card/b1/", Name: "b1"}}}
		obj := carddav.AddressObject{Path: hdrCardObj, ETag: etag, ModTime: mod, Card: hdrCard()}
		if via == "carddav GET" {
			be.Objects = []carddav.AddressObject{obj}
		} else {
			be.PutResult = &obj
		}
		h = &carddav.Handler{Backend: be}
	default:
		return hdrGot{}, fmt.Errorf("harness: unknown way %q", via)
	}
	spy := &hdrSpy{inner: &doubles.InProc{Handler: h}}
	g, err := hdrCall(via, spy)
	if spy.last != nil {
		if v, ok := spy.last["Etag"]; ok && len(v) > 0 {
			g.wireETag, g.hasWireETag = v[0], true
		}
		if v, ok := spy.last["Last-Modified"]; ok && len(v) > 0 {
			g.wireLM, g.hasWire = v[0], true
		}
	}
	return g, err
}

// hdrViaFor deals the four ways over a case index: one case in hdrEvery goes
// through the header side as well (a whole client-server exchange costs about
// fifty direct codec calls).
const hdrEvery = 4

func hdrViaFor(idx int) string {
	if idx < 0 || idx%hdrEvery != 0 {
		return ""
	}
	return hdrVias[(idx/hdrEvery)%len(hdrVias)]
}

package c16

import (
	"fmt"
	"math/rand"
	"time"
	_ "time/tzdata" // embedded zone database: named zones do not depend on the host
)

// Instants and zones shared by the HTTP-date and CalDAV date-time monitors,
// plus an independent proleptic-Gregorian calendar (the oracles never call
// time.Format / time.Parse).

const (
	minUnix = int64(-62135596800) // 0001-01-01T00:00:00Z
	maxUnix = int64(253402300799) // 9999-12-31T23:59:59Z
)

type zoneSpec struct {
	Kind   string `json:"kind"` // utc | fixed | named
	Name   string `json:"name,omitempty"`
	Offset int    `json:"offset_s,omitempty"` // fixed zones: seconds east of UTC
}

type instant struct {
	Unix  int64    `json:"unix"`
	Nanos int      `json:"nanos,omitempty"`
	Zone  zoneSpec `json:"zone"`
}

var locCache = map[string]*time.Location{}

func (z zoneSpec) loc() (*time.Location, error) {
	switch z.Kind {
	case "utc", "":
		return time.UTC, nil
	case "fixed":
		return time.FixedZone(z.Name, z.Offset), nil
	case "named":
		if l, ok := locCache[z.Name]; ok {
			return l, nil
		}
		l, err := time.LoadLocation(z.Name)
		if err != nil {
			return nil, err
		}
		locCache[z.Name] = l
		return l, nil
	}
	return nil, fmt.Errorf("unknown zone kind %q", z.Kind)
}

func (in instant) time() (time.Time, error) {
	l, err := in.Zone.loc()
	if err != nil {
		return time.Time{}, err
	}
	return time.Unix(in.Unix, int64(in.Nanos)).In(l), nil
}

// offsetAt is the zone's offset at the instant (seconds east of UTC).
func (in instant) offsetAt() int {
	t, err := in.time()
	if err != nil {
		return 0
	}
	_, off := t.Zone()
	return off
}

var namedZones = []string{
	"America/New_York", "Europe/Paris", "Europe/London", "Asia/Kolkata", "Asia/Kathmandu", "Australia/Lord_Howe",
	"Pacific/Kiritimati", "Pacific/Pago_Pago", "Etc/GMT+12", "Etc/GMT-14", "Europe/Amsterdam", "Africa/Monrovia",
	"America/St_Johns", "Asia/Tehran", "Pacific/Chatham", "Pacific/Apia", "America/Sao_Paulo", "Asia/Tokyo", "UTC",
	"Europe/Dublin", "America/Los_Angeles", "Australia/Sydney",
}

func genZone(r *rand.Rand) zoneSpec {
	switch r.Intn(6) {
	case 0:
		return zoneSpec{Kind: "utc"}
	case 1, 2:
		q := r.Intn(14*4*2+1) - 14*4 // quarter hours within +-14h
		return zoneSpec{Kind: "fixed", Name: fmt.Sprintf("Q%+d", q), Offset: q * 900}
	case 3:
		off := r.Intn(2*14*3600+1) - 14*3600
		return zoneSpec{Kind: "fixed", Name: "odd", Offset: off}
	}
	return zoneSpec{Kind: "named", Name: namedZones[r.Intn(len(namedZones))]}
}

var boundaryInstants = func() []int64 {
	l := []int64{minUnix, minUnix + 1, minUnix + 86399, maxUnix, maxUnix - 1, maxUnix - 86399, 0, -1, 1,
		2147483647, 2147483648, -2147483649, 4294967295, 4294967296}
	civ := [][6]int64{
		{1000, 1, 1, 0, 0, 0}, {999, 12, 31, 23, 59, 59}, {100, 1, 1, 0, 0, 0}, {99, 12, 31, 23, 59, 59}, {10, 1, 1, 0, 0, 0},
		{1582, 10, 4, 12, 0, 0}, {1582, 10, 15, 12, 0, 0}, {1600, 2, 29, 12, 0, 0}, {1700, 3, 1, 0, 0, 0}, {1900, 1, 1, 0, 0, 0},
		{1900, 2, 28, 23, 59, 59}, {1969, 12, 31, 23, 59, 59}, {1999, 12, 31, 23, 59, 59}, {2000, 2, 29, 0, 0, 0}, {2000, 1, 1, 0, 0, 0},
		{2016, 12, 31, 23, 59, 59}, {2021, 3, 28, 0, 59, 59}, {2021, 3, 28, 1, 0, 0}, {2021, 10, 31, 0, 59, 59}, {2021, 10, 31, 1, 0, 0},
		{2021, 3, 14, 6, 59, 59}, {2021, 3, 14, 7, 0, 0}, {2021, 11, 7, 5, 59, 59}, {2021, 11, 7, 6, 0, 0}, {2024, 2, 29, 23, 59, 59},
		{2100, 2, 28, 23, 59, 59}, {2100, 3, 1, 0, 0, 0}, {2400, 2, 29, 0, 0, 0}, {9999, 1, 1, 0, 0, 0}, {5000, 6, 15, 12, 30, 30},
		{2011, 12, 29, 10, 0, 0}, {2011, 12, 31, 10, 0, 0}, // Pacific/Apia skipped 30 Dec 2011
	}
	for _, c := range civ {
		l = append(l, unixFromCivil(c[0], c[1], c[2], c[3], c[4], c[5]))
	}
	return l
}()

// genInstant draws an instant of years 0001-9999 (in UTC and in its zone).
func genInstant(r *rand.Rand) instant {
	var u int64
	switch k := r.Intn(8); {
	case k == 0:
		u = boundaryInstants[r.Intn(len(boundaryInstants))]
		if r.Intn(3) == 0 {
			u += int64(r.Intn(7)) - 3
		}
	case k <= 3:
		u = minUnix + r.Int63n(maxUnix-minUnix+1)
	default:
		lo, hi := unixFromCivil(1900, 1, 1, 0, 0, 0), unixFromCivil(2100, 1, 1, 0, 0, 0)
		u = lo + r.Int63n(hi-lo)
	}
	if u < minUnix {
		u = minUnix
	}
	if u > maxUnix {
		u = maxUnix
	}
	in := instant{Unix: u, Zone: genZone(r)}
	if r.Intn(3) == 0 {
		in.Nanos = 1 + r.Intn(999999999)
		if r.Intn(4) == 0 {
			in.Nanos = []int{1, 499999999, 500000000, 999999999}[r.Intn(4)]
		}
		if u == maxUnix {
			in.Nanos = 0
		}
	}
	// keep the local year inside 0001-9999 as well
	if t, err := in.time(); err != nil || t.Year() < 1 || t.Year() > 9999 {
		in.Zone = zoneSpec{Kind: "utc"}
	}
	return in
}

func yearBucket(u int64) string {
	y, _, _, _, _, _ := civilFromUnix(u)
	switch {
	case y < 100:
		return "y<100"
	case y < 1000:
		return "y<1000"
	case y < 1583:
		return "y<1583"
	case y < 1900:
		return "y<1900"
	case y < 1970:
		return "y<1970"
	case y < 2038:
		return "y<2038"
	case y < 2100:
		return "y<2100"
	}
	return "y<10000"
}

func zoneBucket(in instant) string {
	off := in.offsetAt()
	s := "east"
	switch {
	case off == 0:
		s = "zero"
	case off < 0:
		s = "west"
	}
	sub := ""
	if off%60 != 0 {
		sub = "+seconds"
	} else if off%3600 != 0 {
		sub = "+minutes"
	}
	return in.Zone.Kind + "/" + s + sub
}

// --- independent calendar (Howard Hinnant's civil algorithms) ---

func floorDiv(a, b int64) int64 {
	q := a / b
	if (a%b != 0) && ((a < 0) != (b < 0)) {
		q--
	}
	return q
}

func daysFromCivil(y, m, d int64) int64 {
	if m <= 2 {
		y--
	}
	era := floorDiv(y, 400)
	yoe := y - era*400
	mp := (m + 9) % 12
	doy := (153*mp+2)/5 + d - 1
	doe := yoe*365 + yoe/4 - yoe/100 + doy
	return era*146097 + doe - 719468
}

func civilFromDays(z int64) (y, m, d int64) {
	z += 719468
	era := floorDiv(z, 146097)
	doe := z - era*146097
	yoe := (doe - doe/1460 + doe/36524 - doe/146096) / 365
	y = yoe + era*400
	doy := doe - (365*yoe + yoe/4 - yoe/100)
	mp := (5*doy + 2) / 153
	d = doy - (153*mp+2)/5 + 1
	if mp < 10 {
		m = mp + 3
	} else {
		m = mp - 9
	}
	if m <= 2 {
		y++
	}
	return
}

func unixFromCivil(y, mo, d, h, mi, s int64) int64 {
	return daysFromCivil(y, mo, d)*86400 + h*3600 + mi*60 + s
}

func civilFromUnix(u int64) (y, mo, d, h, mi, s int64) {
	days := floorDiv(u, 86400)
	rem := u - days*86400
	y, mo, d = civilFromDays(days)
	return y, mo, d, rem / 3600, rem % 3600 / 60, rem % 60
}

func weekdayOfUnix(u int64) int { // 0 = Sunday
	days := floorDiv(u, 86400)
	return int(((days % 7) + 7 + 4) % 7)
}

func daysInMonth(y, m int64) int64 {
	switch m {
	case 4, 6, 9, 11:
		return 30
	case 2:
		if (y%4 == 0 && y%100 != 0) || y%400 == 0 {
			return 29
		}
		return 28
	}
	return 31
}

var (
	dayShort  = []string{"Sun", "Mon", "Tue", "Wed", "Thu", "Fri", "Sat"}
	dayLong   = []string{"Sunday", "Monday", "Tuesday", "Wednesday", "Thursday", "Friday", "Saturday"}
	monthName = []string{"Jan", "Feb", "Mar", "Apr", "May", "Jun", "Jul", "Aug", "Sep", "Oct", "Nov", "Dec"}
)

func monthIndex(s string) int64 {
	for i, m := range monthName {
		if m == s {
			return int64(i + 1)
		}
	}
	return 0
}

func num(s string) (int64, bool) {
	if s == "" {
		return 0, false
	}
	var v int64
	for i := 0; i < len(s); i++ {
		if s[i] < '0' || s[i] > '9' {
			return 0, false
		}
		v = v*10 + int64(s[i]-'0')
	}
	return v, true
}

func validCivil(y, mo, d, h, mi, s int64) bool {
	return mo >= 1 && mo <= 12 && d >= 1 && d <= daysInMonth(y, mo) && h <= 23 && mi <= 59 && s <= 59
}

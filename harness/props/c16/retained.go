package c16

import (
	"encoding/xml"
	"fmt"
	"math/rand"
	"net/url"
	"runtime"
	"strings"
	"sync"
	"time"

	"github.com/emersion/go-webdav/internal"
	"github.com/emersion/go-webdav/verifharness/fw"
)

// "Retained output" family. decode(encode(x)) == x must hold for every value,
// also when the caller keeps the encoder's output while it encodes other
// values (a batch of encodings, or other goroutines encoding at the same
// time): the []byte / string an encoder hands out belongs to the caller.
// Mirror for decoders: the decoded value must not depend on the input buffer
// after the call returned, nor on later decodes into other targets.
//
//   seq   encode A, keep the result and a copy; encode B, C ... of shorter /
//         equal / longer encodings; A's kept output must still equal its copy
//         and decode to A (same for every later one)
//   conc  K goroutines, each encoding its own values, yielding, then decoding
//         its own kept output; under GOMAXPROCS 1 and 4
//   dec   decode text A from a buffer, overwrite / reuse the buffer, decode
//         other texts into other targets; the value decoded for A must not
//         have changed

// retVal is a domain value of any primitive (which fields count depends on
// the codec's primitive).
type retVal struct {
	Code int   `json:"code,omitempty"` // status code; depth index (0,1,2); overwrite (0,1)
	S    B     `json:"s,omitempty"`    // status phrase; tag; href path
	Unix int64 `json:"unix,omitempty"` // instant (UTC seconds)
}

type retCase struct {
	Family string   `json:"family"` // seq | conc | dec
	Codec  string   `json:"codec"`
	Vals   []retVal `json:"vals"`
	Procs  int      `json:"gomaxprocs,omitempty"` // conc
	Iter   int      `json:"iterations,omitempty"` // conc
}

// kept is an encoder's output held exactly as it was handed out.
type kept struct {
	b     []byte
	s     string
	isStr bool
}

func (k kept) now() string {
	if k.isStr {
		return k.s
	}
	return string(k.b)
}

func keepBytes(b []byte, err error) (kept, error) { return kept{b: b}, err }
func keepString(s string) (kept, error)           { return kept{s: s, isStr: true}, nil }

type retCodec struct {
	name string
	prim string
	enc  func(v retVal) (kept, error)
	dec  func(wire []byte) (retVal, error) // library decoder of the same path
}

func statusOf(v retVal) internal.Status { return internal.Status{Code: v.Code, Text: string(v.S)} }

var depthVals = []internal.Depth{internal.DepthZero, internal.DepthOne, internal.DepthInfinity}

var retCodecs = []retCodec{
	{"Status.MarshalText", "status",
		func(v retVal) (kept, error) { st := statusOf(v); return keepBytes(st.MarshalText()) },
		func(w []byte) (retVal, error) {
			var st internal.Status
			err := st.UnmarshalText(w)
			return retVal{Code: st.Code, S: B(st.Text)}, err
		}},
	{"xml.Marshal(PropStat)", "status",
		func(v retVal) (kept, error) { return keepBytes(xml.Marshal(&internal.PropStat{Status: statusOf(v)})) },
		func(w []byte) (retVal, error) {
			var ps internal.PropStat
			err := xml.Unmarshal(w, &ps)
			return retVal{Code: ps.Status.Code, S: B(ps.Status.Text)}, err
		}},
	{"ETag.MarshalText", "etag",
		func(v retVal) (kept, error) { return keepBytes(internal.ETag(v.S).MarshalText()) },
		decTag},
	{"ETag.String", "etag",
		func(v retVal) (kept, error) { return keepString(internal.ETag(v.S).String()) },
		decTag},
	{"xml.Marshal(GetETag)", "etag",
		func(v retVal) (kept, error) {
			return keepBytes(xml.Marshal(&internal.GetETag{ETag: internal.ETag(v.S)}))
		},
		func(w []byte) (retVal, error) {
			var g internal.GetETag
			err := xml.Unmarshal(w, &g)
			return retVal{S: B(g.ETag)}, err
		}},
	{"Time.MarshalText", "http-date",
		func(v retVal) (kept, error) {
			t := internal.Time(time.Unix(v.Unix, 0))
			return keepBytes(t.MarshalText())
		},
		func(w []byte) (retVal, error) {
			var t internal.Time
			err := t.UnmarshalText(w)
			return retVal{Unix: time.Time(t).Unix()}, err
		}},
	{"xml.Marshal(GetLastModified)", "http-date",
		func(v retVal) (kept, error) {
			return keepBytes(xml.Marshal(&internal.GetLastModified{LastModified: internal.Time(time.Unix(v.Unix, 0))}))
		},
		func(w []byte) (retVal, error) {
			var g internal.GetLastModified
			err := xml.Unmarshal(w, &g)
			return retVal{Unix: time.Time(g.LastModified).Unix()}, err
		}},
	{"Href.MarshalText", "href",
		func(v retVal) (kept, error) { h := internal.Href{Path: string(v.S)}; return keepBytes(h.MarshalText()) },
		decHref},
	{"Href.String", "href",
		func(v retVal) (kept, error) { h := internal.Href{Path: string(v.S)}; return keepString(h.String()) },
		decHref},
	{"xml.Marshal(Response)", "href",
		func(v retVal) (kept, error) {
			return keepBytes(xml.Marshal(&internal.Response{Hrefs: []internal.Href{{Path: string(v.S)}}, Status: &internal.Status{Code: 200}}))
		},
		func(w []byte) (retVal, error) {
			var r internal.Response
			if err := xml.Unmarshal(w, &r); err != nil {
				return retVal{}, err
			}
			if len(r.Hrefs) != 1 {
				return retVal{}, fmt.Errorf("%d hrefs decoded", len(r.Hrefs))
			}
			return retVal{S: B(r.Hrefs[0].Path)}, nil
		}},
	{"Depth.String", "depth",
		func(v retVal) (kept, error) { return keepString(depthVals[v.Code%3].String()) },
		func(w []byte) (retVal, error) {
			d, err := internal.ParseDepth(string(w))
			for i, x := range depthVals {
				if x == d {
					return retVal{Code: i}, err
				}
			}
			return retVal{Code: -1}, err
		}},
	{"FormatOverwrite", "overwrite",
		func(v retVal) (kept, error) { return keepString(internal.FormatOverwrite(v.Code%2 == 1)) },
		func(w []byte) (retVal, error) {
			b, err := internal.ParseOverwrite(string(w))
			if b {
				return retVal{Code: 1}, err
			}
			return retVal{Code: 0}, err
		}},
}

func decTag(w []byte) (retVal, error) {
	var e internal.ETag
	err := e.UnmarshalText(w)
	return retVal{S: B(e)}, err
}

func decHref(w []byte) (retVal, error) {
	var h internal.Href
	err := h.UnmarshalText(w)
	return retVal{S: B(h.Path)}, err
}

func retCodecByName(name string) *retCodec {
	for i := range retCodecs {
		if retCodecs[i].name == name {
			return &retCodecs[i]
		}
	}
	return nil
}

func retEqual(prim string, want, got retVal) bool {
	switch prim {
	case "status":
		return got.Code == want.Code && (got.S == want.S || (want.S == "" && isStdPhrase(want.Code, string(got.S))))
	case "http-date":
		return got.Unix == want.Unix
	case "depth":
		return got.Code == want.Code%3
	case "overwrite":
		return got.Code == want.Code%2
	}
	return got.S == want.S
}

const plainAlphabet = "abcdefghijklmnopqrstuvwxyzABCDEFGHIJKLMNOPQRSTUVWXYZ0123456789-_."

func plainOfLen(r *rand.Rand, n int) string {
	b := make([]byte, n)
	for i := range b {
		b[i] = plainAlphabet[r.Intn(len(plainAlphabet))]
	}
	return string(b)
}

// genRetVal draws a value of the primitive. ref < 0: free choice; otherwise
// the variable-length part gets a length that is shorter than, equal to or
// longer than ref (rel = -1, 0, +1).
func genRetVal(r *rand.Rand, prim string, xmlSafe bool, ref, rel int) retVal {
	lenFor := func() int {
		switch {
		case ref < 0:
			return r.Intn(40)
		case rel < 0:
			if ref == 0 {
				return 0
			}
			return r.Intn(ref)
		case rel == 0:
			return ref
		}
		return ref + 1 + r.Intn(40)
	}
	switch prim {
	case "status":
		v := retVal{Code: 100 + r.Intn(900)}
		if ref < 0 && r.Intn(3) == 0 {
			p := genPhrase(r)
			if r.Intn(2) == 0 {
				p = customPhrases[r.Intn(len(customPhrases))]
			}
			if !xmlSafe || xmlChardataOK(p) {
				v.S = B(p)
				return v
			}
		}
		v.S = B(plainOfLen(r, lenFor()))
		return v
	case "etag":
		if ref < 0 && r.Intn(2) == 0 {
			return retVal{S: B(genBytes(r))}
		}
		return retVal{S: B(plainOfLen(r, lenFor()))}
	case "http-date":
		return retVal{Unix: genInstant(r).Unix}
	case "href":
		if ref < 0 && r.Intn(2) == 0 {
			return retVal{S: B(genHrefPath(r))}
		}
		n := lenFor()
		if n < 2 {
			n = 2
		}
		return retVal{S: B("/" + plainOfLen(r, n-1))}
	case "depth":
		return retVal{Code: r.Intn(3)}
	}
	return retVal{Code: r.Intn(2)}
}

func execRet(c *fw.Ctx, cs retCase) {
	c.Eval(1)
	if cs.Family == "dec" {
		execRetDec(c, cs)
		return
	}
	cd := retCodecByName(cs.Codec)
	if cd == nil || len(cs.Vals) == 0 {
		c.Inconclusive("C16 harness: unknown retained-output codec " + cs.Codec)
		return
	}
	if cs.Family == "conc" {
		execRetConc(c, cd, cs)
	} else {
		execRetSeq(c, cd, cs)
	}
}

func lenRel(a, b int) string {
	switch {
	case b < a:
		return "shorter"
	case b == a:
		return "equal"
	}
	return "longer"
}

func execRetSeq(c *fw.Ctx, cd *retCodec, cs retCase) {
	outs := make([]kept, len(cs.Vals))
	snaps := make([]string, len(cs.Vals))
	var encErr error
	panicked, pv, stack := fw.Guard(func() {
		for i, v := range cs.Vals {
			k, err := cd.enc(v)
			if err != nil {
				encErr = fmt.Errorf("encoding value %d: %v", i, err)
				return
			}
			outs[i] = k
			snaps[i] = string(append([]byte(nil), k.now()...)) // copy taken right after the call
		}
	})
	if panicked {
		reportPanic(c, cd.prim, cd.name+" (sequence)", pv, stack, cs)
		return
	}
	if encErr != nil {
		c.Report("retained|"+cd.prim+"|encode-error", fmt.Sprintf("%s: %v", cd.name, encErr), witness{"retained", cs, nil})
		return
	}
	rels := []string{}
	for i := 1; i < len(snaps); i++ {
		rels = append(rels, lenRel(len(snaps[0]), len(snaps[i])))
	}
	c.Distinct("retained|seq|" + cd.name + "|" + strings.Join(rels, ","))
	c.Observe("retained_seq", cd.name, 1)
	for _, rl := range rels {
		c.Observe("retained_seq_later_encoding_vs_first", rl, 1)
	}
	for i, v := range cs.Vals {
		cur := outs[i].now()
		got := map[string]interface{}{"codec": cd.name, "index": i, "output_right_after_encoding": B(snaps[i]), "output_after_later_encodings": B(cur)}
		if cur != snaps[i] {
			c.Report("retained|"+cd.prim+"|output-overwritten-by-later-encode",
				fmt.Sprintf("%s: the output kept for value %d was %q right after the call and is %q after %d later encodings", cd.name, i, clip(snaps[i]), clip(cur), len(cs.Vals)-1-i),
				witness{"retained", cs, got})
			return
		}
		var back retVal
		var err error
		p2, pv2, st2 := fw.Guard(func() { back, err = cd.dec([]byte(cur)) })
		if p2 {
			reportPanic(c, cd.prim, cd.name+" (decoding a kept output)", pv2, st2, cs)
			return
		}
		if err != nil || !retEqual(cd.prim, v, back) {
			got["decoded"] = back
			got["err"] = fw.ErrString(err)
			c.Report("retained|"+cd.prim+"|kept-output-decodes-differently",
				fmt.Sprintf("%s: the kept output %q of value %d decodes to %+v (err=%v) after later encodings", cd.name, clip(cur), i, back, err), witness{"retained", cs, got})
			return
		}
	}
	c.Observe("retained_seq_verdict", "every kept output unchanged and decoding to its value", 1)
}

func execRetConc(c *fw.Ctx, cd *retCodec, cs retCase) {
	procs := cs.Procs
	if procs < 1 {
		procs = 1
	}
	iter := cs.Iter
	if iter < 1 {
		iter = 20
	}
	old := runtime.GOMAXPROCS(procs)
	defer runtime.GOMAXPROCS(old)
	k := len(cs.Vals)
	c.Distinct(fmt.Sprintf("retained|conc|%s|procs=%d|k=%d", cd.name, procs, k))
	c.Observe("retained_conc", fmt.Sprintf("%s|GOMAXPROCS=%d", cd.name, procs), 1)
	type bad struct {
		g, it     int
		what      string
		snap, cur string
		back      retVal
		err       string
		panicked  bool
		pv        interface{}
		stack     string
	}
	var mu sync.Mutex
	var first *bad
	var wg sync.WaitGroup
	start := make(chan struct{})
	for g := 0; g < k; g++ {
		wg.Add(1)
		go func(g int) {
			defer wg.Done()
			<-start
			for it := 0; it < iter; it++ {
				v := cs.Vals[(g+it)%k]
				var b *bad
				p, pv, st := fw.Guard(func() {
					out, err := cd.enc(v)
					if err != nil {
						b = &bad{g: g, it: it, what: "encode-error", err: err.Error()}
						return
					}
					snap := string(append([]byte(nil), out.now()...))
					for y := 0; y < 3; y++ {
						runtime.Gosched() // let the other goroutines encode
					}
					cur := out.now()
					if cur != snap {
						b = &bad{g: g, it: it, what: "changed", snap: snap, cur: cur}
						return
					}
					back, err := cd.dec([]byte(cur))
					if err != nil || !retEqual(cd.prim, v, back) {
						b = &bad{g: g, it: it, what: "decodes-differently", snap: snap, cur: cur, back: back, err: fw.ErrString(err)}
					}
				})
				if p {
					b = &bad{g: g, it: it, panicked: true, pv: pv, stack: st}
				}
				if b != nil {
					mu.Lock()
					if first == nil {
						first = b
					}
					mu.Unlock()
					return
				}
			}
		}(g)
	}
	close(start)
	wg.Wait()
	if first == nil {
		c.Observe("retained_conc_verdict", "every goroutine decoded its own kept outputs to its own values", 1)
		return
	}
	if first.panicked {
		reportPanic(c, cd.prim, cd.name+" (concurrent)", first.pv, first.stack, cs)
		return
	}
	got := map[string]interface{}{"codec": cd.name, "goroutine": first.g, "iteration": first.it, "anomaly": first.what,
		"output_right_after_encoding": B(first.snap), "output_after_yielding": B(first.cur), "decoded": first.back, "err": first.err}
	c.Report("retained|"+cd.prim+"|concurrent-output-corrupted",
		fmt.Sprintf("%s with %d goroutines (GOMAXPROCS=%d): goroutine %d's kept output %q became %q / decodes to %+v (err=%s)", cd.name, k, procs, first.g, clip(first.snap), clip(first.cur), first.back, first.err),
		witness{"retained", cs, got})
}

// ---- decoder mirror

type retDecoder struct {
	name string
	prim string
	// text is the harness's own wire text for the value (one reading only).
	text func(v retVal) string
	// dec decodes from buf and returns a function reading the decoded value
	// *at the time it is called* (so that aliasing of buf shows).
	dec func(buf []byte) (read func() retVal, err error)
}

func pctEscape(p string) string {
	var sb strings.Builder
	for i := 0; i < len(p); i++ {
		b := p[i]
		if b == '/' || strings.IndexByte(plainAlphabet+"~", b) >= 0 {
			sb.WriteByte(b)
		} else {
			fmt.Fprintf(&sb, "%%%02X", b)
		}
	}
	return sb.String()
}

func xmlWrap(open, text, close string) string {
	var sb strings.Builder
	sb.WriteString(open)
	xml.EscapeText(&sb, []byte(text))
	sb.WriteString(close)
	return sb.String()
}

func statusText(v retVal) string { return fmt.Sprintf("HTTP/1.1 %03d %s", v.Code, string(v.S)) }

var retDecoders = []retDecoder{
	{"Status.UnmarshalText", "status", statusText, func(buf []byte) (func() retVal, error) {
		st := new(internal.Status)
		err := st.UnmarshalText(buf)
		return func() retVal { return retVal{Code: st.Code, S: B(st.Text)} }, err
	}},
	{"xml.Unmarshal(PropStat)", "status",
		func(v retVal) string {
			return xmlWrap(`<propstat xmlns="DAV:"><prop/><status>`, statusText(v), `</status></propstat>`)
		},
		func(buf []byte) (func() retVal, error) {
			ps := new(internal.PropStat)
			err := xml.Unmarshal(buf, ps)
			return func() retVal { return retVal{Code: ps.Status.Code, S: B(ps.Status.Text)} }, err
		}},
	{"ETag.UnmarshalText", "etag", func(v retVal) string { return `"` + string(v.S) + `"` }, func(buf []byte) (func() retVal, error) {
		e := new(internal.ETag)
		err := e.UnmarshalText(buf)
		return func() retVal { return retVal{S: B(*e)} }, err
	}},
	{"xml.Unmarshal(GetETag)", "etag",
		func(v retVal) string { return xmlWrap(`<getetag xmlns="DAV:">`, `"`+string(v.S)+`"`, `</getetag>`) },
		func(buf []byte) (func() retVal, error) {
			g := new(internal.GetETag)
			err := xml.Unmarshal(buf, g)
			return func() retVal { return retVal{S: B(g.ETag)} }, err
		}},
	{"Time.UnmarshalText", "http-date", func(v retVal) string { return fmtIMF(v.Unix) }, func(buf []byte) (func() retVal, error) {
		t := new(internal.Time)
		err := t.UnmarshalText(buf)
		return func() retVal { return retVal{Unix: time.Time(*t).Unix()} }, err
	}},
	{"xml.Unmarshal(GetLastModified)", "http-date",
		func(v retVal) string {
			return xmlWrap(`<getlastmodified xmlns="DAV:">`, fmtIMF(v.Unix), `</getlastmodified>`)
		},
		func(buf []byte) (func() retVal, error) {
			g := new(internal.GetLastModified)
			err := xml.Unmarshal(buf, g)
			return func() retVal { return retVal{Unix: time.Time(g.LastModified).Unix()} }, err
		}},
	{"Href.UnmarshalText", "href", func(v retVal) string { return pctEscape(string(v.S)) }, func(buf []byte) (func() retVal, error) {
		h := new(internal.Href)
		err := h.UnmarshalText(buf)
		return func() retVal {
			u := (*url.URL)(h)
			if u.Scheme != "" || u.Host != "" || u.RawQuery != "" || u.Fragment != "" || u.Opaque != "" {
				return retVal{S: B("<not a bare path> " + u.String())}
			}
			return retVal{S: B(u.Path)}
		}, err
	}},
	{"xml.Unmarshal(Response)", "href",
		func(v retVal) string {
			return xmlWrap(`<response xmlns="DAV:"><href>`, pctEscape(string(v.S)), `</href><status>HTTP/1.1 200 OK</status></response>`)
		},
		func(buf []byte) (func() retVal, error) {
			r := new(internal.Response)
			err := xml.Unmarshal(buf, r)
			return func() retVal {
				if len(r.Hrefs) != 1 {
					return retVal{S: B(fmt.Sprintf("<%d hrefs>", len(r.Hrefs)))}
				}
				return retVal{S: B(r.Hrefs[0].Path)}
			}, err
		}},
}

func retDecoderByName(name string) *retDecoder {
	for i := range retDecoders {
		if retDecoders[i].name == name {
			return &retDecoders[i]
		}
	}
	return nil
}

// genDecVal draws a value whose harness-written text has one reading only.
func genDecVal(r *rand.Rand, prim string, ref, rel int) retVal {
	v := genRetVal(r, prim, true, ref, rel)
	switch prim {
	case "status":
		if v.S == "" || !xmlChardataOK(string(v.S)) || strings.ContainsAny(string(v.S), "\t\n") {
			v.S = B("P" + plainOfLen(r, r.Intn(20)))
		}
	case "etag":
		s := string(v.S)
		if strings.ContainsAny(s, "\"\\\n") || !xmlChardataOK(s) {
			v.S = B(plainOfLen(r, 1+r.Intn(30)) + []string{"", " é", " €uro", " 日本"}[r.Intn(4)])
		}
	}
	return v
}

func execRetDec(c *fw.Ctx, cs retCase) {
	dd := retDecoderByName(cs.Codec)
	if dd == nil {
		c.Inconclusive("C16 harness: unknown retained-input decoder " + cs.Codec)
		return
	}
	c.Observe("retained_dec", dd.name, 1)
	texts := make([]string, len(cs.Vals))
	for i, v := range cs.Vals {
		texts[i] = dd.text(v)
	}
	rels := []string{}
	for i := 1; i < len(texts); i++ {
		rels = append(rels, lenRel(len(texts[0]), len(texts[i])))
	}
	c.Distinct("retained|dec|" + dd.name + "|" + strings.Join(rels, ","))
	reads := make([]func() retVal, len(cs.Vals))
	right := make([]retVal, len(cs.Vals)) // value read right after decoding
	var derr error
	panicked, pv, stack := fw.Guard(func() {
		// one buffer reused for every text, as a reader loop would
		buf := make([]byte, 0, 64)
		for i, t := range texts {
			buf = append(buf[:0], t...)
			rd, err := dd.dec(buf)
			if err != nil {
				derr = fmt.Errorf("decoding text %d %q: %v", i, clip(t), err)
				return
			}
			reads[i] = rd
			right[i] = rd()
			right[i].S = B(append([]byte(nil), right[i].S...)) // deep copy: must not alias anything
			// scribble over the input before the next round
			for j := range buf {
				buf[j] = 'Z'
			}
		}
	})
	if panicked {
		reportPanic(c, dd.prim, dd.name+" (buffer reuse)", pv, stack, cs)
		return
	}
	if derr != nil {
		c.Report("retained|"+dd.prim+"|decode-error", fmt.Sprintf("%s: %v", dd.name, derr), witness{"retained", cs, nil})
		return
	}
	for i, v := range cs.Vals {
		now := reads[i]()
		got := map[string]interface{}{"decoder": dd.name, "index": i, "text": B(texts[i]), "decoded_right_after": right[i], "decoded_now": now}
		switch {
		case !retEqual(dd.prim, v, right[i]):
			c.Report("retained|"+dd.prim+"|decode-wrong-value", fmt.Sprintf("%s reads %q as %+v", dd.name, clip(texts[i]), right[i]), witness{"retained", cs, got})
			return
		case !retEqual(dd.prim, v, now):
			c.Report("retained|"+dd.prim+"|decoded-value-changed-after-input-reuse",
				fmt.Sprintf("%s: the value decoded from %q was %+v and is %+v after the input buffer was reused and %d more texts were decoded", dd.name, clip(texts[i]), right[i], now, len(cs.Vals)-1-i),
				witness{"retained", cs, got})
			return
		}
	}
	c.Observe("retained_dec_verdict", "decoded values independent of the input buffer and of later decodes", 1)
}

// ---- workload

func genRetSeq(r *rand.Rand, prim string, gen func(*rand.Rand, string, int, int) retVal, measure func(retVal) int) []retVal {
	a := gen(r, prim, -1, 0)
	vals := []retVal{a}
	ref := measure(a)
	n := 2 + r.Intn(4)
	for i := 0; i < n; i++ {
		vals = append(vals, gen(r, prim, ref, []int{-1, 0, 1}[r.Intn(3)]))
	}
	return vals
}

func runRetained(c *fw.Ctx) {
	varLen := func(v retVal) int { return len(v.S) }
	// fixed, readable cases first (shard 0): they become the witnesses
	if c.Shard == 0 {
		fixed := map[string][]retVal{
			"status":    {{Code: 404, S: "Not Found"}, {Code: 200, S: "OK"}, {Code: 507, S: "Insufficient Storage"}, {Code: 299, S: "x"}, {Code: 207}, {Code: 207, S: "Multi-Status"}, {Code: 412, S: "Not Found"}},
			"etag":      {{S: "abcdef"}, {S: "x"}, {S: "a much longer entity tag value 0123456789"}, {S: "uvwxyz"}, {S: ""}, {S: "a\"b\\c"}},
			"http-date": {{Unix: 1136214245}, {Unix: 0}, {Unix: 253402300799}, {Unix: -62135596800}, {Unix: 951782400}},
			"href":      {{S: "/a/b c"}, {S: "/x"}, {S: "/a/very/long/path/with spaces and é/file.ics"}, {S: "/d/e f"}, {S: "/%41"}},
			"depth":     {{Code: 2}, {Code: 0}, {Code: 1}, {Code: 2}},
			"overwrite": {{Code: 1}, {Code: 0}, {Code: 1}},
		}
		for _, cd := range retCodecs {
			execRet(c, retCase{Family: "seq", Codec: cd.name, Vals: fixed[cd.prim]})
			for _, procs := range []int{1, 4} {
				execRet(c, retCase{Family: "conc", Codec: cd.name, Vals: fixed[cd.prim], Procs: procs, Iter: 50})
			}
		}
		for _, dd := range retDecoders {
			vals := fixed[dd.prim]
			if dd.prim == "status" {
				vals = []retVal{{Code: 404, S: "Not Found"}, {Code: 200, S: "OK"}, {Code: 507, S: "Insufficient Storage"}, {Code: 299, S: "x"}}
			}
			if dd.prim == "etag" {
				vals = []retVal{{S: "abcdef"}, {S: "x"}, {S: "a much longer entity tag value 0123456789"}, {S: "uvwxyz"}}
			}
			execRet(c, retCase{Family: "dec", Codec: dd.name, Vals: vals})
		}
	}
	// generated sequences
	n := c.Pick(40000, 400000)
	for i := 0; i < n; i++ {
		if !c.Mine(i) {
			continue
		}
		r := c.Rand("retained-seq", i)
		cd := retCodecs[i/16%len(retCodecs)] // every shard sees every codec
		xmlSafe := strings.HasPrefix(cd.name, "xml.")
		gen := func(r *rand.Rand, prim string, ref, rel int) retVal { return genRetVal(r, prim, xmlSafe, ref, rel) }
		execRet(c, retCase{Family: "seq", Codec: cd.name, Vals: genRetSeq(r, cd.prim, gen, varLen)})
	}
	// generated decoder sequences
	n = c.Pick(30000, 300000)
	for i := 0; i < n; i++ {
		if !c.Mine(i) {
			continue
		}
		r := c.Rand("retained-dec", i)
		dd := retDecoders[i/16%len(retDecoders)]
		execRet(c, retCase{Family: "dec", Codec: dd.name, Vals: genRetSeq(r, dd.prim, genDecVal, varLen)})
	}
	// concurrent: all GOMAXPROCS=1 cases of this shard first, then GOMAXPROCS=4
	n = c.Pick(1200, 12000)
	for _, procs := range []int{1, 4} {
		for i := 0; i < n; i++ {
			if !c.Mine(i) {
				continue
			}
			r := c.Rand("retained-conc", i)
			cd := retCodecs[i/16%len(retCodecs)]
			xmlSafe := strings.HasPrefix(cd.name, "xml.")
			k := 2 + r.Intn(7)
			vals := []retVal{genRetVal(r, cd.prim, xmlSafe, -1, 0)}
			for len(vals) < k {
				vals = append(vals, genRetVal(r, cd.prim, xmlSafe, len(vals[0].S), []int{-1, 0, 1}[r.Intn(3)]))
			}
			execRet(c, retCase{Family: "conc", Codec: cd.name, Vals: vals, Procs: procs, Iter: 10 + r.Intn(20)})
		}
	}
}

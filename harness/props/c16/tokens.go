package c16

import (
	"fmt"
	"strings"

	"github.com/emersion/go-webdav/internal"
	"github.com/emersion/go-webdav/verifharness/fw"
)

// Depth and Overwrite: two tiny closed grammars, enumerated completely on the
// round-trip side; on the rejection side every text other than the exact
// tokens must yield an error.

type tokenCase struct {
	Prim string `json:"prim"` // depth | overwrite
	Mode string `json:"mode"` // roundtrip | decode
	// roundtrip: Value is the token the independent table assigns to the
	// domain element ("0","1","infinity" / "T","F").
	// decode: Text is handed to the parser.
	Value string `json:"value,omitempty"`
	Text  B      `json:"text,omitempty"`
}

var depthTable = []struct {
	d   internal.Depth
	tok string
}{{internal.DepthZero, "0"}, {internal.DepthOne, "1"}, {internal.DepthInfinity, "infinity"}}

var overwriteTable = []struct {
	v   bool
	tok string
}{{true, "T"}, {false, "F"}}

func tokenGrammar(prim string) []string {
	if prim == "depth" {
		return []string{"0", "1", "infinity"}
	}
	return []string{"T", "F"}
}

// tokenClass names the near-miss class of a text outside the grammar ("" =
// inside the grammar).
func tokenClass(prim, text string) string {
	for _, g := range tokenGrammar(prim) {
		if text == g {
			return ""
		}
	}
	if text == "" {
		return "empty"
	}
	for _, g := range tokenGrammar(prim) {
		if strings.EqualFold(text, g) {
			return "case-variant"
		}
	}
	for _, g := range tokenGrammar(prim) {
		if strings.TrimSpace(text) == g {
			return "space-variant"
		}
	}
	for _, g := range tokenGrammar(prim) {
		if strings.EqualFold(strings.TrimSpace(text), g) {
			return "case+space-variant"
		}
	}
	return "other"
}

func execToken(c *fw.Ctx, cs tokenCase) {
	c.Eval(1)
	switch cs.Mode {
	case "roundtrip":
		execTokenRoundTrip(c, cs)
	default:
		execTokenDecode(c, cs)
	}
}

func execTokenRoundTrip(c *fw.Ctx, cs tokenCase) {
	c.Distinct("token|roundtrip|" + cs.Prim + "|" + cs.Value)
	var enc string
	var err error
	var same bool
	var back string
	panicked, pv, stack := fw.Guard(func() {
		if cs.Prim == "depth" {
			var want internal.Depth
			found := false
			for _, e := range depthTable {
				if e.tok == cs.Value {
					want, found = e.d, true
				}
			}
			if !found {
				err = fmt.Errorf("harness: unknown depth %q", cs.Value)
				return
			}
			enc = want.String()
			var got internal.Depth
			got, err = internal.ParseDepth(enc)
			same = got == want
			back = fmt.Sprint(int(got))
		} else {
			want := cs.Value == "T"
			enc = internal.FormatOverwrite(want)
			var got bool
			got, err = internal.ParseOverwrite(enc)
			same = got == want
			back = fmt.Sprint(got)
		}
	})
	c.Observe(cs.Prim+"_roundtrip", cs.Value+" -> "+enc, 1)
	got := map[string]string{"encoded": enc, "decoded": back, "err": fw.ErrString(err)}
	switch {
	case panicked:
		reportPanic(c, cs.Prim, "round trip", pv, stack, cs)
	case err != nil:
		c.Report("roundtrip|"+cs.Prim+"|decode-error", fmt.Sprintf("%s %q encodes to %q which its own parser refuses: %v", cs.Prim, cs.Value, enc, err), witness{cs.Prim, cs, got})
	case !same:
		c.Report("roundtrip|"+cs.Prim+"|value-changed", fmt.Sprintf("%s %q encodes to %q and decodes to %s", cs.Prim, cs.Value, enc, back), witness{cs.Prim, cs, got})
	case enc != cs.Value:
		// The encoder's text is outside the RFC grammar (its own parser takes it back).
		c.Report("encode|"+cs.Prim+"|text-outside-grammar", fmt.Sprintf("%s %q is written as %q", cs.Prim, cs.Value, enc), witness{cs.Prim, cs, got})
	}
}

func execTokenDecode(c *fw.Ctx, cs tokenCase) {
	text := string(cs.Text)
	cls := tokenClass(cs.Prim, text)
	c.Distinct("token|decode|" + cs.Prim + "|" + cls + "|" + features(text))
	var err error
	var val string
	panicked, pv, stack := fw.Guard(func() {
		if cs.Prim == "depth" {
			var d internal.Depth
			d, err = internal.ParseDepth(text)
			for _, e := range depthTable {
				if e.d == d {
					val = e.tok
				}
			}
			if val == "" {
				val = fmt.Sprintf("Depth(%d)", int(d))
			}
		} else {
			var b bool
			b, err = internal.ParseOverwrite(text)
			val = "F"
			if b {
				val = "T"
			}
		}
	})
	if cls == "" {
		cls = "in-grammar"
	}
	c.Observe(cs.Prim+"_decode", cls+"|"+verdict(err, panicked), 1)
	got := map[string]string{"decoded": val, "err": fw.ErrString(err)}
	switch {
	case panicked:
		reportPanic(c, cs.Prim, "parser", pv, stack, cs)
	case cls == "in-grammar":
		if err != nil {
			c.Report("decode|"+cs.Prim+"|rejects-valid", fmt.Sprintf("%s parser refuses %q: %v", cs.Prim, text, err), witness{cs.Prim, cs, got})
		} else if val != text {
			c.Report("decode|"+cs.Prim+"|value-changed", fmt.Sprintf("%s parser reads %q as %s", cs.Prim, text, val), witness{cs.Prim, cs, got})
		}
	case err == nil:
		c.Report("decode|"+cs.Prim+"|accepts-"+cls, fmt.Sprintf("%s parser accepts %q (outside the grammar) as %s", cs.Prim, text, val), witness{cs.Prim, cs, got})
	}
}

func tokenNearMisses(prim string) []string {
	if prim == "depth" {
		return []string{"", "Infinity", "INFINITY", "infinitY", "iNfinity", " 0", "0 ", " 1", "1 ", "\t0", "0\n", " infinity", "infinity ",
			"00", "01", "10", "2", "-1", "+1", "+0", "-0", "1.0", "0x0", "1e0", "0,1", "0, 1", "infinite", "inf", "infinit", "infinityy", "infinity,infinity",
			"\"0\"", "'1'", "٠", "０", "１", "∞", "noroot", "1,noroot", "infinity,noroot", "T", "F", "true", "depth", "0\x00", "\x000"}
	}
	return []string{"", "t", "f", " T", "T ", " F", "F ", "\tT", "T\n", "TT", "FF", "TF", "T,F", "true", "false", "True", "TRUE", "False", "FALSE",
		"1", "0", "Y", "N", "yes", "no", "\"T\"", "'F'", "Ｔ", "Ｆ", "Т", "T\x00", "\x00F", "overwrite", "infinity", "Tr", "Fa"}
}

func runDepthOverwrite(c *fw.Ctx) {
	// Exhaustive round trip and the enumerated near-misses run on shard 0 only
	// (they are a few dozen cases).
	if c.Shard == 0 {
		for _, e := range depthTable {
			execToken(c, tokenCase{Prim: "depth", Mode: "roundtrip", Value: e.tok})
			// the exact token must also be accepted by the decoder on its own
			execToken(c, tokenCase{Prim: "depth", Mode: "decode", Text: B(e.tok)})
		}
		for _, e := range overwriteTable {
			execToken(c, tokenCase{Prim: "overwrite", Mode: "roundtrip", Value: e.tok})
			execToken(c, tokenCase{Prim: "overwrite", Mode: "decode", Text: B(e.tok)})
		}
		for _, prim := range []string{"depth", "overwrite"} {
			for _, t := range tokenNearMisses(prim) {
				execToken(c, tokenCase{Prim: prim, Mode: "decode", Text: B(t)})
			}
		}
		c.Observe("exhaustive", "depth{0,1,infinity}", 1)
		c.Observe("exhaustive", "overwrite{T,F}", 1)
	}
	// Mutated and random texts.
	n := c.Pick(30000, 300000)
	for i := 0; i < n; i++ {
		if !c.Mine(i) {
			continue
		}
		r := c.Rand("token", i)
		prim := "depth"
		alphabet := "01infinityINFTY \t,+-.2\"'\x00"
		if r.Intn(2) == 0 {
			prim = "overwrite"
			alphabet = "TFtfrueals01YN \t,\"'\x00"
		}
		g := tokenGrammar(prim)
		var text string
		switch r.Intn(4) {
		case 0:
			text = genBytes(r)
		case 1:
			k := r.Intn(5)
			b := make([]byte, k)
			for j := range b {
				b[j] = alphabet[r.Intn(len(alphabet))]
			}
			text = string(b)
		default:
			text = g[r.Intn(len(g))]
			for k := 1 + r.Intn(2); k > 0; k-- {
				text = mutate(r, text, alphabet)
			}
		}
		execToken(c, tokenCase{Prim: prim, Mode: "decode", Text: B(text)})
	}
}

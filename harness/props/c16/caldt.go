package c16

import (
	"bytes"
	"context"
	"fmt"
	"math/rand"
	"net/http"
	"regexp"
	"strings"
	"time"

	"github.com/emersion/go-webdav/caldav"
	"github.com/emersion/go-webdav/verifharness/doubles"
	"github.com/emersion/go-webdav/verifharness/fw"
	"github.com/emersion/go-webdav/verifharness/xmltree"
)

// The CalDAV "date with UTC time" (RFC 5545 form 2, RFC 4791 time-range and
// expand attributes) is an unexported type of package caldav, so it is
// observed end-to-end:
//
//   client side  caldav.Client.QueryCalendar(time ranges / expand in any zone)
//                -> request captured by doubles.Capture -> attributes read
//                with xmltree and the harness's strict parser -> UTC seconds
//   server side  calendar-query written by the harness -> caldav.Handler ->
//                CompFilter/PropFilter Start/End received by the recording
//                backend

const (
	nsCal = "urn:ietf:params:xml:ns:caldav"
	nsDAV = "DAV:"
)

// fmtCalDT / parseCalDT: the harness's own writer and strict reader.
func fmtCalDT(u int64) string {
	y, mo, d, h, mi, s := civilFromUnix(u)
	return fmt.Sprintf("%04d%02d%02dT%02d%02d%02dZ", y, mo, d, h, mi, s)
}

func parseCalDT(s string) (int64, bool) {
	if len(s) != 16 || s[8] != 'T' || s[15] != 'Z' {
		return 0, false
	}
	y, ok1 := num(s[0:4])
	mo, ok2 := num(s[4:6])
	d, ok3 := num(s[6:8])
	h, ok4 := num(s[9:11])
	mi, ok5 := num(s[11:13])
	sec, ok6 := num(s[13:15])
	if !(ok1 && ok2 && ok3 && ok4 && ok5 && ok6) || y < 1 || !validCivil(y, mo, d, h, mi, sec) {
		return 0, false
	}
	return unixFromCivil(y, mo, d, h, mi, sec), true
}

var (
	reCalBasic    = regexp.MustCompile(`^[0-9]{8}T[0-9]{6}Z$`)
	reCalFraction = regexp.MustCompile(`^([0-9]{8}T[0-9]{6})[.,][0-9]+Z$`)
	reCalFloating = regexp.MustCompile(`^[0-9]{8}T[0-9]{6}$`)
	reCalOffset   = regexp.MustCompile(`^[0-9]{8}T[0-9]{6}(Z?[+-][0-9]{2}:?[0-9]{2}|[+-][0-9]{2})$`)
	reCalDateOnly = regexp.MustCompile(`^[0-9]{8}Z?$`)
	reCalExtended = regexp.MustCompile(`^[0-9]{4}-[0-9]{2}-[0-9]{2}[T ][0-9]{2}:[0-9]{2}(:[0-9]{2})?`)
	reCalAnyCase  = regexp.MustCompile(`^[0-9]{8}[Tt][0-9]{6}[Zz]$`)
)

// calDTClass: "valid", a don't-care label in parentheses, or the class of a
// text no reading of the grammar contains.
func calDTClass(text string) string {
	if _, ok := parseCalDT(text); ok {
		return "valid"
	}
	if text == "" {
		return "empty"
	}
	if t := trimASCIISpace(text); t != text {
		if _, ok := parseCalDT(t); ok {
			return "(ws-wrapped)"
		}
	}
	if m := reCalFraction.FindStringSubmatch(text); m != nil {
		if _, ok := parseCalDT(m[1] + "Z"); ok {
			return "(fraction)"
		}
	}
	switch {
	case reCalBasic.MatchString(text):
		if text[13:15] == "60" {
			if _, ok := parseCalDT(text[:13] + "59Z"); ok {
				return "(leap-second)"
			}
		}
		if text[:4] == "0000" {
			return "(year-0000)"
		}
		return "field-out-of-range"
	case reCalFloating.MatchString(text):
		return "floating-no-Z"
	case reCalOffset.MatchString(text):
		return "numeric-offset"
	case reCalDateOnly.MatchString(text):
		return "date-only"
	case reCalExtended.MatchString(text):
		return "extended-format"
	case reCalAnyCase.MatchString(text):
		return "case-variant"
	}
	return "malformed"
}

// ---------------------------------------------------------------- client side

type calPair struct {
	Start *instant `json:"start,omitempty"` // nil = bound unset (zero time.Time)
	End   *instant `json:"end,omitempty"`
}

type calClientCase struct {
	Side   string   `json:"side"` // "client"
	Top    calPair  `json:"top"`
	Nested calPair  `json:"nested"`
	Prop   calPair  `json:"prop"`
	Expand *calPair `json:"expand,omitempty"`
	// Method "" = QueryCalendar; "multiget" = MultiGetCalendar (no filter:
	// calendar-data/expand is its only date-time position).
	Method string `json:"method,omitempty"`
}

func (p calPair) times() (s, e time.Time, err error) {
	if p.Start != nil {
		if s, err = p.Start.time(); err != nil {
			return
		}
	}
	if p.End != nil {
		if e, err = p.End.time(); err != nil {
			return
		}
	}
	return
}

func execCalClient(c *fw.Ctx, cs calClientCase) {
	c.Eval(1)
	var q caldav.CalendarQuery
	q.CompRequest = caldav.CalendarCompRequest{Name: "VCALENDAR", AllProps: true, AllComps: true}
	var err error
	bad := func(e error) {
		c.Inconclusive("C16 harness: cannot build instant: " + e.Error())
	}
	top := caldav.CompFilter{Name: "VCALENDAR"}
	nested := caldav.CompFilter{Name: "VEVENT"}
	pf := caldav.PropFilter{Name: "DTSTART"}
	if top.Start, top.End, err = cs.Top.times(); err != nil {
		bad(err)
		return
	}
	if nested.Start, nested.End, err = cs.Nested.times(); err != nil {
		bad(err)
		return
	}
	if pf.Start, pf.End, err = cs.Prop.times(); err != nil {
		bad(err)
		return
	}
	nested.Props = []caldav.PropFilter{pf}
	top.Comps = []caldav.CompFilter{nested}
	q.CompFilter = top
	if cs.Expand != nil {
		s, e, err := cs.Expand.times()
		if err != nil {
			bad(err)
			return
		}
		q.CompRequest.Expand = &caldav.CalendarExpandRequest{Start: s, End: e}
	}

	capt := &doubles.Capture{}
	var qerr error
	c.Journal(witness{Prim: "caldav-datetime", Case: cs})
	defer c.JournalDone()
	panicked, pv, stack := fw.Guard(func() {
		var cl *caldav.Client
		cl, qerr = caldav.NewClient(capt, "http://dav.test/")
		if qerr != nil {
			return
		}
		if cs.Method == "multiget" {
			_, qerr = cl.MultiGetCalendar(context.Background(), "/cal/", &caldav.CalendarMultiGet{Paths: []string{"/cal/a.ics"}, CompRequest: q.CompRequest})
		} else {
			_, qerr = cl.QueryCalendar(context.Background(), "/cal/", &q)
		}
	})
	call, rootName := "QueryCalendar", "calendar-query"
	if cs.Method == "multiget" {
		call, rootName = "MultiGetCalendar", "calendar-multiget"
	}
	if panicked {
		reportPanic(c, "caldav-datetime", "Client."+call, pv, stack, cs)
		return
	}
	ex := capt.Last()
	if ex == nil || ex.Method != "REPORT" {
		c.Inconclusive(fmt.Sprintf("C16: %s sent no REPORT request (err=%v)", call, qerr))
		return
	}
	root, perr := xmltree.Parse(ex.Body)
	if perr != nil || !root.Is(nsCal, rootName) {
		c.Inconclusive(fmt.Sprintf("C16: captured REPORT body is not a %s document: %v", rootName, perr))
		return
	}
	var topEl, nestedEl, propEl, expandEl *xmltree.Node
	if f := root.First(nsCal, "filter"); f != nil {
		if topEl = f.First(nsCal, "comp-filter"); topEl != nil {
			if nestedEl = topEl.First(nsCal, "comp-filter"); nestedEl != nil {
				propEl = nestedEl.First(nsCal, "prop-filter")
			}
		}
	}
	if p := root.First(nsDAV, "prop"); p != nil {
		if cd := p.First(nsCal, "calendar-data"); cd != nil {
			expandEl = cd.First(nsCal, "expand")
		}
	}
	trOf := func(el *xmltree.Node) *xmltree.Node {
		if el == nil {
			return nil
		}
		return el.First(nsCal, "time-range")
	}
	type pos struct {
		name string
		pair calPair
		el   *xmltree.Node // element carrying start/end
	}
	positions := []pos{{"comp-filter/time-range", cs.Top, trOf(topEl)}, {"comp-filter/comp-filter/time-range", cs.Nested, trOf(nestedEl)}, {"prop-filter/time-range", cs.Prop, trOf(propEl)}}
	if cs.Method == "multiget" {
		positions = nil
	}
	if cs.Expand != nil {
		name := "calendar-data/expand"
		if cs.Method == "multiget" {
			name = "multiget calendar-data/expand"
		}
		positions = append(positions, pos{name, *cs.Expand, expandEl})
	}
	sampledHere := false
	for _, p := range positions {
		if p.pair.Start == nil && p.pair.End == nil {
			c.Observe("caldav_client_bounds", p.name+"|range unset", 1)
			continue
		}
		for _, b := range []struct {
			attr string
			in   *instant
		}{{"start", p.pair.Start}, {"end", p.pair.End}} {
			var text string
			present := false
			if p.el != nil {
				text, present = p.el.Attr(b.attr)
			}
			got := map[string]interface{}{"position": p.name, "attribute": b.attr, "present": present, "text": text, "request_body": string(ex.Body)}
			if b.in == nil {
				// unset bound next to a set one: must not be on the wire
				c.Distinct("caldt|client|" + p.name + "|" + b.attr + "|unset")
				c.Observe("caldav_client_bounds", p.name+"|"+b.attr+" unset", 1)
				if present {
					key := "client→wire|caldav-datetime|unset-bound-written"
					if text == "00010101T000000Z" {
						key = "client→wire|caldav-datetime|zero-bound-written-as-year-1"
					}
					c.Report(key, fmt.Sprintf("%s: the unset %s bound is written as %s=%q", p.name, b.attr, b.attr, text), witness{"caldav-datetime", cs, got})
				}
				continue
			}
			in := *b.in
			t, _ := in.time()
			zb, yb := zoneBucket(in), yearBucket(in.Unix)
			c.Distinct("caldt|client|" + p.name + "|" + b.attr + "|" + zb + "|" + yb)
			c.Observe("caldav_client_zones", zb, 1)
			c.Observe("caldav_client_bounds", p.name+"|"+b.attr+" set", 1)
			got["instant"] = in
			got["local_time"] = t.String()
			got["want_text"] = fmtCalDT(in.Unix)
			if !sampledHere && in.Zone.Kind != "utc" && in.offsetAt() != 0 && wantSample(c, "caldav-client") {
				sampledHere = true
				c.Sample(map[string]interface{}{"prim": "caldav-datetime", "side": "client", "position": p.name, "attribute": b.attr, "instant": in, "local": t.String(), "wire": text, "want": fmtCalDT(in.Unix)})
			}
			u, ok := parseCalDT(text)
			switch {
			case !present:
				c.Report("client→wire|caldav-datetime|bound-missing", fmt.Sprintf("%s: %s=%s is not on the wire", p.name, b.attr, t), witness{"caldav-datetime", cs, got})
			case !ok:
				c.Report("client→wire|caldav-datetime|malformed-text", fmt.Sprintf("%s: %s=%s is written as %q, not a UTC date-time", p.name, b.attr, t, text), witness{"caldav-datetime", cs, got})
			case !secondsOK(u, in):
				key := "client→wire|caldav-datetime|wrong-instant"
				if off := int64(in.offsetAt()); off != 0 && (u == in.Unix+off || (in.Nanos > 0 && u == in.Unix+off+1)) {
					key = "client→wire|caldav-datetime|non-UTC-shift"
				}
				c.Report(key, fmt.Sprintf("%s: %s=%s (unix %d, UTC %s) is written as %q = unix %d", p.name, b.attr, t, in.Unix, fmtCalDT(in.Unix), text, u), witness{"caldav-datetime", cs, got})
			default:
				c.Observe("caldav_client_verdict", "wire text denotes the instant", 1)
			}
		}
	}
}

// ---------------------------------------------------------------- server side

type textPair struct {
	Start *string `json:"start,omitempty"` // nil = attribute absent
	End   *string `json:"end,omitempty"`
}

type calServerCase struct {
	Side   string   `json:"side"` // "server"
	Top    textPair `json:"top"`
	Nested textPair `json:"nested"`
	Prop   textPair `json:"prop"`
	Lex    int64    `json:"lex,omitempty"` // 0 = plain rendering, else seed of the lexical variation
	// Expand: start / end of calendar-data/expand in the prop element (RFC
	// 4791 section 9.6.5), observed at the CalendarCompRequest the backend
	// receives. Report "" = calendar-query; "multiget" = calendar-multiget of
	// one href (Top / Nested / Prop are not written: it has no filter).
	Expand *textPair `json:"expand,omitempty"`
	Report string    `json:"report,omitempty"`
}

func timeRangeEl(p textPair) *xmltree.Node {
	if p.Start == nil && p.End == nil {
		return nil
	}
	n := xmltree.El(nsCal, "time-range")
	if p.Start != nil {
		n.With("start", *p.Start)
	}
	if p.End != nil {
		n.With("end", *p.End)
	}
	return n
}

func (cs calServerCase) doc() *xmltree.Node {
	prop := xmltree.El(nsCal, "prop-filter").With("name", "DTSTART").Add(timeRangeEl(cs.Prop))
	nested := xmltree.El(nsCal, "comp-filter").With("name", "VEVENT").Add(timeRangeEl(cs.Nested), prop)
	top := xmltree.El(nsCal, "comp-filter").With("name", "VCALENDAR").Add(timeRangeEl(cs.Top), nested)
	propEl := xmltree.El(nsDAV, "prop", xmltree.El(nsDAV, "getetag"))
	if cs.Expand != nil {
		ex := xmltree.El(nsCal, "expand")
		if cs.Expand.Start != nil {
			ex.With("start", *cs.Expand.Start)
		}
		if cs.Expand.End != nil {
			ex.With("end", *cs.Expand.End)
		}
		propEl.Add(xmltree.El(nsCal, "calendar-data", ex))
	}
	if cs.Report == "multiget" {
		return xmltree.El(nsCal, "calendar-multiget", propEl, xmltree.El(nsDAV, "href", xmltree.Txt("/p/cal/c1/o.ics")))
	}
	return xmltree.El(nsCal, "calendar-query", propEl, xmltree.El(nsCal, "filter", top))
}

type serverObs struct {
	status int
	called int
	query  *caldav.CalendarQuery
	// comp is the CalendarCompRequest the backend received (of the query, or
	// of GetCalendarObject for a multiget)
	comp *caldav.CalendarCompRequest
}

func sendCalQuery(body []byte, multiget bool) (obs serverObs, err error) {
	be := &doubles.CalBackend{Principal: "/p/", HomeSet: "/p/cal/", QueryResult: []caldav.CalendarObject{}}
	cl := &doubles.InProc{Handler: &caldav.Handler{Backend: be}}
	req, err := http.NewRequest("REPORT", "http://dav.test/p/cal/c1/", bytes.NewReader(body))
	if err != nil {
		return obs, err
	}
	req.Header.Set("Content-Type", "application/xml; charset=utf-8")
	req.Header.Set("Depth", "1")
	resp, err := cl.Do(req)
	if err != nil {
		return obs, err
	}
	resp.Body.Close()
	obs.status = resp.StatusCode
	for _, call := range be.Calls() {
		if call.Op == "QueryCalendarObjects" && !multiget {
			obs.called++
			if q, ok := call.Arg.(*caldav.CalendarQuery); ok && q != nil {
				obs.query = q
				obs.comp = &q.CompRequest
			}
		}
		if call.Op == "GetCalendarObject" && multiget {
			obs.called++
			if cr, ok := call.Arg.(*caldav.CalendarCompRequest); ok {
				obs.comp = cr
			}
		}
	}
	return obs, nil
}

func execCalServer(c *fw.Ctx, cs calServerCase) {
	c.Eval(1)
	type bound struct {
		pos, attr string
		text      *string
		class     string
		want      int64
	}
	var bounds []bound
	multiget := cs.Report == "multiget"
	type namedPair struct {
		name string
		pair textPair
	}
	pairs := []namedPair{{"top", cs.Top}, {"nested", cs.Nested}, {"prop", cs.Prop}}
	if multiget {
		pairs = nil
	}
	if cs.Expand != nil {
		if cs.Expand.Start == nil || cs.Expand.End == nil {
			// expand wants both attributes (RFC 4791 section 9.6.5); what a
			// server does with half an expand is not a matter of the codec
			c.Observe("caldav_server_outcome", "expand with a missing attribute (not decided)", 1)
			return
		}
		name := "expand"
		if multiget {
			name = "multiget-expand"
		}
		pairs = append(pairs, namedPair{name, *cs.Expand})
	}
	for _, p := range pairs {
		for _, b := range []struct {
			attr string
			t    *string
		}{{"start", p.pair.Start}, {"end", p.pair.End}} {
			bd := bound{pos: p.name, attr: b.attr, text: b.t, class: "absent"}
			if b.t != nil {
				bd.class = calDTClass(*b.t)
				bd.want, _ = parseCalDT(*b.t)
			}
			bounds = append(bounds, bd)
		}
	}
	mustReject, dontCare := "", false
	var badText string
	for _, b := range bounds {
		switch {
		case b.class == "valid" || b.class == "absent":
		case strings.HasPrefix(b.class, "("):
			dontCare = true
		default:
			if mustReject == "" {
				mustReject, badText = b.class, *b.text
			}
		}
		c.Observe("caldav_server_texts", b.pos+"/"+b.attr+"|"+b.class, 1)
		c.Distinct("caldt|server|" + b.pos + "|" + b.attr + "|" + b.class + fmt.Sprintf("|lex=%v", cs.Lex != 0))
	}

	tree := cs.doc()
	var lx *xmltree.Lex
	if cs.Lex != 0 {
		lx = xmltree.FullLex(rand.New(rand.NewSource(cs.Lex)))
	}
	body := xmltree.Render(tree, lx)
	var obs serverObs
	var err error
	c.Journal(witness{Prim: "caldav-datetime", Case: cs})
	defer c.JournalDone()
	reportName := "calendar-query"
	if multiget {
		reportName = "calendar-multiget"
	}
	panicked, pv, stack := fw.Guard(func() { obs, err = sendCalQuery(body, multiget) })
	if panicked {
		reportPanic(c, "caldav-datetime", "Handler REPORT "+reportName, pv, stack, cs)
		return
	}
	if err != nil {
		c.Inconclusive("C16 harness: cannot send REPORT: " + err.Error())
		return
	}
	got := map[string]interface{}{"request_body": string(body), "status": obs.status, "backend_query_calls": obs.called}
	verdictKey := "valid"
	switch {
	case mustReject != "":
		verdictKey = "must-reject:" + mustReject
	case dontCare:
		verdictKey = "dont-care"
	}
	c.Observe("caldav_server_outcome", fmt.Sprintf("%s|%s|status=%d|backend_called=%d", reportName, verdictKey, obs.status, obs.called), 1)

	if mustReject != "" {
		if obs.called > 0 {
			if obs.query != nil {
				got["received"] = describeQuery(obs.query)
			}
			if obs.comp != nil && obs.comp.Expand != nil {
				got["received_expand"] = obs.comp.Expand.Start.String() + " .. " + obs.comp.Expand.End.String()
			}
			c.Report("wire→server|caldav-datetime|accepts-"+mustReject,
				fmt.Sprintf("%s with the date-time %q (%s) is handed to the backend (status %d)", reportName, badText, mustReject, obs.status), witness{"caldav-datetime", cs, got})
		}
		return
	}
	if dontCare {
		return
	}
	// Every date-time is valid: the query must reach the backend unchanged.
	if obs.called != 1 || obs.status/100 != 2 {
		if cs.Lex != 0 {
			// Decide on the plain rendering: the lexical variation is not this
			// property's subject.
			var plain serverObs
			p2, _, _ := fw.Guard(func() { plain, err = sendCalQuery(xmltree.Render(tree, nil), multiget) })
			if !p2 && err == nil && plain.called == 1 && plain.status/100 == 2 {
				c.Observe("caldav_server_outcome", "valid document refused only in a lexical variant (not decided here)", 1)
				return
			}
		}
		c.Report("wire→server|caldav-datetime|rejects-valid",
			fmt.Sprintf("%s with valid UTC date-times is answered %d and reaches the backend %d times", reportName, obs.status, obs.called), witness{"caldav-datetime", cs, got})
		return
	}
	recv := map[string][2]*time.Time{}
	if q := obs.query; q != nil {
		got["received"] = describeQuery(q)
		recv["top"] = [2]*time.Time{&q.CompFilter.Start, &q.CompFilter.End}
		if len(q.CompFilter.Comps) > 0 {
			n := &q.CompFilter.Comps[0]
			recv["nested"] = [2]*time.Time{&n.Start, &n.End}
			if len(n.Props) > 0 {
				recv["prop"] = [2]*time.Time{&n.Props[0].Start, &n.Props[0].End}
			}
		}
	}
	if obs.comp != nil && obs.comp.Expand != nil {
		e := obs.comp.Expand
		got["received_expand"] = e.Start.String() + " .. " + e.End.String()
		recv["expand"] = [2]*time.Time{&e.Start, &e.End}
		recv["multiget-expand"] = recv["expand"]
	}
	sampledHere := false
	for _, b := range bounds {
		if b.class != "valid" {
			if r, ok := recv[b.pos]; ok && b.class == "absent" {
				i := 0
				if b.attr == "end" {
					i = 1
				}
				c.Observe("caldav_server_absent_bound", fmt.Sprintf("received IsZero=%v", r[i].IsZero()), 1)
			}
			continue
		}
		r, ok := recv[b.pos]
		if !ok {
			c.Report("wire→server|caldav-datetime|bound-lost", fmt.Sprintf("the %s filter (with %s=%q) did not reach the backend", b.pos, b.attr, *b.text), witness{"caldav-datetime", cs, got})
			continue
		}
		i := 0
		if b.attr == "end" {
			i = 1
		}
		if !sampledHere && wantSample(c, "caldav-server") {
			sampledHere = true
			c.Sample(map[string]interface{}{"prim": "caldav-datetime", "side": "server", "position": b.pos, "attribute": b.attr, "wire": *b.text, "received": r[i].String(), "received_unix": r[i].Unix(), "want_unix": b.want})
		}
		if r[i].Unix() != b.want || r[i].Nanosecond() != 0 {
			c.Report("wire→server|caldav-datetime|wrong-instant",
				fmt.Sprintf("%s %s=%q (unix %d) reaches the backend as %s (unix %d)", b.pos, b.attr, *b.text, b.want, r[i], r[i].Unix()), witness{"caldav-datetime", cs, got})
		} else {
			c.Observe("caldav_server_verdict", "backend received the instant", 1)
		}
	}
}

func describeQuery(q *caldav.CalendarQuery) map[string]string {
	m := map[string]string{"top.start": q.CompFilter.Start.String(), "top.end": q.CompFilter.End.String()}
	if len(q.CompFilter.Comps) > 0 {
		n := q.CompFilter.Comps[0]
		m["nested.start"], m["nested.end"] = n.Start.String(), n.End.String()
		if len(n.Props) > 0 {
			m["prop.start"], m["prop.end"] = n.Props[0].Start.String(), n.Props[0].End.String()
		}
	}
	return m
}

func calDTNearMisses() []labelled {
	return []labelled{
		{"20060102T150405", "floating-no-Z"}, {"00010101T000000", "floating-no-Z"},
		{"20060102T150405+0100", "numeric-offset"}, {"20060102T150405-0800", "numeric-offset"}, {"20060102T150405+01:00", "numeric-offset"}, {"20060102T150405Z+0100", "numeric-offset"}, {"20060102T150405+01", "numeric-offset"},
		{"20060102", "date-only"}, {"20060102Z", "date-only"},
		{"2006-01-02T15:04:05Z", "extended-format"}, {"2006-01-02T15:04:05+01:00", "extended-format"}, {"2006-01-02 15:04:05", "extended-format"}, {"2006-01-02T15:04Z", "extended-format"},
		{"20060102t150405z", "case-variant"}, {"20060102T150405z", "case-variant"}, {"20060102t150405Z", "case-variant"},
		{"20061302T150405Z", "field-out-of-range"}, {"20060002T150405Z", "field-out-of-range"}, {"20060100T150405Z", "field-out-of-range"}, {"20060132T150405Z", "field-out-of-range"},
		{"20060230T150405Z", "field-out-of-range"}, {"20230229T150405Z", "field-out-of-range"}, {"20060102T240000Z", "field-out-of-range"}, {"20060102T250405Z", "field-out-of-range"},
		{"20060102T156005Z", "field-out-of-range"}, {"20060102T150461Z", "field-out-of-range"}, {"20060431T000000Z", "field-out-of-range"}, {"19000229T000000Z", "field-out-of-range"},
		{"", "empty"},
		{"2006012T150405Z", "malformed"}, {"020060102T150405Z", "malformed"}, {"20060102T15040Z", "malformed"}, {"20060102T1504055Z", "malformed"}, {"20060102150405Z", "malformed"},
		{"20060102 150405Z", "malformed"}, {"20060102T150405ZZ", "malformed"}, {"Z20060102T150405", "malformed"}, {"20060102T150405 Z", "malformed"}, {"20060102TT150405Z", "malformed"},
		{"1136214245", "malformed"}, {"now", "malformed"}, {"-0060102T150405Z", "malformed"}, {"+20060102T150405Z", "malformed"}, {"2006O1O2T150405Z", "malformed"},
		{"２００６0102T150405Z", "malformed"}, {"Mon, 02 Jan 2006 15:04:05 GMT", "malformed"}, {"20060102T150405UTC", "malformed"}, {"20060102T150405GMT", "malformed"}, {"T150405Z", "malformed"},
		// don't-care
		{"20060102T150405.5Z", "(fraction)"}, {"20060102T150405,25Z", "(fraction)"}, {" 20060102T150405Z", "(ws-wrapped)"}, {"20060102T150405Z\n", "(ws-wrapped)"}, {"20161231T235960Z", "(leap-second)"},
		{"00000101T000000Z", "(year-0000)"},
	}
}

func ptr(s string) *string { return &s }

func genCalClientPair(r *rand.Rand, allowUnset bool) calPair {
	s, e := genInstant(r), genInstant(r)
	for s.Unix == minUnix && s.Nanos == 0 {
		s = genInstant(r) // the zero time.Time is the "unset" marker, not an instant of the domain here
	}
	for e.Unix == minUnix && e.Nanos == 0 {
		e = genInstant(r)
	}
	p := calPair{Start: &s, End: &e}
	if allowUnset {
		switch r.Intn(10) {
		case 0:
			p.Start = nil
		case 1:
			p.End = nil
		case 2:
			p.Start, p.End = nil, nil
		}
	}
	return p
}

func genCalServerPair(r *rand.Rand) textPair {
	p := textPair{Start: ptr(fmtCalDT(genInstant(r).Unix)), End: ptr(fmtCalDT(genInstant(r).Unix))}
	switch r.Intn(10) {
	case 0:
		p.Start = nil
	case 1:
		p.End = nil
	case 2:
		p.Start, p.End = nil, nil
	}
	return p
}

func runCalDT(c *fw.Ctx) {
	// ---- client side
	if c.Shard == 0 {
		// boundary instants in a few zones, one at a time in every position
		zones := []zoneSpec{{Kind: "utc"}, {Kind: "fixed", Name: "+14", Offset: 14 * 3600}, {Kind: "fixed", Name: "-14", Offset: -14 * 3600},
			{Kind: "named", Name: "America/New_York"}, {Kind: "named", Name: "Asia/Kathmandu"}, {Kind: "named", Name: "Europe/Amsterdam"}}
		// one plain readable case first (it becomes the witness of a key that fires everywhere)
		ny := instant{Unix: 1136214245, Zone: zoneSpec{Kind: "named", Name: "America/New_York"}} // 2006-01-02T10:04:05-05:00
		ktm := instant{Unix: 1136300645, Zone: zoneSpec{Kind: "named", Name: "Asia/Kathmandu"}}
		execCalClient(c, calClientCase{Side: "client", Top: calPair{&ny, &ktm}, Nested: calPair{&ny, &ktm}, Prop: calPair{&ny, &ktm}, Expand: &calPair{&ny, &ktm}})
		for _, u := range boundaryInstants {
			for _, z := range zones {
				if u == minUnix {
					continue
				}
				in := instant{Unix: u, Zone: z}
				if t, err := in.time(); err != nil || t.Year() < 1 || t.Year() > 9999 {
					continue
				}
				other := instant{Unix: 1136214245, Zone: zoneSpec{Kind: "utc"}}
				execCalClient(c, calClientCase{Side: "client", Top: calPair{&in, &other}, Nested: calPair{&other, &in}, Prop: calPair{&in, &in}, Expand: &calPair{&in, &other}})
				execCalClient(c, calClientCase{Side: "client", Method: "multiget", Expand: &calPair{&other, &in}})
			}
		}
		// open ranges
		a := instant{Unix: 1136214245, Zone: zoneSpec{Kind: "utc"}}
		execCalClient(c, calClientCase{Side: "client", Top: calPair{Start: &a}, Nested: calPair{End: &a}, Prop: calPair{Start: &a}})
		execCalClient(c, calClientCase{Side: "client", Top: calPair{End: &a}, Nested: calPair{Start: &a}, Prop: calPair{End: &a}})
	}
	n := c.Pick(25000, 250000)
	for i := 0; i < n; i++ {
		if !c.Mine(i) {
			continue
		}
		r := c.Rand("caldt-client", i)
		cs := calClientCase{Side: "client", Top: genCalClientPair(r, true), Nested: genCalClientPair(r, true), Prop: genCalClientPair(r, true)}
		if r.Intn(2) == 0 {
			p := genCalClientPair(r, false)
			cs.Expand = &p
			if r.Intn(3) == 0 {
				cs = calClientCase{Side: "client", Method: "multiget", Expand: &p}
			}
		}
		execCalClient(c, cs)
	}

	// ---- server side
	valid := func() textPair {
		return textPair{Start: ptr("20060102T150405Z"), End: ptr("20060103T150405Z")}
	}
	if c.Shard == 0 {
		for _, nm := range calDTNearMisses() {
			if k := calDTClass(nm.text); k != nm.class {
				c.Inconclusive(fmt.Sprintf("C16 harness: CalDAV near-miss %q labelled %q but classified %q", nm.text, nm.class, k))
				continue
			}
			for pos := 0; pos < 10; pos++ {
				cs := calServerCase{Side: "server", Top: valid(), Nested: valid(), Prop: valid()}
				if pos >= 6 {
					e := valid()
					cs.Expand = &e
				}
				if pos >= 8 {
					cs = calServerCase{Side: "server", Report: "multiget", Expand: cs.Expand}
				}
				tp := []*textPair{&cs.Top, &cs.Nested, &cs.Prop, cs.Expand, cs.Expand}[pos/2]
				if pos%2 == 0 {
					tp.Start = ptr(nm.text)
				} else {
					tp.End = ptr(nm.text)
				}
				execCalServer(c, cs)
			}
		}
		for _, u := range boundaryInstants {
			t := ptr(fmtCalDT(u))
			execCalServer(c, calServerCase{Side: "server", Top: textPair{t, t}, Nested: textPair{t, nil}, Prop: textPair{nil, t}})
			execCalServer(c, calServerCase{Side: "server", Top: valid(), Nested: valid(), Prop: valid(), Expand: &textPair{t, t}})
			execCalServer(c, calServerCase{Side: "server", Report: "multiget", Expand: &textPair{t, t}})
		}
	}
	n = c.Pick(25000, 250000)
	const alphabet = "0123456789TZtz+-:. "
	for i := 0; i < n; i++ {
		if !c.Mine(i) {
			continue
		}
		r := c.Rand("caldt-server", i)
		cs := calServerCase{Side: "server", Top: genCalServerPair(r), Nested: genCalServerPair(r), Prop: genCalServerPair(r)}
		if r.Intn(2) == 0 {
			cs.Lex = 1 + r.Int63n(1<<40)
		}
		// calendar-data/expand in one case out of two, half of them in a
		// calendar-multiget
		targets := []*textPair{&cs.Top, &cs.Nested, &cs.Prop}
		switch r.Intn(4) {
		case 0:
			e := textPair{Start: ptr(fmtCalDT(genInstant(r).Unix)), End: ptr(fmtCalDT(genInstant(r).Unix))}
			cs.Expand = &e
			targets = append(targets, cs.Expand, cs.Expand)
		case 1:
			e := textPair{Start: ptr(fmtCalDT(genInstant(r).Unix)), End: ptr(fmtCalDT(genInstant(r).Unix))}
			cs = calServerCase{Side: "server", Report: "multiget", Lex: cs.Lex, Expand: &e}
			targets = []*textPair{cs.Expand}
		}
		if r.Intn(5) < 2 {
			// corrupt one bound
			tp := targets[r.Intn(len(targets))]
			var text string
			switch r.Intn(4) {
			case 0:
				nms := calDTNearMisses()
				text = nms[r.Intn(len(nms))].text
			case 1:
				text = genBytes(r)
				if !xmlChardataOK(text) {
					text = mutate(r, fmtCalDT(genInstant(r).Unix), alphabet)
				}
			default:
				text = fmtCalDT(genInstant(r).Unix)
				for k := 1 + r.Intn(2); k > 0; k-- {
					text = mutate(r, text, alphabet)
				}
			}
			if r.Intn(2) == 0 {
				tp.Start = ptr(text)
			} else {
				tp.End = ptr(text)
			}
		}
		execCalServer(c, cs)
	}
}

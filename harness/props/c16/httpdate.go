package c16

import (
	"encoding/xml"
	"fmt"
	"regexp"
	"strings"
	"time"

	"github.com/emersion/go-webdav/internal"
	"github.com/emersion/go-webdav/verifharness/fw"
)

// HTTP dates: internal.Time (MarshalText / UnmarshalText) and the
// getlastmodified element.

type dateCase struct {
	Mode string `json:"mode"` // roundtrip | decode
	// roundtrip
	Instant *instant `json:"instant,omitempty"`
	// decode
	Text  B      `json:"text,omitempty"`
	Class string `json:"class,omitempty"` // near-miss class of an enumerated corruption; "" = classify
	// WantUnix, when set on an in-grammar text, is the instant it denotes
	// (WantUnixAlt: second admissible reading of a two-digit year).
	WantUnix    *int64 `json:"want_unix,omitempty"`
	WantUnixAlt *int64 `json:"want_unix_alt,omitempty"`
	// Via: also through the Last-Modified header of the library's servers and
	// clients (headers.go): one of hdrVias, or "*" for all of them.
	Via string `json:"via,omitempty"`
}

// fmtIMF / fmtRFC850 / fmtAsctime are the harness's own writers of the three
// HTTP-date forms (RFC 7231 section 7.1.1.1).
func fmtIMF(u int64) string {
	y, mo, d, h, mi, s := civilFromUnix(u)
	return fmt.Sprintf("%s, %02d %s %04d %02d:%02d:%02d GMT", dayShort[weekdayOfUnix(u)], d, monthName[mo-1], y, h, mi, s)
}

func fmtRFC850(u int64) string {
	y, mo, d, h, mi, s := civilFromUnix(u)
	return fmt.Sprintf("%s, %02d-%s-%02d %02d:%02d:%02d GMT", dayLong[weekdayOfUnix(u)], d, monthName[mo-1], y%100, h, mi, s)
}

func fmtAsctime(u int64) string {
	y, mo, d, h, mi, s := civilFromUnix(u)
	return fmt.Sprintf("%s %s %2d %02d:%02d:%02d %04d", dayShort[weekdayOfUnix(u)], monthName[mo-1], d, h, mi, s, y)
}

// parseIMF is the strict independent reader of IMF-fixdate.
func parseIMF(s string) (int64, bool) {
	// "Sun, 06 Nov 1994 08:49:37 GMT"
	if len(s) != 29 || s[3:5] != ", " || s[7] != ' ' || s[11] != ' ' || s[16] != ' ' || s[19] != ':' || s[22] != ':' || s[25:] != " GMT" {
		return 0, false
	}
	wd := -1
	for i, n := range dayShort {
		if n == s[:3] {
			wd = i
		}
	}
	d, ok1 := num(s[5:7])
	mo := monthIndex(s[8:11])
	y, ok2 := num(s[12:16])
	h, ok3 := num(s[17:19])
	mi, ok4 := num(s[20:22])
	sec, ok5 := num(s[23:25])
	if wd < 0 || mo == 0 || !(ok1 && ok2 && ok3 && ok4 && ok5) || !validCivil(y, mo, d, h, mi, sec) {
		return 0, false
	}
	u := unixFromCivil(y, mo, d, h, mi, sec)
	if weekdayOfUnix(u) != wd {
		return 0, false
	}
	return u, true
}

// asctimeShape is deliberately wider than asctime-date (runs of spaces, one-
// or two-digit day and hour, any three letters, a fractional second): every
// text of this shape is don't-care on the rejection side.
var asctimeShape = regexp.MustCompile(`^[A-Za-z]{3} +[A-Za-z]{3} +[0-9]{1,2} +[0-9]{1,2}:[0-9]{2}:[0-9]{2}([.,][0-9]+)? +[0-9]{4}$`)

// rfc850ZoneShape: a text that starts like an IMF-fixdate or rfc850-date
// (day name, comma, space). Without the literal GMT anywhere, whatever stands
// in for the zone is not GMT.
var rfc850ZoneShape = regexp.MustCompile(`^[A-Za-z]+, `)

// dateClass: "" = in the grammar or don't-care; otherwise the class of a
// text that no reading of HTTP-date contains. IMF-fixdate and rfc850-date end
// in the case-sensitive literal GMT; asctime-date has a rigid shape.
func dateClass(text string) string {
	switch {
	case text == "":
		return "empty"
	case strings.Contains(text, "GMT"):
		return ""
	case asctimeShape.MatchString(text):
		return ""
	case gmtSynonymLast(text):
		// value-preserving leniency (UTC / UT / Z for GMT): don't-care
		return "(gmt-synonym)"
	case rfc850ZoneShape.MatchString(text):
		return "non-GMT-zone"
	}
	return "malformed"
}

func gmtSynonymLast(text string) bool {
	f := strings.Fields(text)
	if len(f) < 2 {
		return false
	}
	switch f[len(f)-1] {
	case "UTC", "UT", "Z":
		return true
	}
	return false
}

func execDate(c *fw.Ctx, cs dateCase) {
	c.Eval(1)
	if cs.Mode == "roundtrip" {
		execDateRoundTrip(c, cs)
	} else {
		execDateDecode(c, cs)
	}
}

func secondsOK(got int64, in instant) bool {
	return got == in.Unix || (in.Nanos > 0 && got == in.Unix+1)
}

func execDateRoundTrip(c *fw.Ctx, cs dateCase) {
	in := *cs.Instant
	t, err := in.time()
	if err != nil {
		c.Inconclusive("C16 harness: cannot build instant: " + err.Error())
		return
	}
	zb, yb := zoneBucket(in), yearBucket(in.Unix)
	sub := "whole"
	if in.Nanos > 0 {
		sub = "subsecond"
	}
	c.Distinct("http-date|roundtrip|" + zb + "|" + yb + "|" + sub)
	c.Observe("http_date_roundtrip_zones", zb, 1)
	c.Observe("http_date_roundtrip_years", yb, 1)
	type path struct {
		name string
		f    func() (wire string, back time.Time, err error)
	}
	paths := []path{
		{"MarshalText->UnmarshalText", func() (string, time.Time, error) {
			v := internal.Time(t)
			b, err := v.MarshalText()
			if err != nil {
				return string(b), time.Time{}, fmt.Errorf("MarshalText: %v", err)
			}
			var back internal.Time
			err = back.UnmarshalText(b)
			return string(b), time.Time(back), err
		}},
		{"xml getlastmodified", func() (string, time.Time, error) {
			b, err := xml.Marshal(&internal.GetLastModified{LastModified: internal.Time(t)})
			if err != nil {
				return string(b), time.Time{}, fmt.Errorf("xml.Marshal: %v", err)
			}
			var g internal.GetLastModified
			err = xml.Unmarshal(b, &g)
			wire := string(b)
			if i, j := strings.Index(wire, ">"), strings.LastIndex(wire, "</"); i >= 0 && j > i {
				wire = wire[i+1 : j]
			}
			return wire, time.Time(g.LastModified), err
		}},
	}
	headerAbsent := false
	for _, via := range viasOf(cs.Via) {
		via := via
		paths = append(paths, path{"server Last-Modified header -> " + via + " client", func() (string, time.Time, error) {
			g, err := hdrRoundTrip(via, "", t)
			// the zero time.Time stands for "no modification time": its
			// header may be left out (the instant still has to come back)
			headerAbsent = err == nil && !g.hasWire && t.IsZero()
			return g.wireLM, g.mod, err
		}})
	}
	for _, p := range paths {
		var wire string
		var back time.Time
		var err error
		headerAbsent = false
		panicked, pv, stack := fw.Guard(func() { wire, back, err = p.f() })
		c.Observe("http_date_roundtrip_paths", p.name, 1)
		if in.Zone.Kind == "named" && in.offsetAt() != 0 && wantSample(c, "http-date") {
			c.Sample(map[string]interface{}{"prim": "http-date", "instant": in, "local": t.String(), "wire": wire, "decoded_unix": back.Unix()})
		}
		got := map[string]interface{}{"path": p.name, "local_time": t.String(), "wire": B(wire), "err": fw.ErrString(err)}
		if err == nil && !panicked {
			got["decoded_unix"] = back.Unix()
		}
		switch {
		case panicked:
			reportPanic(c, "http-date", p.name, pv, stack, cs)
		case err != nil && strings.HasPrefix(err.Error(), "harness:"):
			c.Inconclusive("C16 " + p.name + ": " + err.Error())
		case err != nil:
			c.Report("roundtrip|http-date|decode-error", fmt.Sprintf("instant %s written as %q is refused on the way back (%s): %v", t, clip(wire), p.name, err), witness{"http-date", cs, got})
		case !secondsOK(back.Unix(), in):
			key := "roundtrip|http-date|instant-changed"
			if back.Unix() == in.Unix+int64(in.offsetAt()) && in.offsetAt() != 0 {
				key = "roundtrip|http-date|non-UTC-shift"
			}
			c.Report(key, fmt.Sprintf("instant %s (unix %d) written as %q comes back as unix %d (%s)", t, in.Unix, clip(wire), back.Unix(), p.name), witness{"http-date", cs, got})
		case headerAbsent:
			c.Observe("http_date_roundtrip_paths", p.name+" (zero time: header left out)", 1)
		default:
			// The text on the wire must itself be an HTTP-date for the instant
			// (implied by: the decoder takes it, and the decoder takes nothing
			// outside the grammar).
			if u, ok := parseIMF(wire); !ok {
				if _, ok2 := parseObs(wire); !ok2 {
					c.Report("encode|http-date|text-outside-grammar", fmt.Sprintf("instant %s is written as %q, which is not an HTTP-date", t, clip(wire)), witness{"http-date", cs, got})
				}
			} else if !secondsOK(u, in) {
				c.Report("encode|http-date|wrong-instant", fmt.Sprintf("instant %s (unix %d) is written as %q = unix %d", t, in.Unix, wire, u), witness{"http-date", cs, got})
			}
		}
	}
}

// parseObs recognises the two obsolete forms by shape only.
func parseObs(s string) (int64, bool) {
	if asctimeShape.MatchString(s) {
		return 0, true
	}
	if strings.HasSuffix(s, " GMT") && rfc850ZoneShape.MatchString(s) {
		return 0, true
	}
	return 0, false
}

func execDateDecode(c *fw.Ctx, cs dateCase) {
	text := string(cs.Text)
	cls := cs.Class
	if cls == "" || cls == "ok" {
		k := dateClass(text)
		if cls == "ok" && k != "" {
			c.Inconclusive(fmt.Sprintf("C16 harness: date text %q labelled in-grammar but classified %q", text, k))
			return
		}
		cls = k
	}
	label := cls
	if label == "" {
		label = "in-grammar-or-dont-care"
	}
	if strings.HasPrefix(cls, "(") {
		cls = "" // labelled don't-care zone
	}
	c.Distinct("http-date|decode|" + label + "|" + features(text))
	type dec struct {
		name string
		f    func() (time.Time, error)
		prim string // key element: "http-date", or "http-date-header" for the clients' own header readers
	}
	decs := []dec{{"UnmarshalText", func() (time.Time, error) {
		var t internal.Time
		err := t.UnmarshalText([]byte(text))
		return time.Time(t), err
	}, "http-date"}}
	if headerValueOK(text) {
		for _, via := range viasOf(cs.Via) {
			via := via
			decs = append(decs, dec{"Last-Modified header -> " + via + " client", func() (time.Time, error) {
				g, err := hdrDecode(via, map[string]string{"Last-Modified": text})
				return g.mod, err
			}, "http-date-header"})
		}
	}
	if xmlChardataOK(text) {
		decs = append(decs, dec{"xml getlastmodified", func() (time.Time, error) {
			var sb strings.Builder
			sb.WriteString(`<getlastmodified xmlns="DAV:">`)
			xml.EscapeText(&sb, []byte(text))
			sb.WriteString(`</getlastmodified>`)
			var g internal.GetLastModified
			err := xml.Unmarshal([]byte(sb.String()), &g)
			return time.Time(g.LastModified), err
		}, "http-date"})
	}
	for _, d := range decs {
		var t time.Time
		var err error
		panicked, pv, stack := fw.Guard(func() { t, err = d.f() })
		c.Observe("http_date_decode", label+"|"+verdict(err, panicked), 1)
		if d.prim != "http-date" {
			c.Observe("http_date_decode_header_side", d.name+"|"+label+"|"+verdict(err, panicked), 1)
		}
		if err != nil && strings.HasPrefix(err.Error(), "harness:") {
			c.Inconclusive("C16 " + d.name + ": " + err.Error())
			continue
		}
		got := map[string]interface{}{"decoder": d.name, "err": fw.ErrString(err)}
		if err == nil && !panicked {
			got["decoded"] = t.String()
			got["decoded_unix"] = t.Unix()
		}
		switch {
		case panicked:
			reportPanic(c, "http-date", d.name, pv, stack, cs)
		case cls != "":
			if err == nil {
				c.Report("decode|"+d.prim+"|accepts-"+cls, fmt.Sprintf("%s accepts %q (%s, outside the HTTP-date grammar) as %s", d.name, text, cls, t), witness{"http-date", cs, got})
			}
		case err == nil && cs.WantUnix != nil:
			if t.Unix() != *cs.WantUnix && (cs.WantUnixAlt == nil || t.Unix() != *cs.WantUnixAlt) {
				c.Report("decode|"+d.prim+"|instant-changed", fmt.Sprintf("%s reads %q as unix %d, want %d", d.name, text, t.Unix(), *cs.WantUnix), witness{"http-date", cs, got})
			}
		}
	}
}

func dateNearMisses() []labelled {
	const imf = "Mon, 02 Jan 2006 15:04:05"
	return []labelled{
		// a zone other than GMT: the value would be off by the zone's offset
		{"Monday, 02-Jan-06 15:04:05 PST", "non-GMT-zone"}, {"Monday, 02-Jan-06 15:04:05 EST", "non-GMT-zone"}, {"Monday, 02-Jan-06 15:04:05 CEST", "non-GMT-zone"},
		{"Monday, 02-Jan-06 15:04:05 UTC", "(gmt-synonym)"}, {"Monday, 02-Jan-06 15:04:05 MST", "non-GMT-zone"}, {"Monday, 02-Jan-06 15:04:05 Z", "(gmt-synonym)"},
		{"Monday, 02-Jan-06 15:04:05 gmt", "non-GMT-zone"},
		{imf + " UTC", "(gmt-synonym)"}, {imf + " PST", "non-GMT-zone"}, {imf + " UT", "(gmt-synonym)"}, {imf + " Z", "(gmt-synonym)"}, {imf + " gmt", "non-GMT-zone"}, {imf + " Gmt", "non-GMT-zone"},
		{imf + " +0000", "numeric-offset"}, {imf + " -0000", "numeric-offset"}, {imf + " +0100", "numeric-offset"}, {imf + " -0800", "numeric-offset"},
		{"Monday, 02-Jan-06 15:04:05 +0100", "numeric-offset"}, {"Mon Jan  2 15:04:05 +0100 2006", "numeric-offset"},
		{"Monday, 02-Jan-06 15:04:05 GMT+3", "non-GMT-zone"}, {"Monday, 02-Jan-06 15:04:05 GMT-8", "non-GMT-zone"}, {imf + " GMT+1", "trailing-garbage"}, {imf + " GMT foo", "trailing-garbage"}, {imf + " GMT GMT", "trailing-garbage"},
		{"Mon Jan  2 15:04:05 2006 GMT", "trailing-garbage"}, {"Mon Jan  2 15:04:05 2006 PST", "trailing-garbage"},
		{imf, "missing-zone"}, {imf + " ", "missing-zone"}, {"Monday, 02-Jan-06 15:04:05", "missing-zone"},
		{"Mon, 32 Jan 2006 15:04:05 GMT", "field-out-of-range"}, {"Mon, 00 Jan 2006 15:04:05 GMT", "field-out-of-range"}, {"Thu, 30 Feb 2006 15:04:05 GMT", "field-out-of-range"},
		{"Tue, 29 Feb 2023 15:04:05 GMT", "field-out-of-range"}, {"Mon, 02 Jan 2006 24:00:00 GMT", "field-out-of-range"}, {"Mon, 02 Jan 2006 25:04:05 GMT", "field-out-of-range"},
		{"Mon, 02 Jan 2006 15:60:05 GMT", "field-out-of-range"}, {"Mon, 02 Jan 2006 15:04:61 GMT", "field-out-of-range"}, {"Mon, 02 Foo 2006 15:04:05 GMT", "field-out-of-range"},
		{"Mon, 02 13 2006 15:04:05 GMT", "field-out-of-range"}, {"Monday, 32-Jan-06 15:04:05 GMT", "field-out-of-range"}, {"Mon Jan 32 15:04:05 2006", "field-out-of-range"},
		{"Mon Foo  2 15:04:05 2006", "field-out-of-range"},
		{"Mon, 02 Jan 06 15:04:05 GMT", "bad-year-width"}, {"Mon, 02 Jan 12006 15:04:05 GMT", "bad-year-width"}, {"Mon, 02 Jan 206 15:04:05 GMT", "bad-year-width"},
		{"Mon, 02 Jan 2006 15:04 GMT", "missing-field"}, {"02 Jan 2006 15:04:05 GMT", "missing-field"}, {"Mon, 02 Jan 15:04:05 GMT", "missing-field"}, {"Mon, Jan 2006 15:04:05 GMT", "missing-field"},
		{"GMT", "missing-field"}, {"Mon, 02 Jan 2006 GMT", "missing-field"},
		{"2006-01-02T15:04:05Z", "other-format"}, {"2006-01-02 15:04:05", "other-format"}, {"20060102T150405Z", "other-format"}, {"1136214245", "other-format"}, {"Mon, 02 Jan 2006 15:04:05 +0000 (UTC)", "other-format"},
		{"02/01/2006 15:04:05 GMT", "other-format"}, {"now", "other-format"}, {"0", "other-format"}, {"-1", "other-format"},
		{"", "empty"},
	}
}

func runHTTPDate(c *fw.Ctx) {
	if c.Shard == 0 {
		calendarSelfCheck(c)
		for _, nm := range dateNearMisses() {
			execDate(c, dateCase{Mode: "decode", Text: B(nm.text), Class: nm.class, Via: "*"})
		}
		// boundary instants in UTC, exactly
		for _, u := range boundaryInstants {
			execDate(c, dateCase{Mode: "roundtrip", Instant: &instant{Unix: u, Zone: zoneSpec{Kind: "utc"}}, Via: "*"})
		}
	}
	n := c.Pick(100000, 1000000)
	for i := 0; i < n; i++ {
		if !c.Mine(i) {
			continue
		}
		r := c.Rand("http-date-instant", i)
		in := genInstant(r)
		execDate(c, dateCase{Mode: "roundtrip", Instant: &in, Via: hdrViaFor(i / 16)})
	}
	// Wire texts: the three in-grammar forms (value-checked when accepted),
	// corruptions of them and arbitrary strings.
	n = c.Pick(60000, 600000)
	const alphabet = "GMTUCPSZ+-0123456789: ,adeJnFbo\t"
	zones := []string{"PST", "EST", "UTC", "CET", "CEST", "MST", "PDT", "UT", "Z", "gmt", "+0000", "+0100", "-0800", "GMT+1", "BST", "JST", "WAT", "A"}
	for i := 0; i < n; i++ {
		if !c.Mine(i) {
			continue
		}
		r := c.Rand("http-date-text", i)
		u := genInstant(r).Unix
		cs := dateCase{Mode: "decode", Via: hdrViaFor(i / 16)}
		switch r.Intn(10) {
		case 0:
			cs.Text, cs.WantUnix, cs.Class = B(fmtIMF(u)), &u, "ok"
		case 1:
			// two-digit year: only the century is open (RFC 7231: within 50 years of now; Go: 69 pivots)
			y, mo, d, h, mi, s := civilFromUnix(u)
			yy := y % 100
			if d > daysInMonth(1900+yy, mo) && d > daysInMonth(2000+yy, mo) {
				d = 28
			}
			a, b := unixFromCivil(1900+yy, mo, d, h, mi, s), unixFromCivil(2000+yy, mo, d, h, mi, s)
			if d > daysInMonth(1900+yy, mo) {
				a = b
			}
			if d > daysInMonth(2000+yy, mo) {
				b = a
			}
			cs.Text, cs.WantUnix, cs.WantUnixAlt, cs.Class = B(fmtRFC850(b)), &a, &b, "ok"
		case 2:
			cs.Text, cs.WantUnix, cs.Class = B(fmtAsctime(u)), &u, "ok"
		case 3:
			z := zones[r.Intn(len(zones))]
			cs.Text = B(strings.TrimSuffix(fmtRFC850(u), "GMT") + z)
		case 4:
			z := zones[r.Intn(len(zones))]
			cs.Text = B(strings.TrimSuffix(fmtIMF(u), "GMT") + z)
		case 5:
			cs.Text = B(genBytes(r))
		default:
			seed := []string{fmtIMF(u), fmtRFC850(u), fmtAsctime(u)}[r.Intn(3)]
			for k := 1 + r.Intn(2); k > 0; k-- {
				seed = mutate(r, seed, alphabet)
			}
			cs.Text = B(seed)
		}
		execDate(c, cs)
	}
}

// calendarSelfCheck compares the harness's calendar with the Go runtime's on
// a fixed sample; a disagreement makes the run inconclusive, never a finding.
func calendarSelfCheck(c *fw.Ctx) {
	r := c.Rand("calendar-self-check", 0)
	us := append([]int64{}, boundaryInstants...)
	for i := 0; i < 20000; i++ {
		us = append(us, minUnix+r.Int63n(maxUnix-minUnix+1))
	}
	for _, u := range us {
		if u < minUnix || u > maxUnix {
			continue
		}
		t := time.Unix(u, 0).UTC()
		y, mo, d, h, mi, s := civilFromUnix(u)
		if int64(t.Year()) != y || int64(t.Month()) != mo || int64(t.Day()) != d || int64(t.Hour()) != h || int64(t.Minute()) != mi || int64(t.Second()) != s ||
			int(t.Weekday()) != weekdayOfUnix(u) || unixFromCivil(y, mo, d, h, mi, s) != u {
			c.Inconclusive(fmt.Sprintf("C16 harness: calendar self-check failed at unix %d", u))
			return
		}
		if v, ok := parseIMF(fmtIMF(u)); !ok || v != u {
			c.Inconclusive(fmt.Sprintf("C16 harness: IMF-fixdate self-check failed at unix %d", u))
			return
		}
		if v, ok := parseCalDT(fmtCalDT(u)); !ok || v != u {
			c.Inconclusive(fmt.Sprintf("C16 harness: CalDAV date-time self-check failed at unix %d", u))
			return
		}
	}
	c.Observe("harness_self_check", "calendar agrees with the Go runtime on sampled instants", len(us))
}

package c16

import (
	"encoding/xml"
	"fmt"
	"math/rand"
	"net/url"
	"strings"

	"github.com/emersion/go-webdav/internal"
	"github.com/emersion/go-webdav/verifharness/fw"
)

// Hrefs: internal.Href (String / MarshalText / UnmarshalText) and the
// DAV:href element inside response. Domain: absolute paths whose first
// segment is non-empty, any bytes.

type hrefCase struct {
	Mode  string `json:"mode"` // roundtrip | decode
	Path  B      `json:"path,omitempty"`
	Text  B      `json:"text,omitempty"`
	Class string `json:"class,omitempty"`
}

func inHrefDomain(p string) bool {
	return len(p) >= 2 && p[0] == '/' && p[1] != '/'
}

// pathFeatures abstracts which kinds of bytes a path contains.
func pathFeatures(p string) string {
	var f [8]bool
	names := [8]string{"unreserved", "sub-delim", "gen-delim", "percent", "space", "ctl", "high-byte", "other-ascii"}
	for i := 0; i < len(p); i++ {
		b := p[i]
		switch {
		case b == '/':
		case b >= 'a' && b <= 'z', b >= 'A' && b <= 'Z', b >= '0' && b <= '9', strings.IndexByte("-._~", b) >= 0:
			f[0] = true
		case strings.IndexByte("!$&'()*+,;=", b) >= 0:
			f[1] = true
		case strings.IndexByte(":?#[]@", b) >= 0:
			f[2] = true
		case b == '%':
			f[3] = true
		case b == ' ':
			f[4] = true
		case b < 0x20 || b == 0x7f:
			f[5] = true
		case b >= 0x80:
			f[6] = true
		default:
			f[7] = true
		}
	}
	var l []string
	for i, on := range f {
		if on {
			l = append(l, names[i])
		}
	}
	shape := ""
	if strings.HasSuffix(p, "/") {
		shape += "|trailing-slash"
	}
	if strings.Contains(p[1:], "//") {
		shape += "|empty-segment"
	}
	if strings.Contains(p, "/./") || strings.Contains(p, "/../") || strings.HasSuffix(p, "/..") || strings.HasSuffix(p, "/.") {
		shape += "|dot-segment"
	}
	return strings.Join(l, "+") + shape
}

// hrefEqual reports whether the decoded value is the path and nothing else.
func hrefOnlyPath(h *internal.Href, p string) (bool, string) {
	u := (*url.URL)(h)
	switch {
	case u.Path != p:
		return false, "path"
	case u.Scheme != "" || u.Opaque != "" || u.User != nil || u.Host != "":
		return false, "authority-or-scheme-appeared"
	case u.RawQuery != "" || u.ForceQuery:
		return false, "query-appeared"
	case u.Fragment != "" || u.RawFragment != "":
		return false, "fragment-appeared"
	}
	return true, ""
}

func execHref(c *fw.Ctx, cs hrefCase) {
	c.Eval(1)
	if cs.Mode == "roundtrip" {
		execHrefRoundTrip(c, cs)
	} else {
		execHrefDecode(c, cs)
	}
}

func execHrefRoundTrip(c *fw.Ctx, cs hrefCase) {
	p := string(cs.Path)
	if !inHrefDomain(p) {
		c.Inconclusive(fmt.Sprintf("C16 harness: %q is outside the href domain", p))
		return
	}
	feat := pathFeatures(p)
	c.Distinct("href|roundtrip|" + feat)
	for _, f := range strings.FieldsFunc(feat, func(r rune) bool { return r == '+' || r == '|' }) {
		c.Observe("href_roundtrip_path_features", f, 1)
	}
	type path struct {
		name string
		f    func() (wire string, back internal.Href, err error)
	}
	paths := []path{
		{"String->UnmarshalText", func() (string, internal.Href, error) {
			h := internal.Href{Path: p}
			w := h.String()
			var back internal.Href
			err := back.UnmarshalText([]byte(w))
			return w, back, err
		}},
		{"MarshalText->UnmarshalText", func() (string, internal.Href, error) {
			h := internal.Href{Path: p}
			w, err := h.MarshalText()
			if err != nil {
				return string(w), internal.Href{}, fmt.Errorf("MarshalText: %v", err)
			}
			var back internal.Href
			err = back.UnmarshalText(w)
			return string(w), back, err
		}},
		{"xml response/href", func() (string, internal.Href, error) {
			resp := &internal.Response{Hrefs: []internal.Href{{Path: p}}, Status: &internal.Status{Code: 200}}
			b, err := xml.Marshal(resp)
			if err != nil {
				return string(b), internal.Href{}, fmt.Errorf("xml.Marshal: %v", err)
			}
			var back internal.Response
			if err := xml.Unmarshal(b, &back); err != nil {
				return string(b), internal.Href{}, err
			}
			if len(back.Hrefs) != 1 {
				return string(b), internal.Href{}, fmt.Errorf("%d href elements decoded", len(back.Hrefs))
			}
			// Response.Path is what every client of the library reads.
			if rp, err := back.Path(); err != nil {
				return string(b), back.Hrefs[0], fmt.Errorf("Response.Path: %v", err)
			} else if rp != back.Hrefs[0].Path {
				return string(b), back.Hrefs[0], fmt.Errorf("Response.Path %q differs from the href's path %q", rp, back.Hrefs[0].Path)
			}
			return string(b), back.Hrefs[0], nil
		}},
	}
	for _, pp := range paths {
		var wire string
		var back internal.Href
		var err error
		panicked, pv, stack := fw.Guard(func() { wire, back, err = pp.f() })
		c.Observe("href_roundtrip_paths", pp.name, 1)
		if strings.Contains(feat, "percent") && strings.Contains(feat, "high-byte") && len(p) < 30 && pp.name == "xml response/href" && wantSample(c, "href") {
			c.Sample(map[string]interface{}{"prim": "href", "path": cs.Path, "wire": wire, "decoded_path": B(back.Path)})
		}
		got := map[string]interface{}{"path": pp.name, "wire": B(wire), "decoded_path": B(back.Path), "err": fw.ErrString(err)}
		switch {
		case panicked:
			reportPanic(c, "href", pp.name, pv, stack, cs)
		case err != nil:
			c.Report("roundtrip|href|decode-error", fmt.Sprintf("path %q written as %q is refused on the way back (%s): %v", p, clip(wire), pp.name, err), witness{"href", cs, got})
		default:
			if ok, what := hrefOnlyPath(&back, p); !ok {
				got["decoded_url"] = fmt.Sprintf("%+v", url.URL(back))
				if what == "path" {
					c.Report("roundtrip|href|path-changed", fmt.Sprintf("path %q written as %q comes back as %q (%s)", p, clip(wire), back.Path, pp.name), witness{"href", cs, got})
				} else {
					c.Report("roundtrip|href|"+what, fmt.Sprintf("path %q written as %q comes back as %+v (%s)", p, clip(wire), url.URL(back), pp.name), witness{"href", cs, got})
				}
			}
		}
	}
}

// hrefClass: enumerated near-misses carry their class; generated texts are
// must-reject only for two defects every URI grammar agrees on, and only
// where they sit in the authority/path part of a reference that starts with
// "/" (the only kind of href the statement's domain contains). A control byte
// or stray percent sign inside a query, a fragment or an opaque part is
// don't-care: net/url keeps those parts raw and the path is not affected.
func hrefClass(text string) string {
	if !strings.HasPrefix(text, "/") {
		return ""
	}
	end := len(text)
	if i := strings.IndexAny(text, "?#"); i >= 0 {
		end = i
	}
	head := text[:end]
	for i := 0; i < len(head); i++ {
		if head[i] < 0x20 || head[i] == 0x7f {
			return "control-byte"
		}
	}
	for i := 0; i < len(head); i++ {
		if head[i] == '%' && (i+2 >= len(head) || !isHex(head[i+1]) || !isHex(head[i+2])) {
			return "bad-percent-escape"
		}
	}
	return ""
}

func isHex(b byte) bool {
	return b >= '0' && b <= '9' || b >= 'a' && b <= 'f' || b >= 'A' && b <= 'F'
}

func execHrefDecode(c *fw.Ctx, cs hrefCase) {
	text := string(cs.Text)
	cls := cs.Class
	if cls == "" {
		cls = hrefClass(text)
	}
	label := cls
	if label == "" {
		label = "dont-care"
	}
	c.Distinct("href|decode|" + label + "|" + features(text))
	var h internal.Href
	var err error
	panicked, pv, stack := fw.Guard(func() { err = h.UnmarshalText([]byte(text)) })
	c.Observe("href_decode", label+"|"+verdict(err, panicked), 1)
	got := map[string]interface{}{"err": fw.ErrString(err)}
	if err == nil && !panicked {
		got["decoded_url"] = fmt.Sprintf("%+v", url.URL(h))
	}
	switch {
	case panicked:
		reportPanic(c, "href", "UnmarshalText", pv, stack, cs)
	case cls != "" && err == nil:
		c.Report("decode|href|accepts-"+cls, fmt.Sprintf("Href.UnmarshalText accepts %q (%s) as %+v", text, cls, url.URL(h)), witness{"href", cs, got})
	case cls == "" && err == nil && inHrefDomain(text) && plainPath(text):
		// A path of unreserved characters and slashes has one reading only.
		if ok, what := hrefOnlyPath(&h, text); !ok {
			c.Report("decode|href|value-changed", fmt.Sprintf("Href.UnmarshalText reads %q as %+v (%s)", text, url.URL(h), what), witness{"href", cs, got})
		}
	}
}

func plainPath(p string) bool {
	for i := 0; i < len(p); i++ {
		b := p[i]
		if !(b == '/' || b >= 'a' && b <= 'z' || b >= 'A' && b <= 'Z' || b >= '0' && b <= '9' || strings.IndexByte("-._~", b) >= 0) {
			return false
		}
	}
	return true
}

func hrefNearMisses() []labelled {
	return []labelled{
		{"/a%zzb", "bad-percent-escape"}, {"/a%2", "bad-percent-escape"}, {"/%", "bad-percent-escape"}, {"/a%%41", "bad-percent-escape"}, {"/a%g0", "bad-percent-escape"}, {"/a%0g", "bad-percent-escape"},
		{"/a\x00b", "control-byte"}, {"/a\nb", "control-byte"}, {"/a\rb", "control-byte"}, {"/a\tb", "control-byte"}, {"/a\x7fb", "control-byte"}, {"/a\x1fb", "control-byte"},
		{":foo", "missing-scheme"}, {"://host/x", "missing-scheme"},
		{"http://[::1/x", "bad-ip-literal"}, {"http://[::1]x/", "bad-ip-literal"},
		{"1http://host/x", "bad-scheme"},
	}
}

var hrefSegments = []string{"a", "b", "dir", "file.txt", "cal", "x y", "a%20b", "%", "%41", "%zz", "%2F", "%2f", "%252F", "?", "#", "a?b", "a#b", "&", "a&b=c", ";", "=",
	"+", "a+b", ":", "a:b", "@", "[", "]", "[x]", "*", "!", "$", "'", "(", ")", ",", "~", "-", "_", ".", "..", "...", "\\", "a\\b", "|", "^", "`", "{", "}", "<", ">", "\"",
	"é", "日本", "\U0001F600", "\xff", "\x80\x81", "\xc3", "\x00", "\x01", "\t", "\n", "\r", "\x7f", " ", "  ", "http:", "http:x", "C:", "a/b"}

func genHrefPath(r *rand.Rand) string {
	var sb strings.Builder
	switch r.Intn(20) {
	case 0:
		// raw bytes
		n := 1 + r.Intn(20)
		sb.WriteByte('/')
		for i := 0; i < n; i++ {
			b := byte(r.Intn(256))
			if i == 0 && b == '/' {
				b = 'a'
			}
			sb.WriteByte(b)
		}
		return sb.String()
	case 1:
		// one segment, any single byte (all 256 turn up)
		b := byte(r.Intn(256))
		if b == '/' {
			return "/a/"
		}
		return "/" + string([]byte{b})
	}
	n := 1 + r.Intn(5)
	for i := 0; i < n; i++ {
		sb.WriteByte('/')
		seg := hrefSegments[r.Intn(len(hrefSegments))]
		if r.Intn(4) == 0 {
			seg += hrefSegments[r.Intn(len(hrefSegments))]
		}
		if i > 0 && r.Intn(15) == 0 {
			seg = "" // empty inner segment
		}
		sb.WriteString(seg)
	}
	if r.Intn(3) == 0 {
		sb.WriteByte('/')
	}
	p := sb.String()
	if !inHrefDomain(p) {
		p = "/a" + p
	}
	return p
}

func runHref(c *fw.Ctx) {
	// every single byte as a one-byte first segment, and inside a segment
	idx := 0
	for b := 0; b < 256; b++ {
		if b != '/' {
			if c.Mine(idx) {
				execHref(c, hrefCase{Mode: "roundtrip", Path: B("/" + string([]byte{byte(b)}))})
				execHref(c, hrefCase{Mode: "roundtrip", Path: B("/dir/x" + string([]byte{byte(b)}) + "y/")})
			}
			idx++
		}
	}
	if c.Shard == 0 {
		c.Observe("exhaustive", "href: every byte value as a one-byte first segment and inside a later segment", 1)
		for _, nm := range hrefNearMisses() {
			execHref(c, hrefCase{Mode: "decode", Text: B(nm.text), Class: nm.class})
		}
	}
	n := c.Pick(100000, 1000000)
	for i := 0; i < n; i++ {
		if !c.Mine(i) {
			continue
		}
		r := c.Rand("href-path", i)
		execHref(c, hrefCase{Mode: "roundtrip", Path: B(genHrefPath(r))})
	}
	n = c.Pick(40000, 400000)
	const alphabet = "/%:?#@[] \x00\x7fazAZ09.-"
	for i := 0; i < n; i++ {
		if !c.Mine(i) {
			continue
		}
		r := c.Rand("href-text", i)
		var text string
		switch r.Intn(4) {
		case 0:
			text = genBytes(r)
		case 1:
			text = genHrefPath(r) // raw, unescaped
		default:
			seeds := []string{"/a/b%20c/", "http://host/a/b", "/cal/%C3%A9.ics", "//host/x", "/a?b#c", "/plain/path-1.txt"}
			text = seeds[r.Intn(len(seeds))]
			for k := 1 + r.Intn(2); k > 0; k-- {
				text = mutate(r, text, alphabet)
			}
		}
		execHref(c, hrefCase{Mode: "decode", Text: B(text)})
	}
}

package c11

import (
	"encoding/json"
	"fmt"
	"sort"
	"strings"

	"github.com/emersion/go-webdav/verifharness/davx"
	"github.com/emersion/go-webdav/verifharness/fw"
	"github.com/emersion/go-webdav/verifharness/xmltree"
)

// outcome is what the monitor saw at the HTTP boundary.
type outcome struct {
	Status   int    `json:"status"`
	Body     string `json:"body"`
	Panic    string `json:"panic,omitempty"`
	stack    string
	panicked bool
}

// witness is the literal failing case.
type witness struct {
	World   world   `json:"world"`
	Request request `json:"request"`
	Seen    outcome `json:"seen"`
	Detail  string  `json:"detail,omitempty"`
}

// send hands the request to the handler in its plain framing.
func (e *env) send(q request) outcome {
	q.Framing = ""
	return e.sendMem(q)
}

type checker struct {
	c *fw.Ctx
	e *env
}

func capBody(o outcome) outcome {
	if len(o.Body) > 6000 {
		o.Body = o.Body[:6000] + "…(truncated)"
	}
	return o
}

func (k *checker) report(key, what string, q request, out outcome, detail string) {
	k.c.Report(key, what, witness{World: k.e.W, Request: q, Seen: capBody(out), Detail: detail})
}

func key(server, level, form, anomaly string) string {
	return server + " | " + level + " | " + form + " | " + anomaly
}

func validDepth(q request) bool {
	return q.NoDepth || q.Depth == "0" || q.Depth == "1" || q.Depth == "infinity"
}

func depthClass(q request) string {
	switch {
	case q.NoDepth:
		return "absent"
	case validDepth(q):
		return q.Depth
	}
	return "invalid"
}

func formClass(f string) string {
	switch f {
	case "empty", "empty-xmlct":
		return "empty-body"
	}
	return f
}

func parseErrorClass(err error) string {
	s := err.Error()
	switch {
	case strings.Contains(s, "hrefs"):
		return "propstat-response-without-exactly-one-href"
	case strings.Contains(s, "without href"):
		return "response-without-href"
	case strings.Contains(s, "neither status nor propstat"):
		return "response-with-neither-status-nor-propstat"
	case strings.Contains(s, "both status and propstat"):
		return "response-with-status-and-propstat"
	case strings.Contains(s, "want {DAV:}multistatus"):
		return "root-element-not-DAV-multistatus"
	case strings.HasPrefix(s, "davx:"):
		return "multistatus-grammar"
	}
	return "body-not-well-formed-namespace-correct-xml"
}

// run executes one request in the plain framing and applies the oracle.
func (k *checker) run(q request) outcome {
	c, e := k.c, k.e
	q.Framing = ""
	c.Journal(witness{World: e.W, Request: q})
	out := e.send(q)
	c.JournalDone()
	k.judge(q, out)
	return out
}

func (k *checker) judge(q request, out outcome) {
	c, e := k.c, k.e
	c.Eval(1)
	res := e.res[q.Target]
	srv := e.W.Server
	form := formClass(q.Form)
	c.Observe("status", fmt.Sprintf("%s form=%s depth=%s -> %d", srv, q.Form, depthClass(q), out.Status), 1)
	c.Observe("level", srv+" "+res.Level, 1)
	if out.panicked {
		k.report(key(srv, res.Level, form, "panic "+fw.PanicSite(out.stack)), "handler panicked: "+out.Panic, q, out, out.stack)
		return
	}
	// A CalDAV/CardDAV path in the other trailing-slash spelling than the
	// backend's: the statement does not say whether it addresses the resource.
	// Any refusal and a 207 without a response are left open; a 207 that
	// answers about resources is judged as the answer about that resource.
	respelled := (srv == srvCal || srv == srvCard) && q.Path != res.Path
	if respelled {
		c.Distinct(fmt.Sprintf("%s|%s|respelled|%s|%s", srv, res.Level, form, depthClass(q)))
		if out.Status != 207 {
			c.Observe("dont-care", fmt.Sprintf("%s %s in the other trailing-slash spelling -> %d", srv, res.Level, out.Status), 1)
			return
		}
		if ms, err := davx.ReadMultiStatus([]byte(out.Body)); err == nil && len(ms.Responses) == 0 {
			c.Observe("dont-care", fmt.Sprintf("%s %s in the other trailing-slash spelling -> 207 without a response (form=%s)", srv, res.Level, form), 1)
			return
		}
	}
	// --- requests that must be refused ---
	switch q.Form {
	case "none":
		c.Distinct(fmt.Sprintf("%s|%s|none|%s", srv, res.Level, depthClass(q)))
		if out.Status != 400 {
			k.report(key(srv, res.Level, form, fmt.Sprintf("status-%d", out.Status)),
				fmt.Sprintf("propfind naming none of propname/allprop/prop answered %d, want 400", out.Status), q, out, "")
		}
		return
	case "none-foreign-ns":
		c.Distinct(fmt.Sprintf("%s|%s|none-foreign|%s", srv, res.Level, depthClass(q)))
		if out.Status != 400 {
			k.report(key("all", "any", "none", fmt.Sprintf("foreign-namespace-form-element | status-%d", out.Status)),
				fmt.Sprintf("propfind whose only child is allprop/propname/prop in a foreign namespace answered %d, want 400", out.Status), q, out, "")
		}
		return
	case "malformed":
		c.Distinct(fmt.Sprintf("%s|%s|malformed|%s", srv, res.Level, depthClass(q)))
		if out.Status < 400 || out.Status > 499 {
			k.report(key(srv, res.Level, form, fmt.Sprintf("status-%d", out.Status)),
				fmt.Sprintf("malformed body answered %d, want 4xx", out.Status), q, out, "")
		}
		return
	case "near-empty":
		// White space, an XML declaration or a BOM only: either "no document"
		// (4xx) or "empty" (allprop); the statement does not decide.
		c.Distinct(fmt.Sprintf("%s|%s|near-empty|%s|ct=%v", srv, res.Level, depthClass(q), q.CT != ""))
		if out.Status >= 400 && out.Status <= 499 {
			c.Observe("dont-care", fmt.Sprintf("body without a document -> %d", out.Status), 1)
			return
		}
		if out.Status != 207 {
			k.report(key(srv, res.Level, form, fmt.Sprintf("status-%d", out.Status)),
				fmt.Sprintf("body holding no document answered %d, want 4xx or the allprop answer", out.Status), q, out, "")
			return
		}
	}
	if !validDepth(q) {
		c.Distinct(fmt.Sprintf("%s|%s|%s|bad-depth", srv, res.Level, form))
		if srv == srvPrincipal {
			// The helper's members are not part of the statement and it may
			// ignore Depth altogether: 400 or the Depth-0 answer.
			if out.Status == 400 {
				return
			}
		} else {
			if out.Status != 400 {
				k.report(key(srv, res.Level, "any", fmt.Sprintf("invalid-depth | status-%d", out.Status)),
					fmt.Sprintf("invalid Depth %q answered %d, want 400", q.Depth, out.Status), q, out, "")
			}
			return
		}
	}
	if q.Form == "empty-xmlct" && out.Status == 400 {
		// No body but an XML Content-Type: an empty document is not XML; the
		// statement does not decide between 400 and allprop.
		c.Observe("dont-care", "empty body with XML Content-Type -> 400", 1)
		return
	}
	distinctNames := map[string]bool{}
	for _, n := range q.Names {
		distinctNames[name(n[0], n[1])] = true
	}
	if q.Form == "prop" && len(distinctNames) == 0 {
		c.Observe("dont-care", fmt.Sprintf("empty <prop/> -> %d", out.Status), 1)
		return
	}
	// --- a valid request: 207, well-formed multistatus ---
	if out.Status != 207 {
		k.report(key(srv, res.Level, form, fmt.Sprintf("status-%d", out.Status)),
			fmt.Sprintf("valid PROPFIND answered %d, want 207", out.Status), q, out, "")
		return
	}
	ms, err := davx.ReadMultiStatus([]byte(out.Body))
	if err != nil {
		k.report(key(srv, res.Level, form, parseErrorClass(err)), "answer is not a valid multistatus: "+err.Error(), q, out, err.Error())
		return
	}
	// --- scope ---
	depth := q.Depth
	if q.NoDepth {
		depth = "infinity"
	}
	if srv == srvPrincipal {
		depth = "0"
	}
	want := e.scope(q.Target, depth)
	idxOf := make([]int, len(ms.Responses))
	scopeOK := true
	scopeKey := func(anomaly string) string {
		return key(srv, res.Level, "any", "depth-"+depthClass(q)+" | "+anomaly)
	}
	if (srv == srvCal || srv == srvCard) && res.Level == "root" && len(ms.Responses) == 1 {
		// The root answers on behalf of the principal: the single response
		// may carry the request path or the principal's path, whatever Depth.
		p := ms.Responses[0].Paths[0]
		if p != q.Path && p != e.W.Dav.Principal {
			scopeOK = false
			k.report(scopeKey("root-labelled-with-foreign-href"), fmt.Sprintf("root answered with href %q", p), q, out, "")
		}
		idxOf[0] = q.Target
		c.Observe("dont-care", "dav root: single response labelled "+map[bool]string{true: "request path", false: "principal path"}[p == q.Path], 1)
	} else {
		got := map[int]int{}
		for i, r := range ms.Responses {
			idx := e.lookup(r.Paths[0])
			if idx < 0 && respelled && r.Paths[0] == q.Path {
				idx = q.Target // the addressed resource under the request's spelling
			}
			idxOf[i] = idx
			switch {
			case idx == belowLink && (depth == "infinity"):
				// whether a link to a directory is descended into is left open
				c.Observe("dont-care", "answer below a link to a directory at Depth infinity", 1)
			case idx == belowLink:
				scopeOK = false
				k.report(scopeKey("out-of-scope-resource-answered"), fmt.Sprintf("%q lies below a link member: outside the scope of Depth %s on %q", r.Paths[0], depthClass(q), q.Path), q, out, r.Hrefs[0])
			case idx < 0:
				scopeOK = false
				k.report(scopeKey("href-of-no-resource"), fmt.Sprintf("href %q (path %q) is not a resource of the backend", r.Hrefs[0], r.Paths[0]), q, out, r.Hrefs[0])
			case !want[idx]:
				scopeOK = false
				k.report(scopeKey("out-of-scope-resource-answered"), fmt.Sprintf("%q (%s) is outside the scope of Depth %s on %q", r.Paths[0], e.res[idx].Level, depthClass(q), q.Path), q, out, r.Hrefs[0])
			default:
				got[idx]++
				if got[idx] == 2 {
					scopeOK = false
					k.report(scopeKey("resource-answered-twice"), fmt.Sprintf("%q has more than one response", r.Paths[0]), q, out, r.Hrefs[0])
				}
			}
			if e.fileServer() && r.Paths[0] != removeDotSegments(r.Paths[0]) {
				c.Observe("dont-care", "file server href with a dot segment (resolved per RFC 3986)", 1)
			}
		}
		for idx := range want {
			if m := e.res[idx]; m.Link && m.Parent == q.Target && depth != "0" {
				after := "no"
				for _, j := range e.children(q.Target) {
					if e.res[j].Path > m.Path {
						after = "yes"
					}
				}
				c.Observe("links", fmt.Sprintf("%s member of the addressed %s, depth=%s, siblings-sorting-after=%s, listed=%v", m.Level, res.Level, depthClass(q), after, got[idx] > 0), 1)
			}
			if got[idx] == 0 && e.res[idx].Optional {
				c.Observe("dont-care", "dangling link omitted from the listing", 1)
				continue
			}
			if got[idx] == 0 {
				scopeOK = false
				k.report(scopeKey("in-scope-resource-missing"), fmt.Sprintf("%q (%s) is in scope of Depth %s on %q but has no response", e.res[idx].Path, e.res[idx].Level, depthClass(q), q.Path), q, out, e.res[idx].Path)
			}
		}
	}
	c.Observe("scope", fmt.Sprintf("%s %s depth=%s scope<=%d", srv, res.Level, depthClass(q), bucket(len(want))), 1)
	c.Observe("responses", fmt.Sprintf("%s n=%d", srv, bucket(len(ms.Responses))), 1)
	// --- accounting, per response ---
	sig := k.nameSig(q)
	c.Distinct(fmt.Sprintf("%s|%s|%s|%s|%s|n=%d", srv, res.Level, form, depthClass(q), sig, bucket(len(want))))
	for i := range ms.Responses {
		if idxOf[i] < 0 {
			continue
		}
		k.account(q, out, idxOf[i], &ms.Responses[i], distinctNames)
	}
	if scopeOK && c.WantSample() && len(ms.Responses) > 1 && q.Form == "prop" {
		c.Sample(map[string]interface{}{"server": srv, "request": q, "status": out.Status, "responses": len(ms.Responses)})
	}
}

func bucket(n int) int {
	switch {
	case n <= 3:
		return n
	case n <= 5:
		return 5
	case n <= 10:
		return 10
	case n <= 20:
		return 20
	}
	return 99
}

// nameSig abstracts the requested name list: how many known / unknown /
// foreign / no-namespace names and whether one is repeated.
func (k *checker) nameSig(q request) string {
	if q.Form != "prop" {
		return "-"
	}
	cnt := map[string]int{}
	seen := map[[2]string]bool{}
	dup := false
	for _, n := range q.Names {
		if seen[n] {
			dup = true
			continue
		}
		seen[n] = true
		cnt[nameClass(n)]++
	}
	cap3 := func(n int) int {
		if n > 3 {
			return 3
		}
		return n
	}
	return fmt.Sprintf("k%d,u%d,f%d,e%d,dup=%v,filled=%v", cap3(cnt["known"]), cap3(cnt["unknown"]), cap3(cnt["foreign"]), cap3(cnt["no-namespace"]), dup, len(q.Fill) > 0)
}

func emptyElement(n *xmltree.Node) bool {
	return len(n.Elems()) == 0 && !n.HasNonSpaceText() && n.TextContent() == ""
}

func localOf(n string) string {
	if i := strings.LastIndexByte(n, '}'); i >= 0 {
		return n[i+1:]
	}
	return n
}

// account checks one response against the reference of resource idx.
func (k *checker) account(q request, out outcome, idx int, resp *davx.Response, requested map[string]bool) {
	c, e := k.c, k.e
	res := e.res[idx]
	srv := e.W.Server
	form := formClass(q.Form)
	if resp.Status != nil || len(resp.PropStats) == 0 {
		k.report(key(srv, res.Level, form, "response-without-propstat"), fmt.Sprintf("response for %q carries a status instead of propstat", resp.Paths[0]), q, out, resp.Hrefs[0])
		return
	}
	ref := k.reference(idx)
	if !ref.ok {
		return // the reference itself was reported
	}
	self := ref.selfOnly
	type ans struct {
		code int
		node *xmltree.Node
	}
	answered := map[string][]ans{}
	var order []string
	for _, ps := range resp.PropStats {
		c.Observe("propstat", fmt.Sprintf("%s form=%s code=%d", srv, form, ps.Status.Code), 1)
		for _, p := range ps.Props {
			n := p.Name()
			if len(answered[n]) == 0 {
				order = append(order, n)
			}
			answered[n] = append(answered[n], ans{ps.Status.Code, p})
		}
	}
	where := fmt.Sprintf("response %q", resp.Paths[0])
	switch q.Form {
	case "propname":
		for _, n := range order {
			if len(answered[n]) > 1 {
				k.report(key(srv, res.Level, form, "name-listed-twice"), fmt.Sprintf("%s lists %s %d times", where, n, len(answered[n])), q, out, n)
			}
			for _, a := range answered[n] {
				if a.code != 200 {
					k.report(key(srv, res.Level, form, fmt.Sprintf("name-under-%d", a.code)), fmt.Sprintf("%s lists %s under %d", where, n, a.code), q, out, n)
				}
				if !emptyElement(a.node) {
					k.report(key(srv, res.Level, form, "name-with-value"), fmt.Sprintf("%s: propname answer carries a value for %s", where, n), q, out, n)
				}
			}
			if !self && !ref.names[n] {
				k.report(key(srv, res.Level, form, "name-not-in-depth-0-propname"), fmt.Sprintf("%s lists %s which the resource's own propname answer lacks", where, n), q, out, n)
			}
		}
		for n := range ref.names {
			if len(answered[n]) == 0 {
				k.report(key(srv, res.Level, form, "available-name-missing"), fmt.Sprintf("%s lacks %s which the resource's own propname answer lists", where, n), q, out, n)
			}
		}
	case "allprop", "empty", "empty-xmlct", "near-empty", "allprop-include":
		included := map[string]bool{}
		if q.Form == "allprop-include" {
			for _, n := range q.Names {
				included[name(n[0], n[1])] = true
			}
		}
		for _, n := range order {
			if len(answered[n]) > 1 {
				k.report(key(srv, res.Level, form, "property-answered-twice"), fmt.Sprintf("%s answers %s %d times", where, n, len(answered[n])), q, out, n)
			}
			if included[n] && !ref.names[n] && len(answered[n]) == 1 && answered[n][0].code == 404 {
				// a name of the include list the resource does not have:
				// accounting for it under 404 and leaving it out are both
				// left open
				c.Observe("dont-care", "allprop+include: unavailable included name answered under 404", 1)
				continue
			}
			if !self && !ref.names[n] {
				k.report(key(srv, res.Level, form, "property-not-in-propname"), fmt.Sprintf("%s answers %s which propname does not list", where, n), q, out, n)
				continue
			}
			for _, a := range answered[n] {
				if a.code >= 500 && k.openStatus(resp, n) {
					continue
				}
				if a.code != 200 {
					k.report(key(srv, res.Level, form, fmt.Sprintf("available-property-under-%d", a.code)), fmt.Sprintf("%s answers %s under %d", where, n, a.code), q, out, n)
				} else if v, ok := ref.values[n]; ok && v != a.node.Canon(xmltree.CmpOpts{}) {
					k.report(key(srv, res.Level, form, "value-differs-from-depth-0-allprop"), fmt.Sprintf("%s: value of %s differs from the resource's own allprop answer", where, n), q, out, n)
				}
			}
		}
		for n := range ref.names {
			if len(answered[n]) == 0 {
				k.report(key(srv, res.Level, form, "available-property-missing"), fmt.Sprintf("%s lacks %s which propname lists", where, n), q, out, n)
			}
		}
	case "prop":
		times := map[string]int{}
		for _, n := range q.Names {
			times[name(n[0], n[1])]++
		}
		// A data property named with content (comp / prop children select a
		// part of the object): which part comes back is left open.
		partial := map[string]bool{}
		for i, f := range q.Fill {
			if f != "" && i < len(q.Names) {
				c.Observe("filled-names", fmt.Sprintf("%s %s %s", srv, nameClass(q.Names[i]), f), 1)
				if n := name(q.Names[i][0], q.Names[i][1]); n == name(nsCal, "calendar-data") || n == name(nsCard, "address-data") {
					partial[n] = true
				}
			}
		}
		// A requested name in no namespace that comes back as an empty 404
		// element in the DAV: namespace is one anomaly of its own; take those
		// answers out so that the rest of the accounting is judged by itself.
		renamed := map[string]bool{}
		for n := range requested {
			if !strings.HasPrefix(n, "{}") || len(answered[n]) > 0 {
				continue
			}
			dn := name(nsDAV, localOf(n))
			l := answered[dn]
			removed := 0
			for i := len(l) - 1; i >= 0 && removed < times[n]; i-- {
				if l[i].code == 404 && emptyElement(l[i].node) {
					l = append(l[:i], l[i+1:]...)
					removed++
				}
			}
			if removed == 0 {
				continue
			}
			renamed[n] = true
			answered[dn] = l
			if len(l) == 0 {
				delete(answered, dn)
				for i, o := range order {
					if o == dn {
						order = append(order[:i], order[i+1:]...)
						break
					}
				}
			}
			k.report(key("all", "any", "prop", "no-namespace-name | answered-in-DAV-namespace"),
				fmt.Sprintf("%s: requested %s is answered as {DAV:}%s", where, n, localOf(n)), q, out, n)
		}
		for n := range requested {
			got := len(answered[n])
			switch {
			case got == 1 || renamed[n]:
			case got == 0:
				k.report(key(srv, res.Level, form, "requested-name-unanswered"), fmt.Sprintf("%s does not account for %s", where, n), q, out, n)
			case times[n] > 1 && got == times[n]:
				k.report("all | prop | duplicate-requested-name | answered-twice",
					fmt.Sprintf("%s: %s was named %d times in the request and is answered %d times", where, n, times[n], got), q, out, n)
			default:
				k.report(key(srv, res.Level, form, "name-answered-more-than-once"), fmt.Sprintf("%s answers %s %d times (named %d times)", where, n, got, times[n]), q, out, n)
			}
		}
		for _, n := range order {
			if !requested[n] {
				k.report(key(srv, res.Level, form, "unrequested-name-answered"), fmt.Sprintf("%s answers %s which was not requested", where, n), q, out, n)
				continue
			}
			avail := ref.names[n]
			for _, a := range answered[n] {
				switch {
				case self && a.code == 200:
				case self && a.code == 404:
					if !emptyElement(a.node) {
						k.report(key(srv, res.Level, form, "404-property-not-empty"), fmt.Sprintf("%s: %s under 404 carries content", where, n), q, out, n)
					}
				case self:
					k.report(key(srv, res.Level, form, fmt.Sprintf("property-under-%d", a.code)), fmt.Sprintf("%s: %s answered under %d", where, n, a.code), q, out, n)
				case avail && a.code == 200:
					if v, ok := ref.values[n]; ok && !partial[n] && v != a.node.Canon(xmltree.CmpOpts{}) {
						k.report(key(srv, res.Level, form, "value-differs-from-allprop"), fmt.Sprintf("%s: value of %s differs from the resource's allprop answer", where, n), q, out, n)
					}
				case avail && a.code >= 500 && k.openStatus(resp, n):
				case avail:
					k.report(key(srv, res.Level, form, fmt.Sprintf("available-property-under-%d", a.code)), fmt.Sprintf("%s: %s is listed by propname but answered under %d", where, n, a.code), q, out, n)
				case a.code == 404:
					if !emptyElement(a.node) {
						k.report(key(srv, res.Level, form, "404-property-not-empty"), fmt.Sprintf("%s: %s under 404 carries content", where, n), q, out, n)
					}
				default:
					k.report(key(srv, res.Level, form, fmt.Sprintf("unavailable-property-under-%d", a.code)), fmt.Sprintf("%s: %s is not listed by propname but answered under %d", where, n, a.code), q, out, n)
				}
			}
		}
	}
}

// openStatus: the response describes a resource for which the status of
// property n is left open between 200 and 5xx (see resource.OpenStatus).
func (k *checker) openStatus(resp *davx.Response, n string) bool {
	if len(resp.Paths) != 1 {
		return false
	}
	i, ok := k.e.byPath[resp.Paths[0]]
	if !ok {
		i, ok = k.e.byPath[strings.TrimSuffix(resp.Paths[0], "/")]
	}
	return ok && k.e.res[i].OpenStatus[n]
}

const plainPropname = `<?xml version="1.0" encoding="utf-8"?><D:propfind xmlns:D="DAV:"><D:propname/></D:propfind>`
const plainAllprop = `<?xml version="1.0" encoding="utf-8"?><D:propfind xmlns:D="DAV:"><D:allprop/></D:propfind>`

// reference asks the resource itself (Depth 0) for its propname and allprop
// answers, checks them against the model's lower bound and keeps them as the
// definition of "available" for every other answer about this resource.
func (k *checker) reference(idx int) *reference {
	c, e := k.c, k.e
	if r := e.refs[idx]; r != nil {
		return r
	}
	ref := &reference{names: map[string]bool{}, values: map[string]string{}}
	e.refs[idx] = ref
	res := e.res[idx]
	if res.Link {
		ref.selfOnly, ref.ok = true, true
		return ref
	}
	srv := e.W.Server
	single := func(q request) (*davx.Response, outcome, bool) {
		c.Journal(witness{World: e.W, Request: q})
		out := e.send(q)
		c.JournalDone()
		c.Eval(1)
		c.Observe("status", fmt.Sprintf("%s form=%s depth=0 (reference) -> %d", srv, q.Form, out.Status), 1)
		if out.panicked {
			k.report(key(srv, res.Level, q.Form, "panic "+fw.PanicSite(out.stack)), "handler panicked: "+out.Panic, q, out, out.stack)
			return nil, out, false
		}
		if out.Status != 207 {
			k.report(key(srv, res.Level, q.Form, fmt.Sprintf("status-%d", out.Status)), fmt.Sprintf("Depth-0 %s answered %d, want 207", q.Form, out.Status), q, out, "")
			return nil, out, false
		}
		ms, err := davx.ReadMultiStatus([]byte(out.Body))
		if err != nil {
			k.report(key(srv, res.Level, q.Form, parseErrorClass(err)), "answer is not a valid multistatus: "+err.Error(), q, out, err.Error())
			return nil, out, false
		}
		if len(ms.Responses) != 1 {
			k.report(key(srv, res.Level, "any", fmt.Sprintf("depth-0 | %d-responses", bucket(len(ms.Responses)))), fmt.Sprintf("Depth 0 answered with %d responses", len(ms.Responses)), q, out, "")
			return nil, out, false
		}
		r := &ms.Responses[0]
		p := r.Paths[0]
		okLabel := e.lookup(p) == idx
		if (srv == srvCal || srv == srvCard) && res.Level == "root" {
			okLabel = p == q.Path || p == e.W.Dav.Principal
		}
		if !okLabel {
			k.report(key(srv, res.Level, "any", "depth-0 | response-labelled-with-another-href"), fmt.Sprintf("Depth 0 on %q answered with href %q", q.Path, r.Hrefs[0]), q, out, r.Hrefs[0])
			return nil, out, false
		}
		if r.Status != nil {
			k.report(key(srv, res.Level, q.Form, "response-without-propstat"), "response carries a status instead of propstat", q, out, "")
			return nil, out, false
		}
		return r, out, true
	}
	// propname
	qn := request{Target: idx, Path: res.Path, Depth: "0", Form: "propname", CT: "application/xml", Body: plainPropname}
	rn, outn, ok := single(qn)
	if !ok {
		return ref
	}
	good := true
	names, codes := rn.PropNames()
	for i, n := range names {
		if ref.names[n] {
			good = false
			k.report(key(srv, res.Level, "propname", "name-listed-twice"), fmt.Sprintf("propname lists %s more than once", n), qn, outn, n)
		}
		ref.names[n] = true
		if codes[i] != 200 {
			good = false
			k.report(key(srv, res.Level, "propname", fmt.Sprintf("name-under-%d", codes[i])), fmt.Sprintf("propname lists %s under %d", n, codes[i]), qn, outn, n)
		}
	}
	for _, ps := range rn.PropStats {
		for _, p := range ps.Props {
			if !emptyElement(p) {
				good = false
				k.report(key(srv, res.Level, "propname", "name-with-value"), fmt.Sprintf("propname answer carries a value for %s", p.Name()), qn, outn, p.Name())
			}
		}
	}
	var reqNames []string
	for n := range res.Required {
		reqNames = append(reqNames, n)
	}
	sort.Strings(reqNames)
	for _, n := range reqNames {
		if !ref.names[n] {
			good = false
			k.report(key(srv, res.Level, "propname", "resource-has-property-but-not-listed "+localOf(n)),
				fmt.Sprintf("the backend's content gives %q a %s but propname does not list it", res.Path, n), qn, outn, n)
		}
	}
	// allprop
	qa := request{Target: idx, Path: res.Path, Depth: "0", Form: "allprop", CT: "application/xml", Body: plainAllprop}
	ra, outa, ok := single(qa)
	if !ok {
		return ref
	}
	seen := map[string]bool{}
	for _, ps := range ra.PropStats {
		for _, p := range ps.Props {
			n := p.Name()
			if seen[n] {
				good = false
				k.report(key(srv, res.Level, "allprop", "property-answered-twice"), fmt.Sprintf("allprop answers %s more than once", n), qa, outa, n)
				continue
			}
			seen[n] = true
			if !ref.names[n] {
				good = false
				k.report(key(srv, res.Level, "allprop", "property-not-in-propname"), fmt.Sprintf("allprop answers %s which propname does not list", n), qa, outa, n)
				continue
			}
			if ps.Status.Code >= 500 && res.OpenStatus[n] {
				k.c.Observe("dont-care", "value the server cannot produce (unencodable object) answered under 5xx", 1)
				continue
			}
			if ps.Status.Code != 200 {
				good = false
				k.report(key(srv, res.Level, "allprop", fmt.Sprintf("available-property-under-%d", ps.Status.Code)), fmt.Sprintf("allprop answers %s under %d", n, ps.Status.Code), qa, outa, n)
				continue
			}
			ref.values[n] = p.Canon(xmltree.CmpOpts{})
			chk, has := res.Required[n]
			if !has {
				chk, has = res.Values[n]
				if has {
					c.Observe("value-checks", fmt.Sprintf("%s %s %s", srv, res.Level, localOf(n)), 1)
				}
			}
			if has && chk != nil && !chk(p) {
				good = false
				k.report(key(srv, res.Level, "allprop", "wrong-value "+localOf(n)),
					fmt.Sprintf("allprop on %q: value of %s does not match the backend's content", res.Path, n), qa, outa, n)
			}
		}
	}
	for n := range ref.names {
		if !seen[n] {
			good = false
			k.report(key(srv, res.Level, "allprop", "available-property-missing"), fmt.Sprintf("allprop lacks %s which propname lists", n), qa, outa, n)
		}
	}
	ref.ok = good
	c.Observe("reference", fmt.Sprintf("%s %s names=%d", srv, res.Level, len(ref.names)), 1)
	return ref
}

// runEnv executes the request group of one world.
func runEnv(c *fw.Ctx, i int) {
	r := c.Rand("c11-env", i)
	w := genWorld(r, i)
	e, err := buildEnv(w, c.WorkDir)
	if err != nil {
		if e != nil {
			e.close()
		}
		c.Inconclusive(fmt.Sprintf("C11: cannot build world %d: %v", i, err))
		return
	}
	defer e.close()
	c.Observe("worlds", fmt.Sprintf("%s resources<=%d", w.Server, bucket(len(e.res))), 1)
	var mods []modSpec
	for _, f := range w.Files {
		if !f.Dir && f.Link == "" {
			mods = append(mods, f.modSpec)
		}
	}
	if w.Dav != nil {
		for _, o := range w.Dav.Objs {
			mods = append(mods, o.modSpec)
		}
	}
	for _, m := range mods {
		c.Observe("modification-times", w.Server+" "+m.class(), 1)
	}
	if len(e.modOff) > 0 {
		c.Observe("dont-care", "fs-local: the file system did not store the modification time as given (presence only)", len(e.modOff))
	}
	k := &checker{c: c, e: e}
	// One target of every level present, then random ones.
	var targets []int
	seenLevel := map[string]bool{}
	for idx, res := range e.res {
		if !seenLevel[res.Level] && !res.Link {
			seenLevel[res.Level] = true
			targets = append(targets, idx)
		}
	}
	perTarget := 6
	extra := 24
	if w.Server == srvPrincipal {
		extra = 12
	}
	for _, t := range targets {
		for j := 0; j < perTarget; j++ {
			q := genRequest(r, e, t)
			k.framings(r, q, k.run(q))
		}
	}
	for j := 0; j < extra; j++ {
		t := r.Intn(len(e.res))
		if e.res[t].Link {
			t = e.res[t].Parent // links are judged as members, never addressed
		}
		q := genRequest(r, e, t)
		k.framings(r, q, k.run(q))
	}
}

func c11Run(c *fw.Ctx) {
	n := c.Pick(1600, 40000)
	for i := 0; i < n; i++ {
		if c.Mine(i) {
			runEnv(c, i)
		}
	}
}

func c11Replay(c *fw.Ctx, raw json.RawMessage) {
	var w witness
	if err := json.Unmarshal(raw, &w); err != nil {
		c.Inconclusive("C11 replay: " + err.Error())
		return
	}
	e, err := buildEnv(w.World, c.WorkDir)
	if err != nil {
		if e != nil {
			e.close()
		}
		c.Inconclusive("C11 replay: " + err.Error())
		return
	}
	defer e.close()
	k := &checker{c: c, e: e}
	if w.Request.Target < 0 || w.Request.Target >= len(e.res) {
		c.Inconclusive("C11 replay: bad target")
		return
	}
	// A finding of the reference stage is reproduced by asking for the
	// reference; any other one by re-running the request.
	k.reference(w.Request.Target)
	base := k.run(w.Request)
	if f := w.Request.Framing; f != "" {
		k.framed(w.Request, base, f)
	}
}

func init() {
	fw.Register(&fw.Property{
		ID:     "C11",
		Run:    c11Run,
		Replay: c11Replay,
		Rule: "worlds are drawn per index from (seed): file trees (webdav.Handler over LocalFileSystem on a generated directory - 70% of them with 1-4 symbolic links to directories, to files and dangling, relative targets inside the tree, at the top level and in sub-collections, named to sort among their siblings - and over the in-memory FS with arbitrary metadata), " +
			"CalDAV/CardDAV backends with 0-5 collections x 0-6 objects with/without optional metadata under 6 prefixes, and ServePrincipal options; " +
			"modification times of files and objects: half recent, three in ten from a list of boundary instants (the Unix epoch and its neighbours, ends of a minute/day, 32-bit limits, leap day, 2000, 1900, 1601, 9999-12-31T23:59:59Z), two in ten anywhere in 1902..2106 (fs-local, set with os.Chtimes) or 1601..9999 (doubles), a third with a sub-second part, the doubles' in a zone of their own (a third) or with a monotonic reading (an eighth), and the zero time.Time (doubles: no modification time) in UTC or a zone; per world every level present is addressed " +
			"6 times plus 12-24 random targets; each request draws Depth {0,1,infinity,absent,invalid}, a form {prop with 0-8 names from known+unknown+foreign+no-namespace pools with duplicates and shuffles, " +
			"allprop, propname, empty body, empty body with XML Content-Type, none-of-the-three, foreign-namespace form element, malformed, body of only white space / XML declaration / BOM} and a random lexical rendering; " +
			"one named property element in five of a prop request is not empty (text, white space, attributes, xml:lang, nested elements with known / the same / foreign names, CALDAV:comp and CARDDAV:prop selections, a comment, twelve levels of nesting); " +
			"one CalDAV/CardDAV request in eight below the root spells the path with the other trailing slash than the backend's; " +
			"a quarter of the file-server member names look like implementation artefacts (.webdav-put-*, .DS_Store, .git, ~x, x~, .#x, #x#, lost+found, '...', '.. ', dot names, 150-200 byte names); " +
			"every request without a document in its body is repeated in every in-process body framing (unknown length, one-byte reads, known length with a non-NoBody reader) and in two of four hand-written framings over a real TCP connection (Content-Length, no length header, chunked, one-byte chunks), 30% of the other requests in one framing, and the answer must equal the plain-framing answer; " +
			"every resource answered about is first asked for its own Depth-0 propname and allprop (reference, also checked against the double's content). " +
			"distinct_nontrivial counts distinct (server, level, form, depth class, name-class signature, scope size bucket) of requests that were decided.",
		Assumptions: []string{
			"'available' for a resource is defined by its own Depth-0 propname answer, which in turn must list resourcetype and every property the double's content provides (tag, instant, length, MIME type, display name, description, size limit, principal, home set)",
			"a file or object has getlastmodified iff its backend reports a modification time other than the zero time.Time (whatever instant, zone, sub-second part or monotonic reading; a file of the local file system always has one); its value is that instant as an HTTP-date; where the file system did not store the instant given to os.Chtimes (checked with os.Lstat) only presence is owed",
			"scope is computed from the world specification (parent links of the generated tree / principal -> home set -> collections -> objects), never from the library",
			"hrefs are compared after percent-decoding; file servers: dot segments resolved (RFC 3986) and a collection may carry or lack a trailing slash; CalDAV/CardDAV: the backend's own path exactly",
			"don't-care: empty <prop/>; empty body with an XML Content-Type (400 or allprop); CalDAV/CardDAV root answered with a single response labelled with the request path or the principal's path for any Depth; invalid Depth on ServePrincipal (400 or Depth-0 answer)",
			"symbolic links (fs-local): every directory entry of the addressed collection, whatever its kind, is a member in scope exactly once; how a link is described (file or collection, which properties and values) is don't-care (only the answer's own consistency is judged: each requested name once, 200 or 404, 404 empty); answers below a link to a directory are don't-care at Depth infinity; a dangling link may be listed or omitted; links are never addressed themselves",
			"RFC 4918 section 9.1: the answer to a PROPFIND is a function of the request, not of how its body is framed (known or unknown length, chunk sizes, read granularity); a reader that returns (0, nil) before delivering is only used for bodies with content; a body of only white space, an XML declaration or a BOM may be refused (4xx) or taken as empty (allprop), in each framing on its own; a malformed body (among them one to three bytes of junk with and without a Content-Type) must be refused in every framing",
			"wire exchanges that fail as I/O (never seen) are inconclusive, not findings; no oracle depends on time",
			"the prop and allprop values of one resource must coincide; a property element named with content is named all the same and what is nested in it is not a property name; only for calendar-data / address-data named with content is the value left open (a part of the object may be selected)",
			"CalDAV/CardDAV values checked when answered under 200 by the resource's own allprop (presence not demanded): supported-calendar-component-set = the backend's list when it gives one (any order), getcontenttype of objects = text/calendar / text/vcard (parameters aside), calendar-data / address-data holds the UID line of that very object (not judged for objects with characters XML cannot carry or that the encoder refuses)",
			"a CalDAV/CardDAV path in the other trailing-slash spelling than the backend's may be refused (any non-207) or answered 207 without a response, whatever the request; a 207 with responses is judged as the answer about that resource, whose own href may then be spelled as requested",
			"Depth values used as valid are exactly 0, 1, infinity; invalid ones are clearly outside the grammar (no case or white-space variants)",
		},
		MinEvals:    func(t string) int64 { return map[bool]int64{false: 50000, true: 1500000}[t == "thorough"] },
		MinDistinct: func(t string) int64 { return map[bool]int64{false: 3000, true: 8000}[t == "thorough"] },
		TimeoutS:    func(t string) int { return map[bool]int{false: 300, true: 3600}[t == "thorough"] },
	})
}

package c11

import (
	"bufio"
	"bytes"
	"fmt"
	"io"
	"io/ioutil"
	"math/rand"
	"net"
	"net/http"
	"net/http/httptest"
	"sort"
	"strings"
	"time"

	"github.com/emersion/go-webdav/verifharness/davx"
	"github.com/emersion/go-webdav/verifharness/fw"
	"github.com/emersion/go-webdav/verifharness/xmltree"
)

// Body framings. RFC 4918 section 9.1: a PROPFIND without a body is an allprop
// request; how the (possibly empty) body is framed - known length, unknown
// length, chunk sizes, read granularity - is not part of the request, so the
// answer must not depend on it. Every framed request is judged against the
// answer to the same request in the plain framing.
//
// In-process framings (the *http.Request a net/http server would hand over):
//
//	cl-1        ContentLength -1, Transfer-Encoding chunked, plain reader
//	one-byte    the same, the reader delivers one byte per Read
//	zero-nil    the same, the reader returns (0, nil) before every delivery
//	            (bodies with content only)
//	cl0-reader  empty body: ContentLength 0 with a reader that is not http.NoBody
//
// Wire framings (a real TCP connection to an http.Server over the handler,
// request written by hand):
//
//	wire-cl         Content-Length: n and the body
//	wire-none       neither Content-Length nor Transfer-Encoding (empty body only)
//	wire-chunked    Transfer-Encoding: chunked, one chunk (empty: the last-chunk only)
//	wire-chunked-1  Transfer-Encoding: chunked, one byte per chunk
var memFramings = []string{"cl-1", "one-byte", "zero-nil", "cl0-reader"}
var wireFramings = []string{"wire-cl", "wire-none", "wire-chunked", "wire-chunked-1"}

func framingApplies(f, body string) bool {
	switch f {
	case "cl0-reader", "wire-none":
		return body == ""
	case "zero-nil":
		return body != ""
	}
	return true
}

func framingClass(f string) string {
	switch f {
	case "cl0-reader", "wire-cl", "wire-none":
		return "known-length"
	}
	return "unknown-length"
}

type oneByteReader struct{ r io.Reader }

func (o oneByteReader) Read(p []byte) (int, error) {
	if len(p) == 0 {
		return 0, nil
	}
	return o.r.Read(p[:1])
}

// zeroNilReader returns (0, nil) on every other call, which io.Reader permits.
type zeroNilReader struct {
	r    io.Reader
	tick bool
}

func (z *zeroNilReader) Read(p []byte) (int, error) {
	z.tick = !z.tick
	if z.tick {
		return 0, nil
	}
	return z.r.Read(p)
}

// frame applies an in-process framing to a request built without body.
func frame(hr *http.Request, framing, body string) {
	var rd io.Reader = bytes.NewReader([]byte(body))
	switch framing {
	case "cl0-reader":
		hr.Body = ioutil.NopCloser(rd)
		hr.ContentLength = 0
		return
	case "one-byte":
		rd = oneByteReader{rd}
	case "zero-nil":
		rd = &zeroNilReader{r: rd}
	}
	hr.Body = ioutil.NopCloser(rd)
	hr.ContentLength = -1
	hr.TransferEncoding = []string{"chunked"}
}

func isWire(f string) bool { return strings.HasPrefix(f, "wire-") }

// wireAddr starts (once per world) an http.Server over the handler.
func (e *env) wireAddr() (string, error) {
	if e.addr != "" {
		return e.addr, nil
	}
	ln, err := net.Listen("tcp", "127.0.0.1:0")
	if err != nil {
		return "", err
	}
	srv := &http.Server{Handler: e.h}
	go srv.Serve(ln)
	prev := e.cleanup
	e.cleanup = func() {
		srv.Close()
		if prev != nil {
			prev()
		}
	}
	e.addr = ln.Addr().String()
	return e.addr, nil
}

// sendWire writes the request by hand over TCP and reads the whole reply.
// ioErr is set when the exchange itself failed (never a finding).
func (e *env) sendWire(q request) (out outcome, ioErr error) {
	addr, err := e.wireAddr()
	if err != nil {
		return out, err
	}
	conn, err := net.DialTimeout("tcp", addr, 30*time.Second)
	if err != nil {
		return out, err
	}
	defer conn.Close()
	conn.SetDeadline(time.Now().Add(120 * time.Second))
	var sb strings.Builder
	fmt.Fprintf(&sb, "PROPFIND %s HTTP/1.1\r\nHost: dav.test\r\nConnection: close\r\n", davx.EscapePath(q.Path))
	if q.CT != "" {
		fmt.Fprintf(&sb, "Content-Type: %s\r\n", q.CT)
	}
	if !q.NoDepth {
		fmt.Fprintf(&sb, "Depth: %s\r\n", q.Depth)
	}
	if q.Extra != "" {
		sb.WriteString(q.Extra + "\r\n")
	}
	switch q.Framing {
	case "wire-cl":
		fmt.Fprintf(&sb, "Content-Length: %d\r\n\r\n%s", len(q.Body), q.Body)
	case "wire-none":
		sb.WriteString("\r\n")
	case "wire-chunked":
		sb.WriteString("Transfer-Encoding: chunked\r\n\r\n")
		if q.Body != "" {
			fmt.Fprintf(&sb, "%x\r\n%s\r\n", len(q.Body), q.Body)
		}
		sb.WriteString("0\r\n\r\n")
	case "wire-chunked-1":
		sb.WriteString("Transfer-Encoding: chunked\r\n\r\n")
		for i := 0; i < len(q.Body); i++ {
			sb.WriteString("1\r\n")
			sb.WriteByte(q.Body[i])
			sb.WriteString("\r\n")
		}
		sb.WriteString("0\r\n\r\n")
	default:
		return out, fmt.Errorf("unknown wire framing %q", q.Framing)
	}
	if _, err := conn.Write([]byte(sb.String())); err != nil {
		return out, err
	}
	raw, err := ioutil.ReadAll(conn)
	if err != nil {
		return out, err
	}
	resp, err := http.ReadResponse(bufio.NewReader(bytes.NewReader(raw)), &http.Request{Method: "PROPFIND"})
	if err != nil {
		return out, fmt.Errorf("unreadable reply (%d bytes): %v", len(raw), err)
	}
	b, err := ioutil.ReadAll(resp.Body)
	if err != nil {
		return out, err
	}
	out.Status = resp.StatusCode
	out.Body = string(b)
	return out, nil
}

// sendMem hands a framed request to the handler in-process.
func (e *env) sendMem(q request) outcome {
	target := davx.EscapePath(q.Path)
	hr := httptest.NewRequest("PROPFIND", target, nil)
	if q.Framing == "" {
		if q.Body != "" {
			hr = httptest.NewRequest("PROPFIND", target, bytes.NewReader([]byte(q.Body)))
		}
	} else {
		frame(hr, q.Framing, q.Body)
	}
	if q.CT != "" {
		hr.Header.Set("Content-Type", q.CT)
	}
	if !q.NoDepth {
		hr.Header.Set("Depth", q.Depth)
	}
	if i := strings.Index(q.Extra, ": "); i > 0 {
		hr.Header.Set(q.Extra[:i], q.Extra[i+2:])
	}
	var out outcome
	rec := httptest.NewRecorder()
	var pv interface{}
	out.panicked, pv, out.stack = fw.Guard(func() { e.h.ServeHTTP(rec, hr) })
	if out.panicked {
		out.Panic = fmt.Sprint(pv)
	}
	out.Status = rec.Code
	out.Body = rec.Body.String()
	return out
}

// answerSig is a canonical form of an answer that does not depend on the
// order of responses, propstats or properties (the servers iterate maps).
func answerSig(o outcome) string {
	if o.Status != 207 {
		return fmt.Sprintf("%d", o.Status)
	}
	ms, err := davx.ReadMultiStatus([]byte(o.Body))
	if err != nil {
		return "207 unreadable: " + o.Body
	}
	var rs []string
	for _, r := range ms.Responses {
		var ps []string
		for _, st := range r.PropStats {
			for _, p := range st.Props {
				ps = append(ps, fmt.Sprintf("%d %s", st.Status.Code, p.Canon(xmltree.CmpOpts{})))
			}
		}
		sort.Strings(ps)
		code := 0
		if r.Status != nil {
			code = r.Status.Code
		}
		rs = append(rs, fmt.Sprintf("%q %d [%s]", r.Paths, code, strings.Join(ps, "; ")))
	}
	sort.Strings(rs)
	return "207 " + strings.Join(rs, "\n")
}

// framed re-sends q in the given framing and compares with the plain answer.
func (k *checker) framed(q request, base outcome, framing string) {
	c, e := k.c, k.e
	if !framingApplies(framing, q.Body) {
		return
	}
	fq := q
	fq.Framing = framing
	c.Journal(witness{World: e.W, Request: fq})
	var out outcome
	if isWire(framing) {
		var err error
		out, err = e.sendWire(fq)
		if err != nil {
			c.JournalDone()
			if base.panicked {
				return // the server drops the connection of a panicking handler
			}
			c.Inconclusive(fmt.Sprintf("C11: wire exchange failed (%s): %v", framing, err))
			return
		}
	} else {
		out = e.sendMem(fq)
	}
	c.JournalDone()
	ownVerdict := q.Form == "near-empty" || q.Form == "malformed"
	if !ownVerdict {
		c.Eval(1) // judge counts the others
	}
	srv := e.W.Server
	form := formClass(q.Form)
	emptiness := "body"
	if q.Body == "" {
		emptiness = "no body"
	}
	c.Observe("framing", fmt.Sprintf("%s %s, %s -> %d", framing, form, emptiness, out.Status), 1)
	c.Distinct(fmt.Sprintf("framing|%s|%s|%s|%s|%s", srv, e.res[q.Target].Level, form, framing, depthClass(q)))
	if out.panicked {
		if !base.panicked {
			k.report(key(srv, e.res[q.Target].Level, form, "framing "+framingClass(framing)+" | panic "+fw.PanicSite(out.stack)), "handler panicked: "+out.Panic, fq, out, out.stack)
		}
		return
	}
	if base.panicked {
		return
	}
	if ownVerdict {
		// The statement leaves a near-empty body open (4xx or allprop) and
		// demands 4xx of a malformed one: each framed answer is judged on its
		// own, not against the plain one.
		k.judge(fq, out)
		return
	}
	if a, b := answerSig(base), answerSig(out); a != b {
		what := fmt.Sprintf("the answer depends on the body framing: plain framing -> %d, framing %s -> %d", base.Status, framing, out.Status)
		if base.Status == out.Status {
			what = fmt.Sprintf("the answer depends on the body framing: plain framing and framing %s both -> %d but with different content", framing, out.Status)
		}
		k.report(key("all", "any", form, fmt.Sprintf("answer-depends-on-body-framing | %s | plain-%d-framed-%d", framingClass(framing), base.Status, out.Status)),
			what, fq, out, "plain framing answered: "+capBody(base).Body)
	}
}

// framings draws the framings one request is repeated in. Requests whose body
// holds no document (the ones section 9.1 is about) get every in-process
// framing and two wire framings; the others one now and then.
func (k *checker) framings(r *rand.Rand, q request, base outcome) {
	sensitive := q.Body == "" || q.Form == "near-empty" || (q.Form == "malformed" && len(q.Body) <= 3)
	if sensitive {
		for _, f := range memFramings {
			k.framed(q, base, f)
		}
		i := r.Intn(len(wireFramings))
		k.framed(q, base, wireFramings[i])
		k.framed(q, base, wireFramings[(i+1+r.Intn(len(wireFramings)-1))%len(wireFramings)])
		return
	}
	switch r.Intn(10) {
	case 0, 1:
		k.framed(q, base, memFramings[r.Intn(len(memFramings))])
	case 2:
		k.framed(q, base, wireFramings[r.Intn(len(wireFramings))])
	}
}
